(* Lemmas about Model/Placeholder.v: the scanner, strings.Replace hitting the match itself, the
   step of the loop, the denotational reading of the loop on tag ASTs, termination. *)
From Coq Require Import List NArith ZArith Bool Lia Arith.
From IocVerif Require Import Model.Placeholder.
Import ListNotations.

(* ---- list helpers ------------------------------------------------------------------ *)

Lemma firstn_len_app : forall (A : Type) (p x : list A), firstn (length p) (p ++ x) = p.
Proof. induction p as [|a p IH]; intros x; cbn [length firstn app]; [destruct x; reflexivity|]. now rewrite IH. Qed.

Lemma skipn_len_app : forall (A : Type) (p x : list A), skipn (length p) (p ++ x) = x.
Proof. induction p as [|a p IH]; intros x; cbn [length skipn app]; [reflexivity|]. apply IH. Qed.

Lemma skipn_add_app : forall (A : Type) (p x : list A) k, skipn (length p + k) (p ++ x) = skipn k x.
Proof. induction p as [|a p IH]; intros x k; cbn [length skipn app plus]; [reflexivity|]. apply IH. Qed.

Lemma forallb_app_true : forall (A : Type) (g : A -> bool) (a b : list A),
  forallb g (a ++ b) = true <-> forallb g a = true /\ forallb g b = true.
Proof. intros A g a b. rewrite forallb_app, andb_true_iff. tauto. Qed.

Lemma has_prefix_self : forall M R, has_prefix M (M ++ R) = true.
Proof. induction M as [|a M IH]; intros R; cbn [has_prefix app]; [reflexivity|]. now rewrite N.eqb_refl, IH. Qed.

Lemma has_prefix_split : forall M X, has_prefix M X = true -> exists R, X = M ++ R.
Proof.
  induction M as [|a M IH]; intros X H.
  - exists X. reflexivity.
  - destruct X as [|y X]; cbn [has_prefix] in H; [discriminate|].
    apply andb_true_iff in H. destruct H as [Ha Hr]. apply N.eqb_eq in Ha. subst y.
    destruct (IH _ Hr) as [R ->]. exists R. reflexivity.
Qed.

Lemma has_prefix_firstn : forall n (s : bytes), has_prefix (firstn n s) s = true.
Proof.
  induction n as [|n IH]; intros s; [destruct s; reflexivity|].
  destruct s as [|c s]; cbn [firstn has_prefix]; [reflexivity|]. now rewrite N.eqb_refl, IH.
Qed.

Lemma sub_index_eq : forall sub s,
  sub_index sub s = if has_prefix sub s then Some O
                    else match s with [] => None | _ :: r => option_map S (sub_index sub r) end.
Proof. intros sub s. destruct s; reflexivity. Qed.

Lemma rbrace_not_lbrace : N.eqb b_rbrace b_lbrace = false. Proof. reflexivity. Qed.
Lemma lbrace_not_rbrace : N.eqb b_lbrace b_rbrace = false. Proof. reflexivity. Qed.

Lemma brace_free_cons : forall a s, brace_free (a :: s) = true ->
  N.eqb a b_lbrace = false /\ N.eqb a b_rbrace = false /\ brace_free s = true.
Proof.
  intros a s H. unfold brace_free in H. cbn [forallb] in H. apply andb_true_iff in H. destruct H as [Ha Hs].
  unfold is_brace in Ha. apply negb_true_iff, orb_false_iff in Ha. destruct Ha. auto.
Qed.

Lemma brace_free_no_rbrace : forall s, brace_free s = true -> no_rbrace s = true.
Proof.
  induction s as [|a s IH]; intros H; [reflexivity|].
  apply brace_free_cons in H. destruct H as (_ & Hr & Hs).
  unfold no_rbrace. cbn [forallb]. rewrite Hr. cbn [negb andb]. apply IH, Hs.
Qed.

Lemma brace_free_no_lbrace : forall s, brace_free s = true -> no_lbrace s = true.
Proof.
  induction s as [|a s IH]; intros H; [reflexivity|].
  apply brace_free_cons in H. destruct H as (Hl & _ & Hs).
  unfold no_lbrace. cbn [forallb]. rewrite Hl. cbn [negb andb]. apply IH, Hs.
Qed.

Lemma brace_free_app : forall a b, brace_free (a ++ b) = true <-> brace_free a = true /\ brace_free b = true.
Proof. intros. apply forallb_app_true. Qed.

Lemma no_rbrace_app : forall a b, no_rbrace (a ++ b) = true <-> no_rbrace a = true /\ no_rbrace b = true.
Proof. intros. apply forallb_app_true. Qed.

(* ---- the scanner ------------------------------------------------------------------- *)

Lemma body_len_brace_free : forall b t, brace_free b = true -> body_len (b ++ b_rbrace :: t) = Some (length b).
Proof.
  induction b as [|a b IH]; intros t H.
  - cbn [app body_len length]. now rewrite N.eqb_refl.
  - apply brace_free_cons in H. destruct H as (Hl & Hr & Hb).
    cbn [app body_len length]. rewrite Hr, Hl, (IH t Hb). reflexivity.
Qed.

Lemma body_len_none_lbrace : forall p t, no_rbrace p = true -> body_len (p ++ b_lbrace :: t) = None.
Proof.
  induction p as [|a p IH]; intros t H.
  - cbn [app body_len]. rewrite lbrace_not_rbrace, N.eqb_refl. reflexivity.
  - unfold no_rbrace in H. cbn [forallb] in H. apply andb_true_iff in H. destruct H as [Ha Hp].
    apply negb_true_iff in Ha. cbn [app body_len]. rewrite Ha.
    destruct (N.eqb a b_lbrace); [reflexivity|]. now rewrite (IH t Hp).
Qed.

Lemma body_len_none : forall s, no_rbrace s = true -> body_len s = None.
Proof.
  induction s as [|a s IH]; intros H; [reflexivity|].
  unfold no_rbrace in H. cbn [forallb] in H. apply andb_true_iff in H. destruct H as [Ha Hp].
  apply negb_true_iff in Ha. cbn [body_len]. rewrite Ha.
  destruct (N.eqb a b_lbrace); [reflexivity|]. now rewrite (IH Hp).
Qed.

Lemma body_len_spec : forall s n, body_len s = Some n ->
  exists b t, s = b ++ b_rbrace :: t /\ length b = n /\ brace_free b = true.
Proof.
  induction s as [|a s IH]; intros n H; [discriminate|].
  cbn [body_len] in H. destruct (N.eqb a b_rbrace) eqn:Hr.
  - injection H as <-. apply N.eqb_eq in Hr. subst a. exists [], s. auto.
  - destruct (N.eqb a b_lbrace) eqn:Hl; [discriminate|].
    destruct (body_len s) as [m|] eqn:Hb; [|discriminate]. cbn [option_map] in H. injection H as <-.
    destruct (IH m eq_refl) as (b & t & -> & Hlen & Hbf).
    exists (a :: b), t. split; [reflexivity|]. split; [cbn [length]; now rewrite Hlen|].
    unfold brace_free, is_brace. cbn [forallb]. rewrite Hl, Hr. exact Hbf.
Qed.

Section Scan.
  Variable sig : N.
  Hypothesis sig_not_lbrace : N.eqb sig b_lbrace = false.
  Hypothesis sig_not_rbrace : N.eqb sig b_rbrace = false.

  (* the matched text *)
  Definition mtext (b : bytes) : bytes := sig :: b_lbrace :: b ++ [b_rbrace].

  Lemma mtext_length : forall b, length (mtext b) = (length b + 3)%nat.
  Proof. intros b. unfold mtext. cbn [length]. rewrite app_length. cbn [length]. lia. Qed.

  Lemma mtext_app : forall b t, mtext b ++ t = sig :: b_lbrace :: b ++ b_rbrace :: t.
  Proof. intros b t. unfold mtext. cbn [app]. now rewrite <- app_assoc. Qed.

  Lemma match_at_mtext : forall b t, brace_free b = true -> match_at sig (mtext b ++ t) = Some (length b + 3)%nat.
  Proof.
    intros b t H. rewrite mtext_app. cbn [match_at]. rewrite !N.eqb_refl. cbn [andb].
    now rewrite (body_len_brace_free b t H).
  Qed.

  Lemma match_at_spec : forall s n, match_at sig s = Some n ->
    exists b t, s = mtext b ++ t /\ n = (length b + 3)%nat /\ brace_free b = true.
  Proof.
    intros s n H. destruct s as [|a [|c r]]; try discriminate. cbn [match_at] in H.
    destruct (N.eqb a sig && N.eqb c b_lbrace) eqn:E; [|discriminate].
    apply andb_true_iff in E. destruct E as [Ea Ec]. apply N.eqb_eq in Ea, Ec. subst a c.
    destruct (body_len r) as [m|] eqn:Hb; [|discriminate]. cbn [option_map] in H. injection H as <-.
    destruct (body_len_spec _ _ Hb) as (b & t & -> & <- & Hbf).
    exists b, t. rewrite mtext_app. auto.
  Qed.

  (* no match starts inside a prefix that has no right brace, if a placeholder opens right after it *)
  Lemma match_at_prefix_none : forall q Y, no_rbrace q = true -> q <> [] ->
    match_at sig (q ++ sig :: b_lbrace :: Y) = None.
  Proof.
    intros q Y Hq Hne. destruct q as [|a [|c q]]; [congruence| |].
    - cbn [app match_at]. rewrite sig_not_lbrace, andb_false_r. reflexivity.
    - cbn [app match_at]. destruct (N.eqb a sig && N.eqb c b_lbrace); [|reflexivity].
      replace (q ++ sig :: b_lbrace :: Y) with ((q ++ [sig]) ++ b_lbrace :: Y) by now rewrite <- app_assoc.
      rewrite body_len_none_lbrace; [reflexivity|].
      apply no_rbrace_app. split.
      + unfold no_rbrace in Hq |- *. cbn [forallb] in Hq. apply andb_true_iff in Hq. destruct Hq as [_ Hq].
        apply andb_true_iff in Hq. apply Hq.
      + unfold no_rbrace. cbn [forallb]. now rewrite sig_not_rbrace.
  Qed.

  Lemma find_first_eq : forall s,
    find_first sig s = match match_at sig s with
                       | Some n => Some (O, n)
                       | None => match s with
                                 | [] => None
                                 | _ :: r => option_map (fun p : nat * nat => (S (fst p), snd p)) (find_first sig r)
                                 end
                       end.
  Proof. intros s. destruct s; reflexivity. Qed.

  Lemma find_first_skip : forall p Y n, no_rbrace p = true ->
    match_at sig (sig :: b_lbrace :: Y) = Some n ->
    find_first sig (p ++ sig :: b_lbrace :: Y) = Some (length p, n).
  Proof.
    induction p as [|a p IH]; intros Y n Hp Hm.
    - cbn [app length]. rewrite find_first_eq, Hm. reflexivity.
    - rewrite find_first_eq. rewrite (match_at_prefix_none (a :: p) Y Hp) by discriminate.
      cbn [app]. rewrite (IH Y n); [reflexivity| |exact Hm].
      unfold no_rbrace in Hp |- *. cbn [forallb] in Hp. apply andb_true_iff in Hp. apply Hp.
  Qed.

  Lemma find_first_at : forall p b t, no_rbrace p = true -> brace_free b = true ->
    find_first sig (p ++ mtext b ++ t) = Some (length p, (length b + 3)%nat).
  Proof.
    intros p b t Hp Hb. rewrite mtext_app. apply find_first_skip; [exact Hp|].
    rewrite <- mtext_app. apply match_at_mtext, Hb.
  Qed.

  Lemma find_first_none : forall s, no_rbrace s = true -> find_first sig s = None.
  Proof.
    induction s as [|a s IH]; intros H; [reflexivity|].
    rewrite find_first_eq.
    assert (Hm : match_at sig (a :: s) = None).
    { destruct s as [|c r]; [reflexivity|]. cbn [match_at].
      destruct (N.eqb a sig && N.eqb c b_lbrace); [|reflexivity].
      rewrite body_len_none; [reflexivity|].
      unfold no_rbrace in H |- *. cbn [forallb] in H. apply andb_true_iff in H. destruct H as [_ H].
      apply andb_true_iff in H. apply H. }
    rewrite Hm, IH; [reflexivity|].
    unfold no_rbrace in H |- *. cbn [forallb] in H. apply andb_true_iff in H. apply H.
  Qed.

  (* what FindString returns, for an arbitrary text: the leftmost innermost placeholder *)
  Lemma find_first_spec : forall s i n, find_first sig s = Some (i, n) ->
    exists p b t, s = p ++ mtext b ++ t /\ length p = i /\ n = (length b + 3)%nat /\ brace_free b = true
                  /\ (forall j, (j < i)%nat -> match_at sig (skipn j s) = None).
  Proof.
    induction s as [|a s IH]; intros i n H.
    - discriminate.
    - rewrite find_first_eq in H. destruct (match_at sig (a :: s)) as [m|] eqn:Hm.
      + injection H as <- <-. destruct (match_at_spec _ _ Hm) as (b & t & Hs & Hn & Hb).
        exists [], b, t. cbn [app length]. repeat split; auto. intros j Hj. lia.
      + destruct (find_first sig s) as [[i' n']|] eqn:Hf; [|discriminate].
        cbn [option_map fst snd] in H. injection H as <- <-.
        destruct (IH i' n' eq_refl) as (p & b & t & -> & Hlen & Hn & Hb & Hleft).
        exists (a :: p), b, t. cbn [app length]. repeat split; auto.
        intros j Hj. destruct j as [|j]; [exact Hm|]. cbn [skipn]. apply Hleft. lia.
  Qed.

  (* ---- strings.Replace(result, elr, r, 1) replaces the match itself ------------------ *)

  Lemma has_prefix_mtext_match : forall b X, brace_free b = true -> has_prefix (mtext b) X = true ->
    match_at sig X = Some (length b + 3)%nat.
  Proof.
    intros b X Hb H. destruct (has_prefix_split _ _ H) as [R ->]. apply match_at_mtext, Hb.
  Qed.

  (* the first occurrence of the matched text is the leftmost match: an earlier occurrence
     would itself be a match further left *)
  Lemma sub_index_leftmost : forall s i n, find_first sig s = Some (i, n) ->
    sub_index (firstn n (skipn i s)) s = Some i.
  Proof.
    induction s as [|a s IH]; intros i n H; [discriminate|].
    pose proof H as H0. rewrite find_first_eq in H. destruct (match_at sig (a :: s)) as [m|] eqn:Hm.
    - injection H as <- <-. cbn [skipn]. rewrite sub_index_eq, has_prefix_firstn. reflexivity.
    - destruct (find_first sig s) as [[i' n']|] eqn:Hf; [|discriminate].
      cbn [option_map fst snd] in H. injection H as <- <-. cbn [skipn].
      destruct (find_first_spec _ _ _ Hf) as (p & b & t & Hs & Hlen & Hn & Hb & _).
      assert (HM : firstn n' (skipn i' s) = mtext b).
      { subst s i' n'. rewrite skipn_len_app, <- mtext_length. apply firstn_len_app. }
      rewrite sub_index_eq. destruct (has_prefix (firstn n' (skipn i' s)) (a :: s)) eqn:Hp.
      + rewrite HM in Hp. rewrite (has_prefix_mtext_match _ _ Hb Hp) in Hm. discriminate.
      + rewrite (IH i' n' eq_refl). reflexivity.
  Qed.

  (* one iteration of the loop on an arbitrary text *)
  Lemma step_spec : forall s i n, find_first sig s = Some (i, n) ->
    exists p b t, s = p ++ mtext b ++ t /\ length p = i /\ n = (length b + 3)%nat /\ brace_free b = true
      /\ (forall j, (j < i)%nat -> match_at sig (skipn j s) = None)
      /\ firstn n (skipn i s) = mtext b
      /\ content (firstn n (skipn i s)) = b
      /\ forall r, replace_first s (firstn n (skipn i s)) r = p ++ r ++ t.
  Proof.
    intros s i n H. destruct (find_first_spec _ _ _ H) as (p & b & t & Hs & Hlen & Hn & Hb & Hleft).
    assert (HM : firstn n (skipn i s) = mtext b).
    { subst s i n. rewrite skipn_len_app, <- mtext_length. apply firstn_len_app. }
    exists p, b, t. repeat split; auto.
    - rewrite HM. unfold content, mtext. cbn [skipn]. apply removelast_last.
    - intros r. unfold replace_first. rewrite (sub_index_leftmost _ _ _ H). rewrite HM.
      subst s i. rewrite firstn_len_app, skipn_add_app, skipn_len_app. reflexivity.
  Qed.

  Section Loop.
    Variable f : bytes -> res bytes.

    Lemma rac_loop_eq : forall exh fuel s,
      rac_loop sig f exh fuel s =
      match find_first sig s with
      | None => Done s
      | Some (i, n) =>
        match fuel with
        | O => exh
        | S k =>
          match f (content (firstn n (skipn i s))) with
          | Ok r => rac_loop sig f exh k (replace_first s (firstn n (skipn i s)) r)
          | Err => Failed
          | Panic => Panicked
          end
        end
      end.
    Proof. intros exh fuel s. destruct fuel; reflexivity. Qed.

    Lemma rac_step_at : forall exh k p b t, no_rbrace p = true -> brace_free b = true ->
      rac_loop sig f exh (S k) (p ++ mtext b ++ t) =
      match f b with
      | Ok r => rac_loop sig f exh k (p ++ r ++ t)
      | Err => Failed
      | Panic => Panicked
      end.
    Proof.
      intros exh k p b t Hp Hb. rewrite rac_loop_eq.
      pose proof (find_first_at p b t Hp Hb) as Hf. rewrite Hf.
      assert (HM : firstn (length b + 3) (skipn (length p) (p ++ mtext b ++ t)) = mtext b).
      { rewrite skipn_len_app, <- mtext_length. apply firstn_len_app. }
      rewrite HM.
      assert (Hc : content (mtext b) = b).
      { unfold content, mtext. cbn [skipn]. apply removelast_last. }
      rewrite Hc. destruct (f b) as [r| |]; [|reflexivity|reflexivity].
      f_equal. unfold replace_first.
      pose proof (sub_index_leftmost _ _ _ Hf) as Hi. rewrite HM in Hi. rewrite Hi.
      rewrite firstn_len_app, skipn_add_app, skipn_len_app. reflexivity.
    Qed.

    Lemma rac_done : forall exh n s, no_rbrace s = true -> rac_loop sig f exh n s = Done s.
    Proof. intros exh n s H. rewrite rac_loop_eq, (find_first_none s H). reflexivity. Qed.

    (* ---- the denotational reading ---------------------------------------------------- *)

    Lemma subst_brace_free : forall t u, wf t = true -> clean f t = true -> subst f t = Ok u -> brace_free u = true.
    Proof.
      intros t u Hw Hc Hs. destruct t as [s|b].
      - cbn [subst] in Hs. injection Hs as <-. exact Hw.
      - cbn [subst] in Hs. cbn [clean] in Hc. apply andb_true_iff in Hc. destruct Hc as [_ Hc].
        destruct (cat_res (map (subst f) b)) as [body| |]; cbn [rbind] in Hs; try discriminate.
        rewrite Hs in Hc. exact Hc.
    Qed.

    Lemma subst_all_brace_free : forall l u, forallb wf l = true -> forallb (clean f) l = true ->
      subst_all f l = Ok u -> brace_free u = true.
    Proof.
      induction l as [|x l IH]; intros u Hw Hc Hs.
      - cbn in Hs. injection Hs as <-. reflexivity.
      - cbn [forallb] in Hw, Hc. apply andb_true_iff in Hw, Hc. destruct Hw as [Hwx Hwl], Hc as [Hcx Hcl].
        unfold subst_all in Hs. cbn [map cat_res] in Hs.
        destruct (subst f x) as [a| |] eqn:Hx; cbn [rbind] in Hs; try discriminate.
        fold (subst_all f l) in Hs.
        destruct (subst_all f l) as [c| |] eqn:Hl; cbn [rbind] in Hs; try discriminate.
        injection Hs as <-. apply brace_free_app. split.
        + eapply subst_brace_free; eauto.
        + apply IH; auto.
    Qed.

    Definition cont (exh : outcome) (n : nat) (p tl : bytes) (r : res bytes) : outcome :=
      match r with
      | Ok u => rac_loop sig f exh n (p ++ u ++ tl)
      | Err => Failed
      | Panic => Panicked
      end.

    Definition Gp (t : tpart) : Prop := forall p tl n exh,
      no_rbrace p = true -> wf t = true -> clean f t = true ->
      rac_loop sig f exh (ph_count t + n) (p ++ render sig t ++ tl) = cont exh n p tl (subst f t).

    Definition Gl (l : list tpart) : Prop := forall p tl n exh,
      no_rbrace p = true -> forallb wf l = true -> forallb (clean f) l = true ->
      rac_loop sig f exh (ph_count_all l + n) (p ++ render_all sig l ++ tl) = cont exh n p tl (subst_all f l).

    Lemma ph_count_all_cons : forall x l, ph_count_all (x :: l) = (ph_count x + ph_count_all l)%nat.
    Proof. reflexivity. Qed.
    Lemma render_all_cons : forall x l, render_all sig (x :: l) = render sig x ++ render_all sig l.
    Proof. reflexivity. Qed.
    Lemma subst_all_cons : forall x l,
      subst_all f (x :: l) = rbind (subst f x) (fun a => rbind (subst_all f l) (fun c => Ok (a ++ c))).
    Proof. reflexivity. Qed.
    Lemma ph_count_Ph : forall b, ph_count (Ph b) = S (ph_count_all b).
    Proof. reflexivity. Qed.
    Lemma render_Ph : forall b, render sig (Ph b) = sig :: b_lbrace :: render_all sig b ++ [b_rbrace].
    Proof. reflexivity. Qed.
    Lemma subst_Ph : forall b, subst f (Ph b) = rbind (subst_all f b) f.
    Proof. reflexivity. Qed.

    Lemma Gl_of_Forall : forall l, Forall Gp l -> Gl l.
    Proof.
      induction 1 as [|x l Hx _ IH]; intros p tl n exh Hp Hw Hc.
      - reflexivity.
      - cbn [forallb] in Hw, Hc. apply andb_true_iff in Hw, Hc. destruct Hw as [Hwx Hwl], Hc as [Hcx Hcl].
        rewrite ph_count_all_cons, render_all_cons, subst_all_cons.
        rewrite <- Nat.add_assoc, <- app_assoc.
        rewrite (Hx p (render_all sig l ++ tl) (ph_count_all l + n)%nat exh Hp Hwx Hcx).
        destruct (subst f x) as [a| |] eqn:Ex; cbn [cont rbind]; [|reflexivity|reflexivity].
        assert (Ha : brace_free a = true) by (eapply subst_brace_free; eauto).
        rewrite app_assoc.
        rewrite (IH (p ++ a) tl n exh); [|apply no_rbrace_app; split; [exact Hp|apply brace_free_no_rbrace, Ha]|exact Hwl|exact Hcl].
        destruct (subst_all f l) as [c| |]; cbn [cont rbind]; [|reflexivity|reflexivity].
        now rewrite <- !app_assoc.
    Qed.

    Fixpoint tpart_ind2 (P : tpart -> Prop) (HL : forall s, P (Lit s))
      (HP : forall b, Forall P b -> P (Ph b)) (t : tpart) : P t :=
      match t with
      | Lit s => HL s
      | Ph b => HP b ((fix go (l : list tpart) : Forall P l :=
                         match l with
                         | [] => Forall_nil P
                         | x :: r => Forall_cons x (tpart_ind2 P HL HP x) (go r)
                         end) b)
      end.

    Lemma Gp_all : forall t, Gp t.
    Proof.
      induction t as [s|b IHb] using tpart_ind2; intros p tl n exh Hp Hw Hc.
      - reflexivity.
      - pose proof (Gl_of_Forall b IHb) as HG.
        cbn [wf] in Hw. pose proof Hc as Hc0. cbn [clean] in Hc. apply andb_true_iff in Hc. destruct Hc as [Hcb _].
        rewrite ph_count_Ph, render_Ph, subst_Ph.
        replace (S (ph_count_all b) + n)%nat with (ph_count_all b + S n)%nat by lia.
        replace (p ++ (sig :: b_lbrace :: render_all sig b ++ [b_rbrace]) ++ tl)
          with ((p ++ [sig; b_lbrace]) ++ render_all sig b ++ b_rbrace :: tl)
          by (rewrite <- !app_assoc; cbn [app]; now rewrite <- app_assoc).
        rewrite (HG (p ++ [sig; b_lbrace]) (b_rbrace :: tl) (S n) exh); [| |exact Hw|exact Hcb].
        + destruct (subst_all f b) as [u| |] eqn:Eu; cbn [cont rbind]; [|reflexivity|reflexivity].
          assert (Hu : brace_free u = true) by (eapply subst_all_brace_free; eauto).
          replace ((p ++ [sig; b_lbrace]) ++ u ++ b_rbrace :: tl) with (p ++ mtext u ++ tl)
            by (unfold mtext; rewrite <- !app_assoc; cbn [app]; now rewrite <- app_assoc).
          rewrite (rac_step_at exh n p u tl Hp Hu). destruct (f u); reflexivity.
        + apply no_rbrace_app. split; [exact Hp|].
          unfold no_rbrace. cbn [forallb]. now rewrite sig_not_rbrace, lbrace_not_rbrace.
    Qed.

    Theorem denotational : forall l n exh, forallb wf l = true -> forallb (clean f) l = true ->
      rac_loop sig f exh (ph_count_all l + n) (render_all sig l) = of_res (subst_all f l).
    Proof.
      intros l n exh Hw Hc.
      assert (HG : Gl l) by (apply Gl_of_Forall, Forall_forall; intros; apply Gp_all).
      pose proof (HG [] [] n exh eq_refl Hw Hc) as H. cbn [app] in H. rewrite app_nil_r in H. rewrite H.
      destruct (subst_all f l) as [u| |] eqn:Eu; cbn [cont of_res]; [|reflexivity|reflexivity].
      rewrite app_nil_r. apply rac_done, brace_free_no_rbrace. eapply subst_all_brace_free; eauto.
    Qed.

    (* a resolver that never returns a brace makes every tag clean *)
    Lemma clean_all : (forall x r, f x = Ok r -> brace_free r = true) -> forall t, clean f t = true.
    Proof.
      intros Hf. induction t as [s|b IHb] using tpart_ind2; [reflexivity|].
      cbn [clean]. apply andb_true_iff. split.
      - apply forallb_forall. rewrite Forall_forall in IHb. exact IHb.
      - destruct (cat_res (map (subst f) b)) as [body| |]; try reflexivity.
        destruct (f body) as [r| |] eqn:E; try reflexivity. apply (Hf _ _ E).
    Qed.

    (* ---- termination ----------------------------------------------------------------- *)

    (* Exhausted and OutOfFuel are produced by nothing but the exhaustion branch *)
    Lemma rac_sentinel : forall o, o = Exhausted \/ o = OutOfFuel ->
      forall exh n s, exh <> o -> rac_loop sig f exh n s <> o.
    Proof.
      intros o Ho exh n. induction n as [|n IH]; intros s He; rewrite rac_loop_eq.
      - destruct (find_first sig s) as [[i m]|]; [exact He|destruct Ho; subst o; discriminate].
      - destruct (find_first sig s) as [[i m]|]; [|destruct Ho; subst o; discriminate].
        destruct (f _); [apply IH, He|destruct Ho; subst o; discriminate|destruct Ho; subst o; discriminate].
    Qed.

    Lemma rac_not_fuel : forall exh n s, exh <> OutOfFuel -> rac_loop sig f exh n s <> OutOfFuel.
    Proof. intros. apply rac_sentinel; auto. Qed.

    (* the byte c is counted; every matched text contains it, no replacement does *)
    Definition cnt (c : N) (s : bytes) : nat := count_byte c s.

    Lemma cnt_app : forall c a b, cnt c (a ++ b) = (cnt c a + cnt c b)%nat.
    Proof. intros. unfold cnt, count_byte. now rewrite filter_app, app_length. Qed.

    Lemma natural_gen : forall c,
      (forall b, (1 <= cnt c (mtext b))%nat) ->
      (forall x r, f x = Ok r -> cnt c r = O) ->
      forall n s e1 e2, (cnt c s <= n)%nat -> rac_loop sig f e1 n s = rac_loop sig f e2 n s.
    Proof.
      intros c HM Hf. induction n as [|n IH]; intros s e1 e2 Hle; rewrite (rac_loop_eq e1), (rac_loop_eq e2).
      - destruct (find_first sig s) as [[i m]|] eqn:E; [|reflexivity].
        destruct (step_spec _ _ _ E) as (p & b & t & -> & _).
        rewrite !cnt_app in Hle. specialize (HM b). lia.
      - destruct (find_first sig s) as [[i m]|] eqn:E; [|reflexivity].
        destruct (step_spec _ _ _ E) as (p & b & t & Hs & _ & _ & _ & _ & _ & Hc & Hr).
        rewrite Hc. destruct (f b) as [r| |] eqn:Efb; [|reflexivity|reflexivity].
        rewrite Hr. apply IH. subst s. rewrite !cnt_app in Hle |- *.
        rewrite (Hf _ _ Efb). specialize (HM b). lia.
    Qed.

    Lemma cnt_zero_forallb : forall c s, forallb (fun x => negb (N.eqb x c)) s = true -> cnt c s = O.
    Proof.
      intros c. induction s as [|a s IH]; intros H; [reflexivity|].
      cbn [forallb] in H. apply andb_true_iff in H. destruct H as [Ha Hs]. apply negb_true_iff in Ha.
      unfold cnt, count_byte. cbn [filter]. rewrite N.eqb_sym, Ha. apply IH, Hs.
    Qed.

    Lemma cnt_mtext_lbrace : forall b, (1 <= cnt b_lbrace (mtext b))%nat.
    Proof.
      intros b. unfold mtext, cnt, count_byte. cbn [filter]. rewrite N.eqb_sym, sig_not_lbrace, N.eqb_refl.
      cbn [length]. lia.
    Qed.

    Lemma cnt_mtext_sig : forall b, (1 <= cnt sig (mtext b))%nat.
    Proof. intros b. unfold mtext, cnt, count_byte. cbn [filter]. rewrite N.eqb_refl. cbn [length]. lia. Qed.

  End Loop.
End Scan.

(* ---- the ${key:default} resolver ------------------------------------------------------ *)
From IocVerif Require Import Proofs.StrconvProofs.

(* what is spliced for a value: nothing for nil, otherwise its text in the variant [fx] of the callback *)
Definition render_value (fx : bool) (v : cval) : res bytes :=
  match v with VNull => Ok [] | _ => format_cfg fx v end.

Lemma format_cfg_unrepaired : forall v, format_cfg false v = format_any v.
Proof. intros v. destruct v; reflexivity. Qed.

(* the repaired callback differs from FormatAny on float64 values only *)
Lemma format_cfg_not_float : forall fx v, (forall m e, v <> VDec m e) -> format_cfg fx v = format_any v.
Proof. intros fx v H. destruct v; try reflexivity. exfalso. exact (H m e eq_refl). Qed.

Lemma format_cfg_float : forall m e, format_cfg true (VDec m e) = Ok (fmt_float_f m e).
Proof. reflexivity. Qed.

(* the unrepaired callback (fx = false) splices FormatAny's text for every value *)
Lemma resolve_unrepaired : forall cfg exp,
  resolve false cfg exp =
  (let (key, dflt) := split_first b_colon exp in
   let v := cfg key in
   rbind (if absent v then
            match dflt with
            | Some (c :: d) => parse_any (c :: d)
            | _ => Ok v
            end
          else Ok v)
         (fun v' => match v' with VNull => Ok [] | _ => format_any v' end)).
Proof.
  intros cfg exp. unfold resolve. destruct (split_first b_colon exp) as [key dflt]. cbv zeta.
  match goal with |- rbind ?x _ = rbind ?x _ => destruct x as [v'| |]; try reflexivity end.
  cbn [rbind]. destruct v'; reflexivity.
Qed.

(* key present (not nil / empty map / empty list): the configured value, default or not *)
Lemma resolve_present : forall fx cfg key rest,
  byte_index b_colon key = None -> rest = [] \/ (exists d, rest = b_colon :: d) ->
  absent (cfg key) = false ->
  resolve fx cfg (key ++ rest) = format_cfg fx (cfg key).
Proof.
  intros fx cfg key rest Hk Hrest Habs. unfold resolve.
  assert (Hsp : exists o, split_first b_colon (key ++ rest) = (key, o)).
  { destruct Hrest as [-> | [d ->]].
    - rewrite app_nil_r. eexists. apply split_first_none, Hk.
    - eexists. apply split_first_app, Hk. }
  destruct Hsp as [o ->]. rewrite Habs. cbn [rbind].
  destruct (cfg key); try reflexivity. discriminate.
Qed.

(* key absent and a non-empty default: the default, through ParseAny and the callback's formatting *)
Lemma resolve_default : forall fx cfg key d,
  byte_index b_colon key = None -> d <> [] -> absent (cfg key) = true ->
  resolve fx cfg (key ++ b_colon :: d) = rbind (parse_any d) (render_value fx).
Proof.
  intros fx cfg key d Hk Hd Habs. unfold resolve. rewrite (split_first_app _ _ _ Hk), Habs.
  destruct d as [|c d]; [congruence|]. reflexivity.
Qed.

(* ... which is the default text itself when that text is plain *)
Lemma resolve_default_plain : forall fx cfg key d,
  byte_index b_colon key = None -> d <> [] -> absent (cfg key) = true -> plain d = true ->
  resolve fx cfg (key ++ b_colon :: d) = Ok d.
Proof.
  intros fx cfg key d Hk Hd Habs Hp. rewrite (resolve_default fx cfg key d Hk Hd Habs), (plain_parse d Hp). reflexivity.
Qed.

(* key absent, no default or an empty one: nothing for nil, the (empty) value otherwise *)
Lemma resolve_nodefault : forall fx cfg key rest,
  byte_index b_colon key = None -> rest = [] \/ rest = [b_colon] -> absent (cfg key) = true ->
  resolve fx cfg (key ++ rest) = render_value fx (cfg key).
Proof.
  intros fx cfg key rest Hk Hrest Habs. unfold resolve. destruct Hrest as [-> | ->].
  - rewrite app_nil_r, (split_first_none _ _ Hk), Habs. reflexivity.
  - rewrite (split_first_app _ _ _ Hk), Habs. reflexivity.
Qed.

(* a present float64: FormatAny's %v text before the repair, plain digits after it *)
Lemma resolve_float : forall fx cfg key m e,
  byte_index b_colon key = None -> cfg key = VDec m e ->
  resolve fx cfg key = Ok (if fx then fmt_float_f m e else fmt_float_v m e).
Proof.
  intros fx cfg key m e Hk Hv.
  rewrite <- (app_nil_r key), (resolve_present fx cfg key [] Hk (or_introl eq_refl)); rewrite Hv; [|reflexivity].
  destruct fx; reflexivity.
Qed.
