(* Lemmas about Model/Scan.v (C11). *)
From Coq Require Import List String Bool Lia.
From IocVerif Require Import Model.Scan.
Import ListNotations.
Local Open Scope list_scope.

(* ---------------------------------------------------------------------------------------- *)
(* hand-written induction principle for the nested inductive [shape] *)

Section shape_induction.
  Variable P : shape -> Prop.
  Hypothesis Hleaf : forall n e tags k imp, P (Leaf n e tags k imp).
  Hypothesis Hsub : forall n e anon byv tags imp fs,
      Forall P fs -> P (Sub n e anon byv tags imp fs).

  Fixpoint shape_ind' (s : shape) : P s :=
    match s with
    | Leaf n e tags k imp => Hleaf n e tags k imp
    | Sub n e anon byv tags imp fs =>
        Hsub n e anon byv tags imp fs
             ((fix go (l : list shape) : Forall P l :=
                 match l with
                 | [] => Forall_nil _
                 | x :: r => Forall_cons x (shape_ind' x) (go r)
                 end) fs)
    end.
End shape_induction.

(* ---------------------------------------------------------------------------------------- *)
(* the nested fixes are flat_maps *)

Lemma visit_sub pre fl n e anon byv tags imp fs :
  visit pre fl (Sub n e anon byv tags imp fs) =
  if enterable anon byv tags
  then flat_map (visit (pre ++ [n]) (child_flag fl e anon)) fs
  else [mkSF (pre ++ [n]) n tags (if byv then KStruct else KPtr) (can_set (child_flag fl e anon)) imp].
Proof.
  cbn [visit]. destruct (enterable anon byv tags); [|reflexivity].
  induction fs as [|x r IH]; [reflexivity|]. cbn [flat_map]. rewrite <- IH. reflexivity.
Qed.

Lemma flatten_sub n e anon byv tags imp fs :
  flatten (Sub n e anon byv tags imp fs) =
  if enterable anon byv tags then flat_map flatten fs else [Sub n e anon byv tags imp fs].
Proof.
  cbn [flatten]. destruct (enterable anon byv tags); [|reflexivity].
  induction fs as [|x r IH]; [reflexivity|]. cbn [flat_map]. rewrite <- IH. reflexivity.
Qed.

Lemma flat_map_flat_map {A B C} (f : B -> list C) (g : A -> list B) l :
  flat_map f (flat_map g l) = flat_map (fun x => flat_map f (g x)) l.
Proof.
  induction l as [|x r IH]; [reflexivity|]. cbn [flat_map]. rewrite flat_map_app, IH. reflexivity.
Qed.

Lemma flat_map_ext_in_map {A B C} (h : B -> C) (f g : A -> list B) l :
  Forall (fun x => map h (f x) = map h (g x)) l ->
  map h (flat_map f l) = map h (flat_map g l).
Proof.
  induction 1 as [|x r Hx _ IH]; [reflexivity|]. cbn [flat_map]. rewrite !map_app, Hx, IH. reflexivity.
Qed.

(* ---------------------------------------------------------------------------------------- *)
(* CanSet of a visited field: not sticky, and exported *)

Lemma can_set_child fl e anon : can_set (child_flag fl e anon) = negb (sticky fl) && e.
Proof. destruct fl as [s em]; destruct s, e, anon; reflexivity. Qed.

Lemma sticky_child_anon fl e : sticky (child_flag fl e true) = sticky fl.
Proof. destruct fl as [s em]; destruct s, e; reflexivity. Qed.

(* ---------------------------------------------------------------------------------------- *)
(* C11 flatten: a shape and its flattening are scanned to the same fields *)

Lemma visit_flatten s : forall pre pre' fl fl',
  sticky fl = sticky fl' ->
  map sf_obs (visit pre fl s) = map sf_obs (flat_map (visit pre' fl') (flatten s)).
Proof.
  induction s as [n e tags k imp|n e anon byv tags imp fs IH] using shape_ind'; intros pre pre' fl fl' Hs.
  - cbn [flatten flat_map visit map app sf_obs sf_name sf_tags sf_kind sf_settable sf_implicit].
    rewrite !can_set_child, Hs. reflexivity.
  - rewrite flatten_sub, visit_sub. destruct (enterable anon byv tags) eqn:En.
    + rewrite flat_map_flat_map. apply flat_map_ext_in_map.
      apply andb_true_iff in En. destruct En as [En _]. apply andb_true_iff in En. destruct En as [-> _].
      eapply Forall_impl; [|exact IH]. intros x Hx. apply Hx.
      rewrite sticky_child_anon. exact Hs.
    + cbn [flat_map app]. rewrite visit_sub, En.
      cbn [map sf_obs sf_name sf_tags sf_kind sf_settable sf_implicit].
      rewrite !can_set_child, Hs. reflexivity.
Qed.

Lemma cons_eq_inv {A} (x y : A) l l' : x :: l = y :: l' -> x = y /\ l = l'.
Proof. intros H. split; [exact (f_equal (hd x) H)|exact (f_equal (@tl A) H)]. Qed.

Lemma sf_obs_inv a b : sf_obs a = sf_obs b ->
  sf_name a = sf_name b /\ sf_tags a = sf_tags b /\ sf_kind a = sf_kind b /\
  sf_settable a = sf_settable b /\ sf_implicit a = sf_implicit b.
Proof. unfold sf_obs. intros H. inversion H. repeat split; assumption. Qed.

Lemma map_obs_filter l1 : forall l2,
  map sf_obs l1 = map sf_obs l2 ->
  map sf_obs (filter sf_settable l1) = map sf_obs (filter sf_settable l2).
Proof.
  induction l1 as [|a r IH]; intros [|b r'] H; try discriminate; [reflexivity|].
  cbn [map] in H. apply cons_eq_inv in H. destruct H as [Hab Hr]. cbn [filter].
  assert (Hs : sf_settable a = sf_settable b) by (apply sf_obs_inv in Hab; tauto).
  rewrite Hs. destruct (sf_settable b); cbn [map]; [rewrite Hab; f_equal|]; apply IH, Hr.
Qed.

Lemma scan_flatten c :
  map sf_obs (scan_fields c) = map sf_obs (scan_fields (flatten_all c)).
Proof.
  unfold scan_fields. apply map_obs_filter. unfold visit_all, flatten_all.
  rewrite flat_map_flat_map. apply flat_map_ext_in_map.
  apply Forall_forall. intros s _. apply visit_flatten. reflexivity.
Qed.

(* the flattening contains no struct that would be entered *)
Lemma flatten_flat s : Forall (fun x => is_entered x = false) (flatten s).
Proof.
  induction s as [n e tags k imp|n e anon byv tags imp fs IH] using shape_ind'.
  - constructor; [reflexivity|constructor].
  - rewrite flatten_sub. destruct (enterable anon byv tags) eqn:En.
    + induction IH as [|x r Hx _ IHr]; [constructor|]. cbn [flat_map]. apply Forall_app. split; assumption.
    + constructor; [exact En|constructor].
Qed.

Lemma flatten_all_flat c : Forall (fun x => is_entered x = false) (flatten_all c).
Proof.
  unfold flatten_all. induction c as [|s r IH]; [constructor|]. cbn [flat_map].
  apply Forall_app. split; [apply flatten_flat|exact IH].
Qed.

Lemma flatten_not_entered s : is_entered s = false -> flatten s = [s].
Proof.
  destruct s as [|n e anon byv tags imp fs]; [reflexivity|]. cbn [is_entered]. intros H.
  rewrite flatten_sub, H. reflexivity.
Qed.

Lemma flatten_all_idem c : flatten_all (flatten_all c) = flatten_all c.
Proof.
  pose proof (flatten_all_flat c) as H. induction H as [|s r Hs _ IH]; [reflexivity|].
  unfold flatten_all in *. cbn [flat_map]. rewrite flatten_not_entered by exact Hs. rewrite IH. reflexivity.
Qed.

(* ---------------------------------------------------------------------------------------- *)
(* tag processors see the same properties on a shape and on its flattening *)

Lemma extract_carries tp f :
  extract tp f =
  match carries tp (sf_tags f) (sf_implicit f) with
  | Some (v, args) => Some (mkProp (sf_path f) (sf_name f) (tp_tag tp) v args)
  | None => None
  end.
Proof.
  unfold extract, carries.
  destruct (if String.eqb (tp_tag tp) "" then None else find_tag (tp_tag tp) (sf_tags f)); [reflexivity|].
  destruct (tp_handler tp); [reflexivity| |].
  - destruct (sf_implicit f); reflexivity.
  - destruct (find_tag "prop" (sf_tags f)); reflexivity.
Qed.

Lemma default_required_obs tp p :
  pr_obs (default_required tp p) = (pr_field p, pr_tag p, pr_val p, with_required tp (pr_args p)).
Proof.
  unfold default_required, with_required, pr_obs.
  destruct (tp_required tp && negb (has_arg "Required" (pr_args p))); reflexivity.
Qed.

Lemma properties_obs_ext tp l1 : forall l2,
  map sf_obs l1 = map sf_obs l2 ->
  map pr_obs (map (default_required tp) (filter_map (extract tp) l1)) =
  map pr_obs (map (default_required tp) (filter_map (extract tp) l2)).
Proof.
  induction l1 as [|a r IH]; intros [|b r'] H; try discriminate; [reflexivity|].
  cbn [map] in H. apply cons_eq_inv in H. destruct H as [Hab Hr]. cbn [filter_map].
  rewrite !extract_carries.
  apply sf_obs_inv in Hab. destruct Hab as (Hn & Ht & Hk & Hs & Hi). rewrite Ht, Hi, Hn.
  destruct (carries tp (sf_tags b) (sf_implicit b)) as [[v args]|].
  - cbn [map]. rewrite !default_required_obs. cbn [pr_field pr_tag pr_val pr_args].
    f_equal. apply IH, Hr.
  - apply IH, Hr.
Qed.

Lemma properties_flatten tp c :
  map pr_obs (properties_of tp c) = map pr_obs (properties_of tp (flatten_all c)).
Proof. unfold properties_of. apply properties_obs_ext, scan_flatten. Qed.

(* ---------------------------------------------------------------------------------------- *)
(* exact characterisation of Meta.Fields *)

Definition field_of (p : path) (s : shape) : sfield :=
  mkSF p (shape_name s) (shape_tags s) (shape_kind s) (shape_exported s) (shape_implicit s).

Lemma reaches_single c p s : reaches c p s <-> exists x, In x c /\ reaches [x] p s.
Proof.
  split.
  - intros H. destruct H as [c s Hin|c n e imp fs p s Hin Hr].
    + exists s. split; [exact Hin|]. apply reach_here. left. reflexivity.
    + exists (Sub n e true true [] imp fs). split; [exact Hin|].
      eapply reach_in; [left; reflexivity|exact Hr].
  - intros (x & Hin & H). inversion H as [c' s' Hin'|c' n e imp fs p' s' Hin' Hr]; subst.
    + destruct Hin' as [->|[]]. apply reach_here, Hin.
    + destruct Hin' as [->|[]]. eapply reach_in; [exact Hin|exact Hr].
Qed.

Lemma reach_self s : reaches [s] [shape_name s] s.
Proof. apply reach_here. left. reflexivity. Qed.

Lemma visit_spec s : forall pre fl f,
  sticky fl = false ->
  (In f (visit pre fl s) <->
   exists p s', reaches [s] p s' /\ is_entered s' = false /\ f = field_of (pre ++ p) s').
Proof.
  induction s as [n e tags k imp|n e anon byv tags imp fs IH] using shape_ind'; intros pre fl f Hst.
  - cbn [visit]. rewrite can_set_child, Hst. cbn [negb andb]. split.
    + intros [<-|[]]. exists [n], (Leaf n e tags k imp).
      split; [exact (reach_self (Leaf n e tags k imp))|]. split; reflexivity.
    + intros (p & s' & Hr & _ & ->). left.
      inversion Hr as [c' s2 Hin|c' n2 e2 imp2 fs2 p2 s2 Hin Hr2]; subst.
      * destruct Hin as [<-|[]]. reflexivity.
      * destruct Hin as [Hin|[]]. discriminate Hin.
  - rewrite visit_sub. destruct (enterable anon byv tags) eqn:En.
    + assert (anon = true /\ byv = true /\ tags = []) as (-> & -> & ->).
      { unfold enterable in En. destruct anon, byv, tags; try discriminate. repeat split. }
      rewrite in_flat_map. split.
      * intros (x & Hin & Hf).
        rewrite Forall_forall in IH. apply (IH x Hin) in Hf; [|rewrite sticky_child_anon; exact Hst].
        destruct Hf as (p & s' & Hr & Hne & ->).
        exists (n :: p), s'. split; [|split; [exact Hne|]].
        -- eapply reach_in; [left; reflexivity|]. apply reaches_single. exists x. split; assumption.
        -- rewrite <- app_assoc. reflexivity.
      * intros (p & s' & Hr & Hne & ->).
        inversion Hr as [c' s2 Hin|c' n2 e2 imp2 fs2 p2 s2 Hin Hr2]; subst.
        -- destruct Hin as [<-|[]]. cbn [is_entered enterable] in Hne. discriminate Hne.
        -- destruct Hin as [Hin|[]]. injection Hin as <- <- <- <-.
           apply reaches_single in Hr2. destruct Hr2 as (x & Hin & Hrx).
           exists x. split; [exact Hin|].
           rewrite Forall_forall in IH. apply (IH x Hin); [rewrite sticky_child_anon; exact Hst|].
           exists p2, s'. split; [exact Hrx|]. split; [exact Hne|].
           rewrite <- app_assoc. reflexivity.
    + rewrite can_set_child, Hst. cbn [negb andb]. split.
      * intros [<-|[]]. exists [n], (Sub n e anon byv tags imp fs).
        split; [exact (reach_self (Sub n e anon byv tags imp fs))|].
        split; [exact En|reflexivity].
      * intros (p & s' & Hr & Hne & ->). left.
        inversion Hr as [c' s2 Hin|c' n2 e2 imp2 fs2 p2 s2 Hin Hr2]; subst.
        -- destruct Hin as [<-|[]]. reflexivity.
        -- destruct Hin as [Hin|[]]. inversion Hin; subst. discriminate En.
Qed.

Lemma visit_all_spec c pre fl f :
  sticky fl = false ->
  (In f (visit_all pre fl c) <->
   exists p s, reaches c p s /\ is_entered s = false /\ f = field_of (pre ++ p) s).
Proof.
  intros Hst. unfold visit_all. rewrite in_flat_map. split.
  - intros (x & Hin & Hf). apply visit_spec in Hf; [|exact Hst].
    destruct Hf as (p & s & Hr & Hne & ->). exists p, s. split; [|split; [exact Hne|reflexivity]].
    apply reaches_single. exists x. split; assumption.
  - intros (p & s & Hr & Hne & ->). apply reaches_single in Hr. destruct Hr as (x & Hin & Hr).
    exists x. split; [exact Hin|]. apply visit_spec; [exact Hst|]. exists p, s. repeat split; assumption.
Qed.

Lemma scan_exact c f :
  In f (scan_fields c) <->
  exists p s, reaches c p s /\ is_entered s = false /\ shape_exported s = true /\ f = field_of p s.
Proof.
  unfold scan_fields. rewrite filter_In, visit_all_spec by reflexivity. cbn [app]. split.
  - intros ((p & s & Hr & Hne & ->) & Hset). exists p, s. repeat split; assumption.
  - intros (p & s & Hr & Hne & He & ->). split; [|exact He]. exists p, s. repeat split; assumption.
Qed.

(* ---------------------------------------------------------------------------------------- *)
(* a tag processor gets exactly the recorded fields that carry its tag *)

Lemma in_filter_map {A B} (f : A -> option B) l y :
  In y (filter_map f l) <-> exists x, In x l /\ f x = Some y.
Proof.
  induction l as [|a r IH]; cbn [filter_map].
  - split; [intros []|intros (x & [] & _)].
  - destruct (f a) as [b|] eqn:E.
    + cbn [In]. rewrite IH. split.
      * intros [<-|(x & Hin & Hx)]; [exists a; split; [left; reflexivity|exact E]|exists x; split; [right|]; assumption].
      * intros (x & [<-|Hin] & Hx); [left; congruence|right; exists x; split; assumption].
    + rewrite IH. split.
      * intros (x & Hin & Hx). exists x. split; [right|]; assumption.
      * intros (x & [<-|Hin] & Hx); [congruence|exists x; split; assumption].
Qed.

Lemma default_required_eq tp p :
  default_required tp p = mkProp (pr_path p) (pr_field p) (pr_tag p) (pr_val p) (with_required tp (pr_args p)).
Proof.
  unfold default_required, with_required.
  destruct (tp_required tp && negb (has_arg "Required" (pr_args p))); [reflexivity|]. destruct p; reflexivity.
Qed.

Lemma processor_gets_exactly tp c pr :
  In pr (properties_of tp c) <->
  exists p s v args,
    reaches c p s /\ is_entered s = false /\ shape_exported s = true /\
    carries tp (shape_tags s) (shape_implicit s) = Some (v, args) /\
    pr = mkProp p (shape_name s) (tp_tag tp) v (with_required tp args).
Proof.
  unfold properties_of. rewrite in_map_iff. split.
  - intros (q & <- & Hq). apply in_filter_map in Hq. destruct Hq as (f & Hf & Hx).
    apply scan_exact in Hf. destruct Hf as (p & s & Hr & Hne & He & ->).
    rewrite extract_carries in Hx. cbn [field_of sf_tags sf_implicit sf_path sf_name] in Hx.
    destruct (carries tp (shape_tags s) (shape_implicit s)) as [[v args]|] eqn:Ec; [|discriminate].
    injection Hx as <-. exists p, s, v, args. repeat split; try assumption.
    rewrite default_required_eq. reflexivity.
  - intros (p & s & v & args & Hr & Hne & He & Hc & ->).
    exists (mkProp p (shape_name s) (tp_tag tp) v args). split; [rewrite default_required_eq; reflexivity|].
    apply in_filter_map. exists (field_of p s). split.
    + apply scan_exact. exists p, s. repeat split; assumption.
    + rewrite extract_carries. cbn [field_of sf_tags sf_implicit sf_path sf_name]. rewrite Hc. reflexivity.
Qed.

(* ---------------------------------------------------------------------------------------- *)
(* frame: every write goes to a recorded (reachable, exported, not entered) field that some processor recognises *)

Lemma frame procs c w :
  In w (footprint procs c) ->
  exists s, reaches c w s /\ is_entered s = false /\ shape_exported s = true /\
            recognised procs (shape_tags s) (shape_implicit s) = true.
Proof.
  unfold footprint. rewrite in_flat_map. intros (tp & Htp & Hw).
  apply in_map_iff in Hw. destruct Hw as (pr & <- & Hpr).
  apply processor_gets_exactly in Hpr. destruct Hpr as (p & s & v & args & Hr & Hne & He & Hc & ->).
  cbn [pr_path]. exists s. repeat split; try assumption.
  unfold recognised. apply existsb_exists. exists tp. split; [exact Htp|]. rewrite Hc. reflexivity.
Qed.

(* and conversely: a recorded field some processor recognises is in the footprint *)
Lemma frame_complete procs c w s :
  reaches c w s -> is_entered s = false -> shape_exported s = true ->
  recognised procs (shape_tags s) (shape_implicit s) = true -> In w (footprint procs c).
Proof.
  intros Hr Hne He Hrec. unfold recognised in Hrec. apply existsb_exists in Hrec.
  destruct Hrec as (tp & Htp & Hc).
  destruct (carries tp (shape_tags s) (shape_implicit s)) as [[v args]|] eqn:Ec; [|discriminate].
  unfold footprint. apply in_flat_map. exists tp. split; [exact Htp|].
  apply in_map_iff. exists (mkProp w (shape_name s) (tp_tag tp) v (with_required tp args)).
  split; [reflexivity|]. apply processor_gets_exactly. exists w, s, v, args. repeat split; assumption.
Qed.

(* ---------------------------------------------------------------------------------------- *)
(* under unique sibling names a path determines the declared field *)

Lemma wf_shape_sub n e anon byv tags imp fs :
  wf_shape (Sub n e anon byv tags imp fs) = nodup_names (map shape_name fs) && forallb wf_shape fs.
Proof.
  cbn [wf_shape]. f_equal; try (induction fs as [|x r IH]; [reflexivity|]; cbn [forallb]; rewrite IH; reflexivity).
Qed.

Lemma mem_name_in n l : mem_name n l = true <-> In n l.
Proof.
  induction l as [|m r IH]; cbn [mem_name In]; [split; [discriminate|tauto]|].
  rewrite orb_true_iff, IH, String.eqb_eq. split; intros [H|H]; auto.
Qed.

Lemma nodup_names_unique (c : comp) a b :
  nodup_names (map shape_name c) = true -> In a c -> In b c -> shape_name a = shape_name b -> a = b.
Proof.
  induction c as [|x r IH]; cbn [map nodup_names]; [intros _ []|].
  intros H Ha Hb Hn. apply andb_true_iff in H. destruct H as [Hx Hr]. apply negb_true_iff in Hx.
  assert (Hnot : forall y, In y r -> shape_name y <> shape_name x).
  { intros y Hy E. assert (mem_name (shape_name x) (map shape_name r) = true).
    { apply mem_name_in. rewrite <- E. apply in_map, Hy. } congruence. }
  destruct Ha as [<-|Ha], Hb as [<-|Hb].
  - reflexivity.
  - exfalso. apply (Hnot b Hb). symmetry. exact Hn.
  - exfalso. apply (Hnot a Ha). exact Hn.
  - apply IH; assumption.
Qed.

Lemma reaches_nonempty c p s : reaches c p s -> p <> [].
Proof. destruct 1; discriminate. Qed.

Lemma wf_comp_inv c :
  wf_comp c = true -> nodup_names (map shape_name c) = true /\ forall x, In x c -> wf_shape x = true.
Proof.
  unfold wf_comp. intros H. apply andb_true_iff in H. destruct H as [H1 H2]. split; [exact H1|].
  rewrite forallb_forall in H2. exact H2.
Qed.

Lemma wf_sub_comp n e anon byv tags imp fs :
  wf_shape (Sub n e anon byv tags imp fs) = true -> wf_comp fs = true.
Proof. rewrite wf_shape_sub. unfold wf_comp. tauto. Qed.

Lemma reaches_functional c p s1 :
  reaches c p s1 -> wf_comp c = true -> forall s2, reaches c p s2 -> s1 = s2.
Proof.
  induction 1 as [c s1 Hin|c n e imp fs p s1 Hin Hr IH]; intros Hwf s2 H2.
  - apply wf_comp_inv in Hwf. destruct Hwf as [Hnd _].
    inversion H2 as [c' s' Hin2 E1|c' n e imp fs p' s' Hin2 Hr2 E1]; subst.
    + eapply nodup_names_unique; try eassumption. congruence.
    + exfalso. apply (reaches_nonempty _ _ _ Hr2). congruence.
  - pose proof Hwf as Hwf0. apply wf_comp_inv in Hwf. destruct Hwf as [Hnd Hall].
    inversion H2 as [c' s' Hin2 E1|c' n2 e2 imp2 fs2 p' s' Hin2 Hr2 E1]; subst.
    + exfalso. apply (reaches_nonempty _ _ _ Hr). congruence.
    + assert (E : Sub n e true true [] imp fs = Sub n e2 true true [] imp2 fs2).
      { eapply nodup_names_unique; try eassumption. reflexivity. }
      injection E as <- <- <-. apply IH; [|exact Hr2].
      eapply wf_sub_comp, Hall, Hin.
Qed.

(* nothing below a field that is not entered can be reached *)
Lemma no_reach_below c q s :
  reaches c q s -> wf_comp c = true -> is_entered s = false ->
  forall rest s2, rest <> [] -> ~ reaches c (q ++ rest) s2.
Proof.
  induction 1 as [c s Hin|c n e imp fs p s Hin Hr IH]; intros Hwf Hne rest s2 Hrest H2.
  - apply wf_comp_inv in Hwf. destruct Hwf as [Hnd _]. cbn [app] in H2.
    inversion H2 as [c' s' Hin2 E1|c' n2 e2 imp2 fs2 p' s' Hin2 Hr2 E1]; subst.
    + apply Hrest. reflexivity.
    + assert (E : s = Sub (shape_name s) e2 true true [] imp2 fs2).
      { eapply nodup_names_unique; try eassumption. reflexivity. }
      rewrite E in Hne. discriminate Hne.
  - pose proof Hwf as Hwf0. apply wf_comp_inv in Hwf. destruct Hwf as [Hnd Hall]. cbn [app] in H2.
    inversion H2 as [c' s' Hin2 E1|c' n2 e2 imp2 fs2 p' s' Hin2 Hr2 E1]; subst.
    + destruct p; [exact (reaches_nonempty _ _ _ Hr eq_refl)|discriminate].
    + assert (E : Sub n e true true [] imp fs = Sub n e2 true true [] imp2 fs2).
      { eapply nodup_names_unique; try eassumption. reflexivity. }
      injection E as <- <- <-. apply (IH (wf_sub_comp _ _ _ _ _ _ _ (Hall _ Hin)) Hne rest s2 Hrest Hr2).
Qed.

(* what is never written: an unexported field, a field no processor recognises, anything inside a field
   that is not entered and not itself written *)
Lemma frame_untouched procs c w s :
  wf_comp c = true -> reaches c w s ->
  shape_exported s = false \/ recognised procs (shape_tags s) (shape_implicit s) = false ->
  ~ In w (footprint procs c).
Proof.
  intros Hwf Hr Hbad Hin. apply frame in Hin. destruct Hin as (s2 & Hr2 & _ & He & Hrec).
  assert (s = s2) by (eapply reaches_functional; eassumption). subst s2.
  destruct Hbad; congruence.
Qed.

Lemma frame_untouched_below procs c q s rest :
  wf_comp c = true -> reaches c q s -> is_entered s = false -> rest <> [] ->
  ~ In (q ++ rest) (footprint procs c).
Proof.
  intros Hwf Hr Hne Hrest Hin. apply frame in Hin. destruct Hin as (s2 & Hr2 & _).
  exact (no_reach_below c q s Hr Hwf Hne rest s2 Hrest Hr2).
Qed.

(* the oracle's boolean walk: true exactly on the footprint paths and below them *)
Lemma find_shape_in n c s : find_shape n c = Some s -> In s c /\ shape_name s = n.
Proof.
  induction c as [|x r IH]; cbn [find_shape]; [discriminate|].
  destruct (String.eqb (shape_name x) n) eqn:E.
  - intros H. injection H as <-. apply String.eqb_eq in E. split; [left; reflexivity|exact E].
  - intros H. destruct (IH H) as [Hin Hn]. split; [right; exact Hin|exact Hn].
Qed.

Lemma writable_at_sound procs : forall p c,
  writable_at procs c p = true -> exists q rest, p = q ++ rest /\ In q (footprint procs c).
Proof.
  induction p as [|n rest IH]; intros c; cbn [writable_at]; [discriminate|].
  destruct (find_shape n c) as [s|] eqn:Ef; [|discriminate].
  apply find_shape_in in Ef. destruct Ef as [Hin Hn].
  assert (Direct : is_entered s = false ->
                   shape_exported s && recognised procs (shape_tags s) (shape_implicit s) = true ->
                   exists q rest0, n :: rest = q ++ rest0 /\ In q (footprint procs c)).
  { intros Hne H. apply andb_true_iff in H. destruct H as [He Hrec].
    exists [n], rest. split; [reflexivity|].
    eapply frame_complete; [|exact Hne|exact He|exact Hrec]. rewrite <- Hn. apply reach_here, Hin. }
  destruct s as [n0 e tags k imp|n0 e anon byv tags imp fs]; [apply Direct; reflexivity|].
  destruct anon; [|apply Direct; reflexivity].
  destruct byv; [|apply Direct; reflexivity].
  destruct tags; [|apply Direct; reflexivity].
  intros H. apply IH in H. destruct H as (q & rest0 & -> & Hq).
  exists (n :: q), rest0. split; [reflexivity|].
  apply frame in Hq. destruct Hq as (s2 & Hr2 & Hne & He & Hrec).
  eapply frame_complete; [|exact Hne|exact He|exact Hrec].
  cbn [shape_name] in Hn. subst n0. eapply reach_in; [exact Hin|exact Hr2].
Qed.

Lemma find_shape_nodup (c : comp) s :
  nodup_names (map shape_name c) = true -> In s c -> find_shape (shape_name s) c = Some s.
Proof.
  induction c as [|x r IH]; cbn [map nodup_names find_shape]; [intros _ []|].
  intros H Hin. apply andb_true_iff in H. destruct H as [Hx Hr]. apply negb_true_iff in Hx.
  destruct Hin as [->|Hin]; [rewrite String.eqb_refl; reflexivity|].
  destruct (String.eqb (shape_name x) (shape_name s)) eqn:E; [|apply IH; assumption].
  apply String.eqb_eq in E. exfalso.
  assert (mem_name (shape_name x) (map shape_name r) = true); [|congruence].
  apply mem_name_in. rewrite E. apply in_map, Hin.
Qed.

Lemma writable_at_complete procs c q :
  In q (footprint procs c) -> wf_comp c = true -> forall rest, writable_at procs c (q ++ rest) = true.
Proof.
  intros Hin Hwf rest. apply frame in Hin. destruct Hin as (s & Hr & Hne & He & Hrec).
  revert Hwf. induction Hr as [c s Hin|c n e imp fs p s Hin Hr IH]; intros Hwf.
  - apply wf_comp_inv in Hwf. destruct Hwf as [Hnd _].
    cbn [app writable_at]. rewrite (find_shape_nodup c s Hnd Hin).
    destruct s as [n0 e tags k imp|n0 e anon byv tags imp fs]; cbn [shape_exported shape_tags shape_implicit] in *.
    + rewrite He, Hrec. reflexivity.
    + destruct anon, byv, tags; try discriminate Hne; rewrite He, Hrec; reflexivity.
  - pose proof Hwf as Hwf0. apply wf_comp_inv in Hwf. destruct Hwf as [Hnd Hall].
    cbn [app writable_at].
    pose proof (find_shape_nodup c _ Hnd Hin) as Hf. cbn [shape_name] in Hf. rewrite Hf.
    apply IH; try assumption. eapply wf_sub_comp, Hall, Hin.
Qed.

(* ---------------------------------------------------------------------------------------- *)
(* logger points: the received logger does not depend on the embedding arrangement *)

Lemma map_obs_filter_gen (h : sfield -> bool) :
  (forall a b, sf_obs a = sf_obs b -> h a = h b) ->
  forall l1 l2, map sf_obs l1 = map sf_obs l2 ->
  map sf_obs (filter h l1) = map sf_obs (filter h l2).
Proof.
  intros Hh. induction l1 as [|a r IH]; intros [|b r'] H; try discriminate; [reflexivity|].
  cbn [map] in H. apply cons_eq_inv in H. destruct H as [Hab Hr]. cbn [filter].
  rewrite (Hh a b Hab). destruct (h b); cbn [map]; [rewrite Hab; f_equal|]; apply IH, Hr.
Qed.

Lemma logger_fields_flatten c :
  map sf_obs (logger_fields c) = map sf_obs (logger_fields (flatten_all c)).
Proof.
  unfold logger_fields. apply map_obs_filter_gen; [|apply scan_flatten].
  intros a b Hab. apply sf_obs_inv in Hab. destruct Hab as (_ & _ & Hk & _). rewrite Hk. reflexivity.
Qed.

Lemma logger_points_flatten tp c :
  map pr_obs (logger_points tp c) = map pr_obs (logger_points tp (flatten_all c)).
Proof. unfold logger_points. apply properties_obs_ext, logger_fields_flatten. Qed.

Lemma pr_obs_inv a b : pr_obs a = pr_obs b ->
  pr_field a = pr_field b /\ pr_tag a = pr_tag b /\ pr_val a = pr_val b /\ pr_args a = pr_args b.
Proof. unfold pr_obs. intros H. inversion H. repeat split; assumption. Qed.

(* a point that does not ask for its position: the prefix is a function of (component, tag value) *)
Lemma logger_pref_free comp named pr :
  position_free pr = true -> logger_pref comp named pr = logger_direct comp (pr_val pr).
Proof.
  unfold position_free, logger_pref. destruct (wants_position (pr_val pr) (pr_args pr)); [discriminate|reflexivity].
Qed.

Lemma logger_obs_ext comp named named' l1 : forall l2,
  map pr_obs l1 = map pr_obs l2 ->
  map (logger_obs comp named) (filter position_free l1) =
  map (logger_obs comp named') (filter position_free l2).
Proof.
  induction l1 as [|a r IH]; intros [|b r'] H; try discriminate; [reflexivity|].
  cbn [map] in H. apply cons_eq_inv in H. destruct H as [Hab Hr]. cbn [filter].
  apply pr_obs_inv in Hab. destruct Hab as (Hf & Ht & Hv & Ha).
  assert (Hp : position_free a = position_free b) by (unfold position_free; rewrite Hv, Ha; reflexivity).
  rewrite Hp. destruct (position_free b) eqn:Eb; [|apply IH, Hr].
  cbn [map]. f_equal; [|apply IH, Hr].
  unfold logger_obs. rewrite !logger_pref_free by (first [exact Eb|exact Hp]). rewrite Hf, Hv, Ha. reflexivity.
Qed.

Lemma logger_flatten comp named named' tp c :
  map (logger_obs comp named) (filter position_free (logger_points tp c)) =
  map (logger_obs comp named') (filter position_free (logger_points tp (flatten_all c))).
Proof. apply logger_obs_ext, logger_points_flatten. Qed.

Lemma in_filter_map_sub {A B} (f : A -> option B) (h : A -> bool) l y :
  In y (filter_map f (filter h l)) -> In y (filter_map f l).
Proof.
  rewrite !in_filter_map. intros (x & Hin & Hx). apply filter_In in Hin. exists x. split; [apply Hin|exact Hx].
Qed.

Lemma logger_points_sub tp c pr : In pr (logger_points tp c) -> In pr (properties_of tp c).
Proof.
  unfold logger_points, properties_of, logger_fields. rewrite !in_map_iff.
  intros (q & Hq & Hin). exists q. split; [exact Hq|]. eapply in_filter_map_sub, Hin.
Qed.

(* without entered structs every reached field is declared directly on the component *)
Lemma reaches_flat c p s :
  Forall (fun x => is_entered x = false) c -> reaches c p s -> p = [shape_name s].
Proof.
  intros Hc Hr. destruct Hr as [c s Hin|c n e imp fs p s Hin Hr]; [reflexivity|].
  rewrite Forall_forall in Hc. specialize (Hc _ Hin). discriminate Hc.
Qed.

(* declared directly on the component, every logger point - `embed` or not - gets the direct prefix *)
Lemma logger_pref_direct comp named tp c pr :
  Forall (fun x => is_entered x = false) c ->
  In pr (logger_points tp c) -> logger_pref comp named pr = logger_direct comp (pr_val pr).
Proof.
  intros Hc Hin. apply logger_points_sub, processor_gets_exactly in Hin.
  destruct Hin as (p & s & v & args & Hr & _ & _ & _ & ->).
  apply (reaches_flat c p s Hc) in Hr. subst p.
  unfold logger_pref, holder_string, logger_direct, wants_position. cbn [pr_val pr_args pr_path removelast map String.concat].
  destruct (is_empty v) eqn:Ev; cbn [andb]; [|reflexivity].
  destruct (has_arg "Embed" (with_required tp args)); [|reflexivity].
  destruct comp; [reflexivity|]. cbn [String.append]. f_equal.
  clear. induction comp as [|ch r IH]; [reflexivity|]. cbn [String.append]. rewrite IH. reflexivity.
Qed.
