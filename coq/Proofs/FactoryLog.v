(* Effect lemmas: what each non-recursive helper of Model/Factory.v does to the state, for
   successful AND failing results: it leaves registry, fields, dependents, Injects, active list and
   the scanned flag alone and prepends events of a known shape to the log; on success every
   prepended event is "clean" (no callback that the scenario makes fail was reached).
   Then the log-shaped facts about a whole start (C09, C13). *)
From Coq Require Import List Arith Bool Lia.
From IocVerif Require Import Model.Registry Model.Resolve Model.Factory Model.App Proofs.FactoryBasics.
Import ListNotations.

Definition is_run (e : event) : bool := match e with EvRun _ => true | _ => false end.

(* the event does not belong to a callback the scenario makes fail *)
Definition clean (s : scenario) (e : event) : Prop :=
  match e with
  | EvEarly p n => faulty s p PhEarly n = false
  | EvBefore p n _ => faulty s p PhBefore n = false
  | EvAfter p n => faulty s p PhAfter n = false
  | EvAPS n => match get_comp (s_pop s) n with Some c => c_aps c <> Some true | None => True end
  | EvInit n => match get_comp (s_pop s) n with Some c => c_init c <> Some true | None => True end
  | EvRun n => runner_fails s n = false
  end.

(* st' differs from st only by proxy bookkeeping and by events l prepended to the log *)
Record only_log (Q : event -> Prop) (st st' : fstate) : Prop := mkOL {
  ol_reg : reg st' = reg st;
  ol_flds : flds st' = flds st;
  ol_deps : deps st' = deps st;
  ol_injs : injs st' = injs st;
  ol_active : active st' = active st;
  ol_scanned : scanned st' = scanned st;
  ol_log : exists l, log st' = l ++ log st /\ Forall Q l
}.

Lemma only_log_refl (Q : event -> Prop) st : only_log Q st st.
Proof. constructor; try reflexivity. exists []. split; [reflexivity|constructor]. Qed.

Lemma only_log_trans (Q : event -> Prop) a b c : only_log Q a b -> only_log Q b c -> only_log Q a c.
Proof.
  intros [A1 A2 A3 A4 A5 A6 [l1 [Hl1 Hq1]]] [B1 B2 B3 B4 B5 B6 [l2 [Hl2 Hq2]]].
  constructor; try congruence. exists (l2 ++ l1). split; [rewrite Hl2, Hl1, app_assoc; reflexivity|].
  apply Forall_app. split; assumption.
Qed.

Lemma only_log_weaken (Q Q' : event -> Prop) a b : (forall e, Q e -> Q' e) -> only_log Q a b -> only_log Q' a b.
Proof.
  intros H [A1 A2 A3 A4 A5 A6 [l [Hl Hq]]]. constructor; try assumption. exists l. split; [exact Hl|].
  eapply Forall_impl; eauto.
Qed.

Lemma only_log_fst (Q C : event -> Prop) a b : only_log (fun e => Q e /\ C e) a b -> only_log Q a b.
Proof. apply only_log_weaken. intros e [H _]; exact H. Qed.

Lemma only_log_add (Q : event -> Prop) st e : Q e -> only_log Q st (add_log st e).
Proof. intros H. constructor; try reflexivity. exists [e]. split; [reflexivity|constructor; [exact H|constructor]]. Qed.

Lemma only_log_new_proxy (Q : event -> Prop) st n : only_log Q st (fst (new_proxy st n)).
Proof. constructor; try reflexivity. exists []. split; [reflexivity|constructor]. Qed.

Lemma only_log_note (Q : event -> Prop) st p c k : only_log Q st (note_early st p c k).
Proof. constructor; try reflexivity. exists []. split; [reflexivity|constructor]. Qed.

(* results: on success the prepended events satisfy Qok, on failure Qfail *)
Definition eff1 (Qok Qfail : event -> Prop) (st : fstate) (r : res fstate) : Prop :=
  match r with Ok st' => only_log Qok st st' | Fail _ st' => only_log Qfail st st' end.
Definition eff2 {X} (Qok Qfail : event -> Prop) (st : fstate) (r : res (fstate * X)) : Prop :=
  match r with Ok (st', _) => only_log Qok st st' | Fail _ st' => only_log Qfail st st' end.

Section Helpers.
  Variable s : scenario.
  Variable n : name.

  Definition Qe (e : event) : Prop := match e with EvEarly _ m => m = n | _ => False end.
  Definition Qb (e : event) : Prop := match e with EvBefore _ m _ => m = n | _ => False end.
  Definition Qa (e : event) : Prop := match e with EvAfter _ m => m = n | _ => False end.
  Definition Qi (e : event) : Prop := match e with EvAPS m | EvInit m => m = n | _ => False end.

  Lemma early_chain_eff ps : forall st0 st cur,
    only_log (fun e => Qe e /\ clean s e) st0 st ->
    eff2 (fun e => Qe e /\ clean s e) Qe st0 (early_chain s n ps st cur).
  Proof.
    induction ps as [|p r IH]; intros st0 st cur H0; cbn [early_chain]; [exact H0|].
    destruct (proc_of (s_pop s) p) as [[k|early after]|]; [apply IH; exact H0| |apply IH; exact H0].
    destruct (faulty s p PhEarly n) eqn:Ef.
    - cbn [eff2]. eapply only_log_trans; [apply (only_log_fst _ _ _ _ H0)|].
      apply only_log_add. reflexivity.
    - assert (H1 : only_log (fun e => Qe e /\ clean s e) st0 (add_log st (EvEarly p n))).
      { eapply only_log_trans; [exact H0|]. apply only_log_add. split; [reflexivity|exact Ef]. }
      destruct (alookup n early) as [[|]|]; try (apply IH; exact H1).
      cbn [new_proxy]. apply IH. eapply only_log_trans; [exact H1|].
      eapply only_log_trans; [apply (only_log_new_proxy _ (add_log st (EvEarly p n)) n)|]. apply only_log_note.
  Qed.

  Lemma before_chain_eff c ps : forall st0 st,
    only_log (fun e => Qb e /\ clean s e) st0 st ->
    eff1 (fun e => Qb e /\ clean s e) Qb st0 (before_chain s n c ps st).
  Proof.
    induction ps as [|p r IH]; intros st0 st H0; cbn [before_chain]; [exact H0|].
    destruct (proc_of (s_pop s) p) as [[k|early after]|]; [apply IH; exact H0| |apply IH; exact H0].
    destruct (faulty s p PhBefore n) eqn:Ef.
    - cbn [eff1]. eapply only_log_trans; [apply (only_log_fst _ _ _ _ H0)|].
      apply only_log_add. reflexivity.
    - apply IH. eapply only_log_trans; [exact H0|]. apply only_log_add. split; [reflexivity|exact Ef].
  Qed.

  Lemma after_chain_eff ps : forall st0 st cur,
    only_log (fun e => Qa e /\ clean s e) st0 st ->
    eff2 (fun e => Qa e /\ clean s e) Qa st0 (after_chain s n ps st cur).
  Proof.
    induction ps as [|p r IH]; intros st0 st cur H0; cbn [after_chain]; [exact H0|].
    destruct (proc_of (s_pop s) p) as [[k|early after]|]; [apply IH; exact H0| |apply IH; exact H0].
    destruct (faulty s p PhAfter n) eqn:Ef.
    - cbn [eff2]. eapply only_log_trans; [apply (only_log_fst _ _ _ _ H0)|].
      apply only_log_add. reflexivity.
    - assert (H1 : only_log (fun e => Qa e /\ clean s e) st0 (add_log st (EvAfter p n))).
      { eapply only_log_trans; [exact H0|]. apply only_log_add. split; [reflexivity|exact Ef]. }
      assert (Hp : forall cur', eff2 (fun e => Qa e /\ clean s e) Qa st0
                           (let (st2, v) := new_proxy (add_log st (EvAfter p n)) n in after_chain s n r st2 cur')).
      { intros cur'. cbn [new_proxy]. apply IH. eapply only_log_trans; [exact H1|].
        apply (only_log_new_proxy _ (add_log st (EvAfter p n)) n). }
      destruct (alookup n after) as [[| | |]|]; try (apply IH; exact H1).
      + cbn [new_proxy]. apply IH. eapply only_log_trans; [exact H1|].
        apply (only_log_new_proxy _ (add_log st (EvAfter p n)) n).
      + destruct (klookup (p, n) (earlymade (add_log st (EvAfter p n)))); apply IH; exact H1.
      + destruct (klookup (p, n) (earlymade (add_log st (EvAfter p n)))); [apply IH; exact H1|].
        cbn [new_proxy]. apply IH. eapply only_log_trans; [exact H1|].
        apply (only_log_new_proxy _ (add_log st (EvAfter p n)) n).
  Qed.
End Helpers.

Section Helpers2.
  Variable s : scenario.

  Lemma init_methods_eff n c st0 st :
    get_comp (s_pop s) n = Some c ->
    only_log (fun e => Qi n e /\ clean s e) st0 st ->
    eff1 (fun e => Qi n e /\ clean s e) (Qi n) st0 (init_methods n c st).
  Proof.
    intros Hc H0. unfold init_methods.
    assert (Hw : only_log (Qi n) st0 st) by (apply (only_log_fst _ _ _ _ H0)).
    destruct (c_aps c) as [[|]|] eqn:Ea.
    - cbn [eff1]. eapply only_log_trans; [exact Hw|]. apply only_log_add. reflexivity.
    - assert (H1 : only_log (fun e => Qi n e /\ clean s e) st0 (add_log st (EvAPS n))).
      { eapply only_log_trans; [exact H0|]. apply only_log_add. split; [reflexivity|].
        cbn [clean]. rewrite Hc, Ea. discriminate. }
      destruct (c_init c) as [[|]|] eqn:Ei.
      + cbn [eff1]. eapply only_log_trans; [apply (only_log_fst _ _ _ _ H1)|]. apply only_log_add. reflexivity.
      + cbn [eff1]. eapply only_log_trans; [exact H1|]. apply only_log_add. split; [reflexivity|].
        cbn [clean]. rewrite Hc, Ei. discriminate.
      + exact H1.
    - destruct (c_init c) as [[|]|] eqn:Ei.
      + cbn [eff1]. eapply only_log_trans; [exact Hw|]. apply only_log_add. reflexivity.
      + cbn [eff1]. eapply only_log_trans; [exact H0|]. apply only_log_add. split; [reflexivity|].
        cbn [clean]. rewrite Hc, Ei. discriminate.
      + exact H0.
  Qed.

  (* events of one component's lifecycle *)
  Definition Ql (n : name) (e : event) : Prop :=
    match e with
    | EvBefore _ m _ | EvAfter _ m | EvAPS m | EvInit m | EvEarly _ m => m = n
    | EvRun _ => False
    end.

  Lemma Qb_Ql n e : Qb n e -> Ql n e. Proof. destruct e; cbn; tauto. Qed.
  Lemma Qa_Ql n e : Qa n e -> Ql n e. Proof. destruct e; cbn; tauto. Qed.
  Lemma Qi_Ql n e : Qi n e -> Ql n e. Proof. destruct e; cbn; tauto. Qed.
  Lemma Qe_Ql n e : Qe n e -> Ql n e. Proof. destruct e; cbn; tauto. Qed.
  Lemma Ql_nonrun n e : Ql n e -> is_run e = false. Proof. destruct e; cbn; tauto. Qed.

  Lemma initialize_eff st n c :
    get_comp (s_pop s) n = Some c ->
    eff2 (fun e => Ql n e /\ clean s e) (Ql n) st (initialize s st n c).
  Proof.
    intros Hc. unfold initialize.
    pose proof (before_chain_eff s n c (active st) st st (only_log_refl _ st)) as Hb.
    destruct (before_chain s n c (active st) st) as [st1|k1 st1]; cbn [eff1] in Hb.
    2:{ cbn [eff2]. eapply only_log_weaken; [|exact Hb]. apply Qb_Ql. }
    assert (Hb' : only_log (fun e => Ql n e /\ clean s e) st st1).
    { eapply only_log_weaken; [|exact Hb]. intros e [H1 H2]. split; [apply Qb_Ql; exact H1|exact H2]. }
    pose proof (init_methods_eff n c st1 st1 Hc (only_log_refl _ st1)) as Hi.
    destruct (init_methods n c st1) as [st2|k2 st2]; cbn [eff1] in Hi.
    2:{ cbn [eff2]. eapply only_log_trans; [apply (only_log_fst _ _ _ _ Hb')|].
        eapply only_log_weaken; [|exact Hi]. apply Qi_Ql. }
    assert (Hi' : only_log (fun e => Ql n e /\ clean s e) st st2).
    { eapply only_log_trans; [exact Hb'|]. eapply only_log_weaken; [|exact Hi].
      intros e [H1 H2]. split; [apply Qi_Ql; exact H1|exact H2]. }
    pose proof (after_chain_eff s n (active st2) st2 st2 None (only_log_refl _ st2)) as Ha.
    destruct (after_chain s n (active st2) st2 None) as [[st3 w]|k3 st3]; cbn [eff2] in *.
    - eapply only_log_trans; [exact Hi'|]. eapply only_log_weaken; [|exact Ha].
      intros e [H1 H2]. split; [apply Qa_Ql; exact H1|exact H2].
    - eapply only_log_trans; [apply (only_log_fst _ _ _ _ Hi')|].
      eapply only_log_weaken; [|exact Ha]. apply Qa_Ql.
  Qed.

  Lemma early_reference_eff st n :
    eff2 (fun e => Ql n e /\ clean s e) (Ql n) st (early_reference s st n).
  Proof.
    unfold early_reference.
    pose proof (early_chain_eff s n (active st) st st (VOrig n) (only_log_refl _ st)) as H.
    destruct (early_chain s n (active st) st (VOrig n)) as [[st1 v]|k st1]; cbn [eff2] in *.
    - eapply only_log_weaken; [|exact H]. intros e [H1 H2]. split; [apply Qe_Ql; exact H1|exact H2].
    - eapply only_log_weaken; [|exact H]. apply Qe_Ql.
  Qed.
End Helpers2.

(* ---------- the log along the recursion -------------------------------------------------------------- *)

(* st' extends the log of st by events satisfying Q and has the same processor list / scanned flag *)
Record grows (Q : event -> Prop) (st st' : fstate) : Prop := mkG {
  g_active : active st' = active st;
  g_scanned : scanned st' = scanned st;
  g_log : exists l, log st' = l ++ log st /\ Forall Q l
}.

Lemma grows_refl (Q : event -> Prop) st : grows Q st st.
Proof. constructor; try reflexivity. exists []. split; [reflexivity|constructor]. Qed.

Lemma grows_trans (Q : event -> Prop) a b c : grows Q a b -> grows Q b c -> grows Q a c.
Proof.
  intros [A1 A2 [l1 [Hl1 Hq1]]] [B1 B2 [l2 [Hl2 Hq2]]]. constructor; try congruence.
  exists (l2 ++ l1). split; [rewrite Hl2, Hl1, app_assoc; reflexivity|]. apply Forall_app; split; assumption.
Qed.

Lemma grows_weaken (Q Q' : event -> Prop) a b : (forall e, Q e -> Q' e) -> grows Q a b -> grows Q' a b.
Proof.
  intros H [A1 A2 [l [Hl Hq]]]. constructor; try assumption. exists l. split; [exact Hl|eapply Forall_impl; eauto].
Qed.

Lemma grows_of_only_log (Q : event -> Prop) a b : only_log Q a b -> grows Q a b.
Proof. intros [A1 A2 A3 A4 A5 A6 HL]. constructor; assumption. Qed.

Lemma grows_same (Q : event -> Prop) a b :
  active b = active a -> scanned b = scanned a -> log b = log a -> grows Q a b.
Proof. intros H1 H2 H3. constructor; try assumption. exists []. split; [exact H3|constructor]. Qed.

Definition good (s : scenario) (e : event) : Prop := is_run e = false /\ clean s e.
Definition nonrun (e : event) : Prop := is_run e = false.

Definition geff1 (s : scenario) (st : fstate) (r : res fstate) : Prop :=
  match r with Ok st' => grows (good s) st st' | Fail _ st' => grows nonrun st st' end.
Definition geff2 {X} (s : scenario) (st : fstate) (r : res (fstate * X)) : Prop :=
  match r with Ok (st', _) => grows (good s) st st' | Fail _ st' => grows nonrun st st' end.

Lemma good_nonrun s e : good s e -> nonrun e. Proof. intros [H _]; exact H. Qed.

Lemma geff2_of_eff2 {X} s n st (r : res (fstate * X)) :
  eff2 (fun e => Ql n e /\ clean s e) (Ql n) st r -> geff2 s st r.
Proof.
  destruct r as [[st' x]|k st']; cbn [eff2 geff2]; intros H; apply grows_of_only_log.
  - eapply only_log_weaken; [|exact H]. intros e [H1 H2]. split; [eapply Ql_nonrun; exact H1|exact H2].
  - eapply only_log_weaken; [|exact H]. intros e H1. eapply Ql_nonrun; exact H1.
Qed.

(* continuing after a successful prefix *)
Lemma geff1_after s a b r : grows (good s) a b -> geff1 s b r -> geff1 s a r.
Proof.
  intros Hab. destruct r as [st'|k st']; cbn [geff1]; intros H.
  - eapply grows_trans; eauto.
  - eapply grows_trans; [eapply grows_weaken; [apply good_nonrun|exact Hab]|exact H].
Qed.
Lemma geff2_after {X} s a b (r : res (fstate * X)) : grows (good s) a b -> geff2 s b r -> geff2 s a r.
Proof.
  intros Hab. destruct r as [[st' x]|k st']; cbn [geff2]; intros H.
  - eapply grows_trans; eauto.
  - eapply grows_trans; [eapply grows_weaken; [apply good_nonrun|exact Hab]|exact H].
Qed.

Section LogRec.
  Variable vt : variant.
  Variable s : scenario.
  Variable rec : fstate -> name -> res (fstate * ver).
  Hypothesis Hrec : forall st d, geff2 s st (rec st d).

  Lemma get_all_geff : forall cands st, geff2 s st (get_all rec st cands).
  Proof.
    induction cands as [|[d|] r IH]; intros st; cbn [get_all].
    - apply grows_refl.
    - pose proof (Hrec st d) as H1. destruct (rec st d) as [[st1 v]|k st1]; cbn [geff2] in H1; [|exact H1].
      pose proof (IH st1) as H2. destruct (get_all rec st1 r) as [[st2 vs]|k st2]; cbn [geff2] in *.
      + eapply grows_trans; eauto.
      + eapply grows_trans; [eapply grows_weaken; [apply good_nonrun|exact H1]|exact H2].
    - apply grows_refl.
  Qed.

  Lemma inject_geff st h k p vs : geff1 s st (inject vt s st h k p vs).
  Proof.
    unfold inject. destruct vs as [|v0 r]; [destruct (pt_required p); apply grows_refl|].
    destruct (filter (fun v => negb (is_self h v)) (v0 :: r)) as [|w t]; [destruct (pt_required p); apply grows_refl|].
    destruct (forallb _ _); [apply grows_same; reflexivity|].
    destruct (fix_c07 vt); [destruct (pt_required p)|]; apply grows_refl.
  Qed.

  Lemma inject_points_geff h : forall ps k inj st, geff1 s st (inject_points vt s rec h k ps inj st).
  Proof.
    induction ps as [|p ps' IH]; intros k inj st; cbn [inject_points]; [apply grows_refl|].
    destruct inj as [|i inj']; [apply grows_refl|]. destruct i as [|c0 c1]; [apply IH|].
    pose proof (get_all_geff (c0 :: c1) st) as H1.
    destruct (get_all rec st (c0 :: c1)) as [[st1 vs]|k1 st1]; cbn [geff2] in H1; [|exact H1].
    pose proof (inject_geff st1 h k p vs) as H2.
    destruct (inject vt s st1 h k p vs) as [st2|k2 st2]; cbn [geff1] in H2.
    - eapply geff1_after; [eapply grows_trans; eauto|]. apply IH.
    - cbn [geff1]. eapply grows_trans; [eapply grows_weaken; [apply good_nonrun|exact H1]|exact H2].
  Qed.

  Lemma populate_geff st n c : geff1 s st (populate vt s rec st n c).
  Proof.
    unfold populate.
    destruct (pipeline vt s n c (active st) st (cur_injs st n c)) as [[st1 inj]|k st1] eqn:E.
    - pose proof (pipeline_state _ _ _ _ _ _ _ _ _ E) as ->.
      eapply geff1_after; [|apply inject_points_geff]. apply grows_same; reflexivity.
    - cbn [geff1]. assert (st1 = st) as ->; [|apply grows_refl].
      clear -E. revert E. generalize (cur_injs st n c). generalize (active st) as ps.
      induction ps as [|p r IH]; intros inj; cbn [pipeline]; [discriminate|].
      destruct (proc_of (s_pop s) p) as [[[]|early after]|]; try apply IH.
      + destruct (cfg_stage c true); [intros H; inversion H; reflexivity|apply IH].
      + destruct (cfg_stage c false); [intros H; inversion H; reflexivity|apply IH].
      + destruct (further_loop vt (s_pop s) n (c_points c) inj); [apply IH|intros H; inversion H; reflexivity].
  Qed.

  Lemma body_geff st n : geff2 s st (body vt s rec st n).
  Proof.
    unfold body, get_singleton.
    destruct (get_lookup (reg st) n true) as [hv|f|].
    - apply grows_refl.
    - pose proof (geff2_of_eff2 s n st _ (early_reference_eff s st n)) as H.
      destruct (early_reference s st n) as [[st1 v]|k st1]; cbn [geff2] in *; [|exact H].
      eapply grows_trans; [exact H|]. apply grows_same; reflexivity.
    - unfold begin_create. destruct (alookup n (L1 (reg st))); [apply grows_refl|].
      unfold create. cbn [scanned set_reg].
      destruct (scanned st); [|cbn [geff2]; apply grows_same; reflexivity].
      destruct (get_comp (s_pop s) n) as [c|] eqn:Ec; [|cbn [geff2]; apply grows_same; reflexivity].
      unfold do_create. cbn [reg set_reg].
      match goal with |- context [populate vt s rec ?x n c] => set (st0 := x) end.
      assert (H0 : grows (good s) st st0) by (apply grows_same; reflexivity).
      pose proof (populate_geff st0 n c) as Hp.
      destruct (populate vt s rec st0 n c) as [st1|k1 st1]; cbn [geff1] in Hp.
      2:{ assert (Hg : grows nonrun st st1).
          { eapply grows_trans; [eapply grows_weaken; [apply good_nonrun|exact H0]|exact Hp]. }
          destruct k1 as [e| |]; cbn [geff2]; try exact Hg.
          eapply grows_trans; [exact Hg|]. apply grows_same; reflexivity. }
      pose proof (geff2_of_eff2 s n st1 _ (initialize_eff s st1 n c Ec)) as Hi.
      destruct (initialize s st1 n c) as [[st2 w]|k2 st2]; cbn [geff2] in Hi.
      2:{ assert (Hg : grows nonrun st st2).
          { eapply grows_trans; [eapply grows_weaken; [apply good_nonrun|eapply grows_trans; eauto]|exact Hi]. }
          destruct k2 as [e| |]; cbn [geff2]; try exact Hg.
          eapply grows_trans; [exact Hg|]. apply grows_same; reflexivity. }
      assert (H2 : grows (good s) st st2) by (eapply grows_trans; [eapply grows_trans; eauto|exact Hi]).
      assert (H2n : grows nonrun st st2) by (eapply grows_weaken; [apply good_nonrun|exact H2]).
      unfold get_singleton. rewrite (FactoryBasics_get_lookup_false (reg st2) n).
      destruct (match alookup n (L1 (reg st2)) with Some v => Some v | None => alookup n (L2 (reg st2)) end) as [e|].
      + destruct w as [wv|].
        * destruct (stale_dependents vt st2 n _); cbn [geff2].
          -- eapply grows_trans; [exact H2|]. apply grows_same; reflexivity.
          -- eapply grows_trans; [exact H2n|]. apply grows_same; reflexivity.
        * cbn [geff2]. eapply grows_trans; [exact H2|]. apply grows_same; reflexivity.
      + cbn [geff2]. eapply grows_trans; [exact H2|]. apply grows_same; reflexivity.
  Qed.
End LogRec.

Theorem do_get_geff vt s : forall fuel st n, geff2 s st (do_get vt s fuel st n).
Proof.
  induction fuel as [|f IH]; intros st n; cbn [do_get]; [apply grows_refl|].
  apply body_geff. exact IH.
Qed.

(* ---------- a whole start --------------------------------------------------------------------------------- *)

Definition lext (Q : event -> Prop) (st st' : fstate) : Prop :=
  exists l, log st' = l ++ log st /\ Forall Q l.

Lemma lext_refl (Q : event -> Prop) st : lext Q st st.
Proof. exists []. split; [reflexivity|constructor]. Qed.
Lemma lext_trans (Q : event -> Prop) a b c : lext Q a b -> lext Q b c -> lext Q a c.
Proof.
  intros [l1 [H1 Q1]] [l2 [H2 Q2]]. exists (l2 ++ l1). split; [rewrite H2, H1, app_assoc; reflexivity|].
  apply Forall_app; split; assumption.
Qed.
Lemma lext_weaken (Q Q' : event -> Prop) a b : (forall e, Q e -> Q' e) -> lext Q a b -> lext Q' a b.
Proof. intros H [l [H1 H2]]. exists l. split; [exact H1|eapply Forall_impl; eauto]. Qed.
Lemma lext_of_grows (Q : event -> Prop) a b : grows Q a b -> lext Q a b.
Proof. intros [_ _ H]. exact H. Qed.
Lemma lext_same (Q : event -> Prop) a b : log b = log a -> lext Q a b.
Proof. intros H. exists []. split; [exact H|constructor]. Qed.

Definition leff1 (s : scenario) (st : fstate) (r : res fstate) : Prop :=
  match r with Ok st' => lext (good s) st st' | Fail _ st' => lext nonrun st st' end.

Lemma leff1_after s a b r : lext (good s) a b -> leff1 s b r -> leff1 s a r.
Proof.
  intros Hab. destruct r as [st'|k st']; cbn [leff1]; intros H.
  - eapply lext_trans; eauto.
  - eapply lext_trans; [eapply lext_weaken; [apply good_nonrun|exact Hab]|exact H].
Qed.

Lemma prepare_loop_leff vt s ps : forall st, leff1 s st (prepare_loop vt s ps st).
Proof.
  induction ps as [|p r IH]; intros st; cbn [prepare_loop]; [apply lext_refl|].
  destruct (is_lazy (s_pop s) p).
  - eapply leff1_after; [|apply IH]. apply lext_same. reflexivity.
  - pose proof (do_get_geff vt s (fuel_of s) st p) as H.
    destruct (do_get vt s (fuel_of s) st p) as [[st1 v]|k st1]; cbn [geff2] in H.
    + eapply leff1_after; [|apply IH]. eapply lext_trans; [apply lext_of_grows; exact H|]. apply lext_same. reflexivity.
    + cbn [leff1]. apply lext_of_grows. exact H.
Qed.

Lemma get_each_leff vt s ns : forall st, leff1 s st (get_each vt s ns st).
Proof.
  induction ns as [|n r IH]; intros st; cbn [get_each]; [apply lext_refl|].
  pose proof (do_get_geff vt s (fuel_of s) st n) as H.
  destruct (do_get vt s (fuel_of s) st n) as [[st1 v]|k st1]; cbn [geff2] in H.
  - eapply leff1_after; [apply lext_of_grows; exact H|apply IH].
  - cbn [leff1]. apply lext_of_grows. exact H.
Qed.

(* the runner phase: exactly the given runners, in the given order, up to the first failing one *)
Lemma run_each_ok s ns : forall st st',
  run_each s ns st = Ok st' ->
  log st' = rev (map EvRun ns) ++ log st /\ forall n, In n ns -> runner_fails s n = false.
Proof.
  induction ns as [|n r IH]; intros st st' H; cbn [run_each] in H.
  - inversion H; subst. split; [reflexivity|intros n []].
  - destruct (runner_fails s n) eqn:Ef; [discriminate|].
    destruct (IH _ _ H) as [Hl Hn]. split.
    + rewrite Hl. cbn [map rev log add_log]. rewrite <- app_assoc. reflexivity.
    + intros m [<-|Hm]; [exact Ef|apply Hn; exact Hm].
Qed.

Lemma run_each_fail s ns : forall st k st',
  run_each s ns st = Fail k st' ->
  exists pre n post, ns = pre ++ n :: post /\ runner_fails s n = true /\ k = FErr ECallback
    /\ (forall m, In m pre -> runner_fails s m = false)
    /\ log st' = EvRun n :: rev (map EvRun pre) ++ log st.
Proof.
  induction ns as [|n r IH]; intros st k st' H; cbn [run_each] in H; [discriminate|].
  destruct (runner_fails s n) eqn:Ef.
  - inversion H; subst. exists [], n, r. repeat split; try reflexivity; try exact Ef. intros m [].
  - destruct (IH _ _ _ H) as [pre [m [post [H1 [H2 [H3 [H4 H5]]]]]]].
    exists (n :: pre), m, post. repeat split; try assumption.
    + rewrite H1. reflexivity.
    + intros x [<-|Hx]; [exact Ef|apply H4; exact Hx].
    + rewrite H5. cbn [map rev log add_log]. rewrite <- app_assoc. reflexivity.
Qed.

(* the order in which call_runners invokes the runners found in App.ApplicationRunners *)
Definition runner_order (s : scenario) (st : fstate) : list name :=
  match s_app s with
  | Some (a, rp, _) => map pid (sort_participants (runner_participants s (field_of st a rp)))
  | None => []
  end.

Theorem run_core_log_ok vt s st :
  run_core vt s = Ok st ->
  s_loader_fail s = false /\
  exists st2, log st = rev (map EvRun (runner_order s st2)) ++ log st2
              /\ Forall (good s) (log st2)
              /\ (forall n, In n (runner_order s st2) -> runner_fails s n = false).
Proof.
  unfold run_core. destruct (s_loader_fail s); [discriminate|]. intros H. split; [reflexivity|].
  unfold prepare in H.
  pose proof (prepare_loop_leff vt s (sorted_procs s) (set_scanned finit)) as H1.
  destruct (prepare_loop vt s (sorted_procs s) (set_scanned finit)) as [st1|k st1]; [|discriminate].
  unfold refresh in H. pose proof (get_each_leff vt s (eager_names s) st1) as H2.
  destruct (get_each vt s (eager_names s) st1) as [st2|k st2]; [|discriminate].
  cbn [leff1] in H1, H2. exists st2.
  assert (Hg : Forall (good s) (log st2)).
  { destruct (lext_trans _ _ _ _ H1 H2) as [l [Hl Hq]]. cbn [log set_scanned finit] in Hl.
    rewrite app_nil_r in Hl. rewrite Hl. exact Hq. }
  unfold call_runners in H. unfold runner_order. destruct (s_app s) as [[[a rp] cp]|].
  - destruct (run_each_ok s _ _ _ H) as [Hl Hn]. split; [exact Hl|]. split; [exact Hg|exact Hn].
  - inversion H; subst. split; [reflexivity|]. split; [exact Hg|intros n []].
Qed.

Theorem run_core_log_fail vt s k st :
  run_core vt s = Fail k st ->
  (* either no runner was invoked at all ... *)
  Forall nonrun (log st) \/
  (* ... or the failure IS a runner's: it is the most recent event, the runners before it succeeded *)
  (exists st2 pre n post, runner_order s st2 = pre ++ n :: post /\ runner_fails s n = true
      /\ (forall m, In m pre -> runner_fails s m = false)
      /\ log st = EvRun n :: rev (map EvRun pre) ++ log st2 /\ Forall nonrun (log st2)).
Proof.
  unfold run_core. destruct (s_loader_fail s).
  - intros H; inversion H; subst. left. constructor.
  - unfold prepare.
    pose proof (prepare_loop_leff vt s (sorted_procs s) (set_scanned finit)) as H1.
    destruct (prepare_loop vt s (sorted_procs s) (set_scanned finit)) as [st1|k1 st1]; cbn [leff1] in H1.
    2:{ intros H; inversion H; subst. left. destruct H1 as [l [Hl Hq]]. cbn [log set_scanned finit] in Hl.
        rewrite app_nil_r in Hl. rewrite Hl. exact Hq. }
    unfold refresh. pose proof (get_each_leff vt s (eager_names s) st1) as H2.
    assert (H1n : lext nonrun (set_scanned finit) st1) by (eapply lext_weaken; [apply good_nonrun|exact H1]).
    destruct (get_each vt s (eager_names s) st1) as [st2|k2 st2]; cbn [leff1] in H2.
    2:{ intros H; inversion H; subst. left. destruct (lext_trans _ _ _ _ H1n H2) as [l [Hl Hq]].
        cbn [log set_scanned finit] in Hl. rewrite app_nil_r in Hl. rewrite Hl. exact Hq. }
    assert (Hg : Forall nonrun (log st2)).
    { assert (H2n : lext nonrun st1 st2) by (eapply lext_weaken; [apply good_nonrun|exact H2]).
      destruct (lext_trans _ _ _ _ H1n H2n) as [l [Hl Hq]]. cbn [log set_scanned finit] in Hl.
      rewrite app_nil_r in Hl. rewrite Hl. exact Hq. }
    unfold call_runners. intros H. right. exists st2. unfold runner_order.
    destruct (s_app s) as [[[a rp] cp]|]; [|discriminate].
    destruct (run_each_fail s _ _ _ _ H) as [pre [n [post [E1 [E2 [E3 [E4 E5]]]]]]].
    exists pre, n, post. repeat split; assumption.
Qed.
