(* The version invariant of the factory (C01, C03): along every successful call, every version
   stored in any field of any holder is the CURRENT version of its component (the published one,
   or the early reference while the component is still in creation); at publication the early
   reference is what gets published, or the stale-dependents check fails the creation.
   Needs only that the stale-dependents check counts the component itself (fix_c03). *)
From Coq Require Import List Arith Bool Lia.
From IocVerif Require Import Model.Registry Model.Resolve Model.Factory Model.App Proofs.FactoryBasics.
Import ListNotations.

(* ---------- current version ---------------------------------------------------------------------- *)

Definition cur (r : rstate) (n : name) : option ver :=
  match alookup n (L1 r) with Some v => Some v | None => alookup n (L2 r) end.

Definition keeps (r r' : rstate) : Prop := forall m w, cur r m = Some w -> cur r' m = Some w.

Lemma keeps_refl r : keeps r r. Proof. intros m w H; exact H. Qed.
Lemma keeps_trans a b c : keeps a b -> keeps b c -> keeps a c.
Proof. intros H1 H2 m w H. apply H2, H1, H. Qed.

(* h occurs in the newest-first list with no m before it (h is m, or h was pushed after m) *)
Fixpoint at_or_above (h m : name) (l : list name) : Prop :=
  match l with
  | [] => False
  | x :: r => x = h \/ (x <> m /\ at_or_above h m r)
  end.

Lemma at_or_above_remove h m n l : h <> n -> at_or_above h m l -> at_or_above h m (set_remove n l).
Proof.
  intros Hne. induction l as [|x r IH]; cbn [at_or_above set_remove filter]; [tauto|].
  intros [Hx|[Hxm Hr]].
  - subst x. destruct (Nat.eqb_spec h n); [contradiction|]. cbn [negb at_or_above]. left; reflexivity.
  - destruct (Nat.eqb_spec x n); cbn [negb].
    + apply IH. exact Hr.
    + cbn [at_or_above]. right. split; [exact Hxm|apply IH; exact Hr].
Qed.

Lemma set_remove_head n l : ~ In n l -> set_remove n (n :: l) = l.
Proof.
  intros Hn. unfold set_remove. cbn [filter]. rewrite Nat.eqb_refl. cbn [negb].
  induction l as [|x r IH]; [reflexivity|]. cbn [filter].
  destruct (Nat.eqb_spec x n) as [->|Hne]; [exfalso; apply Hn; left; reflexivity|].
  cbn [negb]. f_equal. apply IH. intros H. apply Hn. right; exact H.
Qed.

(* ---------- fields and dependents ----------------------------------------------------------------- *)

Lemma field_of_write st h k vs h' k' :
  field_of (write_field st h k vs) h' k' = if key_eqb (h, k) (h', k') then vs else field_of st h' k'.
Proof. unfold field_of, write_field. cbn [flds klookup]. destruct (key_eqb (h, k) (h', k')); reflexivity. Qed.

Lemma ver_eqb_eq a b : ver_eqb a b = true <-> a = b.
Proof.
  destruct a as [n|n k], b as [m|m j]; cbn [ver_eqb]; split; intros H; try discriminate.
  - apply Nat.eqb_eq in H. subst. reflexivity.
  - inversion H. apply Nat.eqb_refl.
  - apply andb_true_iff in H. destruct H as [H1 H2]. apply Nat.eqb_eq in H1, H2. subst. reflexivity.
  - inversion H. rewrite !Nat.eqb_refl. reflexivity.
Qed.
Lemma ver_eqb_refl a : ver_eqb a a = true.
Proof. apply ver_eqb_eq. reflexivity. Qed.

Lemma vlookup_cons_eq {A : Type} v (a : A) l : vlookup v ((v, a) :: l) = Some a.
Proof. cbn [vlookup]. rewrite ver_eqb_refl. reflexivity. Qed.

Lemma vlookup_cons_neq {A : Type} v w (a : A) l : w <> v -> vlookup w ((v, a) :: l) = vlookup w l.
Proof.
  intros Hne. cbn [vlookup]. destruct (ver_eqb v w) eqn:E; [|reflexivity].
  apply ver_eqb_eq in E. congruence.
Qed.

Lemma ver_eq_dec (a b : ver) : {a = b} + {a <> b}.
Proof. destruct (ver_eqb a b) eqn:E; [left; apply ver_eqb_eq; exact E|right; intros ->; rewrite ver_eqb_refl in E; discriminate]. Qed.

Lemma deps_add_dep_keep d n h m x :
  In x (match vlookup m d with Some l => l | None => [] end) ->
  In x (match vlookup m (add_dep d n h) with Some l => l | None => [] end).
Proof.
  intros Hin. unfold add_dep. destruct (mem h (match vlookup n d with Some l => l | None => [] end)); [exact Hin|].
  destruct (ver_eq_dec m n) as [->|Hne].
  - rewrite vlookup_cons_eq. apply in_or_app. left. exact Hin.
  - rewrite (vlookup_cons_neq n m _ _ Hne). exact Hin.
Qed.

Lemma deps_add_dep_new d n h :
  In h (match vlookup n (add_dep d n h) with Some l => l | None => [] end).
Proof.
  unfold add_dep. destruct (mem h (match vlookup n d with Some l => l | None => [] end)) eqn:E.
  - apply mem_In in E. exact E.
  - rewrite vlookup_cons_eq. apply in_or_app. right. left; reflexivity.
Qed.

Lemma deps_fold_keep vs : forall d h m x,
  In x (match vlookup m d with Some l => l | None => [] end) ->
  In x (match vlookup m (fold_left (fun d v => add_dep d v h) vs d) with Some l => l | None => [] end).
Proof.
  induction vs as [|v r IH]; intros d h m x Hin; cbn [fold_left]; [exact Hin|].
  apply IH. apply deps_add_dep_keep. exact Hin.
Qed.

Lemma deps_fold_new vs : forall d h v,
  In v vs ->
  In h (match vlookup v (fold_left (fun d v => add_dep d v h) vs d) with Some l => l | None => [] end).
Proof.
  induction vs as [|v0 r IH]; intros d h v Hin; [contradiction|]. cbn [fold_left].
  destruct Hin as [->|Hin].
  - apply deps_fold_keep. apply deps_add_dep_new.
  - apply IH. exact Hin.
Qed.

Lemma deps_of_write_keep st h k vs m x : In x (deps_of st m) -> In x (deps_of (write_field st h k vs) m).
Proof. unfold deps_of, write_field. cbn [deps]. apply deps_fold_keep. Qed.

Lemma deps_of_write_new st h k vs v : In v vs -> In h (deps_of (write_field st h k vs) v).
Proof. unfold deps_of, write_field. cbn [deps]. apply deps_fold_new. Qed.

(* ---------- the invariant --------------------------------------------------------------------------- *)

(* The clauses about fields are guarded by a predicate P on the point index: P = "any index" for the plain
   model; the extended model (Model/FactoryX.v) keeps what Init-time lookups return in pseudo-fields 100, 101, ...
   which are NOT injection points (no dependent is recorded for them), and takes P k := k < 100. *)
Record InvG (P : nat -> Prop) (st : fstate) : Prop := mkInv {
  (* early entries belong to names in creation, names in creation have a cache entry and are unpublished *)
  i_early_creating : forall m, isSome (alookup m (L2 (reg st))) || isSome (alookup m (L3 (reg st))) = true ->
                               In m (creating (reg st));
  i_creating_cached : forall m, In m (creating (reg st)) -> cached (reg st) m = true;
  i_creating_unpub : forall m, In m (creating (reg st)) -> alookup m (L1 (reg st)) = None;
  (* cache entries hold versions of their own name *)
  i_owner1 : forall m v, alookup m (L1 (reg st)) = Some v -> owner v = m;
  i_owner2 : forall m v, alookup m (L2 (reg st)) = Some v -> owner v = m;
  (* every handed-out version is current *)
  i_current : forall h k v, P k -> In v (field_of st h k) -> cur (reg st) (owner v) = Some v;
  (* holders are recorded as dependents *)
  i_deps : forall h k v, P k -> In v (field_of st h k) -> In h (deps_of st v);
  (* a holder still in creation holds unpublished versions only of components at or below itself *)
  i_stack : forall h k v, P k -> In v (field_of st h k) -> alookup (owner v) (L1 (reg st)) = None ->
                          In h (creating (reg st)) -> at_or_above h (owner v) (creating (reg st));
  (* no holder is ever handed its own instance *)
  i_noself : forall h k v, P k -> In v (field_of st h k) -> is_self h v = false
}.

Definition anyk : nat -> Prop := fun _ => True.
Arguments i_early_creating {P}. Arguments i_creating_cached {P}. Arguments i_creating_unpub {P}.
Arguments i_owner1 {P}. Arguments i_owner2 {P}. Arguments i_current {P}. Arguments i_deps {P}.
Arguments i_stack {P}. Arguments i_noself {P}.

Section Guarded.
Context {P : nat -> Prop}.
Local Notation Inv := (InvG P).


Definition same_core (st st' : fstate) : Prop :=
  reg st' = reg st /\ flds st' = flds st /\ deps st' = deps st.

Lemma same_core_refl st : same_core st st. Proof. repeat split. Qed.
Lemma same_core_trans a b c : same_core a b -> same_core b c -> same_core a c.
Proof. intros [H1 [H2 H3]] [H4 [H5 H6]]. repeat split; congruence. Qed.

Lemma Inv_same_core st st' : same_core st st' -> Inv st -> Inv st'.
Proof.
  intros [Hr [Hf Hd]] [I1 I2 I3 I4 I5 I6 I7 I8 I9].
  assert (Hfo : forall h k, field_of st' h k = field_of st h k) by (intros; unfold field_of; rewrite Hf; reflexivity).
  assert (Hdo : forall m, deps_of st' m = deps_of st m) by (intros; unfold deps_of; rewrite Hd; reflexivity).
  constructor; rewrite ?Hr; intros; rewrite ?Hfo in *; rewrite ?Hdo in *; eauto.
Qed.

Lemma Inv_finit : Inv finit.
Proof.
  constructor; cbn; intros; try discriminate; try contradiction.
Qed.

(* ---------- helpers keep registry, fields and dependents ------------------------------------------- *)

Definition core2 {X} (st : fstate) (r : res (fstate * X)) : Prop :=
  match r with Ok (st', _) => same_core st st' | Fail _ _ => True end.
Definition core1 (st : fstate) (r : res fstate) : Prop :=
  match r with Ok st' => same_core st st' | Fail _ _ => True end.

Lemma early_chain_core s n ps : forall st0 st cur, same_core st0 st -> core2 st0 (early_chain s n ps st cur).
Proof.
  induction ps as [|p r IH]; intros st0 st cur Hc; cbn [early_chain]; [exact Hc|].
  destruct (proc_of (s_pop s) p) as [[k|early after]|]; [apply IH; exact Hc| |apply IH; exact Hc].
  destruct (faulty s p PhEarly n); [exact I|].
  destruct (alookup n early) as [[|]|]; apply IH; exact Hc.
Qed.

Lemma early_chain_owner s n ps : forall st cur st' v,
  owner cur = n -> early_chain s n ps st cur = Ok (st', v) -> owner v = n.
Proof.
  induction ps as [|p r IH]; intros st cur st' v Ho; cbn [early_chain]; [intros H; injection H as _ <-; exact Ho|].
  destruct (proc_of (s_pop s) p) as [[k|early after]|]; [apply IH; exact Ho| |apply IH; exact Ho].
  destruct (faulty s p PhEarly n); [discriminate|].
  destruct (alookup n early) as [[|]|]; try (apply IH; exact Ho).
  cbn [new_proxy]. apply IH. reflexivity.
Qed.

Lemma before_chain_core s n c ps : forall st0 st, same_core st0 st -> core1 st0 (before_chain s n c ps st).
Proof.
  induction ps as [|p r IH]; intros st0 st Hc; cbn [before_chain]; [exact Hc|].
  destruct (proc_of (s_pop s) p) as [[k|early after]|]; [apply IH; exact Hc| |apply IH; exact Hc].
  destruct (faulty s p PhBefore n); [exact I|apply IH; exact Hc].
Qed.

Lemma after_chain_core s n ps : forall st0 st cur, same_core st0 st -> core2 st0 (after_chain s n ps st cur).
Proof.
  induction ps as [|p r IH]; intros st0 st cur Hc; cbn [after_chain]; [exact Hc|].
  destruct (proc_of (s_pop s) p) as [[k|early after]|]; [apply IH; exact Hc| |apply IH; exact Hc].
  destruct (faulty s p PhAfter n); [exact I|].
  destruct (alookup n after) as [[| | |]|]; try (apply IH; exact Hc).
  - destruct (klookup (p, n) (earlymade (add_log st (EvAfter p n)))); apply IH; exact Hc.
  - destruct (klookup (p, n) (earlymade (add_log st (EvAfter p n)))); apply IH; exact Hc.
Qed.

Definition owned (n : name) (o : option ver) : Prop := match o with Some v => owner v = n | None => True end.

Lemma after_chain_owner s n ps : forall st cur st' w,
  owned n cur -> after_chain s n ps st cur = Ok (st', w) -> owned n w.
Proof.
  induction ps as [|p r IH]; intros st cur st' w Ho; cbn [after_chain]; [intros H; injection H as _ <-; exact Ho|].
  destruct (proc_of (s_pop s) p) as [[k|early after]|]; [apply IH; exact Ho| |apply IH; exact Ho].
  destruct (faulty s p PhAfter n); [discriminate|].
  destruct (alookup n after) as [[| | |]|]; try (apply IH; exact Ho).
  - cbn [new_proxy]. apply IH. reflexivity.
  - destruct (klookup (p, n) (earlymade (add_log st (EvAfter p n)))); apply IH; [reflexivity|exact Ho].
  - destruct (klookup (p, n) (earlymade (add_log st (EvAfter p n)))); [apply IH; reflexivity|].
    cbn [new_proxy]. apply IH. reflexivity.
Qed.

Lemma init_methods_core n c st0 st : same_core st0 st -> core1 st0 (init_methods n c st).
Proof.
  intros Hc. unfold init_methods.
  destruct (c_aps c) as [[|]|]; [exact I| |]; (destruct (c_init c) as [[|]|]; [exact I|exact Hc|exact Hc]).
Qed.

Lemma initialize_spec s st n c st' w :
  initialize s st n c = Ok (st', w) -> same_core st st' /\ owned n w.
Proof.
  unfold initialize.
  pose proof (before_chain_core s n c (active st) st st (same_core_refl st)) as Hb.
  destruct (before_chain s n c (active st) st) as [st1|k st1]; [|discriminate]. cbn [core1] in Hb.
  pose proof (init_methods_core n c st st1 Hb) as Hi.
  destruct (init_methods n c st1) as [st2|k st2]; [|discriminate]. cbn [core1] in Hi.
  intros H. pose proof (after_chain_core s n (active st2) st st2 None Hi) as Ha. rewrite H in Ha.
  split; [exact Ha|]. eapply after_chain_owner; [|exact H]. exact I.
Qed.

(* ---------- cur under the registry transitions ------------------------------------------------------- *)

Lemma cur_promote_eq r n v : alookup n (L1 r) = None -> cur (get_promote r n v) n = Some v.
Proof. intros H. unfold cur, get_promote. cbn [L1 L2]. rewrite H, alookup_aset_eq. reflexivity. Qed.
Lemma cur_promote_neq r n v m : m <> n -> cur (get_promote r n v) m = cur r m.
Proof. intros H. unfold cur, get_promote. cbn [L1 L2]. rewrite (alookup_aset_neq n m v _ H). reflexivity. Qed.
Lemma cur_publish_eq r n v : cur (end_create_ok r n v) n = Some v.
Proof. unfold cur, end_create_ok, add_singleton. cbn [L1 L2]. rewrite alookup_aset_eq. reflexivity. Qed.
Lemma cur_publish_neq r n v m : m <> n -> cur (end_create_ok r n v) m = cur r m.
Proof.
  intros H. unfold cur, end_create_ok, add_singleton. cbn [L1 L2].
  rewrite (alookup_aset_neq n m v _ H), (alookup_aremove_neq n m _ H). reflexivity.
Qed.

(* ---------- the invariant under the registry transitions ------------------------------------------ *)

Lemma Inv_promote st n v f :
  Inv st -> alookup n (L1 (reg st)) = None -> alookup n (L2 (reg st)) = None ->
  alookup n (L3 (reg st)) = Some f -> owner v = n ->
  Inv (set_reg st (get_promote (reg st) n v)).
Proof.
  intros [I1 I2 I3 I4 I5 I6 I7 I8 I9] H1 H2 H3 Ho.
  assert (Hnc : In n (creating (reg st))) by (apply I1; rewrite H3; cbn; apply orb_true_r).
  constructor; cbn [reg set_reg get_promote L1 L2 L3 creating].
  - intros m Hm. destruct (Nat.eq_dec m n) as [->|Hne]; [exact Hnc|].
    apply I1. rewrite (alookup_aset_neq n m v _ Hne), (alookup_aremove_neq n m _ Hne) in Hm. exact Hm.
  - intros m Hm. apply (mono_get_promote (reg st) n v). apply I2. exact Hm.
  - exact I3.
  - exact I4.
  - intros m w Hw. destruct (Nat.eq_dec m n) as [->|Hne].
    + rewrite alookup_aset_eq in Hw. injection Hw as <-. exact Ho.
    + rewrite (alookup_aset_neq n m v _ Hne) in Hw. apply I5. exact Hw.
  - intros h k w Hp Hw. change (field_of (set_reg st (get_promote (reg st) n v)) h k) with (field_of st h k) in Hw.
    pose proof (I6 h k w Hp Hw) as Hc. destruct (Nat.eq_dec (owner w) n) as [He|Hne].
    + rewrite He in Hc. unfold cur in Hc. rewrite H1, H2 in Hc. discriminate.
    + rewrite (cur_promote_neq (reg st) n v _ Hne). exact Hc.
  - intros h k w Hp Hw. change (field_of (set_reg st (get_promote (reg st) n v)) h k) with (field_of st h k) in Hw.
    change (deps_of (set_reg st (get_promote (reg st) n v)) w) with (deps_of st w). eapply I7; [exact Hp|exact Hw].
  - intros h k w Hp Hw. change (field_of (set_reg st (get_promote (reg st) n v)) h k) with (field_of st h k) in Hw.
    apply (I8 h k w Hp Hw).
  - intros h k w Hp Hw. apply (I9 h k w Hp Hw).
Qed.

Lemma Inv_push st n :
  Inv st -> cached (reg st) n = false ->
  set_add n (creating (reg st)) = n :: creating (reg st) /\
  Inv (set_reg st (add_factory (mkR (L1 (reg st)) (L2 (reg st)) (L3 (reg st)) (n :: creating (reg st))) n n)).
Proof.
  intros [I1 I2 I3 I4 I5 I6 I7 I8 I9] Hunc.
  assert (Hnin : ~ In n (creating (reg st))) by (intros H; rewrite (I2 n H) in Hunc; discriminate).
  assert (Hl1 : alookup n (L1 (reg st)) = None).
  { unfold cached in Hunc. destruct (alookup n (L1 (reg st))); [discriminate|reflexivity]. }
  split.
  { unfold set_add. destruct (mem n (creating (reg st))) eqn:E; [apply mem_In in E; contradiction|reflexivity]. }
  constructor; cbn [reg set_reg add_factory L1 L2 L3 creating].
  - intros m Hm. destruct (Nat.eq_dec m n) as [->|Hne]; [left; reflexivity|]. right. apply I1.
    rewrite (alookup_aset_neq n m n _ Hne) in Hm. exact Hm.
  - intros m [<-|Hm].
    + apply (cached_add_factory (mkR (L1 (reg st)) (L2 (reg st)) (L3 (reg st)) (n :: creating (reg st))) n n).
    + apply (mono_add_factory (mkR (L1 (reg st)) (L2 (reg st)) (L3 (reg st)) (n :: creating (reg st))) n n).
      rewrite <- (I2 m Hm). reflexivity.
  - intros m [<-|Hm]; [exact Hl1|apply I3; exact Hm].
  - exact I4.
  - exact I5.
  - intros h k w Hp Hw. apply (I6 h k w Hp Hw).
  - intros h k w Hp Hw. apply (I7 h k w Hp Hw).
  - intros h k w Hp Hw HL1 Hin. pose proof (I6 h k w Hp Hw) as Hc.
    destruct Hin as [<-|Hin]; [left; reflexivity|]. right. split.
    + intros Heq. unfold cur in Hc. rewrite HL1 in Hc.
      assert (Hm : In (owner w) (creating (reg st))) by (apply I1; rewrite Hc; reflexivity).
      rewrite <- Heq in Hm. contradiction.
    + apply (I8 h k w Hp Hw HL1 Hin).
  - intros h k w Hp Hw. apply (I9 h k w Hp Hw).
Qed.

Lemma Inv_publish st n cr v :
  Inv st -> creating (reg st) = n :: cr -> ~ In n cr -> owner v = n ->
  (forall h k w, P k -> In w (field_of st h k) -> owner w = n -> w = v) ->
  Inv (set_reg st (end_create_ok (reg st) n v)) /\
  creating (end_create_ok (reg st) n v) = cr.
Proof.
  intros [I1 I2 I3 I4 I5 I6 I7 I8 I9] Hcr Hnin Ho Hall.
  assert (Hcr' : creating (end_create_ok (reg st) n v) = cr).
  { unfold end_create_ok, add_singleton. cbn [creating]. rewrite Hcr. apply set_remove_head. exact Hnin. }
  split; [|exact Hcr'].
  constructor; rewrite ?reg_set_reg; rewrite ?Hcr'.
  - intros m Hm. unfold end_create_ok, add_singleton in Hm. cbn [L2 L3] in Hm.
    destruct (Nat.eq_dec m n) as [->|Hne].
    + rewrite !alookup_aremove_eq in Hm. discriminate.
    + rewrite !(alookup_aremove_neq n m _ Hne) in Hm. pose proof (I1 m Hm) as Hin. rewrite Hcr in Hin.
      destruct Hin as [Heq|Hin]; [congruence|exact Hin].
  - intros m Hm. apply mono_end_create_ok. apply I2. rewrite Hcr. right; exact Hm.
  - intros m Hm. assert (Hne : m <> n) by (intros ->; contradiction).
    unfold end_create_ok, add_singleton. cbn [L1]. rewrite (alookup_aset_neq n m v _ Hne).
    apply I3. rewrite Hcr. right; exact Hm.
  - intros m w Hw. unfold end_create_ok, add_singleton in Hw. cbn [L1] in Hw.
    destruct (Nat.eq_dec m n) as [->|Hne].
    + rewrite alookup_aset_eq in Hw. injection Hw as <-. exact Ho.
    + rewrite (alookup_aset_neq n m v _ Hne) in Hw. apply I4. exact Hw.
  - intros m w Hw. unfold end_create_ok, add_singleton in Hw. cbn [L2] in Hw.
    destruct (Nat.eq_dec m n) as [->|Hne].
    + rewrite alookup_aremove_eq in Hw. discriminate.
    + rewrite (alookup_aremove_neq n m _ Hne) in Hw. apply I5. exact Hw.
  - intros h k w Hp Hw. change (field_of (set_reg st (end_create_ok (reg st) n v)) h k) with (field_of st h k) in Hw.
    destruct (Nat.eq_dec (owner w) n) as [He|Hne].
    + rewrite (Hall h k w Hp Hw He), Ho. apply cur_publish_eq.
    + rewrite (cur_publish_neq (reg st) n v _ Hne). apply (I6 h k w Hp Hw).
  - intros h k w Hp Hw. change (field_of (set_reg st (end_create_ok (reg st) n v)) h k) with (field_of st h k) in Hw.
    change (deps_of (set_reg st (end_create_ok (reg st) n v)) w) with (deps_of st w). eapply I7; [exact Hp|exact Hw].
  - intros h k w Hp Hw HL1 Hin.
    change (field_of (set_reg st (end_create_ok (reg st) n v)) h k) with (field_of st h k) in Hw.
    assert (Hon : owner w <> n).
    { intros He. unfold end_create_ok, add_singleton in HL1. cbn [L1] in HL1. rewrite He, alookup_aset_eq in HL1. discriminate. }
    assert (Hhn : h <> n) by (intros ->; contradiction).
    unfold end_create_ok, add_singleton in HL1. cbn [L1] in HL1. rewrite (alookup_aset_neq n _ v _ Hon) in HL1.
    assert (Hin' : In h (creating (reg st))) by (rewrite Hcr; right; exact Hin).
    pose proof (I8 h k w Hp Hw HL1 Hin') as Ha. rewrite Hcr in Ha.
    rewrite <- (set_remove_head n cr Hnin). apply at_or_above_remove; [exact Hhn|exact Ha].
  - intros h k w Hp Hw. apply (I9 h k w Hp Hw).
Qed.

(* a creation that neither registers an early factory nor calls back into the factory (a post-processor
   short-circuits instantiation, Model/FactoryX.v): push, callbacks, publish — seen as one step *)
Lemma Inv_publish_fresh st st2 n v :
  Inv st -> cached (reg st) n = false ->
  reg st2 = mkR (L1 (reg st)) (L2 (reg st)) (L3 (reg st)) (n :: creating (reg st)) ->
  flds st2 = flds st -> deps st2 = deps st -> owner v = n ->
  Inv (set_reg st2 (end_create_ok (reg st2) n v)) /\
  creating (end_create_ok (reg st2) n v) = creating (reg st).
Proof.
  intros [I1 I2 I3 I4 I5 I6 I7 I8 I9] Hunc Hr2 Hf Hd Ho.
  assert (Hnin : ~ In n (creating (reg st))) by (intros H; rewrite (I2 n H) in Hunc; discriminate).
  assert (Hl : alookup n (L1 (reg st)) = None /\ alookup n (L2 (reg st)) = None).
  { unfold cached in Hunc. destruct (alookup n (L1 (reg st))); [discriminate|].
    destruct (alookup n (L2 (reg st))); [cbn in Hunc; discriminate|]. split; reflexivity. }
  destruct Hl as [Hl1 Hl2].
  assert (Hcr' : creating (end_create_ok (reg st2) n v) = creating (reg st)).
  { unfold end_create_ok, add_singleton. cbn [creating]. rewrite Hr2. cbn [creating]. apply set_remove_head. exact Hnin. }
  assert (Hfo : forall h k, field_of (set_reg st2 (end_create_ok (reg st2) n v)) h k = field_of st h k).
  { intros h k. unfold field_of. cbn [flds set_reg]. rewrite Hf. reflexivity. }
  assert (Hdo : forall w, deps_of (set_reg st2 (end_create_ok (reg st2) n v)) w = deps_of st w).
  { intros w. unfold deps_of. cbn [deps set_reg]. rewrite Hd. reflexivity. }
  assert (Hcur : forall m, m <> n -> cur (end_create_ok (reg st2) n v) m = cur (reg st) m).
  { intros m Hne. rewrite (cur_publish_neq (reg st2) n v m Hne). unfold cur. rewrite Hr2. reflexivity. }
  assert (Hfn : forall h k w, P k -> In w (field_of st h k) -> owner w <> n).
  { intros h k w Hp Hw He. pose proof (I6 h k w Hp Hw) as Hc. rewrite He in Hc. unfold cur in Hc.
    rewrite Hl1, Hl2 in Hc. discriminate. }
  split; [|exact Hcr'].
  constructor; rewrite ?reg_set_reg; rewrite ?Hcr'.
  - intros m Hm. unfold end_create_ok, add_singleton in Hm. cbn [L2 L3] in Hm. rewrite Hr2 in Hm. cbn [L2 L3] in Hm.
    destruct (Nat.eq_dec m n) as [->|Hne].
    + rewrite !alookup_aremove_eq in Hm. discriminate.
    + rewrite !(alookup_aremove_neq n m _ Hne) in Hm. apply I1. exact Hm.
  - intros m Hm. apply mono_end_create_ok. pose proof (I2 m Hm) as Hc. unfold cached in *. rewrite Hr2. exact Hc.
  - intros m Hm. assert (Hne : m <> n) by (intros ->; contradiction).
    unfold end_create_ok, add_singleton. cbn [L1]. rewrite (alookup_aset_neq n m v _ Hne). rewrite Hr2. cbn [L1].
    apply I3. exact Hm.
  - intros m w Hw. unfold end_create_ok, add_singleton in Hw. cbn [L1] in Hw.
    destruct (Nat.eq_dec m n) as [->|Hne].
    + rewrite alookup_aset_eq in Hw. injection Hw as <-. exact Ho.
    + rewrite (alookup_aset_neq n m v _ Hne) in Hw. rewrite Hr2 in Hw. apply I4. exact Hw.
  - intros m w Hw. unfold end_create_ok, add_singleton in Hw. cbn [L2] in Hw.
    destruct (Nat.eq_dec m n) as [->|Hne].
    + rewrite alookup_aremove_eq in Hw. discriminate.
    + rewrite (alookup_aremove_neq n m _ Hne) in Hw. rewrite Hr2 in Hw. apply I5. exact Hw.
  - intros h k w Hp Hw. rewrite Hfo in Hw. rewrite (Hcur _ (Hfn h k w Hp Hw)). apply (I6 h k w Hp Hw).
  - intros h k w Hp Hw. rewrite Hfo in Hw. rewrite Hdo. apply (I7 h k w Hp Hw).
  - intros h k w Hp Hw HL1 Hin. rewrite Hfo in Hw. pose proof (Hfn h k w Hp Hw) as Hon.
    unfold end_create_ok, add_singleton in HL1. cbn [L1] in HL1. rewrite (alookup_aset_neq n _ v _ Hon) in HL1.
    rewrite Hr2 in HL1. cbn [L1] in HL1. apply (I8 h k w Hp Hw HL1 Hin).
  - intros h k w Hp Hw. rewrite Hfo in Hw. apply (I9 h k w Hp Hw).
Qed.

(* ---------- the specification of doGetComponent, by induction on fuel -------------------------------- *)

Lemma cur_owner st m v : Inv st -> cur (reg st) m = Some v -> owner v = m.
Proof.
  intros HI Hc. unfold cur in Hc. destruct (alookup m (L1 (reg st))) as [w|] eqn:E.
  - inversion Hc; subst. eapply i_owner1; eauto.
  - eapply i_owner2; eauto.
Qed.

Lemma key_eqb_true a b : key_eqb a b = true -> a = b.
Proof.
  destruct a as [h k], b as [h' k']. unfold key_eqb. cbn [fst snd]. rewrite andb_true_iff, !Nat.eqb_eq.
  intros [-> ->]. reflexivity.
Qed.

Definition current (st : fstate) (v : ver) : Prop := cur (reg st) (owner v) = Some v.

Lemma Inv_write st h k vs cr :
  Inv st -> creating (reg st) = h :: cr -> Forall (current st) vs ->
  (forall v, In v vs -> is_self h v = false) -> Inv (write_field st h k vs).
Proof.
  intros HI Hcr Hall Hns. destruct HI as [I1 I2 I3 I4 I5 I6 I7 I8 I9].
  rewrite Forall_forall in Hall.
  constructor; rewrite ?reg_write_field; try assumption.
  - intros h' k' v Hp Hv. rewrite field_of_write in Hv. destruct (key_eqb (h, k) (h', k')) eqn:E.
    + apply Hall. exact Hv.
    + apply (I6 h' k' v Hp Hv).
  - intros h' k' v Hp Hv. rewrite field_of_write in Hv. destruct (key_eqb (h, k) (h', k')) eqn:E.
    + apply key_eqb_true in E. inversion E; subst. apply deps_of_write_new. exact Hv.
    + apply deps_of_write_keep. apply (I7 h' k' v Hp Hv).
  - intros h' k' v Hp Hv HL Hin. rewrite field_of_write in Hv. destruct (key_eqb (h, k) (h', k')) eqn:E.
    + apply key_eqb_true in E. inversion E; subst. rewrite Hcr. left; reflexivity.
    + apply (I8 h' k' v Hp Hv HL Hin).
  - intros h' k' v Hp Hv. rewrite field_of_write in Hv. destruct (key_eqb (h, k) (h', k')) eqn:E.
    + apply key_eqb_true in E. inversion E; subst. apply Hns. exact Hv.
    + apply (I9 h' k' v Hp Hv).
Qed.

Lemma get_lookup_hit_cur r n early v : get_lookup r n early = Hit v -> cur r n = Some v.
Proof.
  unfold get_lookup, cur. destruct (alookup n (L1 r)) as [w|]; [intros H; inversion H; reflexivity|].
  destruct (alookup n (L2 r)) as [e|]; [intros H; inversion H; reflexivity|].
  destruct early; [destruct (alookup n (L3 r))|]; discriminate.
Qed.

Lemma get_lookup_need r n early f : get_lookup r n early = NeedFactory f ->
  alookup n (L1 r) = None /\ alookup n (L2 r) = None /\ alookup n (L3 r) = Some f.
Proof.
  unfold get_lookup. destruct (alookup n (L1 r)); [discriminate|]. destruct (alookup n (L2 r)); [discriminate|].
  destruct early; [|discriminate]. destruct (alookup n (L3 r)); [intros H; inversion H; auto|discriminate].
Qed.

Lemma get_lookup_false r n : get_lookup r n false =
  match cur r n with Some v => Hit v | None => Miss end.
Proof.
  unfold get_lookup, cur. destruct (alookup n (L1 r)); [reflexivity|]. destruct (alookup n (L2 r)); reflexivity.
Qed.

Lemma get_lookup_miss_true r n : get_lookup r n true = Miss ->
  alookup n (L1 r) = None /\ alookup n (L2 r) = None /\ alookup n (L3 r) = None.
Proof.
  unfold get_lookup. destruct (alookup n (L1 r)); [discriminate|]. destruct (alookup n (L2 r)); [discriminate|].
  destruct (alookup n (L3 r)); [discriminate|auto].
Qed.

Section Spec.
  Variable vt : variant.
  Hypothesis Hfix : fix_c03 vt = true.
  Variable s : scenario.

  Definition rec_specG (rec : fstate -> name -> res (fstate * ver)) : Prop :=
    forall st d st' v, Inv st -> rec st d = Ok (st', v) ->
      Inv st' /\ creating (reg st') = creating (reg st) /\ keeps (reg st) (reg st') /\ cur (reg st') d = Some v.

  Local Notation rec_spec := rec_specG.
  Variable rec : fstate -> name -> res (fstate * ver).
  Hypothesis Hrec : rec_spec rec.

  Lemma get_all_spec : forall cands st st' vs, Inv st -> get_all rec st cands = Ok (st', vs) ->
    Inv st' /\ creating (reg st') = creating (reg st) /\ keeps (reg st) (reg st') /\ Forall (current st') vs.
  Proof.
    induction cands as [|[d|] r IH]; intros st st' vs HI H; cbn [get_all] in H.
    - inversion H; subst. split; [exact HI|]. split; [reflexivity|]. split; [apply keeps_refl|constructor].
    - destruct (rec st d) as [[st1 v]|k st1] eqn:E; [|discriminate].
      destruct (Hrec st d st1 v HI E) as [HI1 [Hc1 [Hk1 Hv1]]].
      destruct (get_all rec st1 r) as [[st2 vs']|k st2] eqn:E2; [|discriminate].
      inversion H; subst st' vs.
      destruct (IH st1 st2 vs' HI1 E2) as [HI2 [Hc2 [Hk2 Hall]]].
      split; [exact HI2|]. split; [congruence|]. split; [eapply keeps_trans; eauto|].
      constructor; [|exact Hall]. unfold current.
      rewrite (cur_owner st1 d v HI1 Hv1). apply Hk2. exact Hv1.
    - discriminate.
  Qed.

  Lemma inject_spec st h k p vs st' cr :
    Inv st -> creating (reg st) = h :: cr -> Forall (current st) vs ->
    inject vt s st h k p vs = Ok st' -> Inv st' /\ reg st' = reg st.
  Proof.
    intros HI Hcr Hall. unfold inject.
    destruct vs as [|v0 r]; [destruct (pt_required p); [discriminate|intros H; inversion H; subst; auto]|].
    destruct (filter (fun v => negb (is_self h v)) (v0 :: r)) as [|w t] eqn:Ef;
      [destruct (pt_required p); [discriminate|intros H; inversion H; subst; auto]|].
    assert (Hsub : forall x, In x (w :: t) -> In x (v0 :: r)).
    { intros x Hx. rewrite <- Ef in Hx. apply filter_In in Hx. tauto. }
    assert (Hns : forall x, In x (w :: t) -> is_self h x = false).
    { intros x Hx. rewrite <- Ef in Hx. apply filter_In in Hx. destruct Hx as [_ Hx]. apply negb_true_iff in Hx. exact Hx. }
    destruct (forallb _ _).
    - intros H; inversion H; subst. split; [|reflexivity].
      eapply Inv_write; [exact HI|exact Hcr| |].
      + rewrite Forall_forall in *. intros x Hx. apply Hall.
        destruct (pt_slice p); [apply Hsub; exact Hx|]. destruct Hx as [<-|[]]. apply Hsub. left; reflexivity.
      + intros x Hx. apply Hns. destruct (pt_slice p); [exact Hx|]. destruct Hx as [<-|[]]. left; reflexivity.
    - destruct (fix_c07 vt); [|discriminate].
      destruct (pt_required p); [discriminate|intros H; inversion H; subst; auto].
  Qed.

  Lemma inject_points_spec h cr : forall ps k inj st st',
    Inv st -> creating (reg st) = h :: cr ->
    inject_points vt s rec h k ps inj st = Ok st' ->
    Inv st' /\ creating (reg st') = h :: cr /\ keeps (reg st) (reg st').
  Proof.
    induction ps as [|p ps' IH]; intros k inj st st' HI Hcr H; cbn [inject_points] in H.
    - inversion H; subst. split; [exact HI|]. split; [exact Hcr|apply keeps_refl].
    - destruct inj as [|i inj']; [inversion H; subst; split; [exact HI|split; [exact Hcr|apply keeps_refl]]|].
      destruct i as [|c0 c1].
      + apply (IH _ _ _ _ HI Hcr H).
      + destruct (get_all rec st (c0 :: c1)) as [[st1 vs]|k1 st1] eqn:E1; [|discriminate].
        destruct (get_all_spec _ _ _ _ HI E1) as [HI1 [Hc1 [Hk1 Hall]]].
        destruct (inject vt s st1 h k p vs) as [st2|k2 st2] eqn:E2; [|discriminate].
        assert (Hcr1 : creating (reg st1) = h :: cr) by congruence.
        destruct (inject_spec st1 h k p vs st2 cr HI1 Hcr1 Hall E2) as [HI2 Hr2].
        assert (Hcr2 : creating (reg st2) = h :: cr) by (rewrite Hr2; exact Hcr1).
        destruct (IH _ _ _ _ HI2 Hcr2 H) as [HI3 [Hc3 Hk3]].
        split; [exact HI3|]. split; [exact Hc3|].
        eapply keeps_trans; [exact Hk1|]. rewrite <- Hr2. exact Hk3.
  Qed.

  Lemma populate_spec st n c cr st' :
    Inv st -> creating (reg st) = n :: cr -> populate vt s rec st n c = Ok st' ->
    Inv st' /\ creating (reg st') = n :: cr /\ keeps (reg st) (reg st').
  Proof.
    intros HI Hcr. unfold populate.
    destruct (pipeline vt s n c (active st) st (cur_injs st n c)) as [[st1 inj]|k st1] eqn:E; [|discriminate].
    pose proof (pipeline_state _ _ _ _ _ _ _ _ _ E) as ->.
    intros H.
    assert (HI' : Inv (set_injs st n inj)) by (eapply Inv_same_core; [|exact HI]; repeat split).
    apply (inject_points_spec n cr _ _ _ _ _ HI' Hcr H).
  Qed.

  Lemma body_spec : rec_spec (body vt s rec).
  Proof.
    intros st n st' v HI H. unfold body, get_singleton in H.
    destruct (get_lookup (reg st) n true) as [hv|f|] eqn:EL.
    - (* found in L1 / L2 *)
      inversion H; subst. split; [exact HI|]. split; [reflexivity|]. split; [apply keeps_refl|].
      eapply get_lookup_hit_cur; exact EL.
    - (* early factory *)
      destruct (get_lookup_need _ _ _ _ EL) as [H1 [H2 H3]].
      unfold early_reference in H.
      destruct (early_chain s n (active st) st (VOrig n)) as [[st1 ev]|k st1] eqn:EE; [|discriminate].
      pose proof (early_chain_core s n (active st) st st (VOrig n) (same_core_refl st)) as Hc.
      rewrite EE in Hc. cbn [core2] in Hc.
      pose proof (early_chain_owner s n (active st) st (VOrig n) st1 ev eq_refl EE) as Ho.
      inversion H; subst st' v. destruct Hc as [Hr [Hf Hd]].
      assert (HI1 : Inv st1) by (eapply Inv_same_core; [|exact HI]; repeat split; assumption).
      split; [apply (Inv_promote st1 n ev f HI1); rewrite ?Hr; assumption|].
      cbn [reg set_reg get_promote creating]. rewrite Hr.
      split; [reflexivity|]. split.
      + intros m w Hm. destruct (Nat.eq_dec m n) as [->|Hne].
        * unfold cur in Hm. rewrite H1, H2 in Hm. discriminate.
        * rewrite (cur_promote_neq (reg st) n ev m Hne). exact Hm.
      + apply cur_promote_eq. exact H1.
    - (* not cached: create *)
      destruct (get_lookup_miss_true _ _ EL) as [H1 [H2 H3]].
      assert (Hunc : cached (reg st) n = false) by (unfold cached; rewrite H1, H2, H3; reflexivity).
      unfold begin_create in H. rewrite H1 in H.
      destruct (Inv_push st n HI Hunc) as [Hadd HI0].
      assert (Hnin : ~ In n (creating (reg st))).
      { intros Hin. rewrite (i_creating_cached st HI n Hin) in Hunc. discriminate. }
      rewrite Hadd in H. unfold create in H. cbn [scanned set_reg] in H.
      destruct (scanned st); [|discriminate].
      destruct (get_comp (s_pop s) n) as [c|]; [|discriminate].
      unfold do_create in H. cbn [reg set_reg] in H.
      set (st0 := set_reg
                    (set_reg st (mkR (L1 (reg st)) (L2 (reg st)) (L3 (reg st)) (n :: creating (reg st))))
                    (add_factory (mkR (L1 (reg st)) (L2 (reg st)) (L3 (reg st)) (n :: creating (reg st))) n n)) in *.
      assert (HI0' : Inv st0) by exact HI0.
      assert (Hcr0 : creating (reg st0) = n :: creating (reg st)) by reflexivity.
      destruct (populate vt s rec st0 n c) as [st1|k1 st1] eqn:EP; [|destruct k1; discriminate].
      destruct (populate_spec st0 n c _ st1 HI0' Hcr0 EP) as [HI1 [Hcr1 Hk1]].
      destruct (initialize s st1 n c) as [[st2 w]|k2 st2] eqn:EI; [|destruct k2; discriminate].
      destruct (initialize_spec s st1 n c st2 w EI) as [Hcore Hown].
      assert (HI2 : Inv st2) by (eapply Inv_same_core; eauto).
      assert (Hr2 : reg st2 = reg st1) by (destruct Hcore; assumption).
      assert (Hcr2 : creating (reg st2) = n :: creating (reg st)) by congruence.
      assert (HL1 : alookup n (L1 (reg st2)) = None).
      { apply (i_creating_unpub st2 HI2). rewrite Hcr2. left; reflexivity. }
      unfold get_singleton in H. rewrite get_lookup_false in H.
      (* the version that gets published and the reason why every holder already has it *)
      assert (Hpub : forall pv, owner pv = n ->
                (forall h k x, P k -> In x (field_of st2 h k) -> owner x = n -> x = pv) ->
                Inv (set_reg st2 (end_create_ok (reg st2) n pv)) /\
                creating (reg (set_reg st2 (end_create_ok (reg st2) n pv))) = creating (reg st) /\
                keeps (reg st) (reg (set_reg st2 (end_create_ok (reg st2) n pv))) /\
                cur (reg (set_reg st2 (end_create_ok (reg st2) n pv))) n = Some pv).
      { intros pv Hopv Hall.
        destruct (Inv_publish st2 n (creating (reg st)) pv HI2 Hcr2 Hnin Hopv Hall) as [HI3 Hcr3].
        split; [exact HI3|]. split; [exact Hcr3|]. split; [|apply cur_publish_eq].
        intros m x Hm. assert (Hne : m <> n).
        { intros ->. unfold cur in Hm. rewrite H1, H2 in Hm. discriminate. }
        cbn [reg set_reg]. rewrite (cur_publish_neq (reg st2) n pv m Hne). rewrite Hr2. apply Hk1.
        exact Hm. }
      destruct (cur (reg st2) n) as [e|] eqn:Ecur.
      + (* an early reference exists *)
        destruct w as [wv|].
        * destruct (stale_dependents vt st2 n e) as [|d0 dr] eqn:Est; [|discriminate].
          inversion H; subst st' v. apply Hpub; [exact Hown|].
          intros h k x Hp Hx Hox. exfalso.
          pose proof (i_deps st2 HI2 h k x Hp Hx) as Hdep.
          (* every handed-out version of n is the early reference e *)
          assert (Hxe : x = e).
          { pose proof (i_current st2 HI2 h k x Hp Hx) as Hc. rewrite Hox, Ecur in Hc. inversion Hc; reflexivity. }
          rewrite Hxe in Hdep.
          assert (Hnot : (if fix_c03 vt then Nat.eqb h n || negb (is_creating (reg st2) h)
                          else negb (is_creating (reg st2) h)) = false).
          { destruct (if fix_c03 vt then Nat.eqb h n || negb (is_creating (reg st2) h)
                      else negb (is_creating (reg st2) h)) eqn:Ep; [|reflexivity].
            assert (Hin : In h (stale_dependents vt st2 n e)).
            { unfold stale_dependents. apply filter_In. split; [apply in_or_app; left; exact Hdep|exact Ep]. }
            rewrite Est in Hin. contradiction. }
          rewrite Hfix in Hnot. apply orb_false_iff in Hnot. destruct Hnot as [Hhn Hcre].
          apply Nat.eqb_neq in Hhn. apply negb_false_iff in Hcre. unfold is_creating in Hcre. apply mem_In in Hcre.
          assert (HLo : alookup (owner x) (L1 (reg st2)) = None) by (rewrite Hox; exact HL1).
          pose proof (i_stack st2 HI2 h k x Hp Hx HLo Hcre) as Ha. rewrite Hcr2, Hox in Ha.
          cbn [at_or_above] in Ha. destruct Ha as [Ha|[Ha _]]; [congruence|contradiction].
        * inversion H; subst st' v. apply Hpub.
          -- eapply cur_owner; eauto.
          -- intros h k x Hp Hx Hox. pose proof (i_current st2 HI2 h k x Hp Hx) as Hc. rewrite Hox, Ecur in Hc.
             inversion Hc; reflexivity.
      + (* no early reference was requested: nobody holds any version of n *)
        assert (Hnone : forall pv h k x, P k -> In x (field_of st2 h k) -> owner x = n -> x = pv).
        { intros pv h k x Hp Hx Hox. pose proof (i_current st2 HI2 h k x Hp Hx) as Hc. rewrite Hox, Ecur in Hc. discriminate. }
        inversion H; subst st' v. apply Hpub; [|apply Hnone].
        destruct w as [wv|]; [exact Hown|reflexivity].
  Qed.
End Spec.

Theorem do_get_spec vt s : fix_c03 vt = true -> forall fuel, rec_specG (do_get vt s fuel).
Proof.
  intros Hfix. induction fuel as [|f IH]; intros st d st' v HI H; [discriminate|].
  cbn [do_get] in H. eapply (body_spec vt Hfix s (do_get vt s f) IH); eauto.
Qed.

(* ---------- lifted to a whole start ------------------------------------------------------------------ *)

Definition topG (st : fstate) : Prop := Inv st /\ creating (reg st) = [].
Local Notation top := topG.

Lemma top_do_get vt s fuel st n st' v :
  fix_c03 vt = true -> top st -> do_get vt s fuel st n = Ok (st', v) -> top st' /\ cur (reg st') n = Some v.
Proof.
  intros Hfix [HI Hc] H. destruct (do_get_spec vt s Hfix fuel st n st' v HI H) as [HI' [Hc' [_ Hv]]].
  split; [split; [exact HI'|congruence]|exact Hv].
Qed.

Lemma top_same_core st st' : same_core st st' -> top st -> top st'.
Proof. intros Hc [HI Hcr]. split; [eapply Inv_same_core; eauto|]. destruct Hc as [Hr _]. rewrite Hr. exact Hcr. Qed.

Lemma prepare_loop_top vt s ps : fix_c03 vt = true -> forall st st',
  top st -> prepare_loop vt s ps st = Ok st' -> top st'.
Proof.
  intros Hfix. induction ps as [|p r IH]; intros st st' Ht H; cbn [prepare_loop] in H; [inversion H; subst; exact Ht|].
  destruct (is_lazy (s_pop s) p).
  - eapply IH; [|exact H]. eapply top_same_core; [|exact Ht]. repeat split.
  - destruct (do_get vt s (fuel_of s) st p) as [[st1 v]|k st1] eqn:E; [|discriminate].
    destruct (top_do_get vt s _ st p st1 v Hfix Ht E) as [Ht1 _].
    eapply IH; [|exact H]. eapply top_same_core; [|exact Ht1]. repeat split.
Qed.

Lemma get_each_top vt s ns : fix_c03 vt = true -> forall st st',
  top st -> get_each vt s ns st = Ok st' -> top st'.
Proof.
  intros Hfix. induction ns as [|n r IH]; intros st st' Ht H; cbn [get_each] in H; [inversion H; subst; exact Ht|].
  destruct (do_get vt s (fuel_of s) st n) as [[st1 v]|k st1] eqn:E; [|discriminate].
  destruct (top_do_get vt s _ st n st1 v Hfix Ht E) as [Ht1 _]. eapply IH; eauto.
Qed.

Lemma run_each_top s ns : forall st st', top st -> run_each s ns st = Ok st' -> top st'.
Proof.
  induction ns as [|n r IH]; intros st st' Ht H; cbn [run_each] in H; [inversion H; subst; exact Ht|].
  destruct (runner_fails s n); [discriminate|]. eapply IH; [|exact H].
  eapply top_same_core; [|exact Ht]. repeat split.
Qed.

Lemma top_finit : top finit.
Proof. split; [apply Inv_finit|reflexivity]. Qed.

Theorem run_core_top vt s st : fix_c03 vt = true -> run_core vt s = Ok st -> top st.
Proof.
  intros Hfix. unfold run_core. destruct (s_loader_fail s); [discriminate|].
  unfold prepare. destruct (prepare_loop vt s (sorted_procs s) (set_scanned finit)) as [st1|k st1] eqn:E1; [|discriminate].
  assert (Ht1 : top st1).
  { eapply prepare_loop_top; [exact Hfix| |exact E1]. eapply top_same_core; [|apply top_finit]. repeat split. }
  unfold refresh. destruct (get_each vt s (eager_names s) st1) as [st2|k st2] eqn:E2; [|discriminate].
  assert (Ht2 : top st2) by (eapply get_each_top; eauto).
  unfold call_runners. destruct (s_app s) as [[[a rp] cp]|]; [|intros H; inversion H; subst; exact Ht2].
  intros H. eapply run_each_top; eauto.
Qed.

(* at the top level (nothing in creation) "current" means "published" *)
Lemma top_cur_L1 st n v : top st -> cur (reg st) n = Some v -> alookup n (L1 (reg st)) = Some v.
Proof.
  intros [HI Hcr] Hc. unfold cur in Hc. destruct (alookup n (L1 (reg st))) as [w|]; [exact Hc|].
  exfalso. assert (Hin : In n (creating (reg st))) by (apply (i_early_creating st HI); rewrite Hc; reflexivity).
  rewrite Hcr in Hin. contradiction.
Qed.

Theorem run_published vt s st :
  fix_c03 vt = true -> run vt s = Ok st ->
  forall h k v, P k -> In v (field_of st h k) -> alookup (owner v) (L1 (reg st)) = Some v.
Proof.
  intros Hfix H h k v Hp Hv. pose proof (run_core_top vt (normalise vt s) st Hfix H) as Ht.
  apply (top_cur_L1 st _ v Ht). destruct Ht as [HI _]. apply (i_current st HI h k v Hp Hv).
Qed.

(* a published component is what every later lookup returns, without any state change *)
Lemma do_get_published vt s fuel st n v :
  alookup n (L1 (reg st)) = Some v -> do_get vt s (S fuel) st n = Ok (st, v).
Proof.
  intros H. cbn [do_get]. unfold body, get_singleton, get_lookup. rewrite H. reflexivity.
Qed.

(* every name Refresh asked for is published at the end, and stays published *)
Lemma keeps_L1 st st' n v : top st -> top st' -> keeps (reg st) (reg st') ->
  alookup n (L1 (reg st)) = Some v -> alookup n (L1 (reg st')) = Some v.
Proof.
  intros Ht Ht' Hk H. apply (top_cur_L1 st' n v Ht'). apply Hk. unfold cur. rewrite H. reflexivity.
Qed.

Lemma get_each_published vt s ns : fix_c03 vt = true -> forall st st',
  top st -> get_each vt s ns st = Ok st' ->
  keeps (reg st) (reg st') /\ forall n, In n ns -> exists v, alookup n (L1 (reg st')) = Some v.
Proof.
  intros Hfix. induction ns as [|n r IH]; intros st st' Ht H; cbn [get_each] in H.
  - inversion H; subst. split; [apply keeps_refl|intros n []].
  - destruct (do_get vt s (fuel_of s) st n) as [[st1 v]|k st1] eqn:E; [|discriminate].
    destruct Ht as [HI Hc].
    destruct (do_get_spec vt s Hfix _ st n st1 v HI E) as [HI1 [Hc1 [Hk1 Hv1]]].
    assert (Ht1 : top st1) by (split; [exact HI1|congruence]).
    destruct (IH st1 st' Ht1 H) as [Hk2 Hall]. split; [eapply keeps_trans; eauto|].
    intros m [<-|Hm]; [|apply Hall; exact Hm].
    exists v. assert (Ht' : top st') by (eapply get_each_top; eauto).
    apply (top_cur_L1 st' n v Ht'). apply Hk2. exact Hv1.
Qed.

End Guarded.

Notation Inv := (InvG anyk).
Notation rec_spec := (@rec_specG anyk).
Notation top := (@topG anyk).
