(* ConcMultiProofs.v — several overlapping Close calls (Model/ConcMulti.v).

   mreach_sel          what one call did in a product trace is a trace of the single-call model: every theorem about
                       `reach (close_prog n fails)` holds of every call of every interleaving of any number of calls
   multi_accepts_iff   the acceptor of observed multi-call histories accepts exactly the interleavings of accepted
                       single-call histories, each behind its invocation
   multi_accepts_runs  hence what is attributed to every call is the observable projection of a complete run of the model
   multi_accepts_product_run   and the whole history (invocations left out) is the observable projection, in the SAME
                       order, of a run of the product model in which every call has finished *)
From Coq Require Import List Arith Bool Lia.
From IocVerif Require Import Model.Conc Model.Merge Model.ConcMulti Proofs.ConcProofs Proofs.MergeProofs.
Import ListNotations.

Lemma sel_single_same : forall B k (x : B), sel k [(k, x)] = [x].
Proof. intros. rewrite sel_cons, Nat.eqb_refl. reflexivity. Qed.

Lemma sel_single_other : forall B j k (x : B), j <> k -> sel j [(k, x)] = [].
Proof. intros B j k x H. rewrite sel_cons. assert (E : Nat.eqb k j = false) by (apply Nat.eqb_neq; lia). rewrite E. reflexivity. Qed.

Lemma mreach_sel : forall prog m tr, mreach prog m tr -> forall j, reach prog (m j) (sel j tr).
Proof.
  intros prog m tr H. induction H as [|m tr k t c' a H IH Hs]; intros j.
  - apply reach_init.
  - rewrite sel_app. unfold upd. destruct (Nat.eqb j k) eqn:E.
    + apply Nat.eqb_eq in E. subst j. rewrite sel_single_same. eapply reach_step; [apply IH|exact Hs].
    + apply Nat.eqb_neq in E. rewrite sel_single_other by assumption. rewrite app_nil_r. apply IH.
Qed.

Lemma mrun_mreach : forall prog sched m tr0 m' tr,
  mreach prog m tr0 -> mrun m sched = Some (m', tr) -> mreach prog m' (tr0 ++ tr).
Proof.
  intros prog sched. induction sched as [|[k t] s IH]; intros m tr0 m' tr Hr Hrun; cbn in Hrun.
  - injection Hrun as <- <-. rewrite app_nil_r. assumption.
  - destruct (step (m k) t) as [[c' a]|] eqn:Hs; [|discriminate].
    destruct (mrun (upd m k c') s) as [[m2 tr2]|] eqn:Hr2; [|discriminate].
    injection Hrun as <- <-.
    replace (tr0 ++ (k, (t, a)) :: tr2) with ((tr0 ++ [(k, (t, a))]) ++ tr2) by (rewrite <- app_assoc; reflexivity).
    eapply IH; [|exact Hr2]. eapply mreach_step; eassumption.
Qed.

(* ---------- the acceptor of observed histories -------------------------------------------------------- *)

Lemma all_obs_spec : forall l h, all_obs l = Some h <-> l = map KObs h.
Proof.
  induction l as [|[|o] l IH]; intros h; cbn.
  - split; [intros H; injection H as <-; reflexivity|]. destruct h; [reflexivity|discriminate].
  - split; [discriminate|]. destruct h; discriminate.
  - destruct (all_obs l) as [h'|] eqn:E.
    + split.
      * intros H. injection H as <-. cbn. f_equal. apply IH. reflexivity.
      * destruct h as [|o' h]; [discriminate|]. cbn. intros H. injection H as -> Hl.
        apply IH in Hl. injection Hl as ->. reflexivity.
    + split; [discriminate|]. destruct h as [|o' h]; [discriminate|]. cbn. intros H. injection H as _ Hl.
      apply IH in Hl. discriminate.
Qed.

Lemma call_hist_spec : forall l h, call_hist l = Some h <-> l = wrap h.
Proof.
  intros l h. unfold call_hist, wrap. destruct l as [|[|o] l].
  - split; discriminate.
  - rewrite all_obs_spec. split; [intros ->; reflexivity|intros H; injection H as ->; reflexivity].
  - split; discriminate.
Qed.

Definition hist_of (h : list (nat * kev)) (k : nat) : list obs :=
  match call_hist (sel k h) with Some ho => ho | None => [] end.

Theorem multi_accepts_iff : forall K n fails h,
  multi_accepts K n fails h = true <->
  exists hs, length hs = K /\ Forall (fun ho => close_accepts n fails ho = true) hs /\ Merge (map wrap hs) h.
Proof.
  intros K n fails h. unfold multi_accepts. rewrite andb_true_iff, !forallb_forall. split.
  - intros [H1 H2]. exists (map (hist_of h) (seq 0 K)). split; [rewrite map_length, seq_length; reflexivity|]. split.
    + apply Forall_forall. intros ho Hin. apply in_map_iff in Hin. destruct Hin as [k [<- Hk]].
      specialize (H2 k Hk). unfold hist_of. destruct (call_hist (sel k h)); [assumption|discriminate].
    + apply P_Merge. split.
      * intros e He. rewrite !map_length, seq_length. apply Nat.ltb_lt. apply H1. assumption.
      * intros j Hj. rewrite !map_length, seq_length in Hj.
        rewrite (nth_indep _ [] (wrap [])) by (rewrite !map_length, seq_length; assumption).
        rewrite map_nth. rewrite (nth_indep _ [] (hist_of h 0)) by (rewrite map_length, seq_length; assumption).
        rewrite map_nth, seq_nth by assumption. cbn [plus].
        assert (Hin : In j (seq 0 K)) by (apply in_seq; lia). specialize (H2 j Hin). unfold hist_of.
        destruct (call_hist (sel j h)) as [ho|] eqn:E; [|discriminate]. apply call_hist_spec. assumption.
  - intros [hs [Hlen [Hall HM]]]. apply Merge_P in HM. destruct HM as [M1 M2]. rewrite map_length, Hlen in M1, M2. split.
    + intros e He. apply Nat.ltb_lt. apply M1. assumption.
    + intros k Hk. apply in_seq in Hk. assert (Hk' : k < K) by lia. specialize (M2 k Hk').
      rewrite (nth_indep _ [] (wrap [])) in M2 by (rewrite map_length, Hlen; assumption).
      rewrite map_nth in M2. apply call_hist_spec in M2. rewrite M2.
      rewrite Forall_forall in Hall. apply Hall. apply nth_In. lia.
Qed.

(* what is attributed to every call is the observable projection of a complete run of the single-call model *)
Theorem multi_accepts_runs : forall K n fails h, multi_accepts K n fails h = true ->
  forall k, k < K -> exists ho sched c tr,
    sel k h = wrap ho /\ run (init (close_prog n fails)) sched = Some (c, tr) /\ obs_of tr = ho
    /\ forall t, t <= n -> thr c t = [].
Proof.
  intros K n fails h H k Hk. unfold multi_accepts in H. rewrite andb_true_iff, !forallb_forall in H.
  destruct H as [_ H2]. assert (Hin : In k (seq 0 K)) by (apply in_seq; lia). specialize (H2 k Hin).
  destruct (call_hist (sel k h)) as [ho|] eqn:E; [|discriminate]. apply call_hist_spec in E.
  destruct (close_accepts_sound n fails ho H2) as [sched [c [tr [Hrun [Hobs Hfin]]]]].
  exists ho, sched, c, tr. repeat split; assumption.
Qed.

(* ---------- an accepted history is the observable projection, in the same order, of a product run ------ *)

Definition finished (n : nat) (c : cfg) : Prop := forall t, t <= n -> thr c t = [].

Lemma mrun_app : forall s1 s2 m m1 t1 m2 t2,
  mrun m s1 = Some (m1, t1) -> mrun m1 s2 = Some (m2, t2) -> mrun m (s1 ++ s2) = Some (m2, t1 ++ t2).
Proof.
  induction s1 as [|[k t] s1 IH]; intros s2 m m1 t1 m2 t2 H1 H2; cbn in *.
  - injection H1 as <- <-. assumption.
  - destruct (step (m k) t) as [[c' a]|]; [|discriminate].
    destruct (mrun (upd m k c') s1) as [[m3 t3]|] eqn:E; [|discriminate].
    injection H1 as <- <-. rewrite (IH s2 _ _ _ _ _ E H2). reflexivity.
Qed.

Lemma mrun_lift : forall s k (m : mcfg) c tr, run (m k) s = Some (c, tr) ->
  exists m', mrun m (map (pair k) s) = Some (m', map (pair k) tr) /\ m' k = c /\ forall j, j <> k -> m' j = m j.
Proof.
  induction s as [|t s IH]; intros k m c tr H; cbn in H.
  - injection H as <- <-. exists m. repeat split; reflexivity.
  - destruct (step (m k) t) as [[c2 a]|] eqn:Hs; [|discriminate].
    destruct (run c2 s) as [[c3 tr3]|] eqn:Hr; [|discriminate]. injection H as <- <-.
    assert (Hr' : run (upd m k c2 k) s = Some (c3, tr3)) by (rewrite upd_same; assumption).
    destruct (IH k (upd m k c2) c3 tr3 Hr') as [m' [Hm [Hk Hj]]].
    exists m'. split; [|split].
    + cbn. rewrite Hs, Hm. reflexivity.
    + assumption.
    + intros j Hne. rewrite Hj by assumption. apply upd_other. assumption.
Qed.

Lemma mobs_of_app : forall a b, mobs_of (a ++ b) = mobs_of a ++ mobs_of b.
Proof. intros. unfold mobs_of. apply flat_map_app. Qed.

Lemma mobs_lift : forall k tr, mobs_of (map (pair k) tr) = map (pair k) (obs_of tr).
Proof.
  intros k tr. induction tr as [|[t a] tr IH]; [reflexivity|].
  cbn [map]. change (mobs_of ((k, (t, a)) :: map (pair k) tr))
    with ((match a with AEv o => [(k, o)] | _ => [] end) ++ mobs_of (map (pair k) tr)).
  change (obs_of ((t, a) :: tr)) with ((match a with AEv o => [o] | _ => [] end) ++ obs_of tr).
  rewrite IH, map_app. destruct a; reflexivity.
Qed.

(* a run whose observable projection begins with o splits after the step that emits o *)
Lemma run_split_obs : forall sched c c' tr o r, run c sched = Some (c', tr) -> obs_of tr = o :: r ->
  exists s1 s2 c1 tr1 tr2, sched = s1 ++ s2 /\ run c s1 = Some (c1, tr1) /\ obs_of tr1 = [o]
    /\ run c1 s2 = Some (c', tr2) /\ obs_of tr2 = r.
Proof.
  induction sched as [|t s IH]; intros c c' tr o r H Ho; cbn in H.
  - injection H as <- <-. discriminate.
  - destruct (step c t) as [[c2 a]|] eqn:Hs; [|discriminate].
    destruct (run c2 s) as [[c3 tr3]|] eqn:Hr; [|discriminate]. injection H as <- <-.
    change (obs_of ((t, a) :: tr3)) with ((match a with AEv o => [o] | _ => [] end) ++ obs_of tr3) in Ho.
    destruct a as [u|k0| | |m0|m0|v|v|v| |o'];
      try (cbn in Ho;
           destruct (IH c2 c3 tr3 o r Hr Ho) as [s1 [s2 [c1 [tr1 [tr2 [Hsp [H1 [Ho1 [H2 Ho2]]]]]]]]];
           eexists (t :: s1), s2, c1, (_ :: tr1), tr2;
           split; [rewrite Hsp; reflexivity|]; split; [cbn; rewrite Hs, H1; reflexivity|];
           split; [exact Ho1|]; split; assumption).
    cbn in Ho. injection Ho as -> Hr3.
    exists [t], s, c2, [(t, AEv o)], tr3. split; [reflexivity|]. split; [cbn; rewrite Hs; reflexivity|].
    split; [reflexivity|]. split; assumption.
Qed.

Lemma finish_all : forall n K (m : mcfg),
  (forall k, k < K -> exists s c tr, run (m k) s = Some (c, tr) /\ obs_of tr = [] /\ finished n c) ->
  exists sched m' tr, mrun m sched = Some (m', tr) /\ mobs_of tr = []
    /\ (forall k, k < K -> finished n (m' k)) /\ (forall j, K <= j -> m' j = m j).
Proof.
  intros n K. induction K as [|K IH]; intros m H.
  - exists [], m, []. repeat split; try reflexivity. intros k Hk. lia.
  - destruct (IH m) as [s1 [m1 [t1 [Hr1 [Ho1 [Hf1 Hk1]]]]]]; [intros k Hk; apply H; lia|].
    destruct (H K) as [s [c [tr [Hr [Ho Hf]]]]]; [lia|].
    rewrite <- (Hk1 K) in Hr by lia.
    destruct (mrun_lift s K m1 c tr Hr) as [m2 [Hr2 [Hc Hj]]].
    exists (s1 ++ map (pair K) s), m2, (t1 ++ map (pair K) tr). split; [|split; [|split]].
    + eapply mrun_app; eassumption.
    + rewrite mobs_of_app, Ho1, mobs_lift, Ho. reflexivity.
    + intros k Hk. destruct (Nat.eq_dec k K) as [->|Hne]; [rewrite Hc; assumption|].
      rewrite Hj by assumption. apply Hf1. lia.
    + intros j Hj'. rewrite Hj by lia. apply Hk1. lia.
Qed.

Lemma strip_cons_inv : forall k h, strip ((k, KInv) :: h) = strip h.
Proof. reflexivity. Qed.
Lemma strip_cons_obs : forall k o h, strip ((k, KObs o) :: h) = (k, o) :: strip h.
Proof. reflexivity. Qed.

Lemma product_run_gen : forall n K h (m : mcfg) (rest : nat -> list obs),
  (forall e, In e h -> fst e < K) ->
  (forall k, k < K -> sel k (strip h) = rest k) ->
  (forall k, k < K -> exists s c tr, run (m k) s = Some (c, tr) /\ obs_of tr = rest k /\ finished n c) ->
  exists sched m' tr, mrun m sched = Some (m', tr) /\ mobs_of tr = strip h /\ forall k, k < K -> finished n (m' k).
Proof.
  intros n K h. induction h as [|[k0 [|o]] h IH]; intros m rest Htag Hsel Hrun.
  - destruct (finish_all n K m) as [s [m' [tr [H1 [H2 [H3 _]]]]]].
    + intros k Hk. destruct (Hrun k Hk) as [s [c [tr [Hr [Ho Hf]]]]]. exists s, c, tr. repeat split; try assumption.
      rewrite Ho, <- Hsel by assumption. reflexivity.
    + exists s, m', tr. repeat split; assumption.
  - rewrite strip_cons_inv. apply (IH m rest); [intros e He; apply Htag; right; assumption| |assumption].
    intros k Hk. rewrite <- Hsel by assumption. reflexivity.
  - rewrite strip_cons_obs. assert (Hk0 : k0 < K) by (apply (Htag (k0, KObs o)); left; reflexivity).
    destruct (Hrun k0 Hk0) as [s [c [tr [Hr [Ho Hf]]]]].
    pose proof (Hsel k0 Hk0) as Hs0. rewrite strip_cons_obs, sel_cons, Nat.eqb_refl in Hs0.
    rewrite <- Hs0 in Ho.
    destruct (run_split_obs s (m k0) c tr o _ Hr Ho) as [s1 [s2 [c1 [tr1 [tr2 [Hsp [H1 [Ho1 [H2 Ho2]]]]]]]]].
    destruct (mrun_lift s1 k0 m c1 tr1 H1) as [m1 [Hm1 [Hc1 Hj1]]].
    destruct (IH m1 (fun j => if Nat.eqb j k0 then sel k0 (strip h) else rest j)) as [sched [m' [tr' [Hr' [Ho' Hf']]]]].
    + intros e He. apply Htag. right. assumption.
    + intros k Hk. destruct (Nat.eqb k k0) eqn:E.
      * apply Nat.eqb_eq in E. subst k. reflexivity.
      * rewrite <- Hsel by assumption. rewrite strip_cons_obs, sel_cons.
        assert (E' : Nat.eqb k0 k = false) by (rewrite Nat.eqb_sym; assumption). rewrite E'. reflexivity.
    + intros k Hk. destruct (Nat.eqb k k0) eqn:E.
      * apply Nat.eqb_eq in E. subst k. rewrite Hc1. exists s2, c, tr2. repeat split; assumption.
      * apply Nat.eqb_neq in E. rewrite Hj1 by assumption. apply Hrun. assumption.
    + exists (map (pair k0) s1 ++ sched), m', (map (pair k0) tr1 ++ tr'). split; [|split].
      * eapply mrun_app; eassumption.
      * rewrite mobs_of_app, mobs_lift, Ho1, Ho'. reflexivity.
      * assumption.
Qed.

Lemma sel_strip : forall k h,
  sel k (strip h) = flat_map (fun e => match e with KObs o => [o] | KInv => [] end) (sel k h).
Proof.
  intros k h. induction h as [|[j [|o]] h IH].
  - reflexivity.
  - rewrite strip_cons_inv, sel_cons. destruct (Nat.eqb j k); cbn [flat_map app]; assumption.
  - rewrite strip_cons_obs, !sel_cons. destruct (Nat.eqb j k); cbn [flat_map app]; rewrite IH; reflexivity.
Qed.

Lemma unwrap_wrap : forall ho, flat_map (fun e => match e with KObs o => [o] | KInv => [] end) (wrap ho) = ho.
Proof.
  intros ho. unfold wrap. cbn [flat_map app]. induction ho as [|o ho IH]; [reflexivity|].
  cbn [map flat_map app]. rewrite IH. reflexivity.
Qed.

Theorem multi_accepts_product_run : forall K n fails h, multi_accepts K n fails h = true ->
  exists sched m tr, mrun (minit (close_prog n fails)) sched = Some (m, tr) /\ mobs_of tr = strip h
    /\ forall k, k < K -> forall t, t <= n -> thr (m k) t = [].
Proof.
  intros K n fails h H.
  assert (Htag : forall e, In e h -> fst e < K).
  { unfold multi_accepts in H. rewrite andb_true_iff, forallb_forall in H. destruct H as [H1 _].
    intros e He. apply Nat.ltb_lt. apply H1. assumption. }
  destruct (product_run_gen n K h (minit (close_prog n fails)) (fun k => sel k (strip h))) as [s [m [tr [Hr [Ho Hf]]]]].
  - assumption.
  - reflexivity.
  - intros k Hk. destruct (multi_accepts_runs K n fails h H k Hk) as [ho [sc [c [tr [Hw [Hrun [Hobs Hfin]]]]]]].
    exists sc, c, tr. split; [exact Hrun|]. split; [|exact Hfin].
    rewrite sel_strip, Hw, unwrap_wrap. assumption.
  - exists s, m, tr. split; [assumption|]. split; [assumption|]. exact Hf.
Qed.
