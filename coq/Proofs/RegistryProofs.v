(* Lemmas about Model/Registry.v and Model/RegistryProto.v (property C04).

   Method: the registry state is projected to what it holds for ONE name ([view]); [rstep] acts on the
   view of the op's name as the small function [vstep] and leaves every other view alone
   ([rstep_view], [rstep_out]).  Every statement is then an induction over an ARBITRARY op list with the
   view of the name in question as the invariant; nesting depth never appears (nesting is bracketing in
   the list, tracked by the protocol's stack). *)
From Coq Require Import List Arith Bool Lia.
From IocVerif Require Import Model.Registry Model.RegistryProto.
Import ListNotations.

(* ---- association lists, sets ------------------------------------------------------------------- *)

Lemma alookup_aremove_eq : forall A n (l : list (name * A)), alookup n (aremove n l) = None.
Proof.
  intros A n l. induction l as [|[m a] r IH]; cbn; [reflexivity|].
  destruct (Nat.eqb m n) eqn:E; [exact IH|]. cbn. rewrite E. exact IH.
Qed.

Lemma alookup_aremove_neq : forall A n m (l : list (name * A)),
  m <> n -> alookup n (aremove m l) = alookup n l.
Proof.
  intros A n m l Hne. induction l as [|[k a] r IH]; cbn; [reflexivity|].
  destruct (Nat.eqb k m) eqn:E.
  - apply Nat.eqb_eq in E. subst k. destruct (Nat.eqb m n) eqn:E2; [apply Nat.eqb_eq in E2; contradiction|exact IH].
  - cbn. destruct (Nat.eqb k n); [reflexivity|exact IH].
Qed.

Lemma alookup_aset_eq : forall A n (a : A) l, alookup n (aset n a l) = Some a.
Proof. intros. unfold aset. cbn. rewrite Nat.eqb_refl. reflexivity. Qed.

Lemma alookup_aset_neq : forall A n m (a : A) l, m <> n -> alookup n (aset m a l) = alookup n l.
Proof.
  intros A n m a l Hne. unfold aset. cbn.
  destruct (Nat.eqb m n) eqn:E; [apply Nat.eqb_eq in E; contradiction|].
  apply alookup_aremove_neq. exact Hne.
Qed.

Lemma mem_In : forall n s, mem n s = true <-> In n s.
Proof.
  intros n s. unfold mem. rewrite existsb_exists. split.
  - intros [x [Hin E]]. apply Nat.eqb_eq in E. subst. exact Hin.
  - intros H. exists n. split; [exact H|apply Nat.eqb_refl].
Qed.

Lemma mem_cons : forall n m s, mem n (m :: s) = Nat.eqb n m || mem n s.
Proof. reflexivity. Qed.

Lemma mem_set_add : forall n m s, mem n (set_add m s) = Nat.eqb n m || mem n s.
Proof.
  intros n m s. unfold set_add. destruct (mem m s) eqn:E; [|reflexivity].
  destruct (Nat.eqb n m) eqn:E2; [|reflexivity]. apply Nat.eqb_eq in E2. subst. rewrite E. reflexivity.
Qed.

Lemma mem_set_remove : forall n m s, mem n (set_remove m s) = negb (Nat.eqb n m) && mem n s.
Proof.
  intros n m s. unfold set_remove, mem. induction s as [|k r IH]; cbn.
  - rewrite andb_false_r. reflexivity.
  - destruct (Nat.eqb k m) eqn:E; cbn.
    + rewrite IH. apply Nat.eqb_eq in E. subst k.
      destruct (Nat.eqb n m); reflexivity.
    + rewrite IH. destruct (Nat.eqb n k) eqn:E2; cbn.
      * apply Nat.eqb_eq in E2. subst k. rewrite E. reflexivity.
      * reflexivity.
Qed.

Lemma ver_eqb_eq : forall a b, ver_eqb a b = true <-> a = b.
Proof.
  intros [n|n k] [m|m j]; cbn; split; intros H; try discriminate.
  - apply Nat.eqb_eq in H. subst. reflexivity.
  - inversion H. apply Nat.eqb_refl.
  - apply andb_true_iff in H. destruct H as [H1 H2]. apply Nat.eqb_eq in H1. apply Nat.eqb_eq in H2. subst. reflexivity.
  - inversion H. rewrite !Nat.eqb_refl. reflexivity.
Qed.

Lemma ver_eqb_refl : forall a, ver_eqb a a = true.
Proof. intros a. apply ver_eqb_eq. reflexivity. Qed.

(* ---- the view of one name --------------------------------------------------------------------- *)

Definition nview : Type := (option ver * option ver * option nat * bool)%type.

Definition view (s : rstate) (n : name) : nview :=
  (alookup n (L1 s), alookup n (L2 s), alookup n (L3 s), mem n (creating s)).

Definition vstep (vt : variant) (w : nview) (o : rop) : nview * rout :=
  match w with
  | (l1, l2, l3, c) =>
    match o with
    | OAddFactory _ f => ((l1, l2, Some f, c), RUnit)
    | ORemove _ => ((None, None, None, false), RUnit)
    | OAddSingleton _ v => ((Some v, None, None, c), RUnit)
    | OGet _ early fout =>
      match l1 with
      | Some v => (w, RVal (Some v) None)
      | None =>
        match l2 with
        | Some e => (w, RVal (Some e) None)
        | None =>
          if early then
            match l3 with
            | Some f => match fout with
                        | Some v => ((l1, Some v, None, c), RVal (Some v) (Some f))
                        | None => (w, RErr f)
                        end
            | None => (w, RVal None None)
            end
          else (w, RVal None None)
        end
      end
    | OBegin _ => match l1 with
                  | Some v => (w, RVal (Some v) None)
                  | None => ((l1, l2, l3, true), RVal None None)
                  end
    | OEndOk _ v => ((Some v, None, None, false), RUnit)
    | OEndErr _ => ((if fix_c04 vt then (None, None, None, false) else w), RUnit)
    | OIsCreating _ => (w, RBool c)
    end
  end.

Ltac neq_names :=
  repeat match goal with
  | H : Nat.eqb ?a ?b = false |- _ => apply Nat.eqb_neq in H
  | H : Nat.eqb ?a ?b = true |- _ => apply Nat.eqb_eq in H; subst
  end.

Lemma view_other_remove : forall s n m, m <> n -> view (remove_singleton s m) n = view s n.
Proof.
  intros s n m H. unfold view, remove_singleton. cbn [L1 L2 L3 creating].
  rewrite !alookup_aremove_neq by exact H. rewrite mem_set_remove.
  destruct (Nat.eqb n m) eqn:E; [apply Nat.eqb_eq in E; subst; contradiction|reflexivity].
Qed.

Lemma view_self_remove : forall s n, view (remove_singleton s n) n = (None, None, None, false).
Proof.
  intros s n. unfold view, remove_singleton. cbn [L1 L2 L3 creating].
  rewrite !alookup_aremove_eq. rewrite mem_set_remove, Nat.eqb_refl. reflexivity.
Qed.

Lemma view_other_addsingleton : forall s n m v, m <> n -> view (add_singleton s m v) n = view s n.
Proof.
  intros s n m v H. unfold view, add_singleton. cbn [L1 L2 L3 creating].
  rewrite alookup_aset_neq by exact H. rewrite !alookup_aremove_neq by exact H. reflexivity.
Qed.

Lemma view_self_addsingleton : forall s n v,
  view (add_singleton s n v) n = (Some v, None, None, mem n (creating s)).
Proof.
  intros s n v. unfold view, add_singleton. cbn [L1 L2 L3 creating].
  rewrite alookup_aset_eq, !alookup_aremove_eq. reflexivity.
Qed.

(* rstep changes only the view of the op's name, and does so as vstep *)
Lemma rstep_view : forall vt s o n,
  view (fst (rstep vt s o)) n =
  if Nat.eqb (op_name o) n then fst (vstep vt (view s n) o) else view s n.
Proof.
  intros vt s o n. destruct o as [m f|m|m v|m early fout|m|m v|m|m]; cbn [op_name];
    destruct (Nat.eqb m n) eqn:E; neq_names.
  - (* OAddFactory, same *) cbn [rstep fst]. unfold view, add_factory. cbn [L1 L2 L3 creating].
    rewrite alookup_aset_eq. reflexivity.
  - cbn [rstep fst]. unfold view, add_factory. cbn [L1 L2 L3 creating]. rewrite alookup_aset_neq by exact E. reflexivity.
  - cbn [rstep fst]. rewrite view_self_remove. unfold view. reflexivity.
  - cbn [rstep fst]. apply view_other_remove. exact E.
  - cbn [rstep fst]. rewrite view_self_addsingleton. unfold view. reflexivity.
  - cbn [rstep fst]. apply view_other_addsingleton. exact E.
  - (* OGet same *) cbn [rstep]. unfold get_lookup, view. cbn [vstep].
    destruct (alookup n (L1 s)) as [v|] eqn:E1; [cbn; rewrite E1; reflexivity|].
    destruct (alookup n (L2 s)) as [e|] eqn:E2; [cbn; rewrite E1, E2; reflexivity|].
    destruct early; [|cbn; rewrite E1, E2; reflexivity].
    destruct (alookup n (L3 s)) as [f|] eqn:E3; [|cbn; rewrite E1, E2, E3; reflexivity].
    destruct fout as [v|]; [|cbn; rewrite E1, E2, E3; reflexivity].
    cbn [fst]. unfold get_promote. cbn [L1 L2 L3 creating].
    rewrite E1, alookup_aset_eq, alookup_aremove_eq. reflexivity.
  - (* OGet other *) cbn [rstep]. unfold get_lookup.
    destruct (alookup m (L1 s)); [reflexivity|].
    destruct (alookup m (L2 s)); [reflexivity|].
    destruct early; [|reflexivity].
    destruct (alookup m (L3 s)); [|reflexivity].
    destruct fout; [|reflexivity].
    cbn [fst]. unfold view, get_promote. cbn [L1 L2 L3 creating].
    rewrite alookup_aset_neq by exact E. rewrite alookup_aremove_neq by exact E. reflexivity.
  - (* OBegin same *) cbn [rstep]. unfold begin_create, view. cbn [vstep].
    destruct (alookup n (L1 s)) as [v|] eqn:E1; cbn [fst L1 L2 L3 creating].
    + rewrite E1. reflexivity.
    + rewrite E1, mem_set_add, Nat.eqb_refl. reflexivity.
  - cbn [rstep]. unfold begin_create. destruct (alookup m (L1 s)); [reflexivity|].
    cbn [fst]. unfold view. cbn [L1 L2 L3 creating]. rewrite mem_set_add.
    destruct (Nat.eqb n m) eqn:E2; [apply Nat.eqb_eq in E2; subst; contradiction|reflexivity].
  - (* OEndOk same *) cbn [rstep fst]. unfold end_create_ok. rewrite view_self_addsingleton.
    cbn [creating]. rewrite mem_set_remove, Nat.eqb_refl. unfold view. reflexivity.
  - cbn [rstep fst]. unfold end_create_ok. rewrite view_other_addsingleton by exact E.
    unfold view. cbn [L1 L2 L3 creating]. rewrite mem_set_remove.
    destruct (Nat.eqb n m) eqn:E2; [apply Nat.eqb_eq in E2; subst; contradiction|reflexivity].
  - (* OEndErr same *) cbn [rstep fst]. unfold end_create_err. unfold vstep, view at 2.
    destruct (fix_c04 vt); [apply view_self_remove|reflexivity].
  - cbn [rstep fst]. unfold end_create_err. destruct (fix_c04 vt); [apply view_other_remove; exact E|reflexivity].
  - reflexivity.
  - reflexivity.
Qed.

Lemma rstep_out : forall vt s o, snd (rstep vt s o) = snd (vstep vt (view s (op_name o)) o).
Proof.
  intros vt s o. destruct o as [m f|m|m v|m early fout|m|m v|m|m]; cbn [op_name]; try reflexivity.
  - cbn [rstep]. unfold get_lookup, view, vstep.
    destruct (alookup m (L1 s)); [reflexivity|].
    destruct (alookup m (L2 s)); [reflexivity|].
    destruct early; [|reflexivity].
    destruct (alookup m (L3 s)); [|reflexivity].
    destruct fout; reflexivity.
  - cbn [rstep]. unfold begin_create, view, vstep. destruct (alookup m (L1 s)); reflexivity.
Qed.

Lemma rstep_view_self : forall vt s o,
  view (fst (rstep vt s o)) (op_name o) = fst (vstep vt (view s (op_name o)) o).
Proof. intros. rewrite rstep_view, Nat.eqb_refl. reflexivity. Qed.

Lemma rstep_view_other : forall vt s o n, op_name o <> n -> view (fst (rstep vt s o)) n = view s n.
Proof.
  intros vt s o n H. rewrite rstep_view. destruct (Nat.eqb (op_name o) n) eqn:E; [|reflexivity].
  apply Nat.eqb_eq in E. contradiction.
Qed.

(* ---- traces ---------------------------------------------------------------------------------------- *)

Lemma rrun_cons : forall vt s o r,
  rrun vt s (o :: r) =
  (fst (rrun vt (fst (rstep vt s o)) r), snd (rstep vt s o) :: snd (rrun vt (fst (rstep vt s o)) r)).
Proof.
  intros. cbn [rrun]. destruct (rstep vt s o) as [s1 out]. cbn [fst snd].
  destruct (rrun vt s1 r) as [s2 outs]. reflexivity.
Qed.

Lemma trace_from_nil : forall vt s, trace_from vt s [] = [].
Proof. reflexivity. Qed.

Lemma trace_from_cons : forall vt s o r,
  trace_from vt s (o :: r) = (o, snd (rstep vt s o)) :: trace_from vt (fst (rstep vt s o)) r.
Proof. intros. unfold trace_from. rewrite rrun_cons. reflexivity. Qed.

Lemma rrun_app : forall vt a s b,
  rrun vt s (a ++ b) =
  (fst (rrun vt (fst (rrun vt s a)) b), snd (rrun vt s a) ++ snd (rrun vt (fst (rrun vt s a)) b)).
Proof.
  intros vt a. induction a as [|o r IH]; intros s b.
  - cbn. destruct (rrun vt s b); reflexivity.
  - rewrite <- app_comm_cons. rewrite !rrun_cons. rewrite IH. cbn [fst snd]. reflexivity.
Qed.

Lemma rrun_length : forall vt ops s, length (snd (rrun vt s ops)) = length ops.
Proof.
  intros vt ops. induction ops as [|o r IH]; intros s; [reflexivity|].
  rewrite rrun_cons. cbn [snd length]. rewrite IH. reflexivity.
Qed.

Lemma trace_from_app : forall vt a s b,
  trace_from vt s (a ++ b) = trace_from vt s a ++ trace_from vt (fst (rrun vt s a)) b.
Proof.
  intros vt a. induction a as [|o r IH]; intros s b; [reflexivity|].
  rewrite <- app_comm_cons. rewrite !trace_from_cons, IH, rrun_cons. reflexivity.
Qed.

Lemma trace_from_map_fst : forall vt ops s, map fst (trace_from vt s ops) = ops.
Proof.
  intros vt ops. induction ops as [|o r IH]; intros s; [reflexivity|].
  rewrite trace_from_cons. cbn [map fst]. rewrite IH. reflexivity.
Qed.

Lemma step_self : forall vt s o n, op_name o = n ->
  view (fst (rstep vt s o)) n = fst (vstep vt (view s n) o) /\
  snd (rstep vt s o) = snd (vstep vt (view s n) o).
Proof. intros vt s o n H. subst n. split; [apply rstep_view_self|apply rstep_out]. Qed.

(* ---- observers skip ops on other names ------------------------------------------------------------ *)

Lemma get_results_other : forall n o out r,
  op_name o <> n -> get_results n ((o, out) :: r) = get_results n r.
Proof.
  intros n o out r H. destruct o; try reflexivity. cbn [op_name] in H.
  destruct out; try reflexivity. cbn [get_results].
  destruct (Nat.eqb n0 n) eqn:E; [apply Nat.eqb_eq in E; contradiction|reflexivity].
Qed.

Lemma invocations_other : forall n o out r,
  op_name o <> n -> invocations n ((o, out) :: r) = invocations n r.
Proof.
  intros n o out r H. destruct o; try reflexivity. cbn [op_name] in H.
  destruct (Nat.eqb n0 n) eqn:E; [apply Nat.eqb_eq in E; contradiction|].
  destruct out as [|v [f|]|f|b]; cbn [invocations]; rewrite ?E; reflexivity.
Qed.

Lemma is_end_other : forall n o, op_name o <> n -> is_end n o = false.
Proof.
  intros n o H. destruct o; try reflexivity; cbn [op_name] in H; cbn [is_end];
    apply Nat.eqb_neq; exact H.
Qed.

Lemma republishes_other : forall n o, op_name o <> n -> republishes n o = false.
Proof.
  intros n o H. destruct o; try reflexivity; cbn [op_name] in H; cbn [republishes];
    apply Nat.eqb_neq; exact H.
Qed.

Lemma introduces_other : forall n o, op_name o <> n -> introduces n o = false.
Proof.
  intros n o H. destruct o; try reflexivity; cbn [op_name] in H; cbn [introduces];
    apply Nat.eqb_neq; exact H.
Qed.

(* ---- protocol: facts about the stack of open creations ------------------------------------------- *)

Lemma proto_from_cons : forall stk e r,
  proto_from stk (e :: r) = true ->
  exists stk', proto_step stk e = Some stk' /\ proto_from stk' r = true.
Proof.
  intros stk e r H. cbn [proto_from] in H. destruct (proto_step stk e) as [stk'|]; [|discriminate].
  exists stk'. split; [reflexivity|exact H].
Qed.

(* an open creation stays open until its own exit *)
Lemma proto_step_keeps : forall stk e stk' n,
  proto_step stk e = Some stk' -> mem n stk = true -> is_end n (fst e) = false -> mem n stk' = true.
Proof.
  intros stk [o out] stk' n H Hm He. unfold proto_step in H. cbn [fst snd] in *.
  destruct o as [m f|m|m v|m early fout|m|m v|m|m].
  - destruct (mem m stk); inversion H; subst; exact Hm.
  - destruct (mem m stk); inversion H; subst; exact Hm.
  - destruct (mem m stk); inversion H; subst; exact Hm.
  - inversion H; subst; exact Hm.
  - destruct (mem m stk); [discriminate|]. inversion H; subst.
    destruct (began out); [|exact Hm]. rewrite mem_cons, Hm. apply orb_true_r.
  - destruct stk as [|k r]; [discriminate|]. destruct (Nat.eqb k m) eqn:E; [|discriminate].
    inversion H; subst. apply Nat.eqb_eq in E. subst k. cbn [is_end] in He.
    rewrite mem_cons in Hm. destruct (Nat.eqb n m) eqn:E2.
    + apply Nat.eqb_eq in E2. subst. rewrite Nat.eqb_refl in He. discriminate.
    + exact Hm.
  - destruct stk as [|k r]; [discriminate|]. destruct (Nat.eqb k m) eqn:E; [|discriminate].
    inversion H; subst. apply Nat.eqb_eq in E. subst k. cbn [is_end] in He.
    rewrite mem_cons in Hm. destruct (Nat.eqb n m) eqn:E2.
    + apply Nat.eqb_eq in E2. subst. rewrite Nat.eqb_refl in He. discriminate.
    + exact Hm.
  - inversion H; subst; exact Hm.
Qed.

(* while a creation of n is open, n is neither removed nor published from outside, nor begun again *)
Lemma proto_step_open : forall stk e stk' n,
  proto_step stk e = Some stk' -> mem n stk = true ->
  republishes n (fst e) = false /\ fst e <> OBegin n.
Proof.
  intros stk [o out] stk' n H Hm. unfold proto_step in H. cbn [fst snd] in *.
  destruct o as [m f|m|m v|m early fout|m|m v|m|m]; cbn [republishes]; (split; [|try discriminate]); try reflexivity.
  - destruct (Nat.eqb m n) eqn:E; [|reflexivity]. apply Nat.eqb_eq in E. subst. rewrite Hm in H. discriminate.
  - destruct (Nat.eqb m n) eqn:E; [|reflexivity]. apply Nat.eqb_eq in E. subst. rewrite Hm in H. discriminate.
  - intros E. inversion E. subst. rewrite Hm in H. discriminate.
Qed.

(* a name that is not open stays not open unless its creation begins *)
Lemma proto_step_closed : forall stk e stk' n,
  proto_step stk e = Some stk' -> mem n stk = false ->
  (fst e = OBegin n -> began (snd e) = false) -> mem n stk' = false.
Proof.
  intros stk [o out] stk' n H Hm Hb. unfold proto_step in H. cbn [fst snd] in *.
  destruct o as [m f|m|m v|m early fout|m|m v|m|m].
  - destruct (mem m stk); inversion H; subst; exact Hm.
  - destruct (mem m stk); inversion H; subst; exact Hm.
  - destruct (mem m stk); inversion H; subst; exact Hm.
  - inversion H; subst; exact Hm.
  - destruct (mem m stk); [discriminate|]. inversion H; subst.
    destruct (began out) eqn:Eb; [|exact Hm]. rewrite mem_cons, Hm, orb_false_r.
    destruct (Nat.eqb n m) eqn:E; [|reflexivity]. apply Nat.eqb_eq in E. subst.
    specialize (Hb eq_refl). congruence.
  - destruct stk as [|k r]; [discriminate|]. destruct (Nat.eqb k m); [|discriminate].
    inversion H; subst. rewrite mem_cons in Hm. apply orb_false_iff in Hm. apply Hm.
  - destruct stk as [|k r]; [discriminate|]. destruct (Nat.eqb k m); [|discriminate].
    inversion H; subst. rewrite mem_cons in Hm. apply orb_false_iff in Hm. apply Hm.
  - inversion H; subst; exact Hm.
Qed.

(* only the op's own name enters or leaves the stack *)
Lemma proto_step_other : forall stk e stk' n,
  proto_step stk e = Some stk' -> op_name (fst e) <> n -> mem n stk' = mem n stk.
Proof.
  intros stk [o out] stk' n H Hn. unfold proto_step in H. cbn [fst snd] in *.
  destruct o as [m f|m|m v|m early fout|m|m v|m|m]; cbn [op_name] in Hn.
  - destruct (mem m stk); inversion H; subst; reflexivity.
  - destruct (mem m stk); inversion H; subst; reflexivity.
  - destruct (mem m stk); inversion H; subst; reflexivity.
  - inversion H; subst; reflexivity.
  - destruct (mem m stk); [discriminate|]. inversion H; subst.
    destruct (began out); [|reflexivity]. rewrite mem_cons.
    destruct (Nat.eqb n m) eqn:E; [apply Nat.eqb_eq in E; subst; contradiction|reflexivity].
  - destruct stk as [|k r]; [discriminate|]. destruct (Nat.eqb k m) eqn:E; [|discriminate].
    inversion H; subst. apply Nat.eqb_eq in E. subst k. rewrite mem_cons.
    destruct (Nat.eqb n m) eqn:E; [apply Nat.eqb_eq in E; subst; contradiction|reflexivity].
  - destruct stk as [|k r]; [discriminate|]. destruct (Nat.eqb k m) eqn:E; [|discriminate].
    inversion H; subst. apply Nat.eqb_eq in E. subst k. rewrite mem_cons.
    destruct (Nat.eqb n m) eqn:E; [apply Nat.eqb_eq in E; subst; contradiction|reflexivity].
  - inversion H; subst; reflexivity.
Qed.

Lemma proto_step_nodup : forall stk e stk', proto_step stk e = Some stk' -> NoDup stk -> NoDup stk'.
Proof.
  intros stk [o out] stk' H Hnd. unfold proto_step in H. cbn [fst snd] in *.
  destruct o as [m f|m|m v|m early fout|m|m v|m|m].
  - destruct (mem m stk); inversion H; subst; exact Hnd.
  - destruct (mem m stk); inversion H; subst; exact Hnd.
  - destruct (mem m stk); inversion H; subst; exact Hnd.
  - inversion H; subst; exact Hnd.
  - destruct (mem m stk) eqn:E; [discriminate|]. inversion H; subst.
    destruct (began out); [|exact Hnd]. constructor; [|exact Hnd].
    intros Hin. apply mem_In in Hin. rewrite Hin in E. discriminate.
  - destruct stk as [|k r]; [discriminate|]. destruct (Nat.eqb k m); [|discriminate].
    inversion H; subst. inversion Hnd; assumption.
  - destruct stk as [|k r]; [discriminate|]. destruct (Nat.eqb k m); [|discriminate].
    inversion H; subst. inversion Hnd; assumption.
  - inversion H; subst; exact Hnd.
Qed.

(* the exit of a creation pops exactly that name, which is then closed *)
Lemma proto_step_end : forall stk e stk' n,
  proto_step stk e = Some stk' -> is_end n (fst e) = true -> NoDup stk ->
  stk = n :: stk' /\ mem n stk' = false.
Proof.
  intros stk [o out] stk' n H He Hnd. unfold proto_step in H. cbn [fst snd] in *.
  destruct o as [m f|m|m v|m early fout|m|m v|m|m]; cbn [is_end] in He; try discriminate;
    apply Nat.eqb_eq in He; subst m;
    (destruct stk as [|k r]; [discriminate|]); (destruct (Nat.eqb k n) eqn:E; [|discriminate]);
    inversion H; subst; apply Nat.eqb_eq in E; subst k; (split; [reflexivity|]);
    inversion Hnd as [|? ? Hnotin ?]; subst;
    (destruct (mem n stk') eqn:Em; [apply mem_In in Em; contradiction|reflexivity]).
Qed.

(* ---- C04 part 1: one early reference per creation window ----------------------------------------- *)

Lemma results_ok_weaken : forall c l, results_ok (Some c) l = true -> results_ok None l = true.
Proof.
  intros c l H. destruct l as [|[v|] r]; [reflexivity| |discriminate].
  cbn [results_ok] in *. apply andb_true_iff in H. destruct H as [H1 H2].
  apply ver_eqb_eq in H1. subst. exact H2.
Qed.

Definition inv_part (l2 : option ver) (l : list (nat * bool)) : Prop :=
  match l2 with Some _ => l = [] | None => inv_ok l = true end.

(* Inside a window of n (n open, its L1 empty): the lookups of n follow [results_ok] from the current
   early reference l2, and early factories run only while there is none. Any variant. *)
Lemma window_state : forall vt n ops s stk l2 l3 c,
  proto_from stk (trace_from vt s ops) = true ->
  mem n stk = true ->
  view s n = (None, l2, l3, c) ->
  results_ok l2 (get_results n (take_window n (trace_from vt s ops))) = true /\
  inv_part l2 (invocations n (take_window n (trace_from vt s ops))).
Proof.
  intros vt n ops. induction ops as [|o r IH]; intros s stk l2 l3 c Hp Hm Hv.
  - cbn. split; [reflexivity|]. destruct l2; reflexivity.
  - rewrite trace_from_cons in *. cbn [take_window fst].
    destruct (is_end n o) eqn:Eend.
    { cbn. split; [reflexivity|]. destruct l2; reflexivity. }
    apply proto_from_cons in Hp. destruct Hp as [stk' [Hstep Hrest]].
    pose proof (proto_step_keeps _ _ _ n Hstep Hm Eend) as Hm'.
    destruct (proto_step_open _ _ _ n Hstep Hm) as [Hrep Hnb]. cbn [fst] in Hrep, Hnb.
    destruct (Nat.eq_dec (op_name o) n) as [Hn|Hn].
    + destruct (step_self vt s o n Hn) as [Hv' Ho]. rewrite Hv in Hv', Ho.
      set (s' := fst (rstep vt s o)) in *. set (out := snd (rstep vt s o)) in *.
      destruct o as [m f|m|m v|m early fout|m|m v|m|m]; cbn [op_name] in Hn; subst m;
        cbn [is_end republishes] in Eend, Hrep; rewrite ?Nat.eqb_refl in Eend; rewrite ?Nat.eqb_refl in Hrep; try discriminate.
      * (* OAddFactory *) cbn [vstep fst snd] in Hv', Ho. rewrite Ho. cbn [get_results invocations].
        exact (IH s' stk' l2 (Some f) c Hrest Hm' Hv').
      * (* OGet *) cbn [vstep] in Hv', Ho.
        destruct l2 as [e|].
        { cbn [fst snd] in Hv', Ho. rewrite Ho. cbn [get_results invocations]. rewrite Nat.eqb_refl.
          destruct (IH s' stk' (Some e) l3 c Hrest Hm' Hv') as [H1 H2].
          split; [cbn [results_ok]; rewrite ver_eqb_refl; exact H1|exact H2]. }
        destruct early.
        { destruct l3 as [f|].
          - destruct fout as [v|]; cbn [fst snd] in Hv', Ho; rewrite Ho; cbn [get_results invocations];
              rewrite Nat.eqb_refl.
            + destruct (IH s' stk' (Some v) None c Hrest Hm' Hv') as [H1 H2].
              split; [cbn [results_ok]; exact H1|]. cbn [inv_part] in *. rewrite H2. reflexivity.
            + destruct (IH s' stk' None (Some f) c Hrest Hm' Hv') as [H1 H2].
              split; [exact H1|exact H2].
          - cbn [fst snd] in Hv', Ho; rewrite Ho; cbn [get_results invocations]; rewrite Nat.eqb_refl.
            destruct (IH s' stk' None None c Hrest Hm' Hv') as [H1 H2].
            split; [exact H1|exact H2]. }
        { cbn [fst snd] in Hv', Ho; rewrite Ho; cbn [get_results invocations]; rewrite Nat.eqb_refl.
          destruct (IH s' stk' None l3 c Hrest Hm' Hv') as [H1 H2].
          split; [exact H1|exact H2]. }
      * (* OBegin n: excluded while n is open *) exfalso. apply Hnb. reflexivity.
      * (* OIsCreating *) cbn [vstep fst snd] in Hv', Ho. rewrite Ho. cbn [get_results invocations].
        exact (IH s' stk' l2 l3 c Hrest Hm' Hv').
    + rewrite get_results_other, invocations_other by exact Hn.
      apply (IH _ stk' l2 l3 c Hrest Hm'). rewrite rstep_view_other by exact Hn. exact Hv.
Qed.

Lemma began_view : forall vt s n,
  began (snd (rstep vt s (OBegin n))) = true ->
  exists l2 l3 c, view s n = (None, l2, l3, c) /\
                  view (fst (rstep vt s (OBegin n))) n = (None, l2, l3, true).
Proof.
  intros vt s n H. destruct (step_self vt s (OBegin n) n eq_refl) as [Hv Ho].
  rewrite Ho in H. destruct (view s n) as [[[l1 l2] l3] c] eqn:E.
  exists l2, l3, c. cbn [vstep] in *. destruct l1 as [v|]; [cbn in H; discriminate|].
  split; [reflexivity|exact Hv].
Qed.

Lemma proto_step_begin : forall stk n out stk',
  proto_step stk (OBegin n, out) = Some stk' -> began out = true ->
  mem n stk = false /\ stk' = n :: stk.
Proof.
  intros stk n out stk' H Hb. unfold proto_step in H. cbn [fst snd] in H.
  destruct (mem n stk); [discriminate|]. rewrite Hb in H. inversion H. split; reflexivity.
Qed.

Theorem one_early_ref_from : forall vt ops s stk,
  proto_from stk (trace_from vt s ops) = true ->
  one_early_ref_b (trace_from vt s ops) = true.
Proof.
  intros vt ops. induction ops as [|o r IH]; intros s stk Hp; [reflexivity|].
  rewrite trace_from_cons in *. apply proto_from_cons in Hp. destruct Hp as [stk' [Hstep Hrest]].
  specialize (IH _ _ Hrest).
  destruct o as [m f|m|m v|m early fout|m|m v|m|m]; cbn [one_early_ref_b]; try exact IH.
  rewrite IH, andb_true_r.
  destruct (began (snd (rstep vt s (OBegin m)))) eqn:Eb; [|reflexivity].
  destruct (began_view _ _ _ Eb) as [l2 [l3 [c [Hv Hv']]]].
  destruct (proto_step_begin _ _ _ _ Hstep Eb) as [_ Hstk]. subst stk'.
  assert (Hm : mem m (m :: stk) = true) by (rewrite mem_cons, Nat.eqb_refl; reflexivity).
  destruct (window_state vt m r _ _ l2 l3 true Hrest Hm Hv') as [H1 H2].
  unfold window_ok. apply andb_true_iff. split.
  - destruct l2; [eapply results_ok_weaken; exact H1|exact H1].
  - unfold inv_part in H2. destruct l2; [rewrite H2; reflexivity|exact H2].
Qed.

(* reading the boolean oracle *)
Lemma one_early_ref_b_spec : forall tr,
  one_early_ref_b tr = true ->
  forall pre n out post, tr = pre ++ (OBegin n, out) :: post -> began out = true ->
  window_ok n (take_window n post) = true.
Proof.
  intros tr H pre. revert tr H. induction pre as [|e pre IH]; intros tr H n out post Heq Hb.
  - subst tr. cbn [app one_early_ref_b] in H. rewrite Hb in H. apply andb_true_iff in H. apply H.
  - subst tr. rewrite <- app_comm_cons in H. apply (IH (pre ++ (OBegin n, out) :: post)) with (out := out); [|reflexivity|exact Hb].
    destruct e as [o eo]. destruct o; cbn [one_early_ref_b] in H; try exact H.
    apply andb_true_iff in H. apply H.
Qed.

Lemma results_ok_same : forall l cur, results_ok cur l = true ->
  forall v v', In (Some v) l -> In (Some v') l -> v = v'.
Proof.
  assert (Hsome : forall l c, results_ok (Some c) l = true -> forall v, In (Some v) l -> v = c).
  { induction l as [|[x|] r IH]; intros c H v Hin; [contradiction| |discriminate].
    cbn [results_ok] in H. apply andb_true_iff in H. destruct H as [H1 H2]. apply ver_eqb_eq in H1. subst x.
    destruct Hin as [Hin|Hin]; [inversion Hin; reflexivity|]. exact (IH c H2 v Hin). }
  induction l as [|[x|] r IH]; intros cur H v v' Hin Hin'; [contradiction| |].
  - destruct cur as [c|].
    + rewrite (Hsome _ c H v Hin), (Hsome _ c H v' Hin'). reflexivity.
    + cbn [results_ok] in H. assert (Hx : results_ok (Some x) (Some x :: r) = true)
        by (cbn [results_ok]; rewrite ver_eqb_refl; exact H).
      rewrite (Hsome _ x Hx v Hin), (Hsome _ x Hx v' Hin'). reflexivity.
  - destruct cur; [discriminate|]. cbn [results_ok] in H.
    destruct Hin as [Hin|Hin]; [discriminate|]. destruct Hin' as [Hin'|Hin']; [discriminate|].
    exact (IH None H v v' Hin Hin').
Qed.

(* once a lookup returned a reference, no later lookup misses *)
Lemma results_ok_no_miss_after : forall l cur, results_ok cur l = true ->
  forall a v b, l = a ++ Some v :: b -> ~ In None b.
Proof.
  assert (Hsome : forall l c, results_ok (Some c) l = true -> ~ In None l).
  { induction l as [|[x|] r IH]; intros c H Hin; [contradiction| |discriminate].
    cbn [results_ok] in H. apply andb_true_iff in H. destruct H as [_ H2].
    destruct Hin as [Hin|Hin]; [discriminate|]. exact (IH c H2 Hin). }
  induction l as [|x r IH]; intros cur H a v b Heq.
  - destruct a; discriminate.
  - destruct a as [|y a].
    + cbn [app] in Heq. inversion Heq. subst. destruct cur as [c|]; cbn [results_ok] in H.
      * apply andb_true_iff in H. destruct H as [_ H]. exact (Hsome _ c H).
      * exact (Hsome _ v H).
    + rewrite <- app_comm_cons in Heq. inversion Heq. subst.
      destruct y as [w|]; cbn [results_ok] in H.
      * destruct cur as [c|].
        -- apply andb_true_iff in H. destruct H as [_ H]. exact (IH _ H a v b eq_refl).
        -- exact (IH _ H a v b eq_refl).
      * destruct cur; [discriminate|]. exact (IH _ H a v b eq_refl).
Qed.

Lemma inv_ok_successes : forall l, inv_ok l = true -> successes l <= 1.
Proof.
  induction l as [|[f [|]] r IH]; intros H; cbn [inv_ok] in H; unfold successes in *; cbn [filter snd length].
  - lia.
  - destruct r; [cbn; lia|discriminate].
  - exact (IH H).
Qed.

Lemma inv_ok_none_after : forall l, inv_ok l = true ->
  forall a f b, l = a ++ (f, true) :: b -> b = [].
Proof.
  induction l as [|[g [|]] r IH]; intros H a f b Heq.
  - destruct a; discriminate.
  - cbn [inv_ok] in H. destruct r; [|discriminate].
    destruct a as [|y a]; [inversion Heq; reflexivity|]. inversion Heq. destruct a; discriminate.
  - cbn [inv_ok] in H. destruct a as [|y a]; [inversion Heq|].
    inversion Heq. subst. exact (IH H a f b eq_refl).
Qed.

(* ---- C04 part 2: the published instance is final -------------------------------------------------- *)

Lemma obs_final_other : forall n v o out, op_name o <> n -> obs_final n v (o, out) = true.
Proof.
  intros n v o out H. unfold obs_final. cbn [fst snd].
  destruct o; try reflexivity; cbn [op_name] in H;
    (destruct (Nat.eqb n0 n) eqn:E; [apply Nat.eqb_eq in E; contradiction|reflexivity]).
Qed.

(* n published as v and closed: every observation of n says so, until n is republished *)
Lemma final_state : forall vt n v ops s stk l2 l3,
  proto_from stk (trace_from vt s ops) = true ->
  mem n stk = false ->
  view s n = (Some v, l2, l3, false) ->
  final_from n v (trace_from vt s ops) = true.
Proof.
  intros vt n v ops. induction ops as [|o r IH]; intros s stk l2 l3 Hp Hm Hv; [reflexivity|].
  rewrite trace_from_cons in *. cbn [final_from fst].
  destruct (republishes n o) eqn:Erep; [reflexivity|].
  apply proto_from_cons in Hp. destruct Hp as [stk' [Hstep Hrest]].
  destruct (Nat.eq_dec (op_name o) n) as [Hn|Hn].
  - destruct (step_self vt s o n Hn) as [Hv' Ho]. rewrite Hv in Hv', Ho.
    set (s' := fst (rstep vt s o)) in *. set (out := snd (rstep vt s o)) in *.
    destruct o as [m f|m|m w|m early fout|m|m w|m|m]; cbn [op_name] in Hn; subst m;
      cbn [republishes] in Erep; rewrite ?Nat.eqb_refl in Erep; try discriminate.
    + (* OAddFactory n: not while n is closed *)
      unfold proto_step in Hstep. cbn [fst] in Hstep. rewrite Hm in Hstep. discriminate.
    + (* OGet *) cbn [vstep fst snd] in Hv', Ho. rewrite Ho. unfold obs_final. cbn [fst snd].
      rewrite Nat.eqb_refl. cbn [rout_eqb optver_eqb optnat_eqb]. rewrite ver_eqb_refl. cbn [andb].
      unfold proto_step in Hstep. cbn [fst] in Hstep. inversion Hstep; subst stk'.
      exact (IH s' stk l2 l3 Hrest Hm Hv').
    + (* OBegin: returns the published instance, opens nothing *)
      cbn [vstep fst snd] in Hv', Ho. rewrite Ho. unfold obs_final. cbn [fst snd].
      rewrite Nat.eqb_refl. cbn [rout_eqb optver_eqb optnat_eqb]. rewrite ver_eqb_refl. cbn [andb].
      unfold proto_step in Hstep. cbn [fst snd] in Hstep. rewrite Hm, Ho in Hstep. cbn [began] in Hstep.
      inversion Hstep; subst stk'. exact (IH s' stk l2 l3 Hrest Hm Hv').
    + (* OEndOk n: n is not open *)
      unfold proto_step in Hstep. cbn [fst] in Hstep. destruct stk as [|k q]; [discriminate|].
      destruct (Nat.eqb k n) eqn:E; [|discriminate]. apply Nat.eqb_eq in E. subst k.
      rewrite mem_cons, Nat.eqb_refl in Hm. discriminate.
    + unfold proto_step in Hstep. cbn [fst] in Hstep. destruct stk as [|k q]; [discriminate|].
      destruct (Nat.eqb k n) eqn:E; [|discriminate]. apply Nat.eqb_eq in E. subst k.
      rewrite mem_cons, Nat.eqb_refl in Hm. discriminate.
    + (* OIsCreating *) cbn [vstep fst snd] in Hv', Ho. rewrite Ho. unfold obs_final. cbn [fst snd].
      rewrite Nat.eqb_refl. cbn [rout_eqb Bool.eqb andb].
      unfold proto_step in Hstep. cbn [fst] in Hstep. inversion Hstep; subst stk'.
      exact (IH s' stk l2 l3 Hrest Hm Hv').
  - rewrite obs_final_other by exact Hn. cbn [andb].
    apply (IH _ stk' l2 l3 Hrest).
    + rewrite (proto_step_other _ _ _ n Hstep) by exact Hn. exact Hm.
    + rewrite rstep_view_other by exact Hn. exact Hv.
Qed.

Theorem published_final_from : forall vt ops s stk,
  NoDup stk ->
  proto_from stk (trace_from vt s ops) = true ->
  published_final_b (trace_from vt s ops) = true.
Proof.
  intros vt ops. induction ops as [|o r IH]; intros s stk Hnd Hp; [reflexivity|].
  rewrite trace_from_cons in *. apply proto_from_cons in Hp. destruct Hp as [stk' [Hstep Hrest]].
  pose proof (proto_step_nodup _ _ _ Hstep Hnd) as Hnd'.
  specialize (IH _ _ Hnd' Hrest).
  destruct o as [m f|m|m v|m early fout|m|m v|m|m]; cbn [published_final_b]; try exact IH.
  rewrite IH, andb_true_r.
  destruct (proto_step_end _ _ _ m Hstep) as [_ Hm]; [cbn; apply Nat.eqb_refl|exact Hnd|].
  destruct (step_self vt s (OEndOk m v) m eq_refl) as [Hv' _].
  destruct (view s m) as [[[l1 l2] l3] c]. cbn [vstep fst] in Hv'.
  exact (final_state vt m v r _ stk' None None Hrest Hm Hv').
Qed.

Lemma published_final_b_spec : forall tr,
  published_final_b tr = true ->
  forall pre n v out post, tr = pre ++ (OEndOk n v, out) :: post -> final_from n v post = true.
Proof.
  intros tr H pre. revert tr H. induction pre as [|e pre IH]; intros tr H n v out post Heq.
  - subst tr. cbn [app published_final_b] in H. apply andb_true_iff in H. apply H.
  - subst tr. rewrite <- app_comm_cons in H.
    apply (IH (pre ++ (OEndOk n v, out) :: post)) with (out := out); [|reflexivity].
    destruct e as [o eo]. destruct o; cbn [published_final_b] in H; try exact H.
    apply andb_true_iff in H. apply H.
Qed.

(* reading final_from: every entry before the first republication of n satisfies obs_final *)
Lemma final_from_spec : forall n v tr,
  final_from n v tr = true ->
  forall a e b, tr = a ++ e :: b -> forallb (fun x => negb (republishes n (fst x))) a = true ->
  republishes n (fst e) = false -> obs_final n v e = true.
Proof.
  intros n v tr H a. revert tr H. induction a as [|x a IH]; intros tr H e b Heq Ha He.
  - subst tr. cbn [app final_from] in H. rewrite He in H. apply andb_true_iff in H. apply H.
  - subst tr. rewrite <- app_comm_cons in H. cbn [final_from] in H. cbn [forallb] in Ha.
    apply andb_true_iff in Ha. destruct Ha as [Hx Ha]. apply negb_true_iff in Hx. rewrite Hx in H.
    apply andb_true_iff in H. destruct H as [_ H]. exact (IH _ H e b eq_refl Ha He).
Qed.

(* ---- C04 part 3: clean failure ----------------------------------------------------------------------- *)

Lemma obs_forgotten_other : forall n o out, op_name o <> n -> obs_forgotten n (o, out) = true.
Proof.
  intros n o out H. unfold obs_forgotten. cbn [fst snd].
  destruct o; try reflexivity; cbn [op_name] in H;
    (destruct (Nat.eqb n0 n) eqn:E; [apply Nat.eqb_eq in E; contradiction|reflexivity]).
Qed.

(* a registry that knows nothing about n answers so, in any variant, until something is done for n *)
Lemma forgotten_state : forall vt n ops s,
  view s n = (None, None, None, false) ->
  forgotten_from n (trace_from vt s ops) = true.
Proof.
  intros vt n ops. induction ops as [|o r IH]; intros s Hv; [reflexivity|].
  rewrite trace_from_cons. cbn [forgotten_from fst].
  destruct (Nat.eq_dec (op_name o) n) as [Hn|Hn].
  - destruct (step_self vt s o n Hn) as [Hv' Ho]. rewrite Hv in Hv', Ho.
    set (s' := fst (rstep vt s o)) in *. set (out := snd (rstep vt s o)) in *.
    destruct o as [m f|m|m w|m early fout|m|m w|m|m]; cbn [op_name] in Hn; subst m;
      cbn [introduces]; rewrite ?Nat.eqb_refl; unfold obs_forgotten; cbn [fst snd];
      rewrite ?Nat.eqb_refl; try reflexivity.
    + (* ORemove *) cbn [vstep fst] in Hv'. exact (IH s' Hv').
    + (* OGet: a miss, whatever early says *)
      cbn [vstep] in Hv', Ho. destruct early; cbn [fst snd] in Hv', Ho; rewrite Ho;
        cbn [rout_eqb optver_eqb optnat_eqb andb]; exact (IH s' Hv').
    + (* OBegin: a fresh attempt *) cbn [vstep snd] in Ho. rewrite Ho. reflexivity.
    + (* OEndErr *) cbn [vstep fst] in Hv'. destruct (fix_c04 vt); exact (IH s' Hv').
    + (* OIsCreating *) cbn [vstep fst snd] in Hv', Ho. rewrite Ho. cbn [rout_eqb Bool.eqb andb].
      exact (IH s' Hv').
  - rewrite obs_forgotten_other, introduces_other by exact Hn. cbn [andb].
    apply IH. rewrite rstep_view_other by exact Hn. exact Hv.
Qed.

(* the repaired registry: after OEndErr n the registry knows nothing about n.  No protocol hypothesis. *)
Lemma end_err_view : forall s n, view (fst (rstep repaired s (OEndErr n))) n = (None, None, None, false).
Proof.
  intros s n. destruct (step_self repaired s (OEndErr n) n eq_refl) as [Hv _].
  destruct (view s n) as [[[l1 l2] l3] c]. exact Hv.
Qed.

Theorem clean_failure_from : forall ops s, clean_failure_b (trace_from repaired s ops) = true.
Proof.
  induction ops as [|o r IH]; intros s; [reflexivity|].
  rewrite trace_from_cons.
  destruct o as [m f|m|m v|m early fout|m|m v|m|m]; cbn [clean_failure_b]; try apply IH.
  rewrite IH, andb_true_r. apply forgotten_state. apply end_err_view.
Qed.

Lemma view_forgotten : forall s n, view s n = (None, None, None, false) <-> forgotten s n.
Proof.
  intros s n. unfold view, forgotten, is_creating. split.
  - intros H. inversion H. repeat split; reflexivity.
  - intros [H1 [H2 [H3 H4]]]. rewrite H1, H2, H3, H4. reflexivity.
Qed.

Theorem clean_failure_state : forall pre n, forgotten (state_after repaired (pre ++ [OEndErr n])) n.
Proof.
  intros pre n. apply view_forgotten. unfold state_after. rewrite rrun_app. cbn [fst].
  rewrite rrun_cons. cbn [fst rrun]. apply end_err_view.
Qed.

Lemma clean_failure_b_spec : forall tr,
  clean_failure_b tr = true ->
  forall pre n out post, tr = pre ++ (OEndErr n, out) :: post -> forgotten_from n post = true.
Proof.
  intros tr H pre. revert tr H. induction pre as [|e pre IH]; intros tr H n out post Heq.
  - subst tr. cbn [app clean_failure_b] in H. apply andb_true_iff in H. apply H.
  - subst tr. rewrite <- app_comm_cons in H.
    apply (IH (pre ++ (OEndErr n, out) :: post)) with (out := out); [|reflexivity].
    destruct e as [o eo]. destruct o; cbn [clean_failure_b] in H; try exact H.
    apply andb_true_iff in H. apply H.
Qed.

(* forgotten_from says: no lookup after the failure returns a reference before something is done for n *)
Lemma forgotten_no_stale_hits : forall n tr, forgotten_from n tr = true -> stale_hits n tr = [].
Proof.
  intros n tr. induction tr as [|[o out] r IH]; intros H; [reflexivity|].
  cbn [forgotten_from fst] in H. apply andb_true_iff in H. destruct H as [Ho H].
  cbn [stale_hits fst].
  assert (Hhd : match (o, out) with
                | (OGet m _ _, RVal (Some v) _) => if Nat.eqb m n then [v] else []
                | _ => []
                end = []).
  { unfold obs_forgotten in Ho. cbn [fst snd] in Ho. destruct o; try reflexivity.
    destruct out as [|[v|] i|f|b]; try reflexivity.
    destruct (Nat.eqb n0 n); [|reflexivity]. cbn in Ho. discriminate. }
  rewrite Hhd. cbn [app]. destruct (introduces n o); [reflexivity|exact (IH H)].
Qed.

(* ---- state invariant of conforming histories on the repaired registry ------------------------- *)

Definition vinv (w : nview) (isopen : bool) : Prop :=
  match w with
  | (l1, l2, l3, c) =>
    if isopen then l1 = None /\ c = true else l2 = None /\ l3 = None /\ c = false
  end.

Lemma inv_name_view : forall s stk n, inv_name s stk n <-> vinv (view s n) (mem n stk).
Proof.
  intros s stk n. unfold inv_name, vinv, view, is_creating. destruct (mem n stk); split.
  - intros [H _]. apply H. reflexivity.
  - intros H. split; [intros _; exact H|discriminate].
  - intros [_ H]. apply H. reflexivity.
  - intros H. split; [discriminate|intros _; exact H].
Qed.

Lemma vinv_step : forall s stk o stk',
  NoDup stk ->
  (forall n, vinv (view s n) (mem n stk)) ->
  proto_step stk (o, snd (rstep repaired s o)) = Some stk' ->
  forall n, vinv (view (fst (rstep repaired s o)) n) (mem n stk').
Proof.
  intros s stk o stk' Hnd Hinv Hstep n.
  destruct (Nat.eq_dec (op_name o) n) as [Hn|Hn].
  - destruct (step_self repaired s o n Hn) as [Hv' Ho]. specialize (Hinv n).
    destruct (view s n) as [[[l1 l2] l3] c] eqn:Hv. rewrite Ho in Hstep. rewrite Hv'. clear Hv' Ho.
    destruct o as [m f|m|m w|m early fout|m|m w|m|m]; cbn [op_name] in Hn; subst m;
      unfold proto_step in Hstep; cbn [fst snd] in Hstep.
    + destruct (mem n stk) eqn:Em; [|discriminate]. inversion Hstep; subst stk'. rewrite Em.
      cbn [vstep fst vinv] in *. exact Hinv.
    + destruct (mem n stk) eqn:Em; [discriminate|]. inversion Hstep; subst stk'. rewrite Em.
      cbn [vstep fst vinv]. repeat split; reflexivity.
    + destruct (mem n stk) eqn:Em; [discriminate|]. inversion Hstep; subst stk'. rewrite Em.
      cbn [vstep fst vinv] in *. destruct Hinv as [_ [_ Hc]]. split; [reflexivity|split; [reflexivity|exact Hc]].
    + inversion Hstep; subst stk'. cbn [vstep]. destruct (mem n stk) eqn:Em; cbn [vinv] in Hinv.
      * destruct Hinv as [H1 Hc]. subst l1 c. destruct l2; [exact (conj eq_refl eq_refl)|].
        destruct early; [|exact (conj eq_refl eq_refl)].
        destruct l3; [|exact (conj eq_refl eq_refl)]. destruct fout; exact (conj eq_refl eq_refl).
      * destruct Hinv as [H2 [H3 Hc]]. subst l2 l3 c.
        destruct l1; [repeat split; reflexivity|]. destruct early; repeat split; reflexivity.
    + destruct (mem n stk) eqn:Em; [discriminate|]. cbn [vinv] in Hinv. destruct Hinv as [H2 [H3 Hc]]. subst.
      cbn [vstep] in *. destruct l1 as [v|]; cbn [snd began fst] in *; inversion Hstep; subst stk'.
      * rewrite Em. cbn [vinv]. repeat split; reflexivity.
      * rewrite mem_cons, Nat.eqb_refl. cbn [orb vinv]. split; reflexivity.
    + destruct (proto_step_end stk (OEndOk n w, snd (vstep repaired (l1, l2, l3, c) (OEndOk n w))) stk' n) as [_ Hm];
        [unfold proto_step; exact Hstep|cbn; apply Nat.eqb_refl|exact Hnd|].
      rewrite Hm. cbn [vstep fst vinv]. repeat split; reflexivity.
    + destruct (proto_step_end stk (OEndErr n, snd (vstep repaired (l1, l2, l3, c) (OEndErr n))) stk' n) as [_ Hm];
        [unfold proto_step; exact Hstep|cbn; apply Nat.eqb_refl|exact Hnd|].
      rewrite Hm. cbn [vstep fst vinv repaired fix_c04]. repeat split; reflexivity.
    + inversion Hstep; subst stk'. cbn [vstep fst]. exact Hinv.
  - rewrite rstep_view_other by exact Hn.
    rewrite (proto_step_other _ _ _ n Hstep) by exact Hn. apply Hinv.
Qed.

Lemma vinv_run : forall ops s stk stk',
  NoDup stk ->
  (forall n, vinv (view s n) (mem n stk)) ->
  stack_from stk (trace_from repaired s ops) = Some stk' ->
  NoDup stk' /\ forall n, vinv (view (fst (rrun repaired s ops)) n) (mem n stk').
Proof.
  induction ops as [|o r IH]; intros s stk stk' Hnd Hinv Hs.
  - cbn in Hs. inversion Hs; subst. split; [exact Hnd|exact Hinv].
  - rewrite trace_from_cons in Hs. cbn [stack_from] in Hs.
    destruct (proto_step stk (o, snd (rstep repaired s o))) as [stk1|] eqn:Hstep; [|discriminate].
    rewrite rrun_cons. cbn [fst].
    apply (IH _ stk1 stk' (proto_step_nodup _ _ _ Hstep Hnd)); [|exact Hs].
    exact (vinv_step s stk o stk1 Hnd Hinv Hstep).
Qed.

Lemma stack_from_proto : forall tr stk, proto_from stk tr = true <-> exists stk', stack_from stk tr = Some stk'.
Proof.
  induction tr as [|e r IH]; intros stk; cbn [proto_from stack_from].
  - split; [intros _; exists stk; reflexivity|reflexivity].
  - destruct (proto_step stk e) as [stk1|]; [apply IH|].
    split; [discriminate|intros [x Hx]; discriminate].
Qed.

Theorem protocol_invariant : forall ops stk,
  stack_from [] (trace repaired ops) = Some stk ->
  NoDup stk /\ forall n, inv_name (state_after repaired ops) stk n.
Proof.
  intros ops stk Hs. unfold trace, state_after in *.
  destruct (vinv_run ops rinit [] stk (NoDup_nil _)) as [Hnd Hinv]; [|exact Hs|].
  - intros n. cbn. repeat split; reflexivity.
  - split; [exact Hnd|]. intros n. apply inv_name_view. apply Hinv.
Qed.

(* ---- sharper window statement for the repaired registry ------------------------------------------- *)

(* inside a window of n: fac = L3 n, cur = L2 n, and nothing else feeds the lookups of n *)
Lemma fresh_state : forall vt n ops s stk fac cur,
  proto_from stk (trace_from vt s ops) = true ->
  mem n stk = true ->
  view s n = (None, cur, fac, true) ->
  fresh_from n fac cur (take_window n (trace_from vt s ops)) = true.
Proof.
  intros vt n ops. induction ops as [|o r IH]; intros s stk fac cur Hp Hm Hv; [reflexivity|].
  rewrite trace_from_cons in *. cbn [take_window fst].
  destruct (is_end n o) eqn:Eend; [reflexivity|].
  apply proto_from_cons in Hp. destruct Hp as [stk' [Hstep Hrest]].
  pose proof (proto_step_keeps _ _ _ n Hstep Hm Eend) as Hm'.
  destruct (proto_step_open _ _ _ n Hstep Hm) as [Hrep Hnb]. cbn [fst] in Hrep, Hnb.
  destruct (Nat.eq_dec (op_name o) n) as [Hn|Hn].
  - destruct (step_self vt s o n Hn) as [Hv' Ho]. rewrite Hv in Hv', Ho.
    set (s' := fst (rstep vt s o)) in *. set (out := snd (rstep vt s o)) in *.
    destruct o as [m f|m|m v|m early fout|m|m v|m|m]; cbn [op_name] in Hn; subst m;
      cbn [is_end republishes] in Eend, Hrep; rewrite ?Nat.eqb_refl in Eend; rewrite ?Nat.eqb_refl in Hrep;
      try discriminate.
    + cbn [vstep fst snd] in Hv', Ho. cbn [fresh_from]. rewrite Nat.eqb_refl.
      exact (IH s' stk' (Some f) cur Hrest Hm' Hv').
    + cbn [vstep] in Hv', Ho. cbn [fresh_from]. rewrite Nat.eqb_refl.
      destruct cur as [e|].
      { cbn [fst snd] in Hv', Ho. rewrite Ho. rewrite ver_eqb_refl. cbn [andb].
        exact (IH s' stk' fac (Some e) Hrest Hm' Hv'). }
      destruct early.
      { destruct fac as [g|].
        - destruct fout as [v|]; cbn [fst snd] in Hv', Ho; rewrite Ho; rewrite Nat.eqb_refl; cbn [andb].
          + exact (IH s' stk' None (Some v) Hrest Hm' Hv').
          + exact (IH s' stk' (Some g) None Hrest Hm' Hv').
        - cbn [fst snd] in Hv', Ho; rewrite Ho. exact (IH s' stk' None None Hrest Hm' Hv'). }
      { cbn [fst snd] in Hv', Ho; rewrite Ho. exact (IH s' stk' fac None Hrest Hm' Hv'). }
    + exfalso. apply Hnb. reflexivity.
    + cbn [vstep fst snd] in Hv', Ho. cbn [fresh_from]. rewrite Nat.eqb_refl, Ho.
      cbn [rout_eqb Bool.eqb andb]. exact (IH s' stk' fac cur Hrest Hm' Hv').
  - assert (Hskip : fresh_from n fac cur ((o, snd (rstep vt s o)) :: take_window n (trace_from vt (fst (rstep vt s o)) r))
                    = fresh_from n fac cur (take_window n (trace_from vt (fst (rstep vt s o)) r))).
    { destruct o as [m f|m|m v|m early fout|m|m v|m|m]; cbn [op_name] in Hn; cbn [fresh_from]; try reflexivity;
        (destruct (Nat.eqb m n) eqn:E; [apply Nat.eqb_eq in E; contradiction|reflexivity]). }
    rewrite Hskip. apply (IH _ stk' fac cur Hrest Hm'). rewrite rstep_view_other by exact Hn. exact Hv.
Qed.

Theorem early_ref_fresh_from : forall ops s stk,
  NoDup stk ->
  (forall n, vinv (view s n) (mem n stk)) ->
  proto_from stk (trace_from repaired s ops) = true ->
  early_ref_fresh_b (trace_from repaired s ops) = true.
Proof.
  induction ops as [|o r IH]; intros s stk Hnd Hinv Hp; [reflexivity|].
  rewrite trace_from_cons in *. apply proto_from_cons in Hp. destruct Hp as [stk' [Hstep Hrest]].
  pose proof (proto_step_nodup _ _ _ Hstep Hnd) as Hnd'.
  pose proof (vinv_step s stk o stk' Hnd Hinv Hstep) as Hinv'.
  specialize (IH _ _ Hnd' Hinv' Hrest).
  destruct o as [m f|m|m v|m early fout|m|m v|m|m]; cbn [early_ref_fresh_b]; try exact IH.
  rewrite IH, andb_true_r.
  destruct (began (snd (rstep repaired s (OBegin m)))) eqn:Eb; [|reflexivity].
  destruct (began_view _ _ _ Eb) as [l2 [l3 [c [Hv Hv']]]].
  destruct (proto_step_begin _ _ _ _ Hstep Eb) as [Hclosed Hstk]. subst stk'.
  specialize (Hinv m). rewrite Hv, Hclosed in Hinv. cbn [vinv] in Hinv. destruct Hinv as [H2 [H3 _]]. subst l2 l3.
  assert (Hm : mem m (m :: stk) = true) by (rewrite mem_cons, Nat.eqb_refl; reflexivity).
  exact (fresh_state repaired m r _ _ None None Hrest Hm Hv').
Qed.

Lemma vinv_init : forall n, vinv (view rinit n) (mem n []).
Proof. intros n. cbn. repeat split; reflexivity. Qed.

(* ---- strict language: one invocation per window in total ------------------------------------------ *)

Lemma strict_from_cons : forall stk fl e r,
  strict_from stk fl (e :: r) = true ->
  exists stk', proto_step stk e = Some stk' /\
    (fl = true -> exists m, fst e = OEndErr m) /\
    strict_from stk' (match stk' with [] => false | _ :: _ => fl || is_fail e end) r = true.
Proof.
  intros stk fl e r H. cbn [strict_from] in H. destruct (proto_step stk e) as [stk'|]; [|discriminate].
  apply andb_true_iff in H. destruct H as [H1 H2]. exists stk'. split; [reflexivity|]. split; [|exact H2].
  intros Hfl. subst fl. destruct (fst e); try discriminate. eexists; reflexivity.
Qed.

Lemma strict_proto : forall tr stk fl, strict_from stk fl tr = true -> proto_from stk tr = true.
Proof.
  induction tr as [|e r IH]; intros stk fl H; [reflexivity|].
  apply strict_from_cons in H. destruct H as [stk' [Hs [_ Hr]]]. cbn [proto_from]. rewrite Hs. exact (IH _ _ Hr).
Qed.

(* while an error propagates, nothing is looked up before the window of an open name closes *)
Lemma strict_failing_window : forall n tr stk,
  strict_from stk true tr = true -> mem n stk = true -> invocations n (take_window n tr) = [].
Proof.
  intros n tr. induction tr as [|e r IH]; intros stk H Hm; [reflexivity|].
  apply strict_from_cons in H. destruct H as [stk' [Hs [Hfl Hr]]].
  destruct (Hfl eq_refl) as [m Hm0]. cbn [take_window]. destruct (is_end n (fst e)) eqn:Eend; [reflexivity|].
  pose proof (proto_step_keeps _ _ _ n Hs Hm Eend) as Hm'.
  destruct e as [o out]. cbn [fst] in Hm0. subst o. cbn [invocations].
  destruct stk' as [|k q]; [cbn in Hm'; discriminate|]. cbn [orb] in Hr. exact (IH _ Hr Hm').
Qed.

Lemma strict_window : forall vt n ops s stk fl l2 l3 c,
  strict_from stk fl (trace_from vt s ops) = true ->
  mem n stk = true ->
  view s n = (None, l2, l3, c) ->
  length (invocations n (take_window n (trace_from vt s ops))) <= match l2 with Some _ => 0 | None => 1 end.
Proof.
  intros vt n ops. induction ops as [|o r IH]; intros s stk fl l2 l3 c Hp Hm Hv.
  - cbn. lia.
  - destruct fl.
    { rewrite (strict_failing_window n _ stk Hp Hm). cbn. lia. }
    rewrite trace_from_cons in *. cbn [take_window fst].
    destruct (is_end n o) eqn:Eend; [cbn; lia|].
    apply strict_from_cons in Hp. destruct Hp as [stk' [Hstep [_ Hrest]]].
    pose proof (proto_step_keeps _ _ _ n Hstep Hm Eend) as Hm'.
    destruct (proto_step_open _ _ _ n Hstep Hm) as [Hrep Hnb]. cbn [fst] in Hrep, Hnb.
    destruct stk' as [|k q]; [cbn in Hm'; discriminate|]. cbn [orb] in Hrest.
    destruct (Nat.eq_dec (op_name o) n) as [Hn|Hn].
    + destruct (step_self vt s o n Hn) as [Hv' Ho]. rewrite Hv in Hv', Ho.
      set (s' := fst (rstep vt s o)) in *. set (out := snd (rstep vt s o)) in *.
      destruct o as [m f|m|m v|m early fout|m|m v|m|m]; cbn [op_name] in Hn; subst m;
        cbn [is_end republishes] in Eend, Hrep; rewrite ?Nat.eqb_refl in Eend; rewrite ?Nat.eqb_refl in Hrep;
        try discriminate.
      * cbn [vstep fst snd] in Hv', Ho. rewrite Ho in *. cbn [invocations].
        exact (IH s' _ _ l2 (Some f) c Hrest Hm' Hv').
      * cbn [vstep] in Hv', Ho. destruct l2 as [e|].
        { cbn [fst snd] in Hv', Ho. rewrite Ho in *. cbn [invocations]. rewrite ?Nat.eqb_refl.
          exact (IH s' _ _ (Some e) l3 c Hrest Hm' Hv'). }
        destruct early.
        { destruct l3 as [g|].
          - destruct fout as [v|]; cbn [fst snd] in Hv', Ho; rewrite Ho in *; cbn [invocations];
              rewrite ?Nat.eqb_refl; cbn [length].
            + pose proof (IH s' _ _ (Some v) None c Hrest Hm' Hv') as H. cbn in H. lia.
            + cbn [is_fail] in Hrest. rewrite (strict_failing_window n _ _ Hrest Hm'). cbn. lia.
          - cbn [fst snd] in Hv', Ho; rewrite Ho in *; cbn [invocations]; rewrite ?Nat.eqb_refl.
            exact (IH s' _ _ None None c Hrest Hm' Hv'). }
        { cbn [fst snd] in Hv', Ho; rewrite Ho in *; cbn [invocations]; rewrite ?Nat.eqb_refl.
          exact (IH s' _ _ None l3 c Hrest Hm' Hv'). }
      * exfalso. apply Hnb. reflexivity.
      * cbn [vstep fst snd] in Hv', Ho. rewrite Ho in *. cbn [invocations].
        exact (IH s' _ _ l2 l3 c Hrest Hm' Hv').
    + rewrite invocations_other by exact Hn.
      apply (IH _ _ _ l2 l3 c Hrest Hm'). rewrite rstep_view_other by exact Hn. exact Hv.
Qed.

Theorem single_invocation_from : forall vt ops s stk fl,
  strict_from stk fl (trace_from vt s ops) = true ->
  single_invocation_b (trace_from vt s ops) = true.
Proof.
  intros vt ops. induction ops as [|o r IH]; intros s stk fl Hp; [reflexivity|].
  rewrite trace_from_cons in *. apply strict_from_cons in Hp. destruct Hp as [stk' [Hstep [_ Hrest]]].
  pose proof (IH _ _ _ Hrest) as IH'.
  destruct o as [m f|m|m v|m early fout|m|m v|m|m]; cbn [single_invocation_b]; try exact IH'.
  rewrite IH', andb_true_r.
  destruct (began (snd (rstep vt s (OBegin m)))) eqn:Eb; [|reflexivity].
  destruct (began_view _ _ _ Eb) as [l2 [l3 [c [Hv Hv']]]].
  destruct (proto_step_begin _ _ _ _ Hstep Eb) as [_ Hstk]. subst stk'.
  assert (Hm : mem m (m :: stk) = true) by (rewrite mem_cons, Nat.eqb_refl; reflexivity).
  pose proof (strict_window vt m r _ _ _ l2 l3 true Hrest Hm Hv') as H.
  apply Nat.leb_le. destruct l2; lia.
Qed.

(* ---- the protocol is prefix closed --------------------------------------------------------------- *)

Lemma proto_from_app : forall a b stk, proto_from stk (a ++ b) = true -> proto_from stk a = true.
Proof.
  induction a as [|e r IH]; intros b stk H; [reflexivity|].
  rewrite <- app_comm_cons in H. cbn [proto_from] in *. destruct (proto_step stk e); [exact (IH _ _ H)|discriminate].
Qed.

Theorem conforms_prefix : forall vt a b, conforms_v vt (a ++ b) = true -> conforms_v vt a = true.
Proof.
  intros vt a b H. unfold conforms_v, protocol, trace in *. rewrite trace_from_app in H.
  exact (proto_from_app _ _ _ H).
Qed.

(* ---- reading the boolean observations as equalities ------------------------------------------------ *)

Lemma rout_eqb_eq : forall a b, rout_eqb a b = true -> a = b.
Proof.
  intros [|v i|i|x] [|w j|j|y]; cbn [rout_eqb]; intros H; try discriminate; try reflexivity.
  - apply andb_true_iff in H. destruct H as [H1 H2].
    assert (v = w).
    { destruct v as [v|], w as [w|]; cbn [optver_eqb] in H1; try discriminate; [|reflexivity].
      apply ver_eqb_eq in H1. subst. reflexivity. }
    assert (i = j).
    { destruct i as [i|], j as [j|]; cbn [optnat_eqb] in H2; try discriminate; [|reflexivity].
      apply Nat.eqb_eq in H2. subst. reflexivity. }
    subst. reflexivity.
  - apply Nat.eqb_eq in H. subst. reflexivity.
  - apply Bool.eqb_prop in H. subst. reflexivity.
Qed.

Lemma obs_final_get : forall n v early fout out,
  obs_final n v (OGet n early fout, out) = true -> out = RVal (Some v) None.
Proof.
  intros n v early fout out H. unfold obs_final in H. cbn [fst snd] in H. rewrite Nat.eqb_refl in H.
  exact (rout_eqb_eq _ _ H).
Qed.

Lemma obs_final_begin : forall n v out,
  obs_final n v (OBegin n, out) = true -> out = RVal (Some v) None.
Proof.
  intros n v out H. unfold obs_final in H. cbn [fst snd] in H. rewrite Nat.eqb_refl in H.
  exact (rout_eqb_eq _ _ H).
Qed.

Lemma obs_final_creating : forall n v out,
  obs_final n v (OIsCreating n, out) = true -> out = RBool false.
Proof.
  intros n v out H. unfold obs_final in H. cbn [fst snd] in H. rewrite Nat.eqb_refl in H.
  exact (rout_eqb_eq _ _ H).
Qed.

(* every entry before the first op that does something for n again satisfies obs_forgotten *)
Lemma forgotten_from_spec : forall n tr,
  forgotten_from n tr = true ->
  forall a e b, tr = a ++ e :: b -> forallb (fun x => negb (introduces n (fst x))) a = true ->
  obs_forgotten n e = true.
Proof.
  intros n tr H a. revert tr H. induction a as [|x a IH]; intros tr H e b Heq Ha.
  - subst tr. cbn [app forgotten_from] in H. apply andb_true_iff in H. apply H.
  - subst tr. rewrite <- app_comm_cons in H. cbn [forgotten_from] in H. cbn [forallb] in Ha.
    apply andb_true_iff in Ha. destruct Ha as [Hx Ha]. apply negb_true_iff in Hx. rewrite Hx in H.
    apply andb_true_iff in H. destruct H as [_ H]. exact (IH _ H e b eq_refl Ha).
Qed.

Lemma obs_forgotten_get : forall n early fout out,
  obs_forgotten n (OGet n early fout, out) = true -> out = RVal None None.
Proof.
  intros n early fout out H. unfold obs_forgotten in H. cbn [fst snd] in H. rewrite Nat.eqb_refl in H.
  exact (rout_eqb_eq _ _ H).
Qed.

Lemma obs_forgotten_begin : forall n out,
  obs_forgotten n (OBegin n, out) = true -> out = RVal None None.
Proof.
  intros n out H. unfold obs_forgotten in H. cbn [fst snd] in H. rewrite Nat.eqb_refl in H.
  exact (rout_eqb_eq _ _ H).
Qed.

Lemma obs_forgotten_creating : forall n out,
  obs_forgotten n (OIsCreating n, out) = true -> out = RBool false.
Proof.
  intros n out H. unfold obs_forgotten in H. cbn [fst snd] in H. rewrite Nat.eqb_refl in H.
  exact (rout_eqb_eq _ _ H).
Qed.
