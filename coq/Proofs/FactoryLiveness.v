(* Liveness (C02 c02_cycles_succeed): when no post-processor substitutes components, no callback fails
   and every required point of every component has an assignable provider, start-up succeeds — for every
   dependency graph, whatever its cycles.  Together with termination (FactoryTermination.v) this is shown
   by proving that under these hypotheses no step of the model can fail with an error value or a panic:
   the only conceivable failure left is fuel exhaustion, which the termination theorem excludes. *)
From Coq Require Import List Arith Bool Lia Permutation.
From IocVerif Require Import Model.Registry Model.Resolve Model.Factory Model.App
  Proofs.FactoryBasics Proofs.FactoryLog Proofs.FactoryInvariant Proofs.FactoryLifecycle Proofs.ResolveProofs
  Proofs.FactoryNoPanic Proofs.FactoryWiring Proofs.FactoryTermination Proofs.SorterProofs.
Import ListNotations.

Definition used_of (p : point) (l : list name) : list name := if pt_slice p then l else firstn 1 l.

(* the result is Ok, or the (impossible) fuel exhaustion *)
Definition okf {A} (r : res A) : Prop := match r with Ok _ => True | Fail FFuel _ => True | Fail _ _ => False end.

Section Live.
  Variable vt : variant.
  Hypothesis H3 : fix_c03 vt = true.
  Hypothesis H7 : fix_c07 vt = true.
  Hypothesis H8 : fix_c08 vt = true.
  Hypothesis H10 : fix_c10 vt = true.
  Variable s : scenario.
  Let pop := s_pop s.

  (* no substitution, no faults, everything satisfiable *)
  Hypothesis Hns : forall p e a, proc_of pop p = Some (PUser e a) ->
    (forall n, alookup n e <> Some EFresh) /\ (forall n, alookup n a = None \/ alookup n a = Some ANone).
  Hypothesis Hnf : forall p ph n, faulty s p ph n = false.
  Hypothesis Hcomp : forall n c, get_comp pop n = Some c ->
    c_aps c <> Some true /\ c_init c <> Some true /\ cfg_stage c true = false /\ cfg_stage c false = false.
  Hypothesis Hsat : forall n c, get_comp pop n = Some c ->
    exists pl, plan vt s n c = Some pl /\
      forall k p x, nth_error (c_points c) k = Some p -> nth_error pl k = Some x ->
        forall d, In d (used_of p (remove_nil x)) -> exists cd, get_comp pop d = Some cd /\ type_ok cd (pt_target p) = true.
  Hypothesis Hdef : forall n c k p x d, get_comp pop n = Some c -> plan vt s n c = Some x ->
    nth_error (c_points c) k = Some p -> forall pl, nth_error x k = Some pl -> In d (remove_nil pl) -> d < length pop.

  (* every cached version is the original instance *)
  Definition VO (st : fstate) : Prop :=
    scanned st = true /\ forall m v, cur (reg st) m = Some v -> v = VOrig m.

  Lemma early_chain_nosubst n ps : forall st,
    exists st', early_chain s n ps st (VOrig n) = Ok (st', VOrig n).
  Proof.
    induction ps as [|p r IH]; intros st; cbn [early_chain]; [eexists; reflexivity|].
    destruct (proc_of (s_pop s) p) as [[k|e a]|] eqn:Ep; [apply IH| |apply IH].
    rewrite Hnf. destruct (Hns p e a Ep) as [He _]. specialize (He n).
    destruct (alookup n e) as [[|]|]; [apply IH|contradiction|apply IH].
  Qed.

  Lemma before_chain_ok n c ps : forall st, exists st', before_chain s n c ps st = Ok st'.
  Proof.
    induction ps as [|p r IH]; intros st; cbn [before_chain]; [eexists; reflexivity|].
    destruct (proc_of (s_pop s) p) as [[k|e a]|]; [apply IH| |apply IH]. rewrite Hnf. apply IH.
  Qed.

  Lemma after_chain_ok n ps : forall st, exists st', after_chain s n ps st None = Ok (st', None).
  Proof.
    induction ps as [|p r IH]; intros st; cbn [after_chain]; [eexists; reflexivity|].
    destruct (proc_of (s_pop s) p) as [[k|e a]|] eqn:Ep; [apply IH| |apply IH].
    rewrite Hnf. destruct (Hns p e a Ep) as [_ Ha]. destruct (Ha n) as [->| ->]; apply IH.
  Qed.

  Lemma initialize_ok st n c : get_comp pop n = Some c -> exists st', initialize s st n c = Ok (st', None).
  Proof.
    intros Hc. destruct (Hcomp n c Hc) as [Ha [Hi _]]. unfold initialize.
    destruct (before_chain_ok n c (active st) st) as [st1 ->].
    assert (Him : exists st2, init_methods n c st1 = Ok st2).
    { unfold init_methods. destruct (c_aps c) as [[|]|]; [contradiction| |];
        (destruct (c_init c) as [[|]|]; [contradiction|eexists; reflexivity|eexists; reflexivity]). }
    destruct Him as [st2 ->]. apply after_chain_ok.
  Qed.

  Variable rec : fstate -> name -> res (fstate * ver).
  Hypothesis Hspec : rec_spec rec.
  Hypothesis Hlife : rec_life s rec.
  Hypothesis Hlog : forall st d, geff2 s st (rec st d).
  Hypothesis HG : forall st d st' v, G vt s st -> full s st -> rec st d = Ok (st', v) -> G vt s st'.
  (* the induction hypothesis: a call for a defined name does not fail, and keeps VO *)
  Hypothesis Hlive : forall st d, G vt s st -> VO st -> full s st -> d < length pop ->
    okf (rec st d) /\ forall st' v, rec st d = Ok (st', v) -> VO st'.

  Lemma get_all_live : forall l st, G vt s st -> VO st -> full s st -> (forall d, In d l -> d < length pop) ->
    okf (get_all rec st (map Some l)) /\
    forall st' vs, get_all rec st (map Some l) = Ok (st', vs) -> VO st' /\ vs = map VOrig l.
  Proof.
    induction l as [|d r IH]; intros st Hg Hvo Hfu Hd; cbn [map get_all].
    - split; [exact I|]. intros st' vs H; inversion H; subst. split; [exact Hvo|reflexivity].
    - destruct (Hlive st d Hg Hvo Hfu (Hd d (or_introl eq_refl))) as [Hok Hvo1].
      destruct (rec st d) as [[st1 v]|k st1] eqn:E; [|split; [exact Hok|intros ? ? H; discriminate]].
      specialize (Hvo1 st1 v eq_refl).
      pose proof (HG _ _ _ _ Hg Hfu E) as Hg1.
      assert (Hfu1 : full s st1).
      { unfold full. pose proof (Hlog st d) as Hl. rewrite E in Hl. cbn [geff2] in Hl. destruct Hl as [Ha _ _]. rewrite Ha. exact Hfu. }
      destruct (Hspec st d st1 v (g_inv vt s st Hg) E) as [_ [_ [_ Hcur]]].
      assert (Hv : v = VOrig d) by (apply (proj2 Hvo1); exact Hcur).
      destruct (IH st1 Hg1 Hvo1 Hfu1 (fun x Hx => Hd x (or_intror Hx))) as [Hok2 Hres].
      destruct (get_all rec st1 (map Some r)) as [[st2 vs]|k2 st2] eqn:E2; [|split; [exact Hok2|intros ? ? H; discriminate]].
      split; [exact I|]. intros st' vs' H; inversion H; subst.
      destruct (Hres _ _ eq_refl) as [Hvo2 ->]. split; [exact Hvo2|reflexivity].
  Qed.

  Lemma filter_nonself_orig h l : ~ In h l -> filter (fun v => negb (is_self h v)) (map VOrig l) = map VOrig l.
  Proof.
    induction l as [|d r IH]; intros Hn; [reflexivity|]. cbn [map filter is_self].
    destruct (Nat.eqb_spec d h) as [->|Hne]; [exfalso; apply Hn; left; reflexivity|].
    cbn [negb]. f_equal. apply IH. intros Hin. apply Hn. right; exact Hin.
  Qed.

  Lemma inject_live st h k p l :
    l <> [] -> ~ In h l ->
    (forall d, In d (used_of p l) -> exists cd, get_comp pop d = Some cd /\ type_ok cd (pt_target p) = true) ->
    inject vt s st h k p (map VOrig l) = Ok (write_field st h k (map VOrig (used_of p l))).
  Proof.
    intros Hne Hnh Hass. unfold inject.
    destruct l as [|a t]; [contradiction|]. cbn [map].
    change (VOrig a :: map VOrig t) with (map VOrig (a :: t)). rewrite (filter_nonself_orig h (a :: t) Hnh).
    cbn [map].
    assert (Hall : forallb (fun v => assignable (s_pop s) v (pt_target p))
                     (if pt_slice p then VOrig a :: map VOrig t else [VOrig a]) = true).
    { assert (Hu : (if pt_slice p then VOrig a :: map VOrig t else [VOrig a]) = map VOrig (used_of p (a :: t)))
        by (unfold used_of; destruct (pt_slice p); reflexivity).
      rewrite Hu. apply forallb_forall. intros v Hv. apply in_map_iff in Hv. destruct Hv as [d [<- Hd]].
      destruct (Hass d Hd) as [cd [Hcd Hty]]. unfold assignable. cbn [owner]. fold pop. rewrite Hcd. exact Hty. }
    rewrite Hall. f_equal. f_equal. unfold used_of. destruct (pt_slice p); reflexivity.
  Qed.

  Lemma VO_same st st' : reg st' = reg st -> scanned st' = scanned st -> VO st -> VO st'.
  Proof. intros Hr Hs [Hsc Hv]. split; [congruence|]. intros m v. rewrite Hr. apply Hv. Qed.

  Lemma inject_points_live h cr : forall ps k pl st,
    G vt s st -> VO st -> full s st -> creating (reg st) = h :: cr -> length pl = length ps ->
    Forall (fun r => exists l, r = map Some l /\ ~ In h l) pl ->
    (forall i p x d, nth_error ps i = Some p -> nth_error pl i = Some x -> In d (remove_nil x) -> d < length pop) ->
    (forall i p x d, nth_error ps i = Some p -> nth_error pl i = Some x -> In d (used_of p (remove_nil x)) ->
        exists cd, get_comp pop d = Some cd /\ type_ok cd (pt_target p) = true) ->
    okf (inject_points vt s rec h k ps pl st) /\
    forall st', inject_points vt s rec h k ps pl st = Ok st' -> VO st'.
  Proof.
    induction ps as [|p ps' IH]; intros k pl st Hg Hvo Hfu Hcr Hlen Hsh Hd Hass; cbn [inject_points].
    - split; [exact I|]. intros st' H; inversion H; subst; exact Hvo.
    - destruct pl as [|x pl']; [discriminate|]. cbn [length] in Hlen.
      inversion Hsh as [|? ? [l [Hx Hnl]] Hsh']; subst x.
      assert (Hd' : forall i q y d, nth_error ps' i = Some q -> nth_error pl' i = Some y -> In d (remove_nil y) -> d < length pop)
        by (intros i q y d Hq Hy; apply (Hd (S i) q y d Hq Hy)).
      assert (Hass' : forall i q y d, nth_error ps' i = Some q -> nth_error pl' i = Some y -> In d (used_of q (remove_nil y)) ->
                        exists cd, get_comp pop d = Some cd /\ type_ok cd (pt_target q) = true)
        by (intros i q y d Hq Hy; apply (Hass (S i) q y d Hq Hy)).
      destruct l as [|a t].
      + cbn [map]. apply (IH (S k) pl' st Hg Hvo Hfu Hcr ltac:(lia) Hsh' Hd' Hass').
      + change (map Some (a :: t)) with (Some a :: map Some t).
        assert (Hdl : forall d, In d (a :: t) -> d < length pop).
        { intros d Hin. apply (Hd 0 p (map Some (a :: t)) d eq_refl eq_refl). rewrite remove_nil_map_Some. exact Hin. }
        destruct (get_all_live (a :: t) st Hg Hvo Hfu Hdl) as [Hok Hres]. change (map Some (a :: t)) with (Some a :: map Some t) in *.
        destruct (get_all rec st (Some a :: map Some t)) as [[st1 vs]|k1 st1] eqn:E1; [|split; [exact Hok|intros ? HH; discriminate HH]].
        destruct (Hres _ _ eq_refl) as [Hvo1 ->].
        change (Some a :: map Some t) with (map Some (a :: t)) in E1.
        destruct (get_all_G vt s rec Hlog HG _ _ _ _ Hg Hfu E1) as [Hg1 Hact1].
        destruct (get_all_spec rec Hspec _ _ _ _ (g_inv vt s st Hg) E1) as [_ [Hc1 [_ Hcur]]].
        assert (Hcr1 : creating (reg st1) = h :: cr) by congruence.
        assert (Hassp : forall d, In d (used_of p (a :: t)) -> exists cd, get_comp pop d = Some cd /\ type_ok cd (pt_target p) = true).
        { intros d Hin. apply (Hass 0 p (map Some (a :: t)) d eq_refl eq_refl). rewrite remove_nil_map_Some. exact Hin. }
        rewrite (inject_live st1 h k p (a :: t) ltac:(discriminate) Hnl Hassp).
        set (st2 := write_field st1 h k (map VOrig (used_of p (a :: t)))).
        assert (Hg2 : G vt s st2).
        { eapply G_write; [exact Hg1|exact Hcr1| |].
          - rewrite Forall_forall in *. intros v Hv. apply Hcur. apply in_map_iff in Hv. destruct Hv as [d [<- Hdin]].
            apply in_map. unfold used_of in Hdin. destruct (pt_slice p); [exact Hdin|]. cbn [firstn] in Hdin.
            destruct Hdin as [<-|[]]. left; reflexivity.
          - intros v Hv. apply in_map_iff in Hv. destruct Hv as [d [<- Hdin]]. cbn [is_self]. apply Nat.eqb_neq.
            intros ->. apply Hnl. unfold used_of in Hdin. destruct (pt_slice p); [exact Hdin|]. cbn [firstn] in Hdin.
            destruct Hdin as [<-|[]]. left; reflexivity. }
        apply (IH (S k) pl' st2 Hg2 (VO_same st1 st2 eq_refl eq_refl Hvo1) ltac:(unfold full; cbn [active write_field st2]; rewrite Hact1; exact Hfu)
                  Hcr1 ltac:(lia) Hsh' Hd' Hass').
  Qed.

  Lemma pipeline_pointless n c ps : forall st,
    c_points c = [] -> cfg_stage c true = false -> cfg_stage c false = false ->
    pipeline vt s n c ps st [] = Ok (st, []).
  Proof.
    intros st Hp H1 H2. induction ps as [|p r IH]; cbn [pipeline]; [reflexivity|].
    destruct (proc_of (s_pop s) p) as [[[]|e a]|]; try exact IH.
    - rewrite H1. exact IH.
    - rewrite H2. exact IH.
    - rewrite Hp. cbn [add_candidates]. exact IH.
    - rewrite Hp. cbn [further_loop]. exact IH.
    - rewrite Hp. cbn [add_candidates]. exact IH.
  Qed.

  Lemma body_live : forall st n, G vt s st -> VO st ->
    (full s st \/ (forall c, get_comp pop n = Some c -> c_points c = [])) -> n < length pop ->
    okf (body vt s rec st n) /\ forall st' v, body vt s rec st n = Ok (st', v) -> VO st'.
  Proof.
    intros st n Hg [Hsc Hvo] Hcase Hlt. unfold body, get_singleton.
    destruct (get_lookup (reg st) n true) as [hv|f|] eqn:EL.
    - split; [exact I|]. intros st' v H; inversion H; subst. split; assumption.
    - unfold early_reference. destruct (early_chain_nosubst n (active st) st) as [st1 E]. rewrite E.
      split; [exact I|]. intros st' v H; inversion H; subst st' v.
      pose proof (early_chain_eff s n (active st) st st (VOrig n) (only_log_refl _ st)) as He. rewrite E in He.
      cbn [eff2] in He. destruct He as [Hr _ _ _ _ Hs1 _].
      destruct (get_lookup_need _ _ _ _ EL) as [HL1 _].
      split; [cbn [scanned set_reg]; congruence|]. intros m v Hm. cbn [reg set_reg] in Hm. rewrite Hr in Hm.
      destruct (Nat.eq_dec m n) as [->|Hne].
      + rewrite (cur_promote_eq (reg st) n (VOrig n) HL1) in Hm. inversion Hm; reflexivity.
      + rewrite (cur_promote_neq (reg st) n (VOrig n) m Hne) in Hm. apply Hvo. exact Hm.
    - pose proof (FactoryBasics.get_lookup_miss_uncached _ _ EL) as Hunc.
      destruct (get_lookup_miss_true _ _ EL) as [HL1 [HL2 HL3]].
      unfold begin_create. rewrite HL1.
      destruct (Inv_push st n (g_inv vt s st Hg) Hunc) as [Hadd HI0]. rewrite Hadd.
      unfold create. cbn [scanned set_reg]. rewrite Hsc.
      assert (Hex : exists c, get_comp (s_pop s) n = Some c).
      { unfold get_comp. destruct (nth_error (s_pop s) n) eqn:E; [eexists; reflexivity|].
        apply nth_error_None in E. unfold pop in Hlt. lia. }
      destruct Hex as [c Ec]. rewrite Ec. unfold do_create. cbn [reg set_reg].
      match goal with |- context [populate vt s rec ?x n c] => set (st0 := x) end.
      destruct (g_fresh vt s st Hg n Hunc) as [Hinj0 Hfld0].
      destruct (Hcomp n c Ec) as [_ [_ [Hcf1 Hcf2]]].
      assert (Hg0 : forall pl, G vt s (set_injs st0 n pl)).
      { intros pl. destruct Hg as [Gi Gf Gw]. constructor.
        - eapply Inv_same_core; [|exact HI0]. repeat split.
        - intros m Hm. change (reg (set_injs st0 n pl)) with (reg st0) in Hm.
          assert (Hm0 : cached (reg st) m = false).
          { destruct (cached (reg st) m) eqn:E; [|reflexivity].
            assert (Hc0 : cached (reg st0) m = true) by (unfold st0; cbn [reg set_reg]; apply mono_add_factory; exact E).
            rewrite Hc0 in Hm. discriminate. }
          destruct (Gf m Hm0) as [A1 A2]. split; [|exact A2]. cbn [injs set_injs st0 set_reg].
          assert (Hne : m <> n).
          { intros ->. unfold st0 in Hm. cbn [reg set_reg] in Hm. rewrite cached_add_factory in Hm. discriminate. }
          rewrite (alookup_aset_neq n m pl _ Hne). exact A1.
        - intros h' c' Hp Hc'. exact (Gw h' c' Hp Hc'). }
      assert (Hcr0 : forall pl, creating (reg (set_injs st0 n pl)) = n :: creating (reg st)) by reflexivity.
      assert (Hvo0 : forall pl, VO (set_injs st0 n pl)).
      { intros pl. split; [exact Hsc|]. intros m v Hm. apply Hvo. exact Hm. }
      (* populate *)
      assert (Hpop : okf (populate vt s rec st0 n c) /\ forall st1, populate vt s rec st0 n c = Ok st1 ->
                       VO st1 /\ reg st1 = reg st1).
      { unfold populate, cur_injs. change (injs st0) with (injs st). rewrite Hinj0.
        change (active st0) with (active st).
        destruct Hcase as [Hfu|Hpl].
        - unfold full in Hfu. rewrite (pipeline_full vt s n c (active st) st0 H8 Hfu), Hcf1, Hcf2.
          destruct (Hsat n c Ec) as [pl [Epl Hass]]. rewrite Epl.
          destruct (pointwise_shape vt (s_pop s) n H10 (c_points c) _ pl Epl ltac:(rewrite map_length; reflexivity))
            as [Hlen Hsh].
          destruct (inject_points_live n (creating (reg st)) (c_points c) 0 pl (set_injs st0 n pl)
                      (Hg0 pl) (Hvo0 pl) Hfu (Hcr0 pl) Hlen Hsh
                      ltac:(intros i p x d Hp Hx Hd; eapply (Hdef n c i p pl d Ec Epl Hp x Hx Hd))
                      ltac:(intros i p x d Hp Hx Hd; eapply (Hass i p x Hp Hx d Hd))) as [Hok Hv].
          split; [exact Hok|]. intros st1 E1. split; [apply Hv; exact E1|reflexivity].
        - pose proof (Hpl c Ec) as Hnil. rewrite Hnil. cbn [map].
          rewrite (pipeline_pointless n c (active st) st0 Hnil Hcf1 Hcf2). cbn [inject_points].
          split; [exact I|]. intros st1 E1; inversion E1; subst. split; [apply Hvo0|reflexivity]. }
      destruct Hpop as [Hokp Hvop].
      destruct (populate vt s rec st0 n c) as [st1|k1 st1] eqn:EP.
      2:{ split; [|intros ? ? HH; destruct k1; discriminate HH]. destruct k1 as [e| |]; [exact Hokp|exact Hokp|exact I]. }
      destruct (Hvop st1 eq_refl) as [[Hsc1 Hvo1] _].
      destruct (initialize_ok st1 n c Ec) as [st2 EI]. rewrite EI.
      pose proof (initialize_eff s st1 n c Ec) as Hie. rewrite EI in Hie. cbn [eff2] in Hie.
      destruct Hie as [Hr2 _ _ _ _ Hs2 _].
      unfold get_singleton. rewrite (FactoryBasics_get_lookup_false (reg st2) n).
      assert (Hfinal : forall pv, pv = VOrig n -> VO (set_reg st2 (end_create_ok (reg st2) n pv))).
      { intros pv ->. split; [cbn [scanned set_reg]; congruence|]. intros m v Hm. cbn [reg set_reg] in Hm.
        destruct (Nat.eq_dec m n) as [->|Hne].
        - rewrite cur_publish_eq in Hm. inversion Hm; reflexivity.
        - rewrite (cur_publish_neq (reg st2) n (VOrig n) m Hne), Hr2 in Hm. apply Hvo1. exact Hm. }
      destruct (match alookup n (L1 (reg st2)) with Some v0 => Some v0 | None => alookup n (L2 (reg st2)) end) as [e|] eqn:Ecur.
      + split; [exact I|]. intros st' v H; inversion H; subst. apply Hfinal.
        apply Hvo1. unfold cur. rewrite <- Hr2. exact Ecur.
      + split; [exact I|]. intros st' v H; inversion H; subst. apply Hfinal. reflexivity.
  Qed.
End Live.

(* ---------- closing the recursion ------------------------------------------------------------------------- *)

Section LiveTop.
  Variable vt : variant.
  Hypothesis H3 : fix_c03 vt = true.
  Hypothesis H7 : fix_c07 vt = true.
  Hypothesis H8 : fix_c08 vt = true.
  Hypothesis H10 : fix_c10 vt = true.
  Variable s : scenario.
  Let pop := s_pop s.
  Hypothesis Hns : forall p e a, proc_of pop p = Some (PUser e a) ->
    (forall n, alookup n e <> Some EFresh) /\ (forall n, alookup n a = None \/ alookup n a = Some ANone).
  Hypothesis Hnf : forall p ph n, faulty s p ph n = false.
  Hypothesis Hcomp : forall n c, get_comp pop n = Some c ->
    c_aps c <> Some true /\ c_init c <> Some true /\ cfg_stage c true = false /\ cfg_stage c false = false.
  Hypothesis Hsat : forall n c, get_comp pop n = Some c ->
    exists pl, plan vt s n c = Some pl /\
      forall k p x, nth_error (c_points c) k = Some p -> nth_error pl k = Some x ->
        forall d, In d (used_of p (remove_nil x)) -> exists cd, get_comp pop d = Some cd /\ type_ok cd (pt_target p) = true.
  Hypothesis Hdef : forall n c k p x d, get_comp pop n = Some c -> plan vt s n c = Some x ->
    nth_error (c_points c) k = Some p -> forall pl, nth_error x k = Some pl -> In d (remove_nil pl) -> d < length pop.

  Theorem do_get_live : forall fuel st n, G vt s st -> VO st ->
    (full s st \/ (forall c, get_comp pop n = Some c -> c_points c = [])) -> n < length pop ->
    okf (do_get vt s fuel st n) /\ forall st' v, do_get vt s fuel st n = Ok (st', v) -> VO st'.
  Proof.
    induction fuel as [|f IH]; intros st n Hg Hvo Hc Hlt; cbn [do_get].
    - split; [exact I|intros ? ? HH; discriminate HH].
    - assert (HG' : forall st0 d st1 v1, G vt s st0 -> full s st0 -> do_get vt s f st0 d = Ok (st1, v1) -> G vt s st1)
        by (intros st0 d st1 v1 Hg0 Hf0 H0; eapply (do_get_G vt s H3 H7 H8 H10); [exact Hg0|left; exact Hf0|exact H0]).
      assert (Hl' : forall st0 d, G vt s st0 -> VO st0 -> full s st0 -> d < length (s_pop s) ->
                      okf (do_get vt s f st0 d) /\ forall st' v, do_get vt s f st0 d = Ok (st', v) -> VO st')
        by (intros st0 d Hg0 Hvo0 Hf0 Hd0; apply IH; [exact Hg0|exact Hvo0|left; exact Hf0|exact Hd0]).
      exact (body_live vt H8 H10 s Hns Hnf Hcomp Hsat Hdef (do_get vt s f) (do_get_spec vt s H3 f)
                       (fun st0 d => do_get_geff vt s f st0 d) HG' Hl' st n Hg Hvo Hc Hlt).
  Qed.

  (* with the fuel of App.v the call succeeds outright *)
  Lemma do_get_succeeds st n : G vt s st -> VO st ->
    (full s st \/ (forall c, get_comp pop n = Some c -> c_points c = [])) -> n < length pop ->
    exists st' v, do_get vt s (fuel_of s) st n = Ok (st', v) /\ VO st'.
  Proof.
    intros Hg Hvo Hc Hlt. destruct (do_get_live (fuel_of s) st n Hg Hvo Hc Hlt) as [Hok Hv].
    pose proof (do_get_fuel_of vt s st n) as Hnf2.
    destruct (do_get vt s (fuel_of s) st n) as [[st' v]|k st'] eqn:E.
    - exists st', v. split; [reflexivity|apply (Hv st' v eq_refl)].
    - destruct k; contradiction.
  Qed.

  Lemma prepare_loop_live : forall ps st,
    (forall p, In p ps -> p < length pop /\ forall c, get_comp pop p = Some c -> c_points c = []) ->
    G vt s st -> VO st ->
    exists st', prepare_loop vt s ps st = Ok st' /\ G vt s st' /\ VO st' /\ active st' = active st ++ ps.
  Proof.
    induction ps as [|p r IH]; intros st Hp Hg Hvo; cbn [prepare_loop].
    - exists st. rewrite app_nil_r. auto.
    - assert (Hr : forall q, In q r -> q < length pop /\ forall c, get_comp pop q = Some c -> c_points c = [])
        by (intros q Hq; apply Hp; right; exact Hq).
      destruct (Hp p (or_introl eq_refl)) as [Hlt Hpl].
      destruct (is_lazy (s_pop s) p).
      + destruct (IH (set_active st (active st ++ [p])) Hr
                    (G_core vt s st (set_active st (active st ++ [p])) ltac:(repeat split) eq_refl Hg)
                    ltac:(destruct Hvo as [A B]; split; [exact A|exact B])) as [st' [E [Hg' [Hvo' Ha']]]].
        exists st'. split; [exact E|]. split; [exact Hg'|]. split; [exact Hvo'|].
        rewrite Ha'. cbn [active set_active]. rewrite <- app_assoc. reflexivity.
      + destruct (do_get_succeeds st p Hg Hvo (or_intror Hpl) Hlt) as [st1 [v [E1 Hvo1]]]. rewrite E1.
        assert (Hg1 : G vt s st1) by (eapply (do_get_G vt s H3 H7 H8 H10); [exact Hg|right; exact Hpl|exact E1]).
        pose proof (do_get_active _ _ _ _ _ _ _ E1) as Ha1.
        destruct (IH (set_active st1 (active st1 ++ [p])) Hr
                    (G_core vt s st1 (set_active st1 (active st1 ++ [p])) ltac:(repeat split) eq_refl Hg1)
                    ltac:(destruct Hvo1 as [A B]; split; [exact A|exact B])) as [st' [E [Hg' [Hvo' Ha']]]].
        exists st'. split; [exact E|]. split; [exact Hg'|]. split; [exact Hvo'|].
        rewrite Ha'. cbn [active set_active]. rewrite Ha1, <- app_assoc. reflexivity.
  Qed.

  Lemma get_each_live : forall ns st, (forall n, In n ns -> n < length pop) ->
    G vt s st -> VO st -> full s st -> exists st', get_each vt s ns st = Ok st'.
  Proof.
    induction ns as [|n r IH]; intros st Hn Hg Hvo Hfu; cbn [get_each]; [eexists; reflexivity|].
    destruct (do_get_succeeds st n Hg Hvo (or_introl Hfu) (Hn n (or_introl eq_refl))) as [st1 [v [E1 Hvo1]]]. rewrite E1.
    apply IH.
    - intros m Hm. apply Hn. right; exact Hm.
    - eapply (do_get_G vt s H3 H7 H8 H10); [exact Hg|left; exact Hfu|exact E1].
    - exact Hvo1.
    - unfold full. rewrite (do_get_active _ _ _ _ _ _ _ E1). exact Hfu.
  Qed.

  Lemma run_each_live ns : (forall n, runner_fails s n = false) -> forall st, exists st', run_each s ns st = Ok st'.
  Proof.
    intros Hr. induction ns as [|n r IH]; intros st; cbn [run_each]; [eexists; reflexivity|]. rewrite Hr. apply IH.
  Qed.

  Theorem run_core_live :
    s_loader_fail s = false -> (forall n, runner_fails s n = false) ->
    (forall p, In p (sorted_procs s) -> p < length pop /\ forall c, get_comp pop p = Some c -> c_points c = []) ->
    stages pop (sorted_procs s) = full_stages ->
    exists st, run_core vt s = Ok st.
  Proof.
    intros Hl Hr Hp Hs. unfold run_core. rewrite Hl. unfold prepare.
    destruct (prepare_loop_live (sorted_procs s) (set_scanned finit) Hp (G_finit vt s)
                ltac:(split; [reflexivity|intros m v Hm; cbn in Hm; discriminate])) as [st1 [E1 [Hg1 [Hvo1 Ha1]]]].
    rewrite E1. cbn [active set_scanned finit app] in Ha1. unfold refresh.
    destruct (get_each_live (eager_names s) st1
                ltac:(intros n Hn; unfold eager_names in Hn; apply filter_In in Hn; destruct Hn as [Hn _]; apply names_of_In; exact Hn)
                Hg1 Hvo1 ltac:(unfold full; rewrite Ha1; exact Hs)) as [st2 E2].
    rewrite E2. unfold call_runners. destruct (s_app s) as [[[a rp] cp]|]; [apply run_each_live; exact Hr|eexists; reflexivity].
  Qed.
End LiveTop.

(* ---------- the hypotheses as booleans over the scenario ---------------------------------------------------- *)

Definition no_subst_b (s : scenario) : bool :=
  forallb (fun c => match c_proc c with
                    | Some (_, PUser e a) =>
                      forallb (fun x => match snd x with ENone => true | EFresh => false end) e
                      && forallb (fun x => match snd x with ANone => true | _ => false end) a
                    | _ => true
                    end) (s_pop s).

Definition comp_clean_b (c : comp) : bool :=
  match c_aps c with Some true => false | _ => true end
  && match c_init c with Some true => false | _ => true end
  && match c_runner c with Some (_, true) => false | _ => true end
  && negb (cfg_stage c true) && negb (cfg_stage c false).

Definition no_faults_b (s : scenario) : bool :=
  match s_faults s with [] => true | _ => false end
  && negb (s_loader_fail s)
  && forallb comp_clean_b (s_pop s).

Definition isSomeB {A} (o : option A) : bool := match o with Some _ => true | None => false end.

Definition point_sat_b (pop : population) (px : point * list (option name)) : bool :=
  let (p, x) := px in
  forallb (fun d => isSomeB (get_comp pop d)) (remove_nil x)
  && forallb (fun d => match get_comp pop d with Some cd => type_ok cd (pt_target p) | None => false end)
             (used_of p (remove_nil x)).

Definition satisfiable_b (vt : variant) (s : scenario) : bool :=
  forallb (fun n => match get_comp (s_pop s) n with
                    | Some c => match plan vt s n c with
                                | Some pl => forallb (point_sat_b (s_pop s)) (combine (c_points c) pl)
                                | None => false
                                end
                    | None => true
                    end) (names_of (s_pop s)).

Lemma alookup_In {A} n (l : list (name * A)) a : alookup n l = Some a -> In (n, a) l.
Proof.
  induction l as [|[m b] r IH]; cbn [alookup]; [discriminate|].
  destruct (Nat.eqb_spec m n) as [->|Hne]; intros H; [inversion H; left; reflexivity|right; apply IH; exact H].
Qed.

Lemma nth_error_combine {A B} (l1 : list A) : forall (l2 : list B) k a b,
  nth_error l1 k = Some a -> nth_error l2 k = Some b -> In (a, b) (combine l1 l2).
Proof.
  induction l1 as [|x r IH]; intros l2 k a b H1 H2; [destruct k; discriminate|].
  destruct l2 as [|y r2]; [destruct k; discriminate|]. destruct k as [|k'].
  - cbn in H1, H2. inversion H1; inversion H2; subst. left; reflexivity.
  - cbn in H1, H2. right. eapply IH; eauto.
Qed.

Lemma get_comp_In pop n c : get_comp pop n = Some c -> In c pop.
Proof. unfold get_comp. apply nth_error_In. Qed.

Section Bools.
  Variable vt : variant.
  Variable s : scenario.

  Lemma no_subst_sound : no_subst_b s = true ->
    forall p e a, proc_of (s_pop s) p = Some (PUser e a) ->
      (forall n, alookup n e <> Some EFresh) /\ (forall n, alookup n a = None \/ alookup n a = Some ANone).
  Proof.
    intros H p e a Hp. unfold no_subst_b in H. rewrite forallb_forall in H.
    unfold proc_of in Hp. destruct (get_comp (s_pop s) p) as [c|] eqn:Ec; [|discriminate].
    specialize (H c (get_comp_In _ _ _ Ec)).
    destruct (c_proc c) as [[cls sp]|]; [|discriminate]. inversion Hp; subst sp.
    apply andb_true_iff in H. destruct H as [He Ha]. rewrite forallb_forall in He, Ha. split.
    - intros n Hn. specialize (He (n, EFresh) (alookup_In _ _ _ Hn)). discriminate.
    - intros n. destruct (alookup n a) as [m|] eqn:E; [|left; reflexivity]. right.
      specialize (Ha (n, m) (alookup_In _ _ _ E)). cbn in Ha. destruct m; try discriminate. reflexivity.
  Qed.

  Lemma no_faults_sound : no_faults_b s = true ->
    (forall p ph n, faulty s p ph n = false) /\ s_loader_fail s = false /\
    (forall n, runner_fails s n = false) /\
    (forall n c, get_comp (s_pop s) n = Some c ->
       c_aps c <> Some true /\ c_init c <> Some true /\ cfg_stage c true = false /\ cfg_stage c false = false).
  Proof.
    unfold no_faults_b. intros H. apply andb_true_iff in H. destruct H as [H Hc].
    apply andb_true_iff in H. destruct H as [Hf Hl]. rewrite forallb_forall in Hc.
    split; [|split; [|split]].
    - intros p ph n. unfold faulty. destruct (s_faults s); [reflexivity|discriminate].
    - apply negb_true_iff in Hl. exact Hl.
    - intros n. unfold runner_fails. destruct (get_comp (s_pop s) n) as [c|] eqn:Ec; [|reflexivity].
      specialize (Hc c (get_comp_In _ _ _ Ec)). unfold comp_clean_b in Hc.
      destruct (c_runner c) as [[cls [|]]|]; try reflexivity.
      rewrite !andb_true_iff in Hc. destruct Hc as [[[[_ _] Hr] _] _]. discriminate.
    - intros n c Ec. specialize (Hc c (get_comp_In _ _ _ Ec)). unfold comp_clean_b in Hc.
      rewrite !andb_true_iff in Hc. destruct Hc as [[[[Ha Hi] _] H1] H2].
      apply negb_true_iff in H1, H2. repeat split; try assumption.
      + destruct (c_aps c) as [[|]|]; try discriminate; intros Hx; discriminate Hx.
      + destruct (c_init c) as [[|]|]; try discriminate; intros Hx; discriminate Hx.
  Qed.

  Lemma satisfiable_sound : satisfiable_b vt s = true ->
    (forall n c, get_comp (s_pop s) n = Some c ->
      exists pl, plan vt s n c = Some pl /\
        forall k p x, nth_error (c_points c) k = Some p -> nth_error pl k = Some x ->
          forall d, In d (used_of p (remove_nil x)) -> exists cd, get_comp (s_pop s) d = Some cd /\ type_ok cd (pt_target p) = true)
    /\ (forall n c k p x d, get_comp (s_pop s) n = Some c -> plan vt s n c = Some x ->
          nth_error (c_points c) k = Some p -> forall pl, nth_error x k = Some pl -> In d (remove_nil pl) -> d < length (s_pop s)).
  Proof.
    unfold satisfiable_b. rewrite forallb_forall. intros H.
    assert (Hn : forall n c, get_comp (s_pop s) n = Some c ->
              exists pl, plan vt s n c = Some pl /\ forallb (point_sat_b (s_pop s)) (combine (c_points c) pl) = true).
    { intros n c Ec. specialize (H n). rewrite Ec in H.
      assert (Hin : In n (names_of (s_pop s))) by (apply names_of_In; eapply get_comp_lt; exact Ec).
      specialize (H Hin). destruct (plan vt s n c) as [pl|]; [exists pl; split; [reflexivity|exact H]|discriminate]. }
    split.
    - intros n c Ec. destruct (Hn n c Ec) as [pl [Epl Hall]]. exists pl. split; [exact Epl|].
      intros k p x Hp Hx d Hd. rewrite forallb_forall in Hall.
      specialize (Hall (p, x) (nth_error_combine _ _ _ _ _ Hp Hx)). cbn [point_sat_b] in Hall.
      apply andb_true_iff in Hall. destruct Hall as [_ Hu]. rewrite forallb_forall in Hu. specialize (Hu d Hd).
      destruct (get_comp (s_pop s) d) as [cd|]; [exists cd; split; [reflexivity|exact Hu]|discriminate].
    - intros n c k p x d Ec Epl Hp pl Hx Hd. destruct (Hn n c Ec) as [pl' [Epl' Hall]].
      rewrite Epl in Epl'. inversion Epl'; subst pl'. rewrite forallb_forall in Hall.
      specialize (Hall (p, pl) (nth_error_combine _ _ _ _ _ Hp Hx)). cbn [point_sat_b] in Hall.
      apply andb_true_iff in Hall. destruct Hall as [Hs _]. rewrite forallb_forall in Hs. specialize (Hs d Hd).
      destruct (get_comp (s_pop s) d) as [cd|] eqn:Ed; [eapply get_comp_lt; exact Ed|discriminate].
  Qed.
End Bools.

Lemma sorted_procs_defined s p : In p (sorted_procs s) -> exists c, get_comp (s_pop s) p = Some c.
Proof.
  unfold sorted_procs. intros Hin. apply in_map_iff in Hin. destruct Hin as [q [<- Hq]].
  assert (Hq' : In q (proc_participants s)).
  { eapply Permutation_in; [apply Permutation_sym; apply sort_participants_perm|exact Hq]. }
  unfold proc_participants in Hq'. apply in_flat_map in Hq'. destruct Hq' as [n [_ Hn]].
  destruct (get_comp (s_pop s) n) as [c|] eqn:Ec; [|contradiction].
  destruct (c_proc c) as [[cls sp]|]; [|contradiction]. destruct Hn as [<-|[]]. cbn [pid]. exists c. exact Ec.
Qed.

Theorem run_core_succeeds vt s :
  fix_c03 vt = true -> fix_c07 vt = true -> fix_c08 vt = true -> fix_c10 vt = true ->
  no_subst_b s = true -> no_faults_b s = true -> satisfiable_b vt s = true ->
  procs_pointless_b s = true -> stages_ok_b s = true ->
  exists st, run_core vt s = Ok st.
Proof.
  intros H3 H7 H8 H10 Hns Hnf Hsat Hpp Hso.
  destruct (no_faults_sound s Hnf) as [Hf [Hl [Hr Hc]]].
  destruct (satisfiable_sound vt s Hsat) as [Hs1 Hs2].
  apply (run_core_live vt H3 H7 H8 H10 s (no_subst_sound s Hns) Hf Hc Hs1 Hs2 Hl Hr).
  - intros p Hp. destruct (sorted_procs_defined s p Hp) as [c Ec]. split; [eapply get_comp_lt; exact Ec|].
    intros c' Ec'. eapply (procs_pointless_b_sound s Hpp); eauto.
  - apply stages_eqb_eq. exact Hso.
Qed.
