(* Model of /repo/util/el/el.go (elHelper: FindString / content / ReplaceAllContent for the two
   patterns  \$\{[^{}]*\}  and  #\{[^{}]*\} ) and of the callback of
   /repo/container/processors/config_quote_aware_post_processors.go (the ${key:default} resolver).

   Definitions only; lemmas live in Proofs/PlaceholderProofs.v.

   regexp (Go RE2, leftmost-first) on these two patterns is re-implemented as a byte scanner:
   a match at a start position exists iff the two bytes there are the sigil and the left brace
   and the first brace byte after them is a right brace; it is then unique ([^{}]* cannot cross
   a brace), so "leftmost" fixes the match.  [^{}] matches every byte (invalid UTF-8 decodes to
   U+FFFD, width 1), hence bytes and runes agree.

   ReplaceAllContent, after repair D-C16 (budget) - the unrepaired loop is budget = None:
       for n := 0; ; n++ {
           elr := e.FindString(result); if elr == "" { break }
           if n >= budget { return "", error }                      // repair D-C16
           r, err := f(e.content(elr)); if err != nil { return "", err }
           result = strings.Replace(result, elr, r, 1)
       } *)
From IocVerif Require Export Model.Strconv.

Definition b_dollar : N := 36.
Definition b_hash : N := 35.

Definition is_brace (c : N) : bool := N.eqb c b_lbrace || N.eqb c b_rbrace.
Definition brace_free (s : bytes) : bool := forallb (fun c => negb (is_brace c)) s.
Definition no_rbrace (s : bytes) : bool := forallb (fun c => negb (N.eqb c b_rbrace)) s.
Definition no_lbrace (s : bytes) : bool := forallb (fun c => negb (N.eqb c b_lbrace)) s.

(* length of the [^{}]* run at the head of s, provided the byte after it is the right brace *)
Fixpoint body_len (s : bytes) : option nat :=
  match s with
  | [] => None
  | c :: r =>
    if N.eqb c b_rbrace then Some O
    else if N.eqb c b_lbrace then None
    else option_map S (body_len r)
  end.

(* length of the match of  sig { [^{}]* }  anchored at the head of s *)
Definition match_at (sig : N) (s : bytes) : option nat :=
  match s with
  | a :: b :: r =>
    if N.eqb a sig && N.eqb b b_lbrace then option_map (fun n => (n + 3)%nat) (body_len r) else None
  | _ => None
  end.

(* Regexp.FindString: leftmost match as (start, length); None = "" *)
Fixpoint find_first (sig : N) (s : bytes) : option (nat * nat) :=
  match match_at sig s with
  | Some n => Some (O, n)
  | None =>
    match s with
    | [] => None
    | _ :: r => option_map (fun p : nat * nat => (S (fst p), snd p)) (find_first sig r)
    end
  end.

(* strings.Index(s, sub) *)
Fixpoint sub_index (sub s : bytes) : option nat :=
  if has_prefix sub s then Some O
  else match s with
       | [] => None
       | _ :: r => option_map S (sub_index sub r)
       end.

(* strings.Replace(s, old, new, 1) for non-empty old: the FIRST OCCURRENCE of old is replaced *)
Definition replace_first (s old new : bytes) : bytes :=
  match sub_index old s with
  | Some i => firstn i s ++ new ++ skipn (i + length old) s
  | None => s
  end.

(* elHelper.content: elr[pre : len(elr)-suf] with pre = 2, suf = 1 *)
Definition content (elr : bytes) : bytes := removelast (skipn 2 elr).

Inductive outcome : Type :=
| Done (s : bytes)     (* returned (result, nil) *)
| Failed               (* the callback returned an error *)
| Panicked             (* the callback panicked *)
| Exhausted            (* repaired code: substitution budget used up, error returned *)
| OutOfFuel.           (* model artefact: the unrepaired loop is still running *)

(* the loop; [exh] is what happens when [fuel] substitutions have been made and a placeholder
   is still there *)
Fixpoint rac_loop (sig : N) (f : bytes -> res bytes) (exh : outcome) (fuel : nat) (s : bytes) : outcome :=
  match find_first sig s with
  | None => Done s
  | Some (i, n) =>
    match fuel with
    | O => exh
    | S k =>
      let elr := firstn n (skipn i s) in
      match f (content elr) with
      | Ok r => rac_loop sig f exh k (replace_first s elr r)
      | Err => Failed
      | Panic => Panicked
      end
    end
  end.

(* budget = Some b: the repaired code (b = 1 << 10 in /repo); None: the unrepaired loop, observed
   through an arbitrary amount of fuel *)
Definition replace_all_content (sig : N) (f : bytes -> res bytes) (budget : option nat) (fuel : nat)
  (s : bytes) : outcome :=
  match budget with
  | Some b => rac_loop sig f Exhausted b s
  | None => rac_loop sig f OutOfFuel fuel s
  end.

Definition repo_budget : nat := 1024.

(* ---- the ${key:default} resolver ---------------------------------------------------- *)

(* expVal == nil, or an empty map[string]any, or an empty []any *)
Definition absent (v : cval) : bool :=
  match v with
  | VNull => true
  | VMap [] => true
  | VList [] => true
  | _ => false
  end.

(* the callback handed to ReplaceAllContent.  cfg = Configure.Get (VNull = nil).
     spExp := strings.SplitN(exp, ":", 2); expVal := Get(spExp[0])
     if absent: if a non-empty default exists, expVal = ParseAny(default) (error -> error)
     if expVal == nil return ""
     if expVal is a float64 return FormatFloat(expVal, 'f', -1, 64)          // repair D-C17g
     return FormatAny(expVal)
   [fx] selects the variant (Strconv.format_cfg): true = the repaired callback (fixes/D-C17g.diff), false = the
   unrepaired one, which splices FormatAny's text for every value (1e+06 for the float64 1000000). *)
Definition resolve (fx : bool) (cfg : bytes -> cval) (exp : bytes) : res bytes :=
  let (key, dflt) := split_first b_colon exp in
  let v := cfg key in
  rbind (if absent v then
           match dflt with
           | Some (c :: d) => parse_any (c :: d)
           | _ => Ok v
           end
         else Ok v)
        (fun v' => match v' with VNull => Ok [] | _ => format_cfg fx v' end).

(* the ${} processor on one property: TagStr -> TagVal (no match: TagVal stays TagStr) *)
Definition quote_stage (fx : bool) (cfg : bytes -> cval) (budget : option nat) (fuel : nat) (tagstr : bytes) : outcome :=
  replace_all_content b_dollar (resolve fx cfg) budget fuel tagstr.

(* configurations given as a table path -> value *)
Definition cfg_of (tbl : list (bytes * cval)) (key : bytes) : cval :=
  match map_get key tbl with Some v => v | None => VNull end.

(* ---- tag texts as an AST (for the denotational theorem) ----------------------------- *)

Inductive tpart : Type :=
| Lit (s : bytes)              (* literal text without braces *)
| Ph (body : list tpart).      (* sig { body } ; the body may itself contain placeholders *)

Fixpoint render (sig : N) (t : tpart) : bytes :=
  match t with
  | Lit s => s
  | Ph b => sig :: b_lbrace :: concat (map (render sig) b) ++ [b_rbrace]
  end.
Definition render_all (sig : N) (l : list tpart) : bytes := concat (map (render sig) l).

(* left-to-right sequencing: the first failure wins *)
Fixpoint cat_res (l : list (res bytes)) : res bytes :=
  match l with
  | [] => Ok []
  | x :: r => rbind x (fun a => rbind (cat_res r) (fun c => Ok (a ++ c)))
  end.

(* the denotation: every placeholder, innermost first, is replaced by f of its (substituted) body *)
Fixpoint subst (f : bytes -> res bytes) (t : tpart) : res bytes :=
  match t with
  | Lit s => Ok s
  | Ph b => rbind (cat_res (map (subst f) b)) f
  end.
Definition subst_all (f : bytes -> res bytes) (l : list tpart) : res bytes := cat_res (map (subst f) l).

Fixpoint ph_count (t : tpart) : nat :=
  match t with
  | Lit _ => O
  | Ph b => S (list_sum (map ph_count b))
  end.
Definition ph_count_all (l : list tpart) : nat := list_sum (map ph_count l).

(* literals contain no brace *)
Fixpoint wf (t : tpart) : bool :=
  match t with
  | Lit s => brace_free s
  | Ph b => forallb wf b
  end.

(* every replacement text that the denotation produces is free of braces *)
Fixpoint clean (f : bytes -> res bytes) (t : tpart) : bool :=
  match t with
  | Lit _ => true
  | Ph b =>
    forallb (clean f) b &&
    match cat_res (map (subst f) b) with
    | Ok body => match f body with Ok r => brace_free r | _ => true end
    | _ => true
    end
  end.

Definition of_res (r : res bytes) : outcome :=
  match r with Ok s => Done s | Err => Failed | Panic => Panicked end.
