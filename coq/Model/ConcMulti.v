(* ConcMulti.v — several Close calls on ONE App, overlapping in any way.

   app/app.go, func (s *App) Close: the WaitGroup is a LOCAL variable of the call, the goroutines are started by the
   call, s.CloserComponents is only read.  Two calls of Close therefore share nothing that the phase writes: a second
   call issued while the first one is still running (a signal handler and the deferred Close of main, two shutdown
   hooks) invokes every closer once more, on goroutines of its own, and waits for ITS invocations - k overlapping calls
   give k invocations of every closer, and each call returns only after its own k-th part of them has returned.

   The model is the product of independent instances of one phase program: the state is one configuration (Conc.cfg)
   per call, a step is a step (Conc.step) of one thread of one call, a trace is a list of (call, (thread, act)).  Every
   call exists from the start and may take its first step at any time, so the reachable traces cover every number of
   calls and every way they overlap (one after the other included).  What call k did is `sel k tr` (Merge.sel).

   Observed histories (Corr/Check_C14.v, CMulti): a list of (call, KInv | KObs o) - the driver's invocation of call k,
   and the closer events call_i / ret_i / close-returned attributed to call k.  `multi_accepts` accepts a history iff
   what is attributed to every call is: its invocation first, then a history that the single-call acceptor
   Conc.close_accepts accepts (the observable projection of a complete run of close_prog).  Proofs/ConcMultiProofs.v:
   that is exactly "an interleaving (Merge) of K accepted single-call histories, each behind its invocation".

   Definitions only. *)
From Coq Require Export List Arith Bool.
From IocVerif Require Export Model.Conc Model.Merge.
Export ListNotations.

Definition mcfg : Type := nat -> cfg.
Notation mevent := (nat * (nat * act))%type.

Definition minit (prog : nat -> list act) : mcfg := fun _ => init prog.

(* all interleavings of the steps of all calls *)
Inductive mreach (prog : nat -> list act) : mcfg -> list mevent -> Prop :=
| mreach_init : mreach prog (minit prog) []
| mreach_step m tr k t c' a :
    mreach prog m tr -> step (m k) t = Some (c', a) -> mreach prog (upd m k c') (tr ++ [(k, (t, a))]).

(* the same, driven by an explicit schedule of (call, thread) *)
Fixpoint mrun (m : mcfg) (sched : list (nat * nat)) : option (mcfg * list mevent) :=
  match sched with
  | [] => Some (m, [])
  | (k, t) :: s =>
      match step (m k) t with
      | None => None
      | Some (c', a) =>
          match mrun (upd m k c') s with
          | None => None
          | Some (m', tr) => Some (m', (k, (t, a)) :: tr)
          end
      end
  end.

(* the observable events of a product trace, each with its call *)
Definition mobs_of (tr : list mevent) : list (nat * obs) :=
  flat_map (fun e => match snd (snd e) with AEv o => [(fst e, o)] | _ => [] end) tr.

(* ---------- observed histories of overlapping calls ---------------------------------------------------- *)

Inductive kev : Type :=
| KInv                     (* the call was invoked *)
| KObs (o : obs).          (* an event of the call: one of ITS invocations of a closer entered / returned; the call returned *)

Definition kev_eqb (a b : kev) : bool :=
  match a, b with
  | KInv, KInv => true
  | KObs x, KObs y => obs_eqb x y
  | _, _ => false
  end.

Fixpoint all_obs (l : list kev) : option (list obs) :=
  match l with
  | [] => Some []
  | KObs o :: r => match all_obs r with Some h => Some (o :: h) | None => None end
  | KInv :: _ => None
  end.

(* what is attributed to one call: its invocation, then closer events only *)
Definition call_hist (l : list kev) : option (list obs) :=
  match l with
  | KInv :: r => all_obs r
  | _ => None
  end.

Definition wrap (h : list obs) : list kev := KInv :: map KObs h.

Definition multi_accepts (K n : nat) (fails : nat -> bool) (h : list (nat * kev)) : bool :=
  forallb (fun e => Nat.ltb (fst e) K) h
  && forallb (fun k => match call_hist (sel k h) with
                       | Some ho => close_accepts n fails ho
                       | None => false
                       end) (seq 0 K).

(* the history without the invocations *)
Definition strip (h : list (nat * kev)) : list (nat * obs) :=
  flat_map (fun e => match snd e with KObs o => [(fst e, o)] | KInv => [] end) h.
