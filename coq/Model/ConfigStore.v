(* Model of the configuration store behind Configure.Get / Configure.Set, as the ${} resolver sees it:

     /repo/configure/binder/viper.go     ViperBinder.Get(path) = viper.Get(path) for a non-empty path,
                                         ViperBinder.Set(path, val) = viper.Set(path, val)
     spf13/viper v1.19.0 (module cache)  Set, Get/find, searchMap, searchIndexableWithPathPrefixes,
                                         isPathShadowedInDeepMap, deepSearch, toCaseInsensitiveValue
                                         (modelled as they REALLY behave)

   viper keeps several registers; the two that a Configure built by this library can fill are
     override   what Set wrote            (nested map[string]any, lower-case keys)
     config     what SetConfig merged     (the YAML documents of the loaders, lower-case keys)
   (flags, environment, key/value store and defaults stay empty: nothing in /repo touches them).

   Set(key, value):  key = lower(key); value = toCaseInsensitiveValue(value) (a map is copied with lower-case
                     keys, recursively through maps; lists and scalars are kept);
                     path = split(key, "."); m = deepSearch(override, path[:n-1]) - on the way down a missing key
                     OR a non-map value is replaced by a fresh map; m[path[n-1]] = value.
   Get(key):         path = split(lower(key), ".")
                     v = searchMap(override, path)        maps only; v != nil -> v
                     a proper prefix of path holds a non-map, non-nil value in override -> nil   ("shadowed")
                     v = searchIndexable(config, path)    maps by key, lists by decimal index; v != nil -> v
                     nil
   A value is returned from the FIRST register that has one: for a map-valued key the override's map is not
   merged with the config's map.  Nothing is memoised: Get reads the registers as they are at the call.

   Definitions only; lemmas live in Proofs/ConfigStoreProofs.v.

   Outside the model (the correspondence guards them, [key_modelled] / [val_modelled]): the empty path (the binder
   answers it with AllSettings), path segments that start with a sign (strconv.Atoi accepts them as list
   indices; a negative index panics in viper), config keys that contain a dot, and Set values whose map keys
   collide after lower-casing (Go map iteration order decides which one survives). *)
From IocVerif Require Export Model.Strconv Model.Placeholder.

Definition lower (s : bytes) : bytes := map lower_ascii s.

(* strings.Split(s, "."): never empty *)
Fixpoint split_dot (s : bytes) : list bytes :=
  match s with
  | [] => [[]]
  | d :: r => if N.eqb b_dot d then [] :: split_dot r
              else match split_dot r with
                   | [] => [[d]]
                   | h :: t => (d :: h) :: t
                   end
  end.

Definition key_path (key : bytes) : list bytes := split_dot (lower key).

(* toCaseInsensitiveValue / copyAndInsensitiviseMap: through maps only; a later binding of the same lower-case key
   replaces an earlier one (the model's order; Go's is unspecified - see val_modelled) *)
Fixpoint lower_keys (v : cval) : cval :=
  match v with
  | VMap kvs =>
      VMap (fold_left (fun acc (kv : bytes * cval) => map_set (fst kv) (snd kv) acc)
                      (map (fun kv : bytes * cval => let (k, x) := kv in (lower k, lower_keys x)) kvs) [])
  | _ => v
  end.

(* searchMap: descend through maps; nil when a key is missing or a non-map is in the way *)
Fixpoint search_map (path : list bytes) (v : cval) : cval :=
  match path with
  | [] => v
  | k :: r => match v with
              | VMap kvs => match map_get k kvs with Some x => search_map r x | None => VNull end
              | _ => VNull
              end
  end.

(* a list index as strconv.Atoi reads an unsigned decimal text *)
Definition seg_index (k : bytes) : option nat :=
  if all_digits1 k then Some (N.to_nat (N_of_digits k)) else None.

(* searchIndexableWithPathPrefixes on a config whose keys contain no dot: maps by key, lists by index *)
Fixpoint search_idx (path : list bytes) (v : cval) : cval :=
  match path with
  | [] => v
  | k :: r => match v with
              | VMap kvs => match map_get k kvs with Some x => search_idx r x | None => VNull end
              | VList l => match seg_index k with
                           | Some i => match nth_error l i with Some x => search_idx r x | None => VNull end
                           | None => VNull
                           end
              | _ => VNull
              end
  end.

(* isPathShadowedInDeepMap: some PROPER prefix of the path holds a value that is neither nil nor a map *)
Fixpoint shadowed (path : list bytes) (v : cval) : bool :=
  match path with
  | [] => false
  | [_] => false
  | k :: r => match v with
              | VMap kvs => match map_get k kvs with
                            | None => false
                            | Some VNull => false
                            | Some (VMap m) => shadowed r (VMap m)
                            | Some _ => true
                            end
              | _ => false
              end
  end.

Record vstore : Type := mkStore {
  st_override : list (bytes * cval);    (* what Set wrote *)
  st_config : list (bytes * cval)       (* what the loaders' documents merged into *)
}.

(* Configure.Get(key), key non-empty; VNull = nil *)
Definition vget (s : vstore) (key : bytes) : cval :=
  let path := key_path key in
  match search_map path (VMap (st_override s)) with
  | VNull => if shadowed path (VMap (st_override s)) then VNull else search_idx path (VMap (st_config s))
  | v => v
  end.

(* deepSearch + assignment *)
Fixpoint deep_set (path : list bytes) (v : cval) (m : list (bytes * cval)) : list (bytes * cval) :=
  match path with
  | [] => m
  | [k] => map_set k v m
  | k :: r => let sub := match map_get k m with Some (VMap kvs) => kvs | _ => [] end in
              map_set k (VMap (deep_set r v sub)) m
  end.

(* Configure.Set(key, v) *)
Definition vset (s : vstore) (key : bytes) (v : cval) : vstore :=
  mkStore (deep_set (key_path key) (lower_keys v) (st_override s)) (st_config s).

(* ---- histories on one store: resolutions, reads and Sets in any order ------------------------------- *)

Inductive hstep : Type :=
| HResolve (tag : bytes)            (* the ${} stage on a tag text *)
| HSet (key : bytes) (v : cval)     (* Configure.Set *)
| HGet (key : bytes).               (* Configure.Get *)

Inductive hres : Type :=
| RResolve (o : outcome)
| RSet
| RGet (v : cval).

Definition hstep_run (fx : bool) (budget : option nat) (fuel : nat) (s : vstore) (st : hstep) : vstore * hres :=
  match st with
  | HResolve t => (s, RResolve (quote_stage fx (vget s) budget fuel t))
  | HSet k v => (vset s k v, RSet)
  | HGet k => (s, RGet (vget s k))
  end.

Fixpoint hrun (fx : bool) (budget : option nat) (fuel : nat) (s : vstore) (steps : list hstep) : list hres :=
  match steps with
  | [] => []
  | st :: r => let (s', o) := hstep_run fx budget fuel s st in o :: hrun fx budget fuel s' r
  end.

(* the store after a history: only the Sets count *)
Fixpoint hstate (s : vstore) (steps : list hstep) : vstore :=
  match steps with
  | [] => s
  | HSet k v :: r => hstate (vset s k v) r
  | _ :: r => hstate s r
  end.

(* ---- what the model covers ---------------------------------------------------------------------------- *)

Definition seg_modelled (k : bytes) : bool :=
  match k with c :: _ => negb (N.eqb c b_plus || N.eqb c b_minus) | [] => true end.

Definition key_modelled (key : bytes) : bool :=
  match key with [] => false | _ => forallb seg_modelled (split_dot key) end.

Fixpoint nodup_bytes (l : list bytes) : bool :=
  match l with [] => true | k :: r => negb (existsb (beqb k) r) && nodup_bytes r end.

(* Set values: map keys stay distinct after lower-casing, at every depth below maps *)
Fixpoint val_modelled (v : cval) : bool :=
  match v with
  | VMap kvs => nodup_bytes (map (fun kv : bytes * cval => lower (fst kv)) kvs)
                && forallb (fun kv : bytes * cval => let (_, x) := kv in val_modelled x) kvs
  | _ => true
  end.

(* config documents: lower-case keys without dots, each key once (what the generator writes and viper keeps) *)
Fixpoint cfg_modelled (v : cval) : bool :=
  match v with
  | VMap kvs => nodup_bytes (map fst kvs)
                && forallb (fun kv : bytes * cval =>
                              let (k, x) := kv in
                              beqb (lower k) k && negb (existsb (N.eqb b_dot) k) && cfg_modelled x) kvs
  | VList l => forallb cfg_modelled l
  | _ => true
  end.
