(* The protocol language of the singleton registry (property C04) and its observers.

   Model/Registry.v gives the state machine [rstep]/[rrun] over registry operations.  This file adds

   - traces: an op history paired with the output of every op ([trace_from], defined through [rrun]);
   - the protocol: which histories a factory can issue ([protocol] on traces, [conforms] on op lists).
     Read off container/factory/factory.go:
       doGetComponent n      = OGet n true _ ; on a miss OBegin n ... OEndOk n v | OEndErr n      (:140-162)
       doCreateComponent n   = OIsCreating n ; OAddFactory n f ; nested doGetComponent's ;
                               OGet n false _ ; OIsCreating d ...                                  (:190-250)
     so: creations are bracketed (the End of the innermost open creation comes first: nesting is
     bracketing), a name is never created re-entrantly, AddSingletonFactory is only called for a name
     that is in creation.  RemoveSingleton / AddSingleton are never called by the factory; the language
     allows them for names that are not in creation (external management).
     An OBegin n that finds n published returns it without running the callback: it opens no bracket.
     That is decided on the trace by the op's output, so the same function classifies histories
     observed on the real registry;
   - observers and boolean oracles for the three parts of C04, evaluated on model traces by the
     theorems (Properties/C04.v) and on implementation traces by the correspondence (Corr/Check_C04.v).

   Definitions only. *)
From IocVerif Require Import Model.Registry.

Definition rtrace : Type := list (rop * rout).

(* ops paired with the outputs rrun gives them *)
Definition trace_from (vt : variant) (s : rstate) (ops : list rop) : rtrace :=
  combine ops (snd (rrun vt s ops)).
Definition trace (vt : variant) (ops : list rop) : rtrace := trace_from vt rinit ops.
Definition state_after (vt : variant) (ops : list rop) : rstate := fst (rrun vt rinit ops).

Definition op_name (o : rop) : name :=
  match o with
  | OAddFactory n _ | ORemove n | OAddSingleton n _ | OGet n _ _
  | OBegin n | OEndOk n _ | OEndErr n | OIsCreating n => n
  end.

(* ---- equality tests on outputs -------------------------------------------------------------- *)

Definition optver_eqb (a b : option ver) : bool :=
  match a, b with
  | Some x, Some y => ver_eqb x y
  | None, None => true
  | _, _ => false
  end.

Definition optnat_eqb (a b : option nat) : bool :=
  match a, b with
  | Some x, Some y => Nat.eqb x y
  | None, None => true
  | _, _ => false
  end.

Definition rout_eqb (a b : rout) : bool :=
  match a, b with
  | RUnit, RUnit => true
  | RVal v i, RVal w j => optver_eqb v w && optnat_eqb i j
  | RErr i, RErr j => Nat.eqb i j
  | RBool x, RBool y => Bool.eqb x y
  | _, _ => false
  end.

(* ---- classification of ops relative to a name --------------------------------------------------- *)

(* the two exits of a creation of n *)
Definition is_end (n : name) (o : rop) : bool :=
  match o with
  | OEndOk m _ | OEndErr m => Nat.eqb m n
  | _ => false
  end.

(* ops that replace or drop what is cached for n from outside a creation of n *)
Definition republishes (n : name) (o : rop) : bool :=
  match o with
  | ORemove m | OAddSingleton m _ => Nat.eqb m n
  | _ => false
  end.

(* ops that can change the caches of n other than by promoting its early factory *)
Definition rewrites (n : name) (o : rop) : bool := is_end n o || republishes n o.

(* ops after which the registry knows something about n again *)
Definition introduces (n : name) (o : rop) : bool :=
  match o with
  | OAddFactory m _ | OAddSingleton m _ | OBegin m | OEndOk m _ => Nat.eqb m n
  | _ => false
  end.

(* ---- the protocol ---------------------------------------------------------------------------------- *)

(* GetSingletonOrCreateByFactory ran its callback (it did not find the name published) *)
Definition began (out : rout) : bool :=
  match out with RVal None _ => true | _ => false end.

(* stk: names whose creation is open, innermost first *)
Definition proto_step (stk : list name) (e : rop * rout) : option (list name) :=
  match fst e with
  | OAddFactory n _ => if mem n stk then Some stk else None
  | ORemove n | OAddSingleton n _ => if mem n stk then None else Some stk
  | OGet _ _ _ | OIsCreating _ => Some stk
  | OBegin n => if mem n stk then None else Some (if began (snd e) then n :: stk else stk)
  | OEndOk n _ | OEndErr n =>
    match stk with
    | m :: r => if Nat.eqb m n then Some r else None
    | [] => None
    end
  end.

(* prefix-closed: a history may stop with creations still open *)
Fixpoint proto_from (stk : list name) (tr : rtrace) : bool :=
  match tr with
  | [] => true
  | e :: r => match proto_step stk e with
              | Some stk' => proto_from stk' r
              | None => false
              end
  end.

Fixpoint stack_from (stk : list name) (tr : rtrace) : option (list name) :=
  match tr with
  | [] => Some stk
  | e :: r => match proto_step stk e with
              | Some stk' => stack_from stk' r
              | None => None
              end
  end.

Definition protocol (tr : rtrace) : bool := proto_from [] tr.

(* the boolean the Factory model's histories are evaluated with (c04_factory_conforms) *)
Definition conforms_v (vt : variant) (ops : list rop) : bool := protocol (trace vt ops).
Definition conforms (ops : list rop) : bool := conforms_v repaired ops.

(* Stricter language, also true of factory.go: errors are never swallowed.  Once a lookup's early
   factory failed or a creation failed, every open creation fails in turn (the only op issued while
   the stack is not empty is the OEndErr of the innermost creation).  fl = an error is propagating. *)
Definition is_fail (e : rop * rout) : bool :=
  match e with
  | (OGet _ _ _, RErr _) => true
  | (OEndErr _, _) => true
  | _ => false
  end.

Fixpoint strict_from (stk : list name) (fl : bool) (tr : rtrace) : bool :=
  match tr with
  | [] => true
  | e :: r =>
    match proto_step stk e with
    | None => false
    | Some stk' =>
      (if fl then match fst e with OEndErr _ => true | _ => false end else true)
      && strict_from stk' (match stk' with [] => false | _ :: _ => fl || is_fail e end) r
    end
  end.

Definition protocol_strict (tr : rtrace) : bool := strict_from [] false tr.
Definition conforms_strict_v (vt : variant) (ops : list rop) : bool := protocol_strict (trace vt ops).
Definition conforms_strict (ops : list rop) : bool := conforms_strict_v repaired ops.

(* ---- observers ------------------------------------------------------------------------------------ *)

(* results of the lookups of n, in order (a lookup whose early factory failed returns no result) *)
Fixpoint get_results (n : name) (tr : rtrace) : list (option ver) :=
  match tr with
  | [] => []
  | (OGet m _ _, RVal v _) :: r => if Nat.eqb m n then v :: get_results n r else get_results n r
  | _ :: r => get_results n r
  end.

(* invocations of early factories by lookups of n: (factory, it returned a reference) *)
Fixpoint invocations (n : name) (tr : rtrace) : list (nat * bool) :=
  match tr with
  | [] => []
  | (OGet m _ _, RVal _ (Some f)) :: r =>
    if Nat.eqb m n then (f, true) :: invocations n r else invocations n r
  | (OGet m _ _, RErr f) :: r =>
    if Nat.eqb m n then (f, false) :: invocations n r else invocations n r
  | _ :: r => invocations n r
  end.

(* the part of a trace up to the first exit of a creation of n *)
Fixpoint take_window (n : name) (tr : rtrace) : rtrace :=
  match tr with
  | [] => []
  | e :: r => if is_end n (fst e) then [] else e :: take_window n r
  end.

(* cur = the early reference seen so far.  Misses only before it exists; afterwards always it. *)
Fixpoint results_ok (cur : option ver) (l : list (option ver)) : bool :=
  match l with
  | [] => true
  | None :: r => match cur with None => results_ok None r | Some _ => false end
  | Some v :: r => match cur with
                   | None => results_ok (Some v) r
                   | Some c => ver_eqb c v && results_ok cur r
                   end
  end.

(* no invocation after one that returned a reference (so at most one returns a reference) *)
Fixpoint inv_ok (l : list (nat * bool)) : bool :=
  match l with
  | [] => true
  | (_, true) :: r => match r with [] => true | _ :: _ => false end
  | (_, false) :: r => inv_ok r
  end.

Definition successes (l : list (nat * bool)) : nat := length (filter snd l).

Definition window_ok (n : name) (w : rtrace) : bool :=
  results_ok None (get_results n w) && inv_ok (invocations n w).

(* C04, first part, as a check of a whole trace: every creation window *)
Fixpoint one_early_ref_b (tr : rtrace) : bool :=
  match tr with
  | [] => true
  | (OBegin n, out) :: r =>
    (if began out then window_ok n (take_window n r) else true) && one_early_ref_b r
  | _ :: r => one_early_ref_b r
  end.

(* Sharper form for the repaired registry: the reference seen in the window is the one obtained in
   this window, from the factory installed last in this window.
   fac = factory installed in this window and not yet used; cur = reference obtained in this window *)
Fixpoint fresh_from (n : name) (fac : option nat) (cur : option ver) (w : rtrace) : bool :=
  match w with
  | [] => true
  | (OAddFactory m f, _) :: r => if Nat.eqb m n then fresh_from n (Some f) cur r else fresh_from n fac cur r
  | (OGet m early _, out) :: r =>
    if Nat.eqb m n then
      match out with
      | RVal None None => match cur with None => fresh_from n fac cur r | Some _ => false end
      | RVal (Some v) None => match cur with Some c => ver_eqb c v && fresh_from n fac cur r | None => false end
      | RVal (Some v) (Some f) =>
        match cur, fac with
        | None, Some g => early && Nat.eqb f g && fresh_from n None (Some v) r
        | _, _ => false
        end
      | RErr f => match cur, fac with
                  | None, Some g => early && Nat.eqb f g && fresh_from n fac cur r
                  | _, _ => false
                  end
      | _ => false
      end
    else fresh_from n fac cur r
  | (OIsCreating m, out) :: r =>
    (if Nat.eqb m n then rout_eqb out (RBool true) else true) && fresh_from n fac cur r
  | _ :: r => fresh_from n fac cur r
  end.

Fixpoint early_ref_fresh_b (tr : rtrace) : bool :=
  match tr with
  | [] => true
  | (OBegin n, out) :: r =>
    (if began out then fresh_from n None None (take_window n r) else true) && early_ref_fresh_b r
  | _ :: r => early_ref_fresh_b r
  end.

(* total number of early-factory invocations per window is at most one (strict language) *)
Fixpoint single_invocation_b (tr : rtrace) : bool :=
  match tr with
  | [] => true
  | (OBegin n, out) :: r =>
    (if began out then Nat.leb (length (invocations n (take_window n r))) 1 else true)
    && single_invocation_b r
  | _ :: r => single_invocation_b r
  end.

(* C04, second part: after OEndOk n v, until n is removed or published from outside *)
Definition obs_final (n : name) (v : ver) (e : rop * rout) : bool :=
  match fst e with
  | OGet m _ _ => if Nat.eqb m n then rout_eqb (snd e) (RVal (Some v) None) else true
  | OBegin m => if Nat.eqb m n then rout_eqb (snd e) (RVal (Some v) None) else true
  | OIsCreating m => if Nat.eqb m n then rout_eqb (snd e) (RBool false) else true
  | _ => true
  end.

Fixpoint final_from (n : name) (v : ver) (tr : rtrace) : bool :=
  match tr with
  | [] => true
  | e :: r => if republishes n (fst e) then true else obs_final n v e && final_from n v r
  end.

Fixpoint published_final_b (tr : rtrace) : bool :=
  match tr with
  | [] => true
  | (OEndOk n v, _) :: r => final_from n v r && published_final_b r
  | _ :: r => published_final_b r
  end.

(* C04, third part: after OEndErr n, until something is done for n again.  A lookup misses, the name
   is not in creation, and a GetSingletonOrCreateByFactory starts a fresh attempt. *)
Definition obs_forgotten (n : name) (e : rop * rout) : bool :=
  match fst e with
  | OGet m _ _ => if Nat.eqb m n then rout_eqb (snd e) (RVal None None) else true
  | OBegin m => if Nat.eqb m n then rout_eqb (snd e) (RVal None None) else true
  | OIsCreating m => if Nat.eqb m n then rout_eqb (snd e) (RBool false) else true
  | _ => true
  end.

Fixpoint forgotten_from (n : name) (tr : rtrace) : bool :=
  match tr with
  | [] => true
  | e :: r => obs_forgotten n e && (if introduces n (fst e) then true else forgotten_from n r)
  end.

Fixpoint clean_failure_b (tr : rtrace) : bool :=
  match tr with
  | [] => true
  | (OEndErr n, _) :: r => forgotten_from n r && clean_failure_b r
  | _ :: r => clean_failure_b r
  end.

(* the registry knows nothing about n *)
Definition forgotten (s : rstate) (n : name) : Prop :=
  alookup n (L1 s) = None /\ alookup n (L2 s) = None /\ alookup n (L3 s) = None /\ is_creating s n = false.

Definition forgottenb (s : rstate) (n : name) : bool :=
  match alookup n (L1 s), alookup n (L2 s), alookup n (L3 s) with
  | None, None, None => negb (is_creating s n)
  | _, _, _ => false
  end.

(* state invariant of conforming histories of the repaired registry, relative to the open creations *)
Definition inv_name (s : rstate) (stk : list name) (n : name) : Prop :=
  (mem n stk = true -> alookup n (L1 s) = None /\ is_creating s n = true) /\
  (mem n stk = false -> alookup n (L2 s) = None /\ alookup n (L3 s) = None /\ is_creating s n = false).

(* lookups after the failure of n that return a reference although nothing was done for n since *)
Fixpoint stale_hits (n : name) (tr : rtrace) : list ver :=
  match tr with
  | [] => []
  | e :: r =>
    (match e with
     | (OGet m _ _, RVal (Some v) _) => if Nat.eqb m n then [v] else []
     | _ => []
     end) ++ (if introduces n (fst e) then [] else stale_hits n r)
  end.
