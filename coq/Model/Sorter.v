(* Model of util/framework_helper/order_component.go : SortOrderedComponents.

   Go source (generic over T):
     for each component: Ordered? -> (Priority? -> priorityOrdered | ordered) | noneOrdered
     sort2.Slice(priorityOrdered, by Order()) ; sort2.Slice(ordered, by Order())
     ordered = priority ++ ordered ++ none
   sort.Slice is not stable; the model uses a stable insertion sort and the correspondence
   compares only the (class, order) projection and the multiset of ids.

   Definitions only; proofs live in Proofs/SorterProofs.v. *)
From Coq Require Export List ZArith Bool.
Export ListNotations.
Local Open Scope Z_scope.

Inductive pclass : Type :=
| Prio (o : Z)      (* implements Ordered and Priority *)
| Ord (o : Z)       (* implements Ordered only *)
| Unord.            (* neither *)

Record participant : Type := mkPart { pid : nat; pcls : pclass }.

Definition is_prio (p : participant) : bool :=
  match pcls p with Prio _ => true | _ => false end.
Definition is_ord (p : participant) : bool :=
  match pcls p with Ord _ => true | _ => false end.
Definition is_unord (p : participant) : bool :=
  match pcls p with Unord => true | _ => false end.

(* Order() of a participant; only ever called on ordered ones by the code. *)
Definition order_of (p : participant) : Z :=
  match pcls p with Prio o => o | Ord o => o | Unord => 0 end.

Fixpoint insert_by (p : participant) (l : list participant) : list participant :=
  match l with
  | [] => [p]
  | q :: r => if order_of q <? order_of p then q :: insert_by p r else p :: q :: r   (* stable *)
  end.

Fixpoint isort (l : list participant) : list participant :=
  match l with
  | [] => []
  | p :: r => insert_by p (isort r)
  end.

Definition sort_participants (l : list participant) : list participant :=
  isort (filter is_prio l) ++ isort (filter is_ord l) ++ filter is_unord l.

(* --- the ordering contract as a boolean predicate on a sequence --------------------- *)

(* class rank: 0 priority, 1 ordered, 2 unordered *)
Definition rank (p : participant) : nat :=
  match pcls p with Prio _ => 0%nat | Ord _ => 1%nat | Unord => 2%nat end.

(* the contract's order on classes: priority < ordered < unordered, Order() inside a class *)
Definition cle (a b : pclass) : bool :=
  match a, b with
  | Prio x, Prio y => x <=? y
  | Prio _, _ => true
  | Ord _, Prio _ => false
  | Ord x, Ord y => x <=? y
  | Ord _, Unord => true
  | Unord, Unord => true
  | Unord, _ => false
  end.

(* adjacent pair respects the contract *)
Definition pair_ok (p q : participant) : bool := cle (pcls p) (pcls q).

Fixpoint contract_ok (l : list participant) : bool :=
  match l with
  | [] => true
  | p :: r => match r with
              | [] => true
              | q :: _ => pair_ok p q && contract_ok r
              end
  end.

(* the projection that is canonical (independent of sort stability) *)
Definition proj (l : list participant) : list pclass := map pcls l.

(* --- the same sort over any element type ------------------------------------------------
   SortOrderedComponents is generic (T any): configure.go applies it to loaders, app.go to runners.
   [g_sort cls] is the function above with the class read through [cls]; on participants it IS
   [sort_participants] (Proofs/SorterProofs.v: sort_participants_generic).  sort.Slice on at most
   12 elements is a plain insertion sort with a strict comparison, i.e. stable: elements of equal
   class and Order keep the order in which they were registered — [g_insert] places the new
   element before the first one whose Order is not smaller, exactly as [insert_by]. *)
Section GenericSort.
  Context {A : Type} (cls : A -> pclass).

  Definition g_order (a : A) : Z := match cls a with Prio o => o | Ord o => o | Unord => 0 end.
  Definition g_is_prio (a : A) : bool := match cls a with Prio _ => true | _ => false end.
  Definition g_is_ord (a : A) : bool := match cls a with Ord _ => true | _ => false end.
  Definition g_is_unord (a : A) : bool := match cls a with Unord => true | _ => false end.

  Fixpoint g_insert (a : A) (l : list A) : list A :=
    match l with
    | [] => [a]
    | q :: r => if g_order q <? g_order a then q :: g_insert a r else a :: q :: r
    end.

  Fixpoint g_isort (l : list A) : list A :=
    match l with
    | [] => []
    | a :: r => g_insert a (g_isort r)
    end.

  Definition g_sort (l : list A) : list A :=
    g_isort (filter g_is_prio l) ++ g_isort (filter g_is_ord l) ++ filter g_is_unord l.
End GenericSort.

(* same class and same Order *)
Definition same_class (a b : pclass) : bool :=
  match a, b with
  | Prio x, Prio y => x =? y
  | Ord x, Ord y => x =? y
  | Unord, Unord => true
  | _, _ => false
  end.
