(* Candidate resolution for injection points.

   Models, line by line:
     container/processors/dependency_aware_post_processors.go          (wire tag: by type / by name)
     container/processors/dependency_function_aware_post_processors.go (func tag)
     container/options.go                                              (Type, InterfaceType, FuncName, FuncNameAndResult)
     container/processors/dependency_further_matching_processors.go    (qualifier filter, primary ranking, the loop)
     container/support/component_definition_registry.go                (GetMetas enumeration, GetMetaByName)
     util/framework_helper/component.go                                (registered name = custom name or default)

   A component is identified by its NAME RANK: the harness sorts all registered names
   (byte-wise, as Go's < on strings) and uses the position as [name]; so [Nat.ltb] on names is
   Go's string order and "name-sorted enumeration" is [seq 0 n].

   Definitions only. *)
From Coq Require Export List Arith Bool ZArith.
From IocVerif Require Export Model.Registry Model.Sorter.
Export ListNotations.

(* ---- static description of components ------------------------------------------------------ *)

Inductive target : Type :=
| TPtr (t : nat)        (* *T_t : exactly that pointer type *)
| TIface (i : nat)      (* interface I_i *)
| TAny                  (* interface{} *)
| TOther.               (* neither pointer nor interface (nor slice of those): never a wire candidate *)

Inductive selector : Type :=
| SByType                              (* wire:""  *)
| SByName (n : option name)            (* wire:"x": the component registered as x, None if no such name *)
| SFunc (m : nat) (rets : option (list nat)).  (* func:"M" / func:"M,returns=r1 r2"; results as value ids, 0 = "*" *)

Record point : Type := mkPoint {
  pt_slice : bool;                     (* field is []elem *)
  pt_target : target;                  (* elem type *)
  pt_sel : selector;
  pt_quals : option (list nat);        (* Qualifier argument present, with these values *)
  pt_required : bool                   (* false only for an explicit required=false *)
}.

(* a config point: value- or prefix-tagged field; [cp_sat] = configuration supplies a value *)
Record cpoint : Type := mkCPoint { cp_prefix : bool; cp_required : bool; cp_sat : bool }.

(* what a user post-processor does, per component *)
Inductive early_mode : Type := ENone | EFresh.
Inductive after_mode : Type := ANone | AFresh | AEarlyIfAny | AEarlyElseFresh.

Inductive builtin_kind : Type :=
| BLogger | BQuote | BExpr | BProps | BValue | BValidate | BWire | BFurther | BFunc.

Inductive proc_spec : Type :=
| PBuiltin (k : builtin_kind)
| PUser (early : list (name * early_mode)) (after : list (name * after_mode)).

Record comp : Type := mkComp {
  c_type : nat;                        (* Go type id: TPtr t matches iff c_type = t *)
  c_ifaces : list nat;                 (* interfaces implemented *)
  c_alias : bool;                      (* declares a non-empty custom name (Meta.IsAlias) *)
  c_qual : option nat;                 (* WireQualifier: Qualifier() value id *)
  c_primary : bool;                    (* WirePrimary *)
  c_lazy : bool;                       (* LazyInit *)
  c_methods : list (nat * option nat); (* method id -> None: no result (NumOut = 0) | Some r: returns value id r *)
  c_points : list point;               (* component properties in definition order: wire points, then func points *)
  c_cpoints : list cpoint;             (* configuration properties *)
  c_aps : option bool;                 (* has AfterPropertiesSet; true = it fails *)
  c_init : option bool;                (* has Init; true = it fails *)
  c_runner : option (pclass * bool);   (* ApplicationRunner: ordering class, true = Run fails *)
  c_closer : bool;
  c_proc : option (pclass * proc_spec) (* is a ComponentPostProcessor *)
}.

Definition population := list comp.

Definition get_comp (pop : population) (n : name) : option comp := nth_error pop n.

(* ---- type compatibility (container/options.go Type / InterfaceType) ------------------------- *)

Definition type_ok (c : comp) (t : target) : bool :=
  match t with
  | TPtr ty => Nat.eqb (c_type c) ty
  | TIface i => existsb (Nat.eqb i) (c_ifaces c)
  | TAny => true
  | TOther => false
  end.

(* FuncName: method exists and has no results. FuncNameAndResult: method exists and
   ("*" or its (first) result equals the parsed argument; a method without results matches "") *)
Definition method_of (c : comp) (m : nat) : option (option nat) :=
  match find (fun x => Nat.eqb (fst x) m) (c_methods c) with
  | Some x => Some (snd x)
  | None => None
  end.

Definition func_ok (c : comp) (m : nat) (rets : option (list nat)) : bool :=
  match method_of c m with
  | None => false
  | Some res =>
    match rets with
    | None => match res with None => true | Some _ => false end
    | Some rs =>
      existsb (fun r => if Nat.eqb r 0 then true
                        else match res with Some v => Nat.eqb v r | None => false end) rs
    end
  end.

(* ---- enumeration of the definition registry ----------------------------------------------------
   GetMetas ranges over a sync.Map.  With the repair (fix_c10) the result is sorted by name;
   without it the order is whatever the map yields: an explicit oracle argument. *)

Definition names_of (pop : population) : list name := seq 0 (length pop).

Definition enum_order (vt : variant) (oracle : list name) (pop : population) : list name :=
  if fix_c10 vt then names_of pop else oracle.

Definition filter_names (pop : population) (f : comp -> bool) (ns : list name) : list name :=
  filter (fun n => match get_comp pop n with Some c => f c | None => false end) ns.

(* [enum] is the registry's enumeration (App.v normalises it with [enum_order] once per start).
   candidates added by the wire processor (dependency_aware :44-69) or the func processor (:42-67);
   None stands for the nil meta GetMetaByName returns for an unknown name *)
Definition candidates (enum : list name) (pop : population) (p : point)
  : list (option name) :=
  match pt_sel p with
  | SByType =>
    match pt_target p with
    | TOther => []
    | t => map Some (filter_names pop (fun c => type_ok c t) enum)
    end
  | SByName n =>
    if pt_slice p then []
    else match pt_target p with
         | TOther => []
         | _ => [n]
         end
  | SFunc m rets =>
    match pt_target p with
    | TOther => []
    | t => map Some (filter_names pop (fun c => type_ok c t && func_ok c m rets) enum)
    end
  end.

(* ---- filterDependencies (dependency_further_matching :55-91) ------------------------------------- *)

Fixpoint remove_nil (l : list (option name)) : list name :=
  match l with
  | [] => []
  | Some n :: r => n :: remove_nil r
  | None :: r => remove_nil r
  end.

Definition qual_ok (pop : population) (qs : list nat) (n : name) : bool :=
  match get_comp pop n with
  | Some c => match c_qual c with
              | Some q => existsb (Nat.eqb q) qs
              | None => false
              end
  | None => false
  end.

Definition is_primary (pop : population) (n : name) : bool :=
  match get_comp pop n with Some c => c_primary c | None => false end.
Definition is_alias (pop : population) (n : name) : bool :=
  match get_comp pop n with Some c => c_alias c | None => false end.

(* the ranking loop :74-87: start with the first; the first Primary wins and stops the loop;
   otherwise every non-alias candidate seen replaces the current choice (so the last one wins) *)
Fixpoint rank_loop (pop : population) (cur : name) (l : list name) : name :=
  match l with
  | [] => cur
  | m :: r => if is_primary pop m then m
              else rank_loop pop (if is_alias pop m then cur else m) r
  end.

Definition rank_single (pop : population) (l : list name) : list name :=
  match l with
  | [] => []
  | [x] => [x]
  | x :: _ => [rank_loop pop x l]
  end.

Inductive fres : Type :=
| FOk (l : list name)
| FErr.            (* "not found available components" (dependencies empty) *)

Definition filter_dependencies (vt : variant) (pop : population) (holder : name) (p : point)
  (inj : list (option name)) : fres :=
  let r0 := remove_nil inj in
  match r0 with
  | [] => FErr
  | _ =>
    (* repair D-C10a: the holder itself is never a candidate *)
    let r1 := if fix_c10 vt then filter (fun m => negb (Nat.eqb m holder)) r0 else r0 in
    match r1 with
    | [] => FErr
    | _ =>
      let r2 := match pt_quals p with
                | Some qs => filter (qual_ok pop qs) r1
                | None => r1
                end in
      match r2 with
      | [] => FErr
      | _ => FOk (if pt_slice p then r2 else rank_single pop r2)
      end
    end
  end.

(* the loop of PostProcessProperties (:31-49) over the holder's component properties.
   State: the Injects of every point (by index).  Result: new Injects, or an error.
   Unrepaired code leaves the loop at the first optional point without candidates
   (return nil, nil); the repair clears that point and continues. *)
Inductive lres : Type :=
| LOk (inj : list (list (option name)))
| LErr.

Fixpoint further_loop (vt : variant) (pop : population) (holder : name)
  (ps : list point) (inj : list (list (option name))) : lres :=
  match ps, inj with
  | p :: ps', i :: inj' =>
    match filter_dependencies vt pop holder p i with
    | FOk l =>
      match further_loop vt pop holder ps' inj' with
      | LOk rest => LOk (map Some l :: rest)
      | LErr => LErr
      end
    | FErr =>
      if pt_required p then LErr
      else if fix_c08 vt then
        match further_loop vt pop holder ps' inj' with
        | LOk rest => LOk ([] :: rest)
        | LErr => LErr
        end
      else LOk (i :: inj')           (* loop abandoned: this and all later points keep raw candidates *)
    end
  | _, _ => LOk inj
  end.

(* a single point on its own: what the property promises for every field *)
Definition further_one (vt : variant) (pop : population) (holder : name) (p : point)
  (i : list (option name)) : option (list (option name)) :=
  match filter_dependencies vt pop holder p i with
  | FOk l => Some (map Some l)
  | FErr => if pt_required p then None else Some []
  end.

(* ---- assignability of a version to a point (reflect.Value.Set in Property.Inject) ------------- *)

Definition assignable (pop : population) (v : ver) (t : target) : bool :=
  match get_comp pop (owner v) with
  | None => false
  | Some c =>
    match v with
    | VOrig _ => type_ok c t
    | VProxy _ _ => match t with          (* the proxy type embeds *T: it has T's methods, but is another type *)
                    | TPtr _ => false
                    | TIface i => existsb (Nat.eqb i) (c_ifaces c)
                    | TAny => true
                    | TOther => false
                    end
    end
  end.
