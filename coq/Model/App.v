(* Model of app/app.go (Run: configuration, PrepareComponents, Refresh, callRunners) and of
   factory.go PrepareComponents / Refresh, delegate InvokeBeanFactoryPostProcessors.

   Definitions only. *)
From Coq Require Export List Arith Bool.
From IocVerif Require Export Model.Factory.
Export ListNotations.

Definition fuel_of (s : scenario) : nat := S (S (length (s_pop s))).

Definition is_lazy (pop : population) (n : name) : bool :=
  match get_comp pop n with Some c => c_lazy c | None => false end.

(* ---- PrepareComponents ---------------------------------------------------------------------------
   classification follows GetSingletonNames order; the component post-processors are sorted with
   SortOrderedComponents; the non-lazy ones are created (as components) one after the other, each
   seeing only the processors appended before it *)

(* the enumeration the registries produce for this start: with the repair it is the name order whatever
   the map yields, so the normalised scenario (and with it the whole start) does not depend on the oracle *)
Definition normalise (vt : variant) (s : scenario) : scenario :=
  mkScn (s_pop s) (s_faults s) (s_loader_fail s) (s_app s) (enum_order vt (s_oracle s) (s_pop s)).

Definition proc_participants (s : scenario) : list participant :=
  flat_map (fun n => match get_comp (s_pop s) n with
                     | Some c => match c_proc c with
                                 | Some (cls, _) => [mkPart n cls]
                                 | None => []
                                 end
                     | None => []
                     end) (s_oracle s).

Definition sorted_procs (s : scenario) : list name :=
  map pid (sort_participants (proc_participants s)).

Fixpoint prepare_loop (vt : variant) (s : scenario) (ps : list name) (st : fstate) : res fstate :=
  match ps with
  | [] => Ok st
  | p :: r =>
    if is_lazy (s_pop s) p then prepare_loop vt s r (set_active st (active st ++ [p]))
    else match do_get vt s (fuel_of s) st p with
         | Ok (st1, _) => prepare_loop vt s r (set_active st1 (active st1 ++ [p]))
         | Fail k st1 => Fail k st1
         end
  end.

Definition prepare (vt : variant) (s : scenario) (st : fstate) : res fstate :=
  prepare_loop vt s (sorted_procs s) (set_scanned st).

(* ---- Refresh (factory.go :92-118): all non-lazy definitions, names sorted -------------------------- *)

Definition eager_names (s : scenario) : list name :=
  filter (fun n => negb (is_lazy (s_pop s) n)) (names_of (s_pop s)).

Fixpoint get_each (vt : variant) (s : scenario) (ns : list name) (st : fstate) : res fstate :=
  match ns with
  | [] => Ok st
  | n :: r => match do_get vt s (fuel_of s) st n with
              | Ok (st1, _) => get_each vt s r st1
              | Fail k st1 => Fail k st1
              end
  end.

Definition refresh (vt : variant) (s : scenario) (st : fstate) : res fstate :=
  get_each vt s (eager_names s) st.

(* ---- callRunners (app.go :118-137) ------------------------------------------------------------------- *)

Definition runner_participants (s : scenario) (vs : list ver) : list participant :=
  flat_map (fun v => match get_comp (s_pop s) (owner v) with
                     | Some c => match c_runner c with
                                 | Some (cls, _) => [mkPart (owner v) cls]
                                 | None => []
                                 end
                     | None => []
                     end) vs.

Definition runner_fails (s : scenario) (n : name) : bool :=
  match get_comp (s_pop s) n with
  | Some c => match c_runner c with Some (_, f) => f | None => false end
  | None => false
  end.

Fixpoint run_each (s : scenario) (ns : list name) (st : fstate) : res fstate :=
  match ns with
  | [] => Ok st
  | n :: r => let st1 := add_log st (EvRun n) in
              if runner_fails s n then Fail (FErr ECallback) st1 else run_each s r st1
  end.

Definition call_runners (s : scenario) (st : fstate) : res fstate :=
  match s_app s with
  | None => Ok st
  | Some (a, rp, _) =>
    run_each s (map pid (sort_participants (runner_participants s (field_of st a rp)))) st
  end.

(* ---- App.Run ------------------------------------------------------------------------------------------ *)

Definition run_core (vt : variant) (s : scenario) : res fstate :=
  if s_loader_fail s then Fail (FErr ECallback) finit
  else match prepare vt s finit with
       | Ok st1 =>
         match refresh vt s st1 with
         | Ok st2 => call_runners s st2
         | Fail k st2 => Fail k st2
         end
       | Fail k st1 => Fail k st1
       end.

Definition run (vt : variant) (s : scenario) : res fstate := run_core vt (normalise vt s).

(* ---- GetComponentByName after the start (one per name, in the given order) ---------------------- *)

Inductive lookup_out : Type :=
| LVer (v : ver)
| LFail (k : failkind).

Fixpoint lookups_core (vt : variant) (s : scenario) (ns : list name) (st : fstate)
  : fstate * list lookup_out :=
  match ns with
  | [] => (st, [])
  | n :: r =>
    match do_get vt s (fuel_of s) st n with
    | Ok (st1, v) => let (st2, outs) := lookups_core vt s r st1 in (st2, LVer v :: outs)
    | Fail k st1 => let (st2, outs) := lookups_core vt s r st1 in (st2, LFail k :: outs)
    end
  end.

Definition lookups (vt : variant) (s : scenario) := lookups_core vt (normalise vt s).
