(* Model of the configuration layer:
     configure/configure.go   (AddLoaders, SetLoaders, Initialize, loadConfigure)
     app/options.go           (SetConfig, SetConfigLoader, AddConfigLoader)
     configure/binder/viper.go (SetConfig = viper.MergeConfig, Get = viper.Get)
     configure/loader/{raw,file,args}.go   (args.go from the argument STRINGS: [parse_arg], [argv_load])
   and of the two third-party behaviours the property rests on:
     spf13/viper v1.19.0  mergeMaps / searchMap        (modelled as it REALLY behaves)
     go-kid/properties v0.0.6  buildMap (index-free keys, mode 0)

   viper.mergeMaps(src, tgt), for every key sk of the new document src:
     - tgt has no such key                    -> tgt[sk] = sv
     - tgt[sk] is a map,  sv is a map         -> mergeMaps(sv, tgt[sk])      (deep merge)
     - tgt[sk] is a map,  sv is NOT a map     -> "Could not cast sv to map"; continue   (the EARLIER map stays)
     - tgt[sk] is not a map (scalar/list/nil) -> tgt[sk] = sv                (later value replaces, also map over scalar)
   Lists are never merged, they are replaced as a whole.

   Definitions only; proofs live in Proofs/ConfigMergeProofs.v. *)
From Coq Require Export List String ZArith Bool.
From IocVerif Require Export Model.Sorter.
From IocVerif Require Import Model.Strconv.   (* strconv2.ParseAny, for the values of command-line arguments *)
Export ListNotations.
Local Open Scope string_scope.
Local Open Scope list_scope.

Definition key := string.
Definition path := list key.

(* scalar leaves. Floats are opaque canonical decimal text (merge never looks inside a leaf). *)
Inductive atom : Type :=
| ANull
| ABool (b : bool)
| AInt (z : Z)
| AFloat (text : string)
| AStr (s : string).

(* configuration trees: nested through [list] and [list (key * _)] *)
Inductive ctree : Type :=
| CLeaf (a : atom)
| CList (items : list ctree)
| CMap (kids : list (key * ctree)).

(* a document / the binder's config map: the entries of a top-level map *)
Definition doc := list (key * ctree).

Definition is_map (t : ctree) : bool := match t with CMap _ => true | _ => false end.

Fixpoint lookup (k : key) (m : doc) : option ctree :=
  match m with
  | [] => None
  | (k', v) :: r => if String.eqb k k' then Some v else lookup k r
  end.

(* viper.Get on a dotted path of plain keys = searchMap: descend through maps only *)
Fixpoint get (p : path) (t : ctree) : option ctree :=
  match p with
  | [] => Some t
  | k :: r => match t with
              | CMap kids => match lookup k kids with Some v => get r v | None => None end
              | _ => None
              end
  end.

Definition getd (p : path) (d : doc) : option ctree := get p (CMap d).

(* one key step of mergeMaps: [f] is applied to the value already present *)
Fixpoint upsert (f : ctree -> ctree) (k : key) (v : ctree) (m : doc) : doc :=
  match m with
  | [] => [(k, v)]
  | (k', tv) :: r => if String.eqb k k' then (k', f tv) :: r else (k', tv) :: upsert f k v r
  end.

(* what mergeMaps leaves under a key that exists in the target: sv = new value, tv = present value *)
Fixpoint merge_val (sv tv : ctree) {struct sv} : ctree :=
  match tv with
  | CMap tk =>
      match sv with
      | CMap sk =>
          CMap ((fix go (sk : list (key * ctree)) (tk : doc) {struct sk} : doc :=
                   match sk with
                   | [] => tk
                   | (k, v) :: r => go r (upsert (merge_val v) k v tk)
                   end) sk tk)
      | _ => tv                    (* non-map over map: skipped, the earlier map stays *)
      end
  | _ => sv                        (* anything over scalar / list / null: replaced *)
  end.

Definition merge_entry (tk : doc) (e : key * ctree) : doc :=
  upsert (merge_val (snd e)) (fst e) (snd e) tk.

(* mergeMaps(src = sk, tgt = tk) *)
Definition merge_kids (sk tk : doc) : doc := fold_left merge_entry sk tk.

(* Binder.SetConfig(d) on the config map cfg *)
Definition merge (cfg d : doc) : doc := merge_kids d cfg.

(* the effective configuration of a sequence of successfully loaded documents *)
Definition effective (docs : list doc) : doc := fold_left merge docs [].

(* merge on optional sub-trees: what the merge does at one path *)
Definition omerge (ot os : option ctree) : option ctree :=
  match os with
  | None => ot
  | Some s => match ot with None => Some s | Some t => Some (merge_val s t) end
  end.

(* --- well-formedness: Go maps have unique keys --------------------------------------- *)

Fixpoint mem_key (k : key) (l : list key) : bool :=
  match l with [] => false | k' :: r => String.eqb k k' || mem_key k r end.
Fixpoint nodup_keys (l : list key) : bool :=
  match l with [] => true | k :: r => negb (mem_key k r) && nodup_keys r end.

Fixpoint wf (t : ctree) : bool :=
  match t with
  | CLeaf _ => true
  | CList _ => true                   (* lists are opaque to the merge *)
  | CMap kids =>
      nodup_keys (map fst kids) &&
      (fix all (l : list (key * ctree)) : bool :=
         match l with [] => true | (_, v) :: r => wf v && all r end) kids
  end.
Definition wf_doc (d : doc) : bool := wf (CMap d).

(* --- "last supplier" and shape conflicts, on the sequence of optional values at one path ---- *)

Definition last_some (l : list (option ctree)) : option ctree :=
  fold_left (fun acc x => match x with Some v => Some v | None => acc end) l None.

(* a map seen earlier, a non-map later *)
Fixpoint conflictb (seen_map : bool) (l : list (option ctree)) : bool :=
  match l with
  | [] => false
  | None :: r => conflictb seen_map r
  | Some v :: r => if is_map v then conflictb true r else seen_map || conflictb seen_map r
  end.
Definition compatible_atb (p : path) (docs : list doc) : bool :=
  negb (conflictb false (map (getd p) docs)).

(* the same as propositions over the document sequence *)
Definition shape_conflict_at (p : path) (docs : list doc) : Prop :=
  exists l1 di l2 dj l3 vi vj,
    docs = l1 ++ di :: l2 ++ dj :: l3 /\
    getd p di = Some vi /\ is_map vi = true /\
    getd p dj = Some vj /\ is_map vj = false.
Definition shape_compatible (docs : list doc) : Prop := forall p, ~ shape_conflict_at p docs.

(* d is the last document of the sequence that supplies p, with value v *)
Definition last_supplier (p : path) (docs : list doc) (v : ctree) : Prop :=
  exists l1 d l2, docs = l1 ++ d :: l2 /\ getd p d = Some v /\ Forall (fun d' => getd p d' = None) l2.
Definition only_supplier (p : path) (docs : list doc) (v : ctree) : Prop :=
  exists l1 d l2, docs = l1 ++ d :: l2 /\ getd p d = Some v /\
                  Forall (fun d' => getd p d' = None) l1 /\ Forall (fun d' => getd p d' = None) l2.

(* --- loaders --------------------------------------------------------------------------- *)

Inductive lres : Type :=
| LoadOk (d : option doc)     (* None: zero-length output, skipped by loadConfigure *)
| LoadErr                     (* LoadConfig returned an error (unreadable file) *)
| LoadPanic.                  (* a panic escaped LoadConfig *)

(* Properties.Set for one "--app.config=k1.k2...=value" (index-free keys, mode 0):
   rtmp[key] = val at the last segment; on the way down a missing key becomes a fresh map, a map is
   entered, and anything else makes buildMap panic ("can't assign map to <scalar>"). *)
Fixpoint set_key (k : key) (v : ctree) (m : doc) : doc :=
  match m with
  | [] => [(k, v)]
  | (k', tv) :: r => if String.eqb k k' then (k', v) :: r else (k', tv) :: set_key k v r
  end.

Fixpoint pset (p : path) (v : ctree) (m : doc) : option doc :=   (* None = panic *)
  match p with
  | [] => Some m                                (* not produced: a key has at least one segment *)
  | k :: r =>
      match r with
      | [] => Some (set_key k v m)
      | _ :: _ =>
          match lookup k m with
          | None => option_map (fun sub => set_key k (CMap sub) m) (pset r v [])
          | Some (CMap sub) => option_map (fun sub' => set_key k (CMap sub') m) (pset r v sub)
          | Some _ => None
          end
      end
  end.

(* one recognised argument after typing: key path and value (strconv2.ParseAny decides the type: a text, a number,
   a bool, or - for [..] / {..} / map[..] texts - a list / a map) *)
Definition arg := (path * ctree)%type.

Fixpoint args_fold (args : list arg) (m : doc) : option doc :=
  match args with
  | [] => Some m
  | (p, v) :: r => match pset p v m with Some m' => args_fold r m' | None => None end
  end.

(* ArgsLoader.LoadConfig on typed arguments: no recognised argument -> nil bytes *)
Definition args_load (args : list arg) : lres :=
  match args_fold args [] with
  | None => LoadPanic
  | Some [] => LoadOk None
  | Some m => LoadOk (Some m)
  end.

(* --- ArgsLoader.LoadConfig from the argument strings -------------------------------------------
     for _, arg := range args {
         if !strings.HasPrefix(arg, "--app.config") { continue }
         cfg := strings.TrimPrefix(arg, "--app.config=")
         propPair := strings.SplitN(cfg, "=", 2)             // the value is everything after the FIRST '='
         val := ""; if len(propPair) == 2 { val = propPair[1] }
         typeVal, err := strconv2.ParseAny(val); if err != nil { return nil, err }
         p.Set(propPair[0], typeVal)                          // go-kid/properties: key split at '.', [pset]
     }
     yaml.Marshal(p)
   The document then reaches viper through YAML: a float64 with an integral value below 1e15 is read back as an
   integer, any other float64 as the float64 it is (leaf text = strconv.FormatFloat(f, 'g', -1, 64)), a string as
   the same string, lists and maps element-wise (the harness renders observed values the same way). *)

Definition bytes_of_string (s : string) : bytes := map Ascii.N_of_ascii (list_ascii_of_string s).
Definition string_of_bytes (b : bytes) : string := string_of_list_ascii (map Ascii.ascii_of_N b).

Definition lit_flag : bytes := bytes_of_string "--app.config".
Definition lit_flag_eq : bytes := bytes_of_string "--app.config=".
Definition b_eq : N := 61.

(* strings.TrimPrefix *)
Definition trim_prefix (p s : bytes) : bytes := if has_prefix p s then skipn (length p) s else s.

(* strings.Split(s, string(c)): never empty *)
Fixpoint split_all (c : N) (s : bytes) : list bytes :=
  match s with
  | [] => [[]]
  | d :: r => if N.eqb c d then [] :: split_all c r
              else match split_all c r with
                   | [] => [[d]]
                   | h :: t => (d :: h) :: t
                   end
  end.

Definition key_path (k : bytes) : path := map string_of_bytes (split_all b_dot k).

(* a parsed value as the configuration tree it becomes *)
Definition tree_of_dec (m e : Z) : ctree :=
  if (0 <=? e)%Z && (Z.abs (m * 10 ^ e) <? 10 ^ 15)%Z then CLeaf (AInt (m * 10 ^ e))
  else CLeaf (AFloat (string_of_bytes (fmt_float_v m e))).

Fixpoint tree_of_cval (v : cval) : ctree :=
  match v with
  | VNull => CLeaf ANull
  | VBool b => CLeaf (ABool b)
  | VInt z => CLeaf (AInt z)
  | VDec m e => tree_of_dec m e
  | VStr s => CLeaf (AStr (string_of_bytes s))
  | VList l => CList (map tree_of_cval l)
  | VMap kvs => CMap (map (fun kv => (string_of_bytes (fst kv), tree_of_cval (snd kv))) kvs)
  end.

(* one argument string: None = not an --app.config argument (skipped) *)
Definition parse_arg (a : bytes) : option (res arg) :=
  if has_prefix lit_flag a then
    let (k, ov) := split_first b_eq (trim_prefix lit_flag_eq a) in
    let val := match ov with Some v => v | None => [] end in
    Some (rbind (parse_any val) (fun tv => Ok (key_path k, tree_of_cval tv)))
  else None.

(* the typed arguments of an argument vector, in order; the first ParseAny error / panic ends the loop *)
Fixpoint argv_typed (argv : list bytes) : res (list arg) :=
  match argv with
  | [] => Ok []
  | a :: r => match parse_arg a with
              | None => argv_typed r
              | Some pa => rbind pa (fun x => rbind (argv_typed r) (fun xs => Ok (x :: xs)))
              end
  end.

(* the loop interleaves typing and Set: a key clash (panic in go-kid/properties) at an earlier argument wins over a
   ParseAny failure at a later one *)
Fixpoint argv_fold (argv : list bytes) (m : doc) : lres :=
  match argv with
  | [] => match m with [] => LoadOk None | _ => LoadOk (Some m) end
  | a :: r => match parse_arg a with
              | None => argv_fold r m
              | Some Err => LoadErr
              | Some Panic => LoadPanic
              | Some (Ok (p, v)) => match pset p v m with Some m' => argv_fold r m' | None => LoadPanic end
              end
  end.

Definition argv_load (argv : list bytes) : lres := argv_fold argv [].

Inductive lkind : Type :=
| LRaw (d : option doc)                 (* RawLoader: None = zero bytes *)
| LFile (c : option (option doc))       (* FileLoader: None = unreadable; Some None = empty file *)
| LArgs (args : list arg)               (* ArgsLoader, arguments already typed *)
| LArgv (argv : list bytes)             (* ArgsLoader on the argument strings as the process received them *)
| LUser (c : pclass) (d : option doc).  (* a loader written by the user: its class is whatever Order()/Priority()
                                           it implements; delivers fixed bytes (None = zero bytes) *)

Record loader : Type := mkLoader { lid : nat; lk : lkind }.

Definition load (l : loader) : lres :=
  match lk l with
  | LRaw d => LoadOk d
  | LFile None => LoadErr
  | LFile (Some d) => LoadOk d
  | LArgs a => args_load a
  | LArgv a => argv_load a
  | LUser _ d => LoadOk d
  end.

Definition is_file (l : loader) : bool := match lk l with LFile _ => true | _ => false end.

Definition is_user (l : loader) : bool := match lk l with LUser _ _ => true | _ => false end.

(* FileLoader implements Ordered (Order() = 0) and Priority; Raw/Args loaders implement neither;
   a user's loader is what it declares *)
Definition lclass (l : loader) : pclass :=
  match lk l with
  | LFile _ => Prio 0
  | LUser c _ => c
  | _ => Unord
  end.

(* priority-ordered or ordered: sorted to the front by SortOrderedComponents *)
Definition has_order (l : loader) : bool := match lclass l with Unord => false | _ => true end.

(* --- loader list operations and the options that reach them ------------------------------ *)

Definition set_loaders (cur new : list loader) : list loader := new.
Definition add_loaders (cur new : list loader) : list loader := cur ++ new.

Inductive variant : Type :=
| Repaired         (* AddConfigLoader calls AddLoaders (fixes/D-C15a.diff) *)
| Unrepaired.      (* AddConfigLoader calls SetLoaders (the tree before the repair) *)

Inductive copt : Type :=
| OSetConfig (f : loader)               (* app.SetConfig(file): AddLoaders(FileLoader(file)) *)
| OSetConfigLoader (ls : list loader)   (* app.SetConfigLoader: SetLoaders — replacing is its documented meaning *)
| OAddConfigLoader (ls : list loader).  (* app.AddConfigLoader *)

Definition is_adding (o : copt) : bool :=
  match o with OSetConfigLoader _ => false | _ => true end.

Definition apply_opt (v : variant) (cur : list loader) (o : copt) : list loader :=
  match o with
  | OSetConfig f => add_loaders cur [f]
  | OSetConfigLoader ls => set_loaders cur ls
  | OAddConfigLoader ls => match v with Repaired => add_loaders cur ls | Unrepaired => set_loaders cur ls end
  end.

(* configure.Default() starts with SetLoaders(ArgsLoader(os.Args)); then the options in order *)
Definition configured (v : variant) (osargs : loader) (ops : list copt) : list loader :=
  fold_left (apply_opt v) ops [osargs].

(* app.Settings(globals...) appends to a process-wide option list; App.Run(ops...) applies
   `append(ops, globalOptions...)`: its own options first, the process-wide ones after them *)
Definition configured_run (v : variant) (osargs : loader) (ops globals : list copt) : list loader :=
  configured v osargs (ops ++ globals).

(* --- the loader sequence: SortOrderedComponents, through Model/Sorter.v ------------------------- *)

Fixpoint parts_from (n : nat) (ls : list loader) : list participant :=
  match ls with [] => [] | l :: r => mkPart n (lclass l) :: parts_from (S n) r end.

Definition pick (ls : list loader) (ps : list participant) : list loader :=
  flat_map (fun p => match nth_error ls (pid p) with Some l => [l] | None => [] end) ps.

Definition sequence (ls : list loader) : list loader :=
  pick ls (sort_participants (parts_from 0 ls)).

(* --- Configure.Initialize --------------------------------------------------------------- *)

Inductive outcome : Type :=
| ROk (cfg : doc)
| RErr
| RPanic.

Fixpoint run_seq (cfg : doc) (seq : list loader) : outcome :=
  match seq with
  | [] => ROk cfg
  | l :: r => match load l with
              | LoadPanic => RPanic
              | LoadErr => RErr
              | LoadOk None => run_seq cfg r              (* len(config) == 0: skipped *)
              | LoadOk (Some d) => run_seq (merge cfg d) r
              end
  end.

Definition initialize (ls : list loader) : outcome := run_seq [] (sequence ls).

(* the documents of a sequence whose loads all succeed *)
Fixpoint docs_of (seq : list loader) : option (list doc) :=
  match seq with
  | [] => Some []
  | l :: r => match load l, docs_of r with
              | LoadOk None, Some ds => Some ds
              | LoadOk (Some d), Some ds => Some (d :: ds)
              | _, _ => None
              end
  end.

(* --- one Configure used in several steps --------------------------------------------------------
   configure.go keeps two pieces of state: the loader list and the binder's configuration.
     SetLoaders(ls)  : loaders = ls
     AddLoaders(ls)  : loaders = loaders ++ ls
     Initialize()    : loaders = SortOrderedComponents(loaders)   -- the SORTED list is stored back
                       for each loader in that order: LoadConfig, then Binder.SetConfig (merge INTO the
                       configuration already present); the first error / panic ends the pass, what was
                       merged before stays.
   Nothing resets the binder, so a later Initialize merges every document once more on top. *)

Inductive rstatus : Type := SOk | SErr | SPanic.

(* the loaders consulted by one pass, in order: documents delivered, how the pass ended, and the loaders
   whose LoadConfig was called (the failing one included) *)
Fixpoint consult (seq : list loader) : list doc * rstatus * list loader :=
  match seq with
  | [] => ([], SOk, [])
  | l :: r =>
      match load l with
      | LoadPanic => ([], SPanic, [l])
      | LoadErr => ([], SErr, [l])
      | LoadOk od =>
          let '(ds, st, used) := consult r in
          (match od with Some d => d :: ds | None => ds end, st, l :: used)
      end
  end.

Definition run_partial (cfg : doc) (seq : list loader) : doc * rstatus * list loader :=
  let '(ds, st, used) := consult seq in (fold_left merge ds cfg, st, used).

Inductive cstep : Type :=
| CSet (ls : list loader)
| CAdd (ls : list loader)
| CInit.

Record cstate : Type := mkCState { cs_loaders : list loader; cs_cfg : doc }.

(* Stored: Initialize stores the sorted list back (configure.go as written).
   AsAdded: the specification's view — the list stays as the user built it and every Initialize
   sorts ALL loaders configured so far. Proofs/ConfigMergeProofs.v: the two agree on every history. *)
Inductive hmode : Type := Stored | AsAdded.

Definition cstep_run (m : hmode) (s : cstate) (st : cstep) : cstate * option (rstatus * list loader) :=
  match st with
  | CSet ls => (mkCState ls (cs_cfg s), None)
  | CAdd ls => (mkCState (add_loaders (cs_loaders s) ls) (cs_cfg s), None)
  | CInit =>
      let seq := sequence (cs_loaders s) in
      let '(cfg, r, used) := run_partial (cs_cfg s) seq in
      (mkCState (match m with Stored => seq | AsAdded => cs_loaders s end) cfg, Some (r, used))
  end.

(* the state after every step, with the result of the step when it is an Initialize *)
Fixpoint hist_trace (m : hmode) (s : cstate) (steps : list cstep)
  : list (doc * option (rstatus * list loader)) :=
  match steps with
  | [] => []
  | st :: r => let '(s', o) := cstep_run m s st in (cs_cfg s', o) :: hist_trace m s' r
  end.

Fixpoint hist_final (m : hmode) (s : cstate) (steps : list cstep) : cstate :=
  match steps with
  | [] => s
  | st :: r => hist_final m (fst (cstep_run m s st)) r
  end.
