(* Model of github.com/go-kid/strconv2 v0.0.2 (module cache): ParseAny / FormatAny, with the
   parts of go-kid/strings2 v0.0.1 (Index / SplitWithConfig, single-byte separator, block
   skipping) and of encoding/json (Valid / Unmarshal into any / Marshal of any) they rest on.

   Shared by C16 (placeholder defaults and values), C17 (value path) and C18 (expression
   results).  Definitions only; lemmas live in Proofs/StrconvProofs.v.

   STABLE INTERFACE
     bytes            = list N                      byte strings
     res A            = Ok a | Err | Panic          Go: (value, nil) | (_, err) | run-time panic
     cval             = VNull | VBool | VInt | VDec | VStr | VList | VMap    configuration values
     parse_any        : bytes -> res cval           strconv2.ParseAny
     format_any       : cval -> res bytes           strconv2.FormatAny
     format_cfg       : bool -> cval -> res bytes   what the ${} callback splices: FormatAny (false), or with the
                                                    repair D-C17g (true) FormatFloat(f,'f',-1,64) for a float64
     json_marshal     : cval -> bytes               encoding/json.Marshal on any-trees
     text_in_fragment : bytes -> bool               inputs on which parse_any is claimed faithful
     val_in_fragment  : cval -> bool                values on which format_any is claimed faithful
     cval_eqb         : cval -> cval -> bool        equality, maps compared as sets of bindings
     canonical_text   : bytes -> bool               format_any (parse_any s) = s   (text fidelity)
     plain            : bytes -> bool               syntactic sufficient condition: parse_any s = VStr s

   VALUE ABSTRACTION
     VInt z      a Go int / int64 (what yaml.v3 / viper produce for integer scalars)
     VDec m e    a float64 whose value is exactly m * 10^e, kept normalised (m has no factor 10,
                 zero is VDec 0 0).  Faithful while the value has at most 15 significant decimal
                 digits and a decimal exponent of moderate size (then the float64 nearest to the
                 decimal prints back, shortest-round-trip, as the same digits).  Negative zero
                 ("-0", which Go keeps as -0) is outside the fragment.
     VMap kvs    a Go map[string]any as an association list without duplicate keys (later
                 assignment replaces in place); Marshal sorts keys bytewise as encoding/json does.

   FRAGMENT (text_in_fragment / val_in_fragment, below): numbers as above; texts that go to the
   JSON or bracket parsers ('[..]', '{..}', 'map[..]') consist of printable ASCII without
   backslash; strings inside lists/maps are printable ASCII (so Marshal needs no \u escapes
   beyond those for the less-than, greater-than, ampersand, double-quote and backslash bytes,
   which are modelled).  Scalars outside brackets may be arbitrary bytes. *)
From Coq Require Export List NArith ZArith Bool.
Export ListNotations.

Definition bytes := list N.

Inductive res (A : Type) : Type :=
| Ok (a : A)
| Err          (* Go error return *)
| Panic.       (* Go run-time panic (slice bounds) *)
Arguments Ok {A} a.
Arguments Err {A}.
Arguments Panic {A}.

Definition rbind {A B} (r : res A) (f : A -> res B) : res B :=
  match r with Ok a => f a | Err => Err | Panic => Panic end.

Inductive cval : Type :=
| VNull
| VBool (b : bool)
| VInt (z : Z)
| VDec (m e : Z)
| VStr (s : bytes)
| VList (l : list cval)
| VMap (kvs : list (bytes * cval)).

(* ---- bytes ------------------------------------------------------------------------- *)

Definition b_dquote : N := 34.  Definition b_amp : N := 38.   Definition b_squote : N := 39.
Definition b_lpar : N := 40.    Definition b_rpar : N := 41.  Definition b_plus : N := 43.
Definition b_comma : N := 44.   Definition b_minus : N := 45. Definition b_dot : N := 46.
Definition b_zero : N := 48.    Definition b_colon : N := 58. Definition b_lt : N := 60.
Definition b_gt : N := 62.      Definition b_lbrack : N := 91. Definition b_bslash : N := 92.
Definition b_rbrack : N := 93.  Definition b_lbrace : N := 123. Definition b_rbrace : N := 125.
Definition b_space : N := 32.

Fixpoint beqb (a b : bytes) : bool :=
  match a, b with
  | [], [] => true
  | x :: a', y :: b' => N.eqb x y && beqb a' b'
  | _, _ => false
  end.

(* bytewise order, = Go's < on strings *)
Fixpoint bleb (a b : bytes) : bool :=
  match a, b with
  | [], _ => true
  | _ :: _, [] => false
  | x :: a', y :: b' => if N.ltb x y then true else if N.ltb y x then false else bleb a' b'
  end.

Definition is_digit (c : N) : bool := N.leb 48 c && N.leb c 57.
Definition lower_ascii (c : N) : N := if N.leb 65 c && N.leb c 90 then N.add c 32 else c.
Definition printable (c : N) : bool := N.leb 32 c && N.leb c 126.

Fixpoint has_prefix (p s : bytes) : bool :=
  match p, s with
  | [], _ => true
  | x :: p', y :: s' => N.eqb x y && has_prefix p' s'
  | _ :: _, [] => false
  end.

Definition last_byte (s : bytes) : option N :=
  match rev s with [] => None | c :: _ => Some c end.
Definition ends_with (c : N) (s : bytes) : bool :=
  match last_byte s with Some d => N.eqb c d | None => false end.
Definition starts_with (c : N) (s : bytes) : bool :=
  match s with d :: _ => N.eqb c d | [] => false end.

(* s[1 : len(s)-1] for len(s) >= 2 *)
Definition strip_ends (s : bytes) : bytes := removelast (tl s).

(* first index of byte c, as strings.Index(s, string(c)) *)
Fixpoint byte_index (c : N) (s : bytes) : option nat :=
  match s with
  | [] => None
  | d :: r => if N.eqb c d then Some O else option_map S (byte_index c r)
  end.
Definition zindex (c : N) (s : bytes) : Z :=
  match byte_index c s with Some k => Z.of_nat k | None => (-1)%Z end.
Definition count_byte (c : N) (s : bytes) : nat := length (filter (N.eqb c) s).

(* strings.SplitN(s, string(c), 2) : (before, Some after) or (s, None) *)
Definition split_first (c : N) (s : bytes) : bytes * option bytes :=
  match byte_index c s with
  | Some k => (firstn k s, Some (skipn (S k) s))
  | None => (s, None)
  end.

(* ---- decimal digits ---------------------------------------------------------------- *)

Fixpoint uint_bytes (u : Decimal.uint) : bytes :=
  match u with
  | Decimal.Nil => []
  | Decimal.D0 r => 48%N :: uint_bytes r | Decimal.D1 r => 49%N :: uint_bytes r | Decimal.D2 r => 50%N :: uint_bytes r
  | Decimal.D3 r => 51%N :: uint_bytes r | Decimal.D4 r => 52%N :: uint_bytes r | Decimal.D5 r => 53%N :: uint_bytes r
  | Decimal.D6 r => 54%N :: uint_bytes r | Decimal.D7 r => 55%N :: uint_bytes r | Decimal.D8 r => 56%N :: uint_bytes r
  | Decimal.D9 r => 57%N :: uint_bytes r
  end.

(* decimal digits of a natural number, "0" for zero *)
Definition digits_of_N (n : N) : bytes := uint_bytes (N.to_uint n).
(* strconv.Itoa / %d *)
Definition digits_of_Z (z : Z) : bytes :=
  if (z <? 0)%Z then b_minus :: digits_of_N (Z.to_N (- z)) else digits_of_N (Z.to_N z).
Definition N_of_digits (s : bytes) : N :=
  fold_left (fun acc d => N.add (N.mul acc 10) (N.sub d 48)) s 0%N.

Fixpoint strip_zeros_front (s : bytes) : bytes :=
  match s with c :: r => if N.eqb c 48 then strip_zeros_front r else s | [] => [] end.
Definition strip_zeros_back (s : bytes) : bytes := rev (strip_zeros_front (rev s)).

(* the float64 that the decimal  (digits ds) * 10^e  denotes, normalised *)
Definition mk_dec (neg : bool) (ds : bytes) (e : Z) : cval :=
  let ds' := strip_zeros_back ds in
  let m := Z.of_N (N_of_digits ds') in
  if (m =? 0)%Z then VDec 0 0
  else VDec (if neg then (- m)%Z else m) (e + Z.of_nat (length ds - length ds'))%Z.

(* ---- numberReg = ^(-|\+)?\d+(\.\d+)?$  and strconv.ParseFloat on its language ------- *)

Definition all_digits1 (s : bytes) : bool :=
  match s with [] => false | _ => forallb is_digit s end.

Definition unsign (s : bytes) : bool * bytes :=
  match s with
  | c :: r => if N.eqb c b_minus then (true, r) else if N.eqb c b_plus then (false, r) else (false, s)
  | [] => (false, [])
  end.

Definition is_number (s : bytes) : bool :=
  match split_first b_dot (snd (unsign s)) with
  | (i, None) => all_digits1 i
  | (i, Some f) => all_digits1 i && all_digits1 f
  end.

Definition parse_number (s : bytes) : cval :=
  let (neg, body) := unsign s in
  match split_first b_dot body with
  | (i, None) => mk_dec neg i 0
  | (i, Some f) => mk_dec neg (i ++ f) (- Z.of_nat (length f))
  end.

(* ---- strings2.Index (left = { [ ( , right = } ] ) ) for a one-byte separator ------- *)

Definition is_left (c : N) : bool := N.eqb c b_lbrace || N.eqb c b_lbrack || N.eqb c b_lpar.
Definition is_right (c : N) : bool := N.eqb c b_rbrace || N.eqb c b_rbrack || N.eqb c b_rpar.

(* the for-loop of Index; rest = s[i:], inn = `in`, idx = `idx` *)
Fixpoint index_loop (sep : N) (rest : bytes) (i inn idx : Z) : Z :=
  match rest with
  | [] => idx
  | a :: r =>
    if is_left a then index_loop sep r (i + 1) (inn + 1) idx
    else if is_right a then
      if (inn - 1 =? 0)%Z then
        match byte_index sep r with                      (* strings.Index(s[i+1:], sep) *)
        | None => (-1)%Z
        | Some k => index_loop sep r (i + 1) 0%Z (Z.of_nat k + i + 1)
        end
      else index_loop sep r (i + 1) (inn - 1) idx
    else if (inn =? 0)%Z && (idx <=? i)%Z then
      if (idx =? i)%Z then idx                            (* break *)
      else index_loop sep r (i + 1) inn (zindex sep rest + i)   (* Index(s[i:], sep) + i, may be i-1 *)
    else index_loop sep r (i + 1) inn idx
  end%Z.

Definition index_skip (sep : N) (s : bytes) : Z :=
  match byte_index sep s with
  | None => (-1)%Z
  | Some k => index_loop sep s 0 0 (Z.of_nat k)
  end.

(* SplitWithConfig(s, {Sep: sep, N: -1, blocks}) : n = Count+1, at most n-1 cuts *)
Fixpoint split_loop (sep : N) (n : nat) (s : bytes) : list bytes :=
  match n with
  | O => [s]
  | S n' =>
    let m := index_skip sep s in
    if (m <? 0)%Z then [s]
    else firstn (Z.to_nat m) s :: split_loop sep n' (skipn (S (Z.to_nat m)) s)
  end.
Definition split_blocks (sep : N) (s : bytes) : list bytes := split_loop sep (count_byte sep s) s.

(* ---- map values -------------------------------------------------------------------- *)

Fixpoint map_set (k : bytes) (v : cval) (m : list (bytes * cval)) : list (bytes * cval) :=
  match m with
  | [] => [(k, v)]
  | (k', v') :: r => if beqb k k' then (k, v) :: r else (k', v') :: map_set k v r
  end.

Fixpoint map_get (k : bytes) (m : list (bytes * cval)) : option cval :=
  match m with
  | [] => None
  | (k', v') :: r => if beqb k k' then Some v' else map_get k r
  end.

Fixpoint ins_kv {A} (kv : bytes * A) (l : list (bytes * A)) : list (bytes * A) :=
  match l with
  | [] => [kv]
  | kv' :: r => if bleb (fst kv) (fst kv') then kv :: kv' :: r else kv' :: ins_kv kv r
  end.
(* keys sorted bytewise (encoding/json sorts map keys) *)
Definition sort_kvs {A} (l : list (bytes * A)) : list (bytes * A) := fold_right ins_kv [] l.

(* ---- encoding/json: Valid + Unmarshal into any, on printable ASCII without backslash --- *)

Definition is_ws (c : N) : bool := N.eqb c 32 || N.eqb c 9 || N.eqb c 10 || N.eqb c 13.
Fixpoint skip_ws (s : bytes) : bytes :=
  match s with c :: r => if is_ws c then skip_ws r else s | [] => [] end.

(* after the opening quote: bytes up to the closing quote; control bytes and backslash refuse *)
Fixpoint jstring (s : bytes) : option (bytes * bytes) :=
  match s with
  | [] => None
  | c :: r =>
    if N.eqb c b_dquote then Some ([], r)
    else if N.eqb c b_bslash || N.ltb c 32 then None
    else match jstring r with Some (t, r') => Some (c :: t, r') | None => None end
  end.

Fixpoint span_digits (s : bytes) : bytes * bytes :=
  match s with
  | c :: r => if is_digit c then let (d, r') := span_digits r in (c :: d, r') else ([], s)
  | [] => ([], [])
  end.

(* JSON number: optional minus; 0 or a digit string without leading 0; optional .digits; optional e/E, sign, digits *)
Definition jnumber (s : bytes) : option (cval * bytes) :=
  let (neg, s1) := match s with c :: r => if N.eqb c b_minus then (true, r) else (false, s) | [] => (false, s) end in
  let (ip, s2) := span_digits s1 in
  match ip with
  | [] => None
  | d0 :: ip' =>
    if N.eqb d0 48 && negb (match ip' with [] => true | _ => false end) then None else
    let frac := match s2 with
                | c :: r => if N.eqb c b_dot then
                              let (f, r') := span_digits r in
                              match f with [] => None | _ => Some (f, r') end
                            else Some ([], s2)
                | [] => Some ([], s2)
                end in
    match frac with
    | None => None
    | Some (f, s3) =>
      let expo := match s3 with
                  | c :: r =>
                    if N.eqb c 101 || N.eqb c 69 then
                      let (eneg, r1) := match r with
                                        | c2 :: r2 => if N.eqb c2 b_minus then (true, r2)
                                                      else if N.eqb c2 b_plus then (false, r2) else (false, r)
                                        | [] => (false, r)
                                        end in
                      let (ed, r3) := span_digits r1 in
                      match ed with
                      | [] => None
                      | _ => let ev := Z.of_N (N_of_digits ed) in Some (if eneg then (- ev)%Z else ev, r3)
                      end
                    else Some (0%Z, s3)
                  | [] => Some (0%Z, s3)
                  end in
      match expo with
      | None => None
      | Some (ev, s4) => Some (mk_dec neg (ip ++ f) (ev - Z.of_nat (length f))%Z, s4)
      end
    end
  end.

Definition lit_true : bytes := [116; 114; 117; 101]%N.
Definition lit_false : bytes := [102; 97; 108; 115; 101]%N.
Definition lit_null : bytes := [110; 117; 108; 108]%N.
Definition lit_nil : bytes := [60; 110; 105; 108; 62]%N.     (* "<nil>" *)
Definition lit_mapopen : bytes := [109; 97; 112; 91]%N.      (* "map[" *)

(* one JSON value, leading white space allowed; returns the rest *)
Fixpoint jvalue (fuel : nat) (s : bytes) {struct fuel} : option (cval * bytes) :=
  match fuel with
  | O => None
  | S k =>
    let elems := fix elems (n : nat) (s : bytes) (acc : list cval) {struct n} : option (cval * bytes) :=
      match n with
      | O => None
      | S n' =>
        match jvalue k s with
        | Some (v, r) =>
          match skip_ws r with
          | c :: r' => if N.eqb c b_comma then elems n' r' (v :: acc)
                       else if N.eqb c b_rbrack then Some (VList (rev (v :: acc)), r')
                       else None
          | [] => None
          end
        | None => None
        end
      end in
    let members := fix members (n : nat) (s : bytes) (acc : list (bytes * cval)) {struct n} : option (cval * bytes) :=
      match n with
      | O => None
      | S n' =>
        match skip_ws s with
        | q :: r0 =>
          if negb (N.eqb q b_dquote) then None else
          match jstring r0 with
          | Some (key, r1) =>
            match skip_ws r1 with
            | c :: r2 =>
              if negb (N.eqb c b_colon) then None else
              match jvalue k r2 with
              | Some (v, r3) =>
                match skip_ws r3 with
                | c' :: r4 => if N.eqb c' b_comma then members n' r4 (map_set key v acc)
                              else if N.eqb c' b_rbrace then Some (VMap (map_set key v acc), r4)
                              else None
                | [] => None
                end
              | None => None
              end
            | [] => None
            end
          | None => None
          end
        | [] => None
        end
      end in
    match skip_ws s with
    | [] => None
    | c :: r =>
      if N.eqb c b_dquote then
        match jstring r with Some (t, r') => Some (VStr t, r') | None => None end
      else if N.eqb c b_lbrack then
        match skip_ws r with
        | c' :: r' => if N.eqb c' b_rbrack then Some (VList [], r') else elems (length r) r []
        | [] => None
        end
      else if N.eqb c b_lbrace then
        match skip_ws r with
        | c' :: r' => if N.eqb c' b_rbrace then Some (VMap [], r') else members (length r) r []
        | [] => None
        end
      else if has_prefix lit_true (c :: r) then Some (VBool true, skipn 4 (c :: r))
      else if has_prefix lit_false (c :: r) then Some (VBool false, skipn 5 (c :: r))
      else if has_prefix lit_null (c :: r) then Some (VNull, skipn 4 (c :: r))
      else jnumber (c :: r)
    end
  end.

(* json.Valid(s) and, when valid, the value json.Unmarshal stores into an `any` *)
Definition json_parse (s : bytes) : option cval :=
  match jvalue (S (length s)) s with
  | Some (v, r) => match skip_ws r with [] => Some v | _ => None end
  | None => None
  end.

(* ---- ParseAny ---------------------------------------------------------------------- *)

Definition is_slice (s : bytes) : bool :=
  Nat.ltb 1 (length s) && starts_with b_lbrack s && ends_with b_rbrack s.

Definition is_map (s : bytes) : bool :=
  (Nat.ltb 4 (length s) && has_prefix lit_mapopen s && ends_with b_rbrack s)
  || (Nat.ltb 1 (length s) && starts_with b_lbrace s && ends_with b_rbrace s
      && match json_parse s with Some _ => true | None => false end).

Definition is_quoted (s : bytes) : bool :=
  (starts_with b_squote s && ends_with b_squote s) || (starts_with b_dquote s && ends_with b_dquote s).

Fixpoint parse_each (f : bytes -> res cval) (l : list bytes) : res (list cval) :=
  match l with
  | [] => Ok []
  | x :: r => rbind (f x) (fun v => rbind (parse_each f r) (fun vs => Ok (v :: vs)))
  end.

(* for part := range SplitWithConfig(val, " "): subKV := SplitN(part, ":", 2) ... result[subK] = sub *)
Fixpoint parse_members (f : bytes -> res cval) (l : list bytes) (acc : list (bytes * cval))
  : res (list (bytes * cval)) :=
  match l with
  | [] => Ok acc
  | part :: r =>
    match split_first b_colon part with
    | (_, None) => Err
    | (k, Some v) => rbind (f v) (fun sub => parse_members f r (map_set k sub acc))
    end
  end.

Fixpoint parse_any_fuel (fuel : nat) (s : bytes) {struct fuel} : res cval :=
  match fuel with
  | O => Err
  | S k =>
    match s with
    | [] => Ok (VStr [])
    | _ =>
      if beqb (map lower_ascii s) lit_true then Ok (VBool true)
      else if beqb (map lower_ascii s) lit_false then Ok (VBool false)
      else if is_number s then Ok (parse_number s)
      else if is_map s then
        (* ParseAnyMap *)
        match json_parse s with
        | Some v => Ok v
        | None =>
          let inner := removelast (skipn 4 s) in           (* val[4 : len(val)-1] *)
          match inner with
          | [] => Ok (VMap [])
          | _ => rbind (parse_members (parse_any_fuel k) (split_blocks b_space inner) []) (fun kvs => Ok (VMap kvs))
          end
        end
      else if is_slice s then
        (* ParseAnySlice *)
        match json_parse s with
        | Some v => Ok v
        | None =>
          let inner := strip_ends s in                      (* val[1 : len(val)-1] *)
          match inner with
          | [] => Ok (VList [])
          | _ => rbind (parse_each (parse_any_fuel k) (split_blocks b_comma inner)) (fun vs => Ok (VList vs))
          end
        end
      else if is_quoted s then
        match s with
        | [_] => Panic                                      (* val[1:0]: slice bounds out of range *)
        | _ => Ok (VStr (strip_ends s))
        end
      else Ok (VStr s)
    end
  end.

Definition parse_any (s : bytes) : res cval := parse_any_fuel (S (length s)) s.

(* ---- FormatAny --------------------------------------------------------------------- *)

Definition exp_digits (pad2 : bool) (e : Z) : bytes :=
  let a := Z.abs e in
  (if (e <? 0)%Z then b_minus else b_plus)
    :: (if pad2 && (a <? 10)%Z then [b_zero] else []) ++ digits_of_N (Z.to_N a).

(* d.ddde±XX *)
Definition fmt_e (pad2 : bool) (ds : bytes) (exp : Z) : bytes :=
  match ds with
  | [] => []
  | d :: r => (d :: match r with [] => [] | _ => b_dot :: r end) ++ [101%N] ++ exp_digits pad2 exp
  end.

(* %f with the shortest digits; dp = position of the decimal point relative to ds *)
Definition fmt_f (ds : bytes) (dp : Z) : bytes :=
  if (dp <=? 0)%Z then [b_zero; b_dot] ++ repeat b_zero (Z.to_nat (- dp)) ++ ds
  else if (Z.of_nat (length ds) <=? dp)%Z then ds ++ repeat b_zero (Z.to_nat dp - length ds)
  else firstn (Z.to_nat dp) ds ++ [b_dot] ++ skipn (Z.to_nat dp) ds.

(* fmt.Sprintf with verb v on a float64 = strconv.FormatFloat(f, 'g', -1, 64): the shortest digits;
   e-form iff exp < -4 || exp >= eprec, and eprec = 6 when the precision is `shortest`
   (ftoa.go).  Measured: 1000000 gives 1e+06, 999999 gives 999999, 0.0001 stays, 0.00001 gives 1e-05. *)
Definition fmt_float_v (m e : Z) : bytes :=
  if (m =? 0)%Z then [b_zero] else
  let ds := digits_of_N (Z.to_N (Z.abs m)) in
  let dp := (Z.of_nat (length ds) + e)%Z in
  let exp := (dp - 1)%Z in
  (if (m <? 0)%Z then [b_minus] else []) ++
  (if (exp <? -4)%Z || (6 <=? exp)%Z then fmt_e true ds exp else fmt_f ds dp).

(* encoding/json floatEncoder: 'f' unless abs < 1e-6 || abs >= 1e21; e-0X cleaned to e-X *)
Definition fmt_float_json (m e : Z) : bytes :=
  if (m =? 0)%Z then [b_zero] else
  let ds := digits_of_N (Z.to_N (Z.abs m)) in
  let dp := (Z.of_nat (length ds) + e)%Z in
  let exp := (dp - 1)%Z in
  (if (m <? 0)%Z then [b_minus] else []) ++
  (if (exp <? -6)%Z || (21 <=? exp)%Z then fmt_e (0 <=? exp)%Z ds exp else fmt_f ds dp).

Definition hex_digit (n : N) : N := if N.ltb n 10 then N.add 48 n else N.add 87 n.

(* encodeState.string with escapeHTML = true, bytes < 0x80 (Go 1.22+: \b \f short forms) *)
Definition json_escape_byte (c : N) : bytes :=
  if N.eqb c b_dquote then [b_bslash; b_dquote]
  else if N.eqb c b_bslash then [b_bslash; b_bslash]
  else if N.eqb c 8 then [b_bslash; 98%N]
  else if N.eqb c 12 then [b_bslash; 102%N]
  else if N.eqb c 10 then [b_bslash; 110%N]
  else if N.eqb c 13 then [b_bslash; 114%N]
  else if N.eqb c 9 then [b_bslash; 116%N]
  else if N.ltb c 32 || N.eqb c b_lt || N.eqb c b_gt || N.eqb c b_amp then
    [b_bslash; 117%N; 48%N; 48%N; hex_digit (N.div c 16); hex_digit (N.modulo c 16)]
  else [c].

Definition json_string (s : bytes) : bytes := b_dquote :: flat_map json_escape_byte s ++ [b_dquote].

Fixpoint join_comma (l : list bytes) : bytes :=
  match l with
  | [] => []
  | [x] => x
  | x :: r => x ++ b_comma :: join_comma r
  end.

Fixpoint json_marshal (v : cval) : bytes :=
  match v with
  | VNull => lit_null
  | VBool true => lit_true
  | VBool false => lit_false
  | VInt z => digits_of_Z z
  | VDec m e => fmt_float_json m e
  | VStr s => json_string s
  | VList l => b_lbrack :: join_comma (map json_marshal l) ++ [b_rbrack]
  | VMap kvs =>
    b_lbrace ::
      join_comma (map (fun kt : bytes * bytes => json_string (fst kt) ++ b_colon :: snd kt)
                      (sort_kvs (map (fun kv : bytes * cval => let (k, x) := kv in (k, json_marshal x)) kvs)))
      ++ [b_rbrace]
  end.

(* FormatAny: nil -> "<nil>", string, bool, map/slice -> json.Marshal, otherwise fmt %v *)
Definition format_any (v : cval) : res bytes :=
  match v with
  | VNull => Ok lit_nil
  | VStr s => Ok s
  | VBool true => Ok lit_true
  | VBool false => Ok lit_false
  | VInt z => Ok (digits_of_Z z)
  | VDec m e => Ok (fmt_float_v m e)
  | VList _ | VMap _ => Ok (json_marshal v)      (* Marshal of any-trees of these kinds cannot fail *)
  end.

(* strconv.FormatFloat(f, 'f', -1, 64): the shortest digits, never an exponent *)
Definition fmt_float_f (m e : Z) : bytes :=
  if (m =? 0)%Z then [b_zero] else
  let ds := digits_of_N (Z.to_N (Z.abs m)) in
  (if (m <? 0)%Z then [b_minus] else []) ++ fmt_f ds (Z.of_nat (length ds) + e)%Z.

(* FormatAny as the ${} callback of container/processors/config_quote_aware_post_processors.go applies it
   (shared by C16, C17, C18).  [fx] = repair D-C17g (fixes/D-C17g.diff): a float64 is spliced in plain
   digits, strconv.FormatFloat(f, 'f', -1, 64), instead of %v's exponent form (1e+06, which ParseAny reads
   back as a string); [fx = false] is the unrepaired callback, plain FormatAny.  Every other kind of value
   goes through FormatAny in both variants. *)
Definition format_cfg (fx : bool) (v : cval) : res bytes :=
  match v with
  | VDec m e => if fx then Ok (fmt_float_f m e) else format_any v
  | _ => format_any v
  end.

(* ---- comparison of values (maps as sets of bindings) -------------------------------- *)

Fixpoint canon (v : cval) : cval :=
  match v with
  | VList l => VList (map canon l)
  | VMap kvs => VMap (sort_kvs (map (fun kv : bytes * cval => let (k, x) := kv in (k, canon x)) kvs))
  | _ => v
  end.

Fixpoint cval_eqb_raw (a b : cval) {struct a} : bool :=
  match a, b with
  | VNull, VNull => true
  | VBool x, VBool y => Bool.eqb x y
  | VInt x, VInt y => Z.eqb x y
  | VDec m e, VDec m' e' => Z.eqb m m' && Z.eqb e e'
  | VStr x, VStr y => beqb x y
  | VList l1, VList l2 =>
    (fix go (l1 l2 : list cval) {struct l1} : bool :=
       match l1, l2 with
       | [], [] => true
       | x :: r, y :: r' => cval_eqb_raw x y && go r r'
       | _, _ => false
       end) l1 l2
  | VMap m1, VMap m2 =>
    (fix go (m1 m2 : list (bytes * cval)) {struct m1} : bool :=
       match m1, m2 with
       | [], [] => true
       | (k, x) :: r, (k', y) :: r' => beqb k k' && cval_eqb_raw x y && go r r'
       | _, _ => false
       end) m1 m2
  | _, _ => false
  end.

Definition cval_eqb (a b : cval) : bool := cval_eqb_raw (canon a) (canon b).

(* ---- the modelled fragment --------------------------------------------------------- *)

(* float64 abstraction is exact: at most 15 significant digits, decimal exponent within +-280 *)
Definition dec_ok (m e : Z) : bool :=
  let nd := Z.of_nat (length (digits_of_N (Z.to_N (Z.abs m)))) in
  (nd <=? 15)%Z && (-280 <=? e)%Z && (e + nd <=? 280)%Z.

(* Go int is 64 bit *)
Definition int_ok (z : Z) : bool := (-9223372036854775808 <=? z)%Z && (z <=? 9223372036854775807)%Z.

Definition ascii_text (s : bytes) : bool := forallb printable s.

(* nested = inside a list/map, where strings and keys are JSON-encoded *)
Fixpoint val_ok (nested : bool) (v : cval) : bool :=
  match v with
  | VNull | VBool _ => true
  | VInt z => int_ok z
  | VDec m e => dec_ok m e
  | VStr s => if nested then ascii_text s else true
  | VList l => forallb (val_ok true) l
  | VMap kvs => forallb (fun kv : bytes * cval => let (k, x) := kv in ascii_text k && val_ok true x) kvs
  end.
Definition val_in_fragment (v : cval) : bool := val_ok false v.

Definition neg_zero (s : bytes) : bool :=
  is_number s && starts_with b_minus s && forallb (fun c => negb (is_digit c) || N.eqb c 48) s.

Definition bracketed (s : bytes) : bool :=
  is_slice s || (Nat.ltb 4 (length s) && has_prefix lit_mapopen s && ends_with b_rbrack s)
  || (Nat.ltb 1 (length s) && starts_with b_lbrace s && ends_with b_rbrace s).

(* inputs on which parse_any is claimed to agree with strconv2.ParseAny *)
Definition text_in_fragment (s : bytes) : bool :=
  negb (neg_zero s)
  && (if bracketed s then ascii_text s && negb (existsb (N.eqb b_bslash) s) else true)
  && match parse_any s with Ok v => val_in_fragment v | _ => true end.

(* text fidelity: re-rendering the parsed value gives the text back *)
Definition canonical_text (s : bytes) : bool :=
  match parse_any s with
  | Ok v => match format_any v with Ok t => beqb t s | _ => false end
  | _ => false
  end.

(* syntactic sufficient condition for  parse_any s = Ok (VStr s)  (proved: plain_parse):
   the first byte is none of: single quote, double quote, [ { + - or a digit; the text is not true/false in any
   letter case, and it is not of the form map[...] *)
Definition plain (s : bytes) : bool :=
  match s with
  | [] => true
  | c :: _ =>
    negb (N.eqb c b_squote || N.eqb c b_dquote || N.eqb c b_lbrack || N.eqb c b_lbrace
          || N.eqb c b_plus || N.eqb c b_minus || is_digit c)
    && negb (beqb (map lower_ascii s) lit_true) && negb (beqb (map lower_ascii s) lit_false)
    && negb (has_prefix lit_mapopen s && ends_with b_rbrack s)
  end.
