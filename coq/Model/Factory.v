(* Model of container/factory/factory.go (doGetComponent, createComponent, doCreateComponent,
   populateComponent, getEarlyBeanReference), container/factory/post_processor_registration_delegate.go
   (InitializeComponent, ResolveAfterInstantiation, GetEarlyBeanReference) and
   component_definition/property.go (Property.Inject), on top of Model/Registry.v and Model/Resolve.v.

   The mutual recursion doGetComponent -> createComponent -> populateComponent -> doGetComponent is
   written once as [body rec] and closed by fuel in [do_get].  A Go panic is the explicit result
   [Fail FPanic]; fuel exhaustion is [Fail FFuel] (excluded by the termination theorem, never by assumption).

   Definitions only. *)
From Coq Require Export List Arith Bool.
From IocVerif Require Export Model.Registry Model.Resolve.
Export ListNotations.

(* ---- scenario: the static input of a start ------------------------------------------------------ *)

Inductive phase : Type := PhBefore | PhAfter | PhEarly.

Record scenario : Type := mkScn {
  s_pop : population;
  s_faults : list (name * phase * name);   (* (processor, callback, component) that returns an error *)
  s_loader_fail : bool;                    (* a configuration loader returns an error *)
  s_app : option (name * nat * nat);       (* the App component: its name, runner point, closer point *)
  s_oracle : list name                     (* enumeration order of the registries: an arbitrary oracle on an unrepaired
                                              tree, replaced by the name order by [App.normalise] on a repaired one *)
}.

Inductive event : Type :=
| EvEarly (p c : name)
| EvBefore (p c : name) (snap : list bool)   (* snap: which injection points of c are set *)
| EvAPS (c : name)
| EvInit (c : name)
| EvAfter (p c : name)
| EvRun (c : name).

Inductive err : Type :=
| ENoDef          (* no component definition for that name *)
| ECfg            (* required configuration value missing *)
| EFurther        (* required point without (qualifying) candidates: further-matching processor *)
| ENotFound       (* Property.Inject: no components *)
| ESelf           (* Property.Inject: only the holder itself *)
| ENotAssignable  (* Property.Inject: named component cannot be assigned (repaired code) *)
| EStale          (* wrapped after an early reference was handed out *)
| ECallback       (* AfterPropertiesSet / Init / a post-processor callback / runner / loader failed *)
.

Record fstate : Type := mkF {
  reg : rstate;
  flds : list ((name * nat) * list ver);           (* (holder, point index) -> injected versions *)
  deps : list (ver * list name);                   (* version (Meta object) -> holders it was injected into (Meta.dependOn) *)
  injs : list (name * list (list (option name)));  (* holder -> Injects of each point *)
  nextp : nat;                                     (* proxy objects created so far *)
  earlymade : list ((name * name) * nat);          (* (processor, component) -> proxy it made as early reference *)
  active : list name;                              (* componentPostProcessors, in invocation order *)
  log : list event;                                (* newest first *)
  scanned : bool                                   (* definitions registered (PrepareComponents reached scanning) *)
}.

Definition finit : fstate := mkF rinit [] [] [] 0 [] [] [] false.

Inductive failkind : Type :=
| FErr (e : err)     (* an error value travels up to Run / GetComponentByName *)
| FPanic             (* a Go panic unwinds the start *)
| FFuel.             (* model fuel exhausted (excluded by the termination theorem) *)

(* a failure carries the state left behind (the registry state matters for later lookups: C04) *)
Inductive res (A : Type) : Type :=
| Ok (a : A)
| Fail (k : failkind) (st : fstate).
Arguments Ok {A} a.
Arguments Fail {A} k st.

(* ---- small state updates ------------------------------------------------------------------------- *)

Definition set_reg (st : fstate) (r : rstate) : fstate :=
  mkF r (flds st) (deps st) (injs st) (nextp st) (earlymade st) (active st) (log st) (scanned st).
Definition add_log (st : fstate) (e : event) : fstate :=
  mkF (reg st) (flds st) (deps st) (injs st) (nextp st) (earlymade st) (active st) (e :: log st) (scanned st).
Definition set_injs (st : fstate) (h : name) (i : list (list (option name))) : fstate :=
  mkF (reg st) (flds st) (deps st) (aset h i (injs st)) (nextp st) (earlymade st) (active st) (log st) (scanned st).
Definition set_scanned (st : fstate) : fstate :=
  mkF (reg st) (flds st) (deps st) (injs st) (nextp st) (earlymade st) (active st) (log st) true.
Definition set_active (st : fstate) (a : list name) : fstate :=
  mkF (reg st) (flds st) (deps st) (injs st) (nextp st) (earlymade st) a (log st) (scanned st).

Definition key_eqb (a b : name * nat) : bool := Nat.eqb (fst a) (fst b) && Nat.eqb (snd a) (snd b).

Fixpoint klookup {A : Type} (k : name * nat) (l : list ((name * nat) * A)) : option A :=
  match l with
  | [] => None
  | (k', a) :: r => if key_eqb k' k then Some a else klookup k r
  end.

Definition field_of (st : fstate) (h : name) (k : nat) : list ver :=
  match klookup (h, k) (flds st) with Some l => l | None => [] end.

(* dependents are recorded per Meta object, i.e. per version: a proxy made in a later attempt starts with none *)
Fixpoint vlookup {A : Type} (v : ver) (l : list (ver * A)) : option A :=
  match l with
  | [] => None
  | (w, a) :: r => if ver_eqb w v then Some a else vlookup v r
  end.

Definition deps_of (st : fstate) (v : ver) : list name :=
  match vlookup v (deps st) with Some l => l | None => [] end.

Definition add_dep (d : list (ver * list name)) (v : ver) (h : name) : list (ver * list name) :=
  let cur := match vlookup v d with Some l => l | None => [] end in
  if mem h cur then d else (v, cur ++ [h]) :: d.

(* write a field and record the holder as dependent of every version written (property.go :87-96) *)
Definition write_field (st : fstate) (h : name) (k : nat) (vs : list ver) : fstate :=
  mkF (reg st) (((h, k), vs) :: flds st)
      (fold_left (fun d v => add_dep d v h) vs (deps st))
      (injs st) (nextp st) (earlymade st) (active st) (log st) (scanned st).

Definition new_proxy (st : fstate) (n : name) : fstate * ver :=
  (mkF (reg st) (flds st) (deps st) (injs st) (S (nextp st)) (earlymade st) (active st) (log st) (scanned st),
   VProxy n (nextp st)).

Definition note_early (st : fstate) (p c : name) (k : nat) : fstate :=
  mkF (reg st) (flds st) (deps st) (injs st) (nextp st) (((p, c), k) :: earlymade st) (active st) (log st) (scanned st).

(* ---- processors ------------------------------------------------------------------------------------ *)

Definition proc_of (pop : population) (p : name) : option proc_spec :=
  match get_comp pop p with
  | Some c => match c_proc c with Some (_, s) => Some s | None => None end
  | None => None
  end.

Definition builtin_active (pop : population) (st : fstate) (k : builtin_kind) : bool :=
  existsb (fun p => match proc_of pop p with
                    | Some (PBuiltin k') =>
                      match k, k' with
                      | BLogger, BLogger | BQuote, BQuote | BExpr, BExpr | BProps, BProps | BValue, BValue
                      | BValidate, BValidate | BWire, BWire | BFurther, BFurther | BFunc, BFunc => true
                      | _, _ => false
                      end
                    | _ => false
                    end) (active st).

Definition faulty (s : scenario) (p : name) (ph : phase) (c : name) : bool :=
  existsb (fun f => match f with
                    | (p', ph', c') =>
                      Nat.eqb p p' && Nat.eqb c c' &&
                      match ph, ph' with
                      | PhBefore, PhBefore | PhAfter, PhAfter | PhEarly, PhEarly => true
                      | _, _ => false
                      end
                    end) (s_faults s).

Definition is_func_point (p : point) : bool :=
  match pt_sel p with SFunc _ _ => true | _ => false end.

(* ---- getEarlyBeanReference (factory.go :282-296, delegate :229-243) ------------------------------- *)

Fixpoint early_chain (s : scenario) (n : name) (ps : list name) (st : fstate) (cur : ver)
  : res (fstate * ver) :=
  match ps with
  | [] => Ok (st, cur)
  | p :: r =>
    match proc_of (s_pop s) p with
    | Some (PUser early _) =>
      let st1 := add_log st (EvEarly p n) in
      if faulty s p PhEarly n then Fail (FErr ECallback) st1
      else match alookup n early with
           | Some EFresh =>
             let (st2, v) := new_proxy st1 n in
             let k := match v with VProxy _ k => k | VOrig _ => 0 end in
             early_chain s n r (note_early st2 p n k) v
           | _ => early_chain s n r st1 cur
           end
    | _ => early_chain s n r st cur
    end
  end.

Definition early_reference (s : scenario) (st : fstate) (n : name) : res (fstate * ver) :=
  early_chain s n (active st) st (VOrig n).

(* ---- GetSingleton(name, allowEarly) with the early factory computed ------------------------------- *)

Definition get_singleton (s : scenario) (st : fstate) (n : name) (early : bool)
  : res (fstate * option ver) :=
  match get_lookup (reg st) n early with
  | Hit v => Ok (st, Some v)
  | Miss => Ok (st, None)
  | NeedFactory _ =>
    match early_reference s st n with
    | Ok (st1, v) => Ok (set_reg st1 (get_promote (reg st1) n v), Some v)
    | Fail k st1 => Fail k st1
    end
  end.

(* ---- Property.Inject (component_definition/property.go :60-99) -------------------------------------- *)

Definition is_self (h : name) (v : ver) : bool :=
  match v with VOrig n => Nat.eqb n h | VProxy _ _ => false end.

Definition inject (vt : variant) (s : scenario) (st : fstate) (h : name) (k : nat) (p : point)
  (vs : list ver) : res fstate :=
  match vs with
  | [] => if pt_required p then Fail (FErr ENotFound) st else Ok st
  | _ =>
    let vs1 := filter (fun v => negb (is_self h v)) vs in
    match vs1 with
    | [] => if pt_required p then Fail (FErr ESelf) st else Ok st
    | v0 :: _ =>
      let used := if pt_slice p then vs1 else [v0] in
      if forallb (fun v => assignable (s_pop s) v (pt_target p)) used then
        Ok (write_field st h k used)
      else if fix_c07 vt then (if pt_required p then Fail (FErr ENotAssignable) st else Ok st)
      else Fail FPanic st
    end
  end.

(* ---- ResolveAfterInstantiation: the property pipeline over the active processors ---------------- *)

Definition cfg_stage (c : comp) (prefix : bool) : bool :=   (* true = a required value is missing *)
  existsb (fun cp => Bool.eqb (cp_prefix cp) prefix && cp_required cp && negb (cp_sat cp)) (c_cpoints c).

Fixpoint add_candidates (s : scenario) (func : bool) (ps : list point)
  (inj : list (list (option name))) : list (list (option name)) :=
  match ps, inj with
  | p :: ps', i :: inj' =>
    (if Bool.eqb (is_func_point p) func then i ++ candidates (s_oracle s) (s_pop s) p else i)
      :: add_candidates s func ps' inj'
  | _, _ => inj
  end.

Fixpoint pipeline (vt : variant) (s : scenario) (n : name) (c : comp) (ps : list name)
  (st : fstate) (inj : list (list (option name))) : res (fstate * list (list (option name))) :=
  match ps with
  | [] => Ok (st, inj)
  | p :: r =>
    match proc_of (s_pop s) p with
    | Some (PBuiltin BProps) => if cfg_stage c true then Fail (FErr ECfg) st else pipeline vt s n c r st inj
    | Some (PBuiltin BValue) => if cfg_stage c false then Fail (FErr ECfg) st else pipeline vt s n c r st inj
    | Some (PBuiltin BWire) => pipeline vt s n c r st (add_candidates s false (c_points c) inj)
    | Some (PBuiltin BFunc) => pipeline vt s n c r st (add_candidates s true (c_points c) inj)
    | Some (PBuiltin BFurther) =>
      match further_loop vt (s_pop s) n (c_points c) inj with
      | LOk inj' => pipeline vt s n c r st inj'
      | LErr => Fail (FErr EFurther) st
      end
    | _ => pipeline vt s n c r st inj
    end
  end.

(* ---- populateComponent (factory.go :252-280) ------------------------------------------------------- *)

Section WithRec.
  Variable vt : variant.
  Variable s : scenario.
  (* doGetComponent on a smaller fuel *)
  Variable rec : fstate -> name -> res (fstate * ver).

  Fixpoint get_all (st : fstate) (cands : list (option name)) : res (fstate * list ver) :=
    match cands with
    | [] => Ok (st, [])
    | None :: _ => Fail FPanic st                    (* dependency.Name() on a nil *Meta *)
    | Some d :: r =>
      match rec st d with
      | Ok (st1, v) =>
        match get_all st1 r with
        | Ok (st2, vs) => Ok (st2, v :: vs)
        | Fail k st2 => Fail k st2
        end
      | Fail k st1 => Fail k st1
      end
    end.

  Fixpoint inject_points (h : name) (k : nat) (ps : list point) (inj : list (list (option name)))
    (st : fstate) : res fstate :=
    match ps, inj with
    | p :: ps', i :: inj' =>
      match i with
      | [] => inject_points h (S k) ps' inj' st          (* len(node.Injects) == 0: skipped *)
      | _ =>
        match get_all st i with
        | Ok (st1, vs) =>
          match inject vt s st1 h k p vs with
          | Ok st2 => inject_points h (S k) ps' inj' st2
          | Fail k st2 => Fail k st2
          end
        | Fail k st1 => Fail k st1
        end
      end
    | _, _ => Ok st
    end.

  Definition cur_injs (st : fstate) (n : name) (c : comp) : list (list (option name)) :=
    match alookup n (injs st) with
    | Some i => i
    | None => map (fun _ => []) (c_points c)
    end.

  Definition populate (st : fstate) (n : name) (c : comp) : res fstate :=
    match pipeline vt s n c (active st) st (cur_injs st n c) with
    | Ok (st1, inj) => inject_points n 0 (c_points c) inj (set_injs st1 n inj)
    | Fail k st1 => Fail k st1
    end.

  (* ---- InitializeComponent (delegate :93-175) ------------------------------------------------------- *)

  Definition snapshot (st : fstate) (n : name) (c : comp) : list bool :=
    map (fun k => match field_of st n k with [] => false | _ => true end) (seq 0 (length (c_points c))).

  Fixpoint before_chain (n : name) (c : comp) (ps : list name) (st : fstate) : res fstate :=
    match ps with
    | [] => Ok st
    | p :: r =>
      match proc_of (s_pop s) p with
      | Some (PUser _ _) =>
        let st1 := add_log st (EvBefore p n (snapshot st n c)) in
        if faulty s p PhBefore n then Fail (FErr ECallback) st1 else before_chain n c r st1
      | _ => before_chain n c r st
      end
    end.

  Fixpoint after_chain (n : name) (ps : list name) (st : fstate) (cur : option ver)
    : res (fstate * option ver) :=
    match ps with
    | [] => Ok (st, cur)
    | p :: r =>
      match proc_of (s_pop s) p with
      | Some (PUser _ after) =>
        let st1 := add_log st (EvAfter p n) in
        if faulty s p PhAfter n then Fail (FErr ECallback) st1
        else
          let made := klookup (p, n) (earlymade st1) in
          match alookup n after with
          | Some AFresh => let (st2, v) := new_proxy st1 n in after_chain n r st2 (Some v)
          | Some AEarlyIfAny =>
            match made with
            | Some k => after_chain n r st1 (Some (VProxy n k))
            | None => after_chain n r st1 cur
            end
          | Some AEarlyElseFresh =>
            match made with
            | Some k => after_chain n r st1 (Some (VProxy n k))
            | None => let (st2, v) := new_proxy st1 n in after_chain n r st2 (Some v)
            end
          | _ => after_chain n r st1 cur
          end
      | _ => after_chain n r st cur
      end
    end.

  Definition init_methods (n : name) (c : comp) (st : fstate) : res fstate :=
    let r1 := match c_aps c with
              | None => Ok st
              | Some fails => let st1 := add_log st (EvAPS n) in
                              if fails then Fail (FErr ECallback) st1 else Ok st1
              end in
    match r1 with
    | Ok st1 =>
      match c_init c with
      | None => Ok st1
      | Some fails => let st2 := add_log st1 (EvInit n) in
                      if fails then Fail (FErr ECallback) st2 else Ok st2
      end
    | other => other
    end.

  (* result: Some v = a different object came back (wrappedInstance != instance) *)
  Definition initialize (st : fstate) (n : name) (c : comp) : res (fstate * option ver) :=
    match before_chain n c (active st) st with
    | Ok st1 =>
      match init_methods n c st1 with
      | Ok st2 => after_chain n (active st2) st2 None
      | Fail k st2 => Fail k st2
      end
    | Fail k st1 => Fail k st1
    end.

  (* ---- doCreateComponent (factory.go :190-250) ------------------------------------------------------ *)

  (* append(earlySingletonReference.GetDependents(), meta.GetDependents()...) *)
  Definition stale_dependents (st : fstate) (n : name) (e : ver) : list name :=
    filter (fun d => if fix_c03 vt then Nat.eqb d n || negb (is_creating (reg st) d)
                     else negb (is_creating (reg st) d))
           (deps_of st e ++ deps_of st (VOrig n)).

  Definition do_create (st : fstate) (n : name) (c : comp) : res (fstate * ver) :=
    let st0 := set_reg st (add_factory (reg st) n n) in          (* :192-198 early exposure *)
    match populate st0 n c with
    | Ok st1 =>
      match initialize st1 n c with
      | Ok (st2, w) =>
        match get_singleton s st2 n false with                     (* :224 — L1 / L2 only *)
        | Ok (_, None) => Ok (st2, match w with Some v => v | None => VOrig n end)
        | Ok (_, Some e) =>
          match w with
          | None => Ok (st2, e)                                    (* :230-232 *)
          | Some v =>
            match stale_dependents st2 n e with                    (* :233-246 *)
            | [] => Ok (st2, v)
            | _ => Fail (FErr EStale) st2
            end
          end
        | Fail k st3 => Fail k st3
        end
      | Fail k st2 => Fail k st2
      end
    | Fail k st1 => Fail k st1
    end.

  (* createComponent (:164-188); generated processors never short-circuit instantiation *)
  Definition create (st : fstate) (n : name) : res (fstate * ver) :=
    if scanned st then
      match get_comp (s_pop s) n with
      | None => Fail (FErr ENoDef) st
      | Some c => do_create st n c
      end
    else Fail (FErr ENoDef) st.

  (* doGetComponent (:140-162) + GetSingletonOrCreateByFactory (registry :76-91) *)
  Definition body (st : fstate) (n : name) : res (fstate * ver) :=
    match get_singleton s st n true with
    | Ok (st1, Some v) => Ok (st1, v)
    | Ok (st1, None) =>
      match begin_create (reg st1) n with
      | (_, Some v) => Ok (st1, v)
      | (r1, None) =>
        match create (set_reg st1 r1) n with
        | Ok (st2, v) => Ok (set_reg st2 (end_create_ok (reg st2) n v), v)
        | Fail (FErr e) st2 => Fail (FErr e) (set_reg st2 (end_create_err vt (reg st2) n))
        | Fail k st2 => Fail k st2                                  (* a panic unwinds past the error path *)
        end
      end
    | Fail k st1 => Fail k st1
    end.
End WithRec.

Fixpoint do_get (vt : variant) (s : scenario) (fuel : nat) (st : fstate) (n : name)
  : res (fstate * ver) :=
  match fuel with
  | 0 => Fail FFuel st
  | S f => body vt s (do_get vt s f) st n
  end.
