(* The registry operations a start issues (C04, factory level).

   Model/Factory.v computes the STATES of doGetComponent / createComponent / doCreateComponent; this file
   computes, by the same recursion, the HISTORY of calls the factory makes on its singleton registry
   (container/factory/factory.go :140-250), oldest first:

       doGetComponent n     = GetSingleton(n, true)                                   OGet n true _
                              on a miss GetSingletonOrCreateByFactory(n, create)      OBegin n ... OEndOk n v | OEndErr n
       doCreateComponent n  = AddSingletonFactory(n, early factory)                   OAddFactory n n
                              the nested doGetComponent's of populateComponent
                              GetSingleton(n, false)                                  OGet n false _

   (the read-only IsSingletonCurrentlyInCreation queries are left out on both sides of the comparison).
   Every traced function returns the history next to the result of the untraced one; Proofs/FactoryTraceProofs.v
   proves that the second component IS the untraced function (erasure), that replaying the history on the
   registry model from the start state yields the registry of the final state, and that the history is in the
   strict protocol language of Model/RegistryProto.v.  Corr/WiringTrace.v compares the history with the calls
   recorded on the real registry of real starts.

   Definitions only. *)
From IocVerif Require Export Model.App.

Definition tres (A : Type) : Type := (list rop * res A)%type.

(* GetSingleton: the op carries what the early factory returned (None: it was not run, or it failed) *)
Definition get_singleton_t (s : scenario) (st : fstate) (n : name) (early : bool)
  : tres (fstate * option ver) :=
  ([OGet n early
      match get_lookup (reg st) n early with
      | NeedFactory _ => match early_reference s st n with Ok (_, v) => Some v | Fail _ _ => None end
      | _ => None
      end],
   get_singleton s st n early).

(* doGetComponent + GetSingletonOrCreateByFactory around a creation function *)
Definition body_with (vt : variant) (s : scenario) (crt : fstate -> name -> tres (fstate * ver))
(st : fstate) (n : name) : tres (fstate * ver) :=
  let (o0, r0) := get_singleton_t s st n true in
  match r0 with
  | Ok (st1, Some v) => (o0, Ok (st1, v))
  | Ok (st1, None) =>
    match begin_create (reg st1) n with
    | (_, Some v) => (o0 ++ [OBegin n], Ok (st1, v))
    | (r1, None) =>
      match crt (set_reg st1 r1) n with
      | (o1, Ok (st2, v)) =>
        (o0 ++ OBegin n :: o1 ++ [OEndOk n v], Ok (set_reg st2 (end_create_ok (reg st2) n v), v))
      | (o1, Fail (FErr e) st2) =>
        (o0 ++ OBegin n :: o1 ++ [OEndErr n], Fail (FErr e) (set_reg st2 (end_create_err vt (reg st2) n)))
      | (o1, Fail k st2) => (o0 ++ OBegin n :: o1, Fail k st2)
      end
    end
  | Fail k st1 => (o0, Fail k st1)
  end.

Section WithRecT.
  Variable vt : variant.
  Variable s : scenario.
  Variable rec : fstate -> name -> tres (fstate * ver).

  Fixpoint get_all_t (st : fstate) (cands : list (option name)) : tres (fstate * list ver) :=
    match cands with
    | [] => ([], Ok (st, []))
    | None :: _ => ([], Fail FPanic st)
    | Some d :: r =>
      match rec st d with
      | (o1, Ok (st1, v)) =>
        match get_all_t st1 r with
        | (o2, Ok (st2, vs)) => (o1 ++ o2, Ok (st2, v :: vs))
        | (o2, Fail k st2) => (o1 ++ o2, Fail k st2)
        end
      | (o1, Fail k st1) => (o1, Fail k st1)
      end
    end.

  Fixpoint inject_points_t (h : name) (k : nat) (ps : list point) (inj : list (list (option name)))
    (st : fstate) : tres fstate :=
    match ps, inj with
    | p :: ps', i :: inj' =>
      match i with
      | [] => inject_points_t h (S k) ps' inj' st
      | _ =>
        match get_all_t st i with
        | (o1, Ok (st1, vs)) =>
          match inject vt s st1 h k p vs with
          | Ok st2 => let (o2, r) := inject_points_t h (S k) ps' inj' st2 in (o1 ++ o2, r)
          | Fail k st2 => (o1, Fail k st2)
          end
        | (o1, Fail k st1) => (o1, Fail k st1)
        end
      end
    | _, _ => ([], Ok st)
    end.

  Definition populate_t (st : fstate) (n : name) (c : comp) : tres fstate :=
    match pipeline vt s n c (active st) st (cur_injs st n c) with
    | Ok (st1, inj) => inject_points_t n 0 (c_points c) inj (set_injs st1 n inj)
    | Fail k st1 => ([], Fail k st1)
    end.

  Definition do_create_t (st : fstate) (n : name) (c : comp) : tres (fstate * ver) :=
    let st0 := set_reg st (add_factory (reg st) n n) in
    match populate_t st0 n c with
    | (o1, Ok st1) =>
      match initialize s st1 n c with
      | Ok (st2, w) =>
        let (o2, r2) := get_singleton_t s st2 n false in
        (OAddFactory n n :: o1 ++ o2,
         match r2 with
         | Ok (_, None) => Ok (st2, match w with Some v => v | None => VOrig n end)
         | Ok (_, Some e) =>
           match w with
           | None => Ok (st2, e)
           | Some v =>
             match stale_dependents vt st2 n e with
             | [] => Ok (st2, v)
             | _ => Fail (FErr EStale) st2
             end
           end
         | Fail k st3 => Fail k st3
         end)
      | Fail k st2 => (OAddFactory n n :: o1, Fail k st2)
      end
    | (o1, Fail k st1) => (OAddFactory n n :: o1, Fail k st1)
    end.

  Definition create_t (st : fstate) (n : name) : tres (fstate * ver) :=
    if scanned st then
      match get_comp (s_pop s) n with
      | None => ([], Fail (FErr ENoDef) st)
      | Some c => do_create_t st n c
      end
    else ([], Fail (FErr ENoDef) st).

  Definition body_t (st : fstate) (n : name) : tres (fstate * ver) := body_with vt s create_t st n.
End WithRecT.

Fixpoint do_get_t (vt : variant) (s : scenario) (fuel : nat) (st : fstate) (n : name)
  : tres (fstate * ver) :=
  match fuel with
  | 0 => ([], Fail FFuel st)
  | S f => body_t vt s (do_get_t vt s f) st n
  end.

(* ---- a whole start ------------------------------------------------------------------------------- *)

Fixpoint prepare_loop_t (vt : variant) (s : scenario) (ps : list name) (st : fstate) : tres fstate :=
  match ps with
  | [] => ([], Ok st)
  | p :: r =>
    if is_lazy (s_pop s) p then prepare_loop_t vt s r (set_active st (active st ++ [p]))
    else match do_get_t vt s (fuel_of s) st p with
         | (o1, Ok (st1, _)) =>
           let (o2, r2) := prepare_loop_t vt s r (set_active st1 (active st1 ++ [p])) in (o1 ++ o2, r2)
         | (o1, Fail k st1) => (o1, Fail k st1)
         end
  end.

Fixpoint get_each_t (vt : variant) (s : scenario) (ns : list name) (st : fstate) : tres fstate :=
  match ns with
  | [] => ([], Ok st)
  | n :: r => match do_get_t vt s (fuel_of s) st n with
              | (o1, Ok (st1, _)) => let (o2, r2) := get_each_t vt s r st1 in (o1 ++ o2, r2)
              | (o1, Fail k st1) => (o1, Fail k st1)
              end
  end.

(* App.Run: the runners make no registry call *)
Definition run_core_t (vt : variant) (s : scenario) : tres fstate :=
  if s_loader_fail s then ([], Fail (FErr ECallback) finit)
  else match prepare_loop_t vt s (sorted_procs s) (set_scanned finit) with
       | (o1, Ok st1) =>
         match get_each_t vt s (eager_names s) st1 with
         | (o2, Ok st2) => (o1 ++ o2, call_runners s st2)
         | (o2, Fail k st2) => (o1 ++ o2, Fail k st2)
         end
       | (o1, Fail k st1) => (o1, Fail k st1)
       end.

Definition run_t (vt : variant) (s : scenario) : tres fstate := run_core_t vt (normalise vt s).

(* GetComponentByName after the start, one per name: the histories are concatenated *)
Fixpoint lookups_core_t (vt : variant) (s : scenario) (ns : list name) (st : fstate)
  : list rop * (fstate * list lookup_out) :=
  match ns with
  | [] => ([], (st, []))
  | n :: r =>
    match do_get_t vt s (fuel_of s) st n with
    | (o1, Ok (st1, v)) =>
      let '(o2, (st2, outs)) := lookups_core_t vt s r st1 in (o1 ++ o2, (st2, LVer v :: outs))
    | (o1, Fail k st1) =>
      let '(o2, (st2, outs)) := lookups_core_t vt s r st1 in (o1 ++ o2, (st2, LFail k :: outs))
    end
  end.

(* everything the factory asks of its registry during a start and the lookups that follow it *)
Definition start_ops (vt : variant) (s : scenario) (ns : list name) : list rop :=
  match run_t vt s with
  | (o1, Ok st) => o1 ++ fst (lookups_core_t vt (normalise vt s) ns st)
  | (o1, Fail _ _) => o1
  end.
