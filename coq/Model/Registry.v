(* Model of container/support/singleton_component_registry.go: the three-level singleton cache
   and the in-creation set, as a state machine over registry operations.

     singletonObjects        L1   name -> published version
     earlySingletonObjects   L2   name -> early reference
     singletonFactories      L3   name -> early-reference factory (identified by a number)
     singletonCurrentlyInCreation    set of names

   GetSingletonOrCreateByFactory(name, factory) calls back into the factory layer; in the
   op-level machine it is opened up into OBegin / OEndOk / OEndErr, and the outcome of an
   early-reference factory invoked by GetSingleton is carried by the op (OGet n early fout).
   Model/Factory.v uses the same primitive functions with the callbacks computed.

   Definitions only. *)
From Coq Require Export List Arith Bool.
Export ListNotations.

Definition name := nat.

(* identity of an object the container hands out for component n:
   the registered instance itself, or the k-th proxy object created for it *)
Inductive ver : Type :=
| VOrig (n : name)
| VProxy (n : name) (k : nat).

Definition owner (v : ver) : name := match v with VOrig n => n | VProxy n _ => n end.

Definition ver_eqb (a b : ver) : bool :=
  match a, b with
  | VOrig n, VOrig m => Nat.eqb n m
  | VProxy n k, VProxy m j => Nat.eqb n m && Nat.eqb k j
  | _, _ => false
  end.

(* which repairs of DESIGN.md section 8 are present in the modelled tree *)
Record variant : Type := mkVariant {
  fix_c03 : bool;   (* stale-dependents check does not exempt the component itself *)
  fix_c04 : bool;   (* failed creation clears the registry state of that name *)
  fix_c07 : bool;   (* Property.Inject checks assignability instead of panicking *)
  fix_c08 : bool;   (* further-matching loop continues after an optional empty point *)
  fix_c10 : bool    (* self removed before ranking; registries enumerate in name order *)
}.
Definition repaired : variant := mkVariant true true true true true.
Definition unrepaired : variant := mkVariant false false false false false.

(* ---- association lists and sets over names -------------------------------------------- *)

Fixpoint alookup {A : Type} (n : name) (l : list (name * A)) : option A :=
  match l with
  | [] => None
  | (m, a) :: r => if Nat.eqb m n then Some a else alookup n r
  end.

Fixpoint aremove {A : Type} (n : name) (l : list (name * A)) : list (name * A) :=
  match l with
  | [] => []
  | (m, a) :: r => if Nat.eqb m n then aremove n r else (m, a) :: aremove n r
  end.

Definition aset {A : Type} (n : name) (a : A) (l : list (name * A)) : list (name * A) :=
  (n, a) :: aremove n l.

Definition mem (n : name) (s : list name) : bool := existsb (Nat.eqb n) s.
Definition set_add (n : name) (s : list name) : list name := if mem n s then s else n :: s.
Definition set_remove (n : name) (s : list name) : list name :=
  filter (fun m => negb (Nat.eqb m n)) s.

(* ---- state ------------------------------------------------------------------------------ *)

Record rstate : Type := mkR {
  L1 : list (name * ver);
  L2 : list (name * ver);
  L3 : list (name * nat);
  creating : list name          (* newest first *)
}.

Definition rinit : rstate := mkR [] [] [] [].

(* AddSingletonFactory :27-30 *)
Definition add_factory (s : rstate) (n : name) (f : nat) : rstate :=
  mkR (L1 s) (L2 s) (aset n f (L3 s)) (creating s).

(* RemoveSingleton :32-38 *)
Definition remove_singleton (s : rstate) (n : name) : rstate :=
  mkR (aremove n (L1 s)) (aremove n (L2 s)) (aremove n (L3 s)) (set_remove n (creating s)).

(* AddSingleton :40-46 *)
Definition add_singleton (s : rstate) (n : name) (v : ver) : rstate :=
  mkR (aset n v (L1 s)) (aremove n (L2 s)) (aremove n (L3 s)) (creating s).

(* GetSingleton :48-74, split at the callback *)
Inductive lookup_res : Type :=
| Hit (v : ver)            (* found in L1 or L2 *)
| NeedFactory (f : nat)    (* early reference allowed and a factory is cached: it gets invoked *)
| Miss.

Definition get_lookup (s : rstate) (n : name) (early : bool) : lookup_res :=
  match alookup n (L1 s) with
  | Some v => Hit v
  | None =>
    match alookup n (L2 s) with
    | Some e => Hit e
    | None =>
      if early then
        match alookup n (L3 s) with
        | Some f => NeedFactory f
        | None => Miss
        end
      else Miss
    end
  end.

(* the factory returned v: store in L2, drop the factory (:66-67) *)
Definition get_promote (s : rstate) (n : name) (v : ver) : rstate :=
  mkR (L1 s) (aset n v (L2 s)) (aremove n (L3 s)) (creating s).

Definition is_creating (s : rstate) (n : name) : bool := mem n (creating s).

(* GetSingletonOrCreateByFactory :76-91, the part before the callback *)
Definition begin_create (s : rstate) (n : name) : rstate * option ver :=
  match alookup n (L1 s) with
  | Some v => (s, Some v)
  | None => (mkR (L1 s) (L2 s) (L3 s) (set_add n (creating s)), None)
  end.

(* ... after the callback returned a component (:88-89) *)
Definition end_create_ok (s : rstate) (n : name) (v : ver) : rstate :=
  add_singleton (mkR (L1 s) (L2 s) (L3 s) (set_remove n (creating s))) n v.

(* ... after the callback returned an error (:84-86): the unrepaired code returns as is *)
Definition end_create_err (vt : variant) (s : rstate) (n : name) : rstate :=
  if fix_c04 vt then remove_singleton s n else s.

(* ---- operation-level machine ------------------------------------------------------------- *)

Inductive rop : Type :=
| OAddFactory (n : name) (f : nat)
| ORemove (n : name)
| OAddSingleton (n : name) (v : ver)
| OGet (n : name) (early : bool) (fout : option ver)  (* fout: what the early factory returns if invoked; None = error *)
| OBegin (n : name)
| OEndOk (n : name) (v : ver)
| OEndErr (n : name)
| OIsCreating (n : name).

Inductive rout : Type :=
| RUnit
| RVal (v : option ver) (invoked : option nat)   (* value returned (None = nil), factory invoked *)
| RErr (invoked : nat)                           (* the invoked early factory failed *)
| RBool (b : bool).

Definition rstep (vt : variant) (s : rstate) (o : rop) : rstate * rout :=
  match o with
  | OAddFactory n f => (add_factory s n f, RUnit)
  | ORemove n => (remove_singleton s n, RUnit)
  | OAddSingleton n v => (add_singleton s n v, RUnit)
  | OGet n early fout =>
    match get_lookup s n early with
    | Hit v => (s, RVal (Some v) None)
    | Miss => (s, RVal None None)
    | NeedFactory f =>
      match fout with
      | Some v => (get_promote s n v, RVal (Some v) (Some f))
      | None => (s, RErr f)
      end
    end
  | OBegin n => let (s', r) := begin_create s n in (s', RVal r None)
  | OEndOk n v => (end_create_ok s n v, RUnit)
  | OEndErr n => (end_create_err vt s n, RUnit)
  | OIsCreating n => (s, RBool (is_creating s n))
  end.

Fixpoint rrun (vt : variant) (s : rstate) (ops : list rop) : rstate * list rout :=
  match ops with
  | [] => (s, [])
  | o :: r => let (s1, out) := rstep vt s o in
              let (s2, outs) := rrun vt s1 r in (s2, out :: outs)
  end.
