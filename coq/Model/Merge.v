(* Merge.v — interleavings of finitely many sequences, and their executable recogniser.

   Several independent agents (the goroutines that print through one logger; the Close calls that overlap on one App)
   each produce a sequence; what an observer sees is ONE sequence in which every element carries the index of the agent
   it came from.  `Merge ls r`: r is an interleaving of the sequences ls - every element of r is the next element of the
   sequence its tag names, every sequence is used up completely, and nothing else occurs.  `merge_b` decides it by
   projection: every tag names a sequence, and the elements tagged j, in order, are exactly the j-th sequence.
   Proofs/MergeProofs.v: merge_b eqb ls r = true <-> Merge ls r.

   Definitions only. *)
From Coq Require Export List Arith Bool.
Export ListNotations.

Section Merge.
  Context {B : Type}.

  (* an element of agent j *)
  Notation tagged := (nat * B)%type.

  Inductive Merge : list (list B) -> list tagged -> Prop :=
  | Merge_nil ls : Forall (fun l => l = []) ls -> Merge ls []
  | Merge_cons ls1 x l ls2 r :
      Merge (ls1 ++ l :: ls2) r -> Merge (ls1 ++ (x :: l) :: ls2) ((length ls1, x) :: r).

  (* what agent j contributed to r, in order *)
  Definition sel (j : nat) (r : list tagged) : list B :=
    map snd (filter (fun e => Nat.eqb (fst e) j) r).

  Variable eqb : B -> B -> bool.

  Fixpoint list_eqb (a b : list B) : bool :=
    match a, b with
    | [], [] => true
    | x :: a', y :: b' => if eqb x y then list_eqb a' b' else false
    | _, _ => false
    end.

  Definition merge_b (ls : list (list B)) (r : list tagged) : bool :=
    forallb (fun e => Nat.ltb (fst e) (length ls)) r
    && forallb (fun j => list_eqb (sel j r) (nth j ls [])) (seq 0 (length ls)).
End Merge.
