(* Population passes over time (C17): the configuration points of ONE component definition bound more than once,
   with Configure.Set in between.

     /repo/container/factory/factory.go        a lazily created component whose creation failed (Init /
                                               AfterPropertiesSet error, validate argument, missing dependency)
                                               leaves nothing behind (singleton_component_registry: the failed
                                               name is removed) and is created again on the next request - over
                                               the SAME Meta and the same Property objects
     /repo/container/processors/config_quote_aware_post_processors.go   the ${} stage reads the pristine tag text
                                               Property.TagStr on every pass and writes Property.TagVal
     /repo/container/processors/value_aware_post_processors.go, properties_aware_post_processors.go
                                               bind TagVal / Configure.Get(prefix) on every pass

   The model has no state besides the configuration store (Model/ConfigStore.v): a pass binds every point from the
   configuration as it is AT THE TIME OF THE PASS; nothing of an earlier pass is remembered.  The three routes are
   the functions of Model/Values.v.

   Definitions only; lemmas live in Proofs/RebindProofs.v. *)
From IocVerif Require Export Model.Values Model.ConfigStore.

Inductive route : Type := RtPrefix | RtValue | RtProp.

(* a configuration point: [cp_text] is the key for prefix:"key", the tag's value part (Property.TagStr) for
   value:"...", the whole tag text for prop:"..." *)
Record cpoint : Type := mkCPoint {
  cp_route : route;
  cp_req : bool;          (* IsRequired() *)
  cp_text : bytes;
  cp_type : ftype
}.

Definition bind_point (fx : bool) (cfg : bytes -> cval) (p : cpoint) : option (res fval) :=
  match cp_route p with
  | RtPrefix => Some (bind_prefix_r (cp_req p) (cfg (cp_text p)) (cp_type p))
  | RtValue => bind_tag_value fx cfg (cp_req p) (cp_text p) (cp_type p)
  | RtProp => bind_prop fx cfg (cp_req p) (cp_text p) (cp_type p)
  end.

(* one population pass over the points of a component definition *)
Definition populate (fx : bool) (s : vstore) (ps : list cpoint) : list (option (res fval)) :=
  map (bind_point fx (vget s)) ps.

Inductive pstep : Type :=
| PSet (key : bytes) (v : cval)      (* Configure.Set / App.Set *)
| PPopulate (ps : list cpoint).      (* the container populates a component that has these points *)

(* the results of the passes of a history, in order *)
Fixpoint prun (fx : bool) (s : vstore) (steps : list pstep) : list (list (option (res fval))) :=
  match steps with
  | [] => []
  | PSet k v :: r => prun fx (vset s k v) r
  | PPopulate ps :: r => populate fx s ps :: prun fx s r
  end.

(* the store after a history: only the Sets count *)
Fixpoint pstate (s : vstore) (steps : list pstep) : vstore :=
  match steps with
  | [] => s
  | PSet k v :: r => pstate (vset s k v) r
  | PPopulate _ :: r => pstate s r
  end.

Definition psets_only (steps : list pstep) : list pstep :=
  filter (fun st => match st with PSet _ _ => true | PPopulate _ => false end) steps.
