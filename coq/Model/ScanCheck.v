(* ScanCheck.v — what an OBSERVER of a concurrent map / set may report, as a checker over timed histories.

   sync.Map.Range (hence sync2.Map.Range, ConcurrentSets.ToArray / ForEach) is documented NOT to be a snapshot:
   "if the value for any key is stored or deleted concurrently, Range may reflect any mapping for that key from any
   point during the Range call".  So no single linearization point is demanded for a whole Range (KF-C20c is about
   exactly that).  What every scan, and every point observer, still owes is PER KEY:

     provenance    every reported pair (k, v) is the mapping of k at SOME instant of the observer's interval: some
                   operation wrote v under k, was invoked before the observer returned, and was not definitely
                   overwritten / deleted before the observer was invoked (no write or delete of k began after that
                   write had returned and returned before the observer was invoked);
     completeness  a key whose mapping k -> v was STABLE over the observer's interval (written by an operation that
                   returned before the observer was invoked, every other write / delete of k either returned before
                   that write was invoked, or was invoked after the observer returned, or writes the same pair) is
                   reported, with v.   (Only for observers that look at the key at all and run to the end: a full
                   Range, Load k, a load-or-store of k that loaded, Exists k.)

   A history is a list of records (operation, result, ticket at invocation, ticket at return); the tickets come from
   one atomic counter, the invocation ticket is taken BEFORE the call and the return ticket AFTER it returned, so
   "t_res a < t_inv b" implies that a had returned before b was invoked (never the other way round: overlapping
   operations are incomparable).  What an operation wrote is judged by its own result (a load-or-store that reports
   loaded = false wrote its value).  Both conditions are NECESSARY for linearizability, also when every scan is taken
   to be atomic: Proofs/ScanCheckProofs.v shows that a history with a sequential witness (the same records in some
   order that respects the tickets and is legal for the sequential specification SyncMap.spec) passes. *)
From Coq Require Import List Arith Bool NArith.
From IocVerif Require Import Model.SyncMap.
Import ListNotations.

Record trec : Type := mkT { t_op : op; t_ret : ret; t_inv : N; t_res : N }.

(* what the operation did to the map, judged by its result: (k, Some v) = wrote v under k, (k, None) = deleted k *)
Definition eff (a : trec) : option (nat * option nat) :=
  match t_op a with
  | OStore k v => Some (k, Some v)
  | OLoadOrStore k v | OLoadOrStoreFn k v =>
      match t_ret a with RLos _ false => Some (k, Some v) | _ => None end
  | OPut k => Some (k, Some 0)
  | ODelete k | ORemove k => Some (k, None)
  | _ => None
  end.

Definition has_eff (a : trec) : bool := match eff a with Some _ => true | None => false end.
Definition muts (k : nat) (a : trec) : bool :=
  match eff a with Some (k', _) => Nat.eqb k k' | None => false end.
Definition wrote_b (k v : nat) (a : trec) : bool :=
  match eff a with Some (k', Some v') => if Nat.eqb k k' then Nat.eqb v v' else false | _ => false end.

(* a returned before b was invoked *)
Definition bef (a b : trec) : bool := N.ltb (t_res a) (t_inv b).

(* vm_compute is call-by-value: the searches short-circuit (SyncMap.lexistsb and this one) *)
Fixpoint lforallb {A : Type} (f : A -> bool) (l : list A) : bool :=
  match l with [] => true | a :: r => if f a then lforallb f r else false end.

Definition opt_eqb (a b : option nat) : bool :=
  match a, b with Some x, Some y => Nat.eqb x y | None, None => true | _, _ => false end.

(* keys strictly increasing: no key is reported twice *)
Fixpoint sorted_from (lo : nat) (l : smap) : bool :=
  match l with [] => true | (k, _) :: r => if Nat.leb lo k then sorted_from (S k) r else false end.

Section Observer.
  Variable H : list trec.          (* the records of the history that have an effect *)
  Variables inv res : N.           (* the observer's interval *)

  (* the write w of key k was definitely overwritten / deleted before the observer was invoked *)
  Definition overwritten (k : nat) (w : trec) : bool :=
    lexistsb (fun u => if muts k u then if N.ltb (t_res w) (t_inv u) then N.ltb (t_res u) inv else false else false) H.

  Definition pair_ok (p : nat * nat) : bool :=
    lexistsb (fun w => if wrote_b (fst p) (snd p) w
                       then if N.ltb res (t_inv w) then false else negb (overwritten (fst p) w)
                       else false) H.

  (* the mapping k -> v written by w was stable over the whole interval *)
  Definition stable_w (k v : nat) (w : trec) : bool :=
    if N.ltb (t_res w) inv then
      lforallb (fun u => if muts k u
                         then if N.ltb (t_res u) (t_inv w) then true
                              else if N.ltb res (t_inv u) then true else wrote_b k v u
                         else true) H
    else false.

  Definition complete_ok (scope : nat -> bool) (l : smap) : bool :=
    lforallb (fun w => match eff w with
                       | Some (k, Some v) =>
                           if scope k then if stable_w k v w then opt_eqb (get l k) (Some v) else true else true
                       | _ => true
                       end) H.

  Definition obs_ok (scope : nat -> bool) (full : bool) (l : smap) : bool :=
    if sorted_from 0 l then
      if lforallb pair_ok l then (if full then complete_ok scope l else true) else false
    else false.
End Observer.

(* what a record observed: (the keys it looked at, whether it ran to the end, the pairs it reported) *)
Definition observer (a : trec) : option ((nat -> bool) * bool * smap) :=
  match t_op a, t_ret a with
  | ORange, RList l => Some (fun _ => true, true, l)
  | OLoad k, RVal (Some v) => Some (Nat.eqb k, true, [(k, v)])
  | OLoad k, RVal None => Some (Nat.eqb k, true, [])
  | OLoadOrStore k _, RLos y true => Some (Nat.eqb k, true, [(k, y)])
  | OLoadOrStoreFn k _, RLos y true => Some (Nat.eqb k, true, [(k, y)])
  | OExists k, RBool false => Some (Nat.eqb k, true, [])
  | _, _ => None
  end.

Definition effects (recs : list trec) : list trec := filter has_eff recs.

(* recs: every operation of the history; partial: scans that were stopped early (a Range whose callback returned
   false): interval and reported pairs, provenance only *)
Definition scan_check (recs : list trec) (partial : list (N * N * smap)) : bool :=
  let H := effects recs in
  if lforallb (fun a => match observer a with
                        | Some (scope, full, l) => obs_ok H (t_inv a) (t_res a) scope full l
                        | None => true
                        end) recs
  then lforallb (fun p => obs_ok H (fst (fst p)) (snd (fst p)) (fun _ => true) false (snd p)) partial
  else false.
