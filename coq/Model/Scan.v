(* Model of tag scanning:
     component_definition/meta.go      scanFields
     component_definition/holder.go    NewEmbedHolder (the chain of embedded holders)
     util/reflectx/range_struct.go     ForEachFieldV2 (excludePrivateField = false: every field is visited)
     container/processors/default_tag_scan_definition_registry_post_processor.go
                                       PostProcessDefinitionRegistry (Tag lookup, ExtractHandler, Required default)
   and of the part of package reflect the scan relies on (Value.Field / CanSet):
     v.Field(i) keeps only the STICKY read-only bit of v, and adds, for an unexported field,
     flagEmbedRO when the field is embedded and flagStickyRO otherwise; CanSet = addressable and no RO bit.
     (A registered component is a pointer to a struct, so the root value is addressable and writable.)

   scanFields, for every field of the struct it is looking at:
     - field.Anonymous && field.Tag == "" && field.Type.Kind() == reflect.Struct  -> scan that struct's fields
       (the embedded struct itself is not recorded);
     - otherwise the field is recorded in Meta.Fields iff value.CanSet().

   Domain restriction (observed on the real code, outside the property): [implicit] is only used for
   by-value fields. An UNTAGGED NIL POINTER field whose element type implements ConfigurationProperties with a
   value receiver makes the prefix processor's ExtractHandler call Prefix() through the nil pointer; the panic
   happens in a goroutine of applyDefinitionRegistryPostProcessors and kills the process (it cannot be recovered
   around App.Run). Such fields are not generated; the case is recorded in known_findings.d/C11.json.

   Definitions only; proofs live in Proofs/ScanProofs.v. *)
From Coq Require Export List String Bool.
Export ListNotations.
Local Open Scope list_scope.

Definition path := list string.

Inductive fkind : Type :=
| KBool | KInt | KFloat | KString          (* scalars *)
| KPtr | KIface | KSlice | KMap | KFunc    (* reference kinds *)
| KLogger                                  (* interface syslog.Logger *)
| KStruct                                  (* a struct held by value and not entered *)
| KOther.

(* one key:"value" pair of a struct tag, the value already split as TagArg.Parse does (C19):
   text before the first top-level comma, then the arguments *)
Definition targs := list (string * list string).
Record tagent : Type := mkTag { tg_key : string; tg_val : string; tg_args : targs }.

(* struct shapes: nested through [list] *)
Inductive shape : Type :=
| Leaf (name : string) (exported : bool) (tags : list tagent) (kind : fkind)
       (implicit : option string)
       (* implicit = Some p: the field's TYPE implements definition.ConfigurationProperties with Prefix() = p *)
| Sub (name : string) (exported anonymous byvalue : bool) (tags : list tagent)
      (implicit : option string) (fields : list shape).
      (* a field of struct type (byvalue) or pointer-to-struct type; for an anonymous field [name] is the
         type's name and [exported] its exportedness *)

Definition shape_name (s : shape) : string :=
  match s with Leaf n _ _ _ _ => n | Sub n _ _ _ _ _ _ => n end.

(* a component: the fields of the registered struct *)
Definition comp := list shape.

(* ---- package reflect: the read-only flags ---------------------------------------------------- *)

Record roflag : Type := mkRO { sticky : bool; embed : bool }.
Definition rw : roflag := mkRO false false.

Definition child_flag (parent : roflag) (exported anonymous : bool) : roflag :=
  mkRO (sticky parent || (negb exported && negb anonymous)) (negb exported && anonymous).

Definition can_set (fl : roflag) : bool := negb (sticky fl) && negb (embed fl).

(* ---- scanFields ---------------------------------------------------------------------------------- *)

Definition no_tags (tags : list tagent) : bool := match tags with [] => true | _ => false end.

(* the test of scanFields: anonymous, raw tag empty, Kind() == Struct *)
Definition enterable (anonymous byvalue : bool) (tags : list tagent) : bool :=
  anonymous && byvalue && no_tags tags.

Record sfield : Type := mkSF {
  sf_path : path;                (* field names from the component down *)
  sf_name : string;
  sf_tags : list tagent;
  sf_kind : fkind;
  sf_settable : bool;            (* value.CanSet() *)
  sf_implicit : option string
}.

(* every field the scan looks at and does not enter *)
Fixpoint visit (pre : path) (fl : roflag) (s : shape) : list sfield :=
  match s with
  | Leaf n e tags k imp =>
      [mkSF (pre ++ [n]) n tags k (can_set (child_flag fl e false)) imp]
  | Sub n e anon byv tags imp fs =>
      if enterable anon byv tags
      then (fix go (l : list shape) : list sfield :=
              match l with
              | [] => []
              | x :: r => visit (pre ++ [n]) (child_flag fl e anon) x ++ go r
              end) fs
      else [mkSF (pre ++ [n]) n tags (if byv then KStruct else KPtr)
                 (can_set (child_flag fl e anon)) imp]
  end.

Definition visit_all (pre : path) (fl : roflag) (c : comp) : list sfield :=
  flat_map (visit pre fl) c.

(* Meta.Fields *)
Definition scan_fields (c : comp) : list sfield :=
  filter sf_settable (visit_all [] rw c).

(* what of a scanned field is independent of where it was declared *)
Definition sf_obs (f : sfield) : string * list tagent * fkind * bool * option string :=
  (sf_name f, sf_tags f, sf_kind f, sf_settable f, sf_implicit f).

(* ---- flattening: the same fields declared directly on the component -------------------------------- *)

Fixpoint flatten (s : shape) : list shape :=
  match s with
  | Leaf _ _ _ _ _ => [s]
  | Sub n e anon byv tags imp fs =>
      if enterable anon byv tags
      then (fix go (l : list shape) : list shape :=
              match l with [] => [] | x :: r => flatten x ++ go r end) fs
      else [s]
  end.

Definition flatten_all (c : comp) : comp := flat_map flatten c.

Definition is_entered (s : shape) : bool :=
  match s with Leaf _ _ _ _ _ => false | Sub _ _ anon byv tags _ _ => enterable anon byv tags end.

(* ---- tag processors ----------------------------------------------------------------------------- *)

Fixpoint find_tag (k : string) (tags : list tagent) : option tagent :=      (* StructTag.Lookup: first match *)
  match tags with
  | [] => None
  | t :: r => if String.eqb (tg_key t) k then Some t else find_tag k r
  end.

Inductive handler : Type :=
| HNone
| HCfgProps          (* prefix processor: the field's type implements ConfigurationProperties *)
| HPropAlias.        (* value processor: prop:"k,args"  ==  value:"${k},args" *)

Record tagproc : Type := mkTP { tp_tag : string; tp_handler : handler; tp_required : bool }.

Record property : Type := mkProp {
  pr_path : path;
  pr_field : string;
  pr_tag : string;
  pr_val : string;
  pr_args : targs
}.

Definition quote_prop (v : string) : string := String.append "${" (String.append v "}").

(* the body of the loop over meta.Fields *)
Definition extract (tp : tagproc) (f : sfield) : option property :=
  match (if String.eqb (tp_tag tp) "" then None else find_tag (tp_tag tp) (sf_tags f)) with
  | Some t => Some (mkProp (sf_path f) (sf_name f) (tp_tag tp) (tg_val t) (tg_args t))
  | None =>
      match tp_handler tp with
      | HNone => None
      | HCfgProps =>
          match sf_implicit f with
          | Some pfx => Some (mkProp (sf_path f) (sf_name f) (tp_tag tp) pfx [])
          | None => None
          end
      | HPropAlias =>
          match find_tag "prop" (sf_tags f) with
          | Some t => Some (mkProp (sf_path f) (sf_name f) (tp_tag tp) (quote_prop (tg_val t)) (tg_args t))
          | None => None
          end
      end
  end.

Fixpoint has_arg (a : string) (args : targs) : bool :=
  match args with [] => false | (k, _) :: r => String.eqb k a || has_arg a r end.

(* d.Required && !Args().Has(ArgRequired) -> SetArg(ArgRequired) *)
Definition default_required (tp : tagproc) (p : property) : property :=
  if tp_required tp && negb (has_arg "Required" (pr_args p))
  then mkProp (pr_path p) (pr_field p) (pr_tag p) (pr_val p) (pr_args p ++ [("Required"%string, [])])
  else p.

Fixpoint filter_map {A B} (f : A -> option B) (l : list A) : list B :=
  match l with
  | [] => []
  | x :: r => match f x with Some y => y :: filter_map f r | None => filter_map f r end
  end.

(* PostProcessDefinitionRegistry of one tag processor on one component *)
Definition properties_of (tp : tagproc) (c : comp) : list property :=
  map (default_required tp) (filter_map (extract tp) (scan_fields c)).

Definition pr_obs (p : property) : string * string * string * targs :=
  (pr_field p, pr_tag p, pr_val p, pr_args p).

(* ---- the value a logger point receives --------------------------------------------------------------
   container/processors/logger_aware_post_processors.go PostProcessProperties, for a property of tag `logger`
   whose field type is syslog.Logger:
       pref := TagStr
       if pref == "" { if Args().Has("embed") { pref = Holder.String() } else { pref = Holder.Meta.String() } }
       field = syslog.Pref(pref)                       (one shared logger per prefix)
   component_definition/holder.go: Holder.String() of the component's own holder is Meta.String() (the component
   name); the holder of an entered embedded struct is  <holder of the enclosing struct>.Embed(<Type.Name()>).
   The name of an anonymous field IS its type's name; struct types built by reflect.StructOf have no name
   ([named] = false: Type.Name() = "").
   So the prefix is a function of (component name, tag value, arguments) alone - unless the tag asks for the
   position with the `embed` argument and gives no prefix of its own. *)

Definition embed_step (named : bool) (n : string) : string :=
  String.append ".Embed(" (String.append (if named then n else EmptyString) ")").

(* Holder.String() of the struct that declares the field at [p] (p = names from the component down) *)
Definition holder_string (comp : string) (named : bool) (p : path) : string :=
  String.append comp (String.concat EmptyString (map (embed_step named) (removelast p))).

Definition is_empty (s : string) : bool := match s with EmptyString => true | _ => false end.

(* the tag asks for the declaring struct's position: no prefix of its own and the `embed` argument *)
Definition wants_position (val : string) (args : targs) : bool := is_empty val && has_arg "Embed" args.

(* what the same tag yields when the field is declared directly on the component *)
Definition logger_direct (comp val : string) : string := if is_empty val then comp else val.

Definition logger_pref (comp : string) (named : bool) (pr : property) : string :=
  if wants_position (pr_val pr) (pr_args pr) then holder_string comp named (pr_path pr)
  else logger_direct comp (pr_val pr).

Definition kind_is_logger (k : fkind) : bool := match k with KLogger => true | _ => false end.

(* the logger points of a component: the properties of processor [tp] (the logger processor) on fields of type
   syslog.Logger, each with the prefix of the logger it receives *)
Definition logger_fields (c : comp) : list sfield := filter (fun f => kind_is_logger (sf_kind f)) (scan_fields c).

Definition logger_points (tp : tagproc) (c : comp) : list property :=
  map (default_required tp) (filter_map (extract tp) (logger_fields c)).

(* field, tag value, arguments, received prefix *)
Definition logger_obs (comp : string) (named : bool) (pr : property) : string * string * targs * string :=
  (pr_field pr, pr_val pr, pr_args pr, logger_pref comp named pr).

Definition position_free (pr : property) : bool := negb (wants_position (pr_val pr) (pr_args pr)).

(* ---- write footprint: the fields some processor holds a property for -------------------------------- *)

Definition footprint (procs : list tagproc) (c : comp) : list path :=
  flat_map (fun tp => map pr_path (properties_of tp c)) procs.

(* ---- the declarative side: which declared fields may be written ------------------------------------ *)

(* s is declared at path p, reached from the component through entered (anonymous, untagged, by-value)
   structs only *)
Inductive reaches : comp -> path -> shape -> Prop :=
| reach_here : forall c s, In s c -> reaches c [shape_name s] s
| reach_in : forall c n e imp fs p s,
    In (Sub n e true true [] imp fs) c -> reaches fs p s -> reaches c (n :: p) s.

Definition shape_exported (s : shape) : bool :=
  match s with Leaf _ e _ _ _ => e | Sub _ e _ _ _ _ _ => e end.
Definition shape_tags (s : shape) : list tagent :=
  match s with Leaf _ _ t _ _ => t | Sub _ _ _ _ t _ _ => t end.
Definition shape_implicit (s : shape) : option string :=
  match s with Leaf _ _ _ _ i => i | Sub _ _ _ _ _ i _ => i end.
Definition shape_kind (s : shape) : fkind :=
  match s with Leaf _ _ _ k _ => k | Sub _ _ _ byv _ _ _ => if byv then KStruct else KPtr end.

(* does a declared field carry processor tp's tag (or what its ExtractHandler treats as such)? *)
Definition carries (tp : tagproc) (tags : list tagent) (imp : option string) : option (string * targs) :=
  match (if String.eqb (tp_tag tp) "" then None else find_tag (tp_tag tp) tags) with
  | Some t => Some (tg_val t, tg_args t)
  | None =>
      match tp_handler tp with
      | HNone => None
      | HCfgProps => match imp with Some pfx => Some (pfx, []) | None => None end
      | HPropAlias => match find_tag "prop" tags with
                      | Some t => Some (quote_prop (tg_val t), tg_args t)
                      | None => None
                      end
      end
  end.

Definition recognised (procs : list tagproc) (tags : list tagent) (imp : option string) : bool :=
  existsb (fun tp => match carries tp tags imp with Some _ => true | None => false end) procs.

Definition with_required (tp : tagproc) (args : targs) : targs :=
  if tp_required tp && negb (has_arg "Required" args) then args ++ [("Required"%string, [])] else args.

(* boolean walk used by the oracle: may the container write at path p (or below it)?
   Descend through entered structs by name; the first field that is not entered must be exported and
   recognised; whatever remains of p lies inside that field. *)
Fixpoint find_shape (n : string) (c : comp) : option shape :=
  match c with
  | [] => None
  | s :: r => if String.eqb (shape_name s) n then Some s else find_shape n r
  end.

Fixpoint writable_at (procs : list tagproc) (c : comp) (p : path) {struct p} : bool :=
  match p with
  | [] => false
  | n :: rest =>
      match find_shape n c with
      | None => false
      | Some (Sub _ _ true true [] _ fs) => writable_at procs fs rest
      | Some s => shape_exported s && recognised procs (shape_tags s) (shape_implicit s)
      end
  end.

(* ---- well-formedness: Go rejects two fields of one struct with the same name ---------------------- *)

Fixpoint mem_name (n : string) (l : list string) : bool :=
  match l with [] => false | m :: r => String.eqb n m || mem_name n r end.
Fixpoint nodup_names (l : list string) : bool :=
  match l with [] => true | n :: r => negb (mem_name n r) && nodup_names r end.

Fixpoint wf_shape (s : shape) : bool :=
  match s with
  | Leaf _ _ _ _ _ => true
  | Sub _ _ _ _ _ _ fs =>
      nodup_names (map shape_name fs) &&
      (fix all (l : list shape) : bool := match l with [] => true | x :: r => wf_shape x && all r end) fs
  end.

Definition wf_comp (c : comp) : bool :=
  nodup_names (map shape_name c) && forallb wf_shape c.
