(* Model of the property-processor pipeline on ONE configuration property, as run by
   PostProcessorRegistrationDelegate.ResolveAfterInstantiation: every registered post processor's
   PostProcessProperties is applied to the property in the order computed by
   framework_helper.SortOrderedComponents (Model/Sorter.v: sort_participants) from the processors'
   class (Priority / Ordered / none) and Order().

   Built-in property processors that touch a configuration property (container/processors):
     id 0  configQuoteAwarePostProcessors    ${}   PriorityComponent, Order = PriorityOrderPropertyConfigQuoteAware
     id 1  expressionTagAwarePostProcessors  #{}   PriorityComponent, Order = PriorityOrderPropertyExpressionTagAware
     id 2  valueAwarePostProcessors          value PriorityComponent, Order = PriorityOrderPopulateProperties
     id 3  propertiesAwarePostProcessors     prefix PriorityComponent, Order = PriorityOrderPopulateProperties
     id 4  validateAwarePostProcessors       validate              Order = OrderValidate (not Priority)
   every other id (logger, wire, func processors, user processors) leaves a configuration property
   as it is (user processors are assumed not to write TagVal or the field: trusted base).

   External behaviour enters as Section variables: expression evaluation (expr-lang), decoding of
   the parsed value into the field's Go type (mapstructure, C17's subject), the validator's verdict.

   Definitions only; lemmas live in Proofs/PipelineProofs.v. *)
From IocVerif Require Export Model.Sorter Model.Strconv Model.Placeholder.

Inductive tagkind : Type := TValue | TPrefix | TOther.

Record pstate : Type := mkPState {
  ps_kind : tagkind;
  ps_tagstr : bytes;           (* Property.TagStr: the value part of the tag *)
  ps_tagval : bytes;           (* Property.TagVal: working text *)
  ps_required : bool;          (* IsRequired(): no  required=false  argument *)
  ps_validate : bool;          (* a  validate  argument is present *)
  ps_field : option cval       (* the field: None = still the zero value, Some v = bound to v *)
}.

Inductive perr : Type := EQuote | EExpr | EBind | EValidate | EPanicked.

Inductive pres : Type := POk (st : pstate) | PErr (e : perr).

Definition id_quote : nat := 0.
Definition id_expr : nat := 1.
Definition id_bindvalue : nat := 2.
Definition id_bindprefix : nat := 3.
Definition id_validate : nat := 4.

Definition with_tagval (st : pstate) (v : bytes) : pstate :=
  mkPState (ps_kind st) (ps_tagstr st) v (ps_required st) (ps_validate st) (ps_field st).
Definition with_field (st : pstate) (f : cval) : pstate :=
  mkPState (ps_kind st) (ps_tagstr st) (ps_tagval st) (ps_required st) (ps_validate st) (Some f).

Section Pipeline.
  Variable fx : bool.                           (* variant of the ${} callback: true = repair D-C17g (Strconv.format_cfg) *)
  Variable cfg : bytes -> cval.                 (* Configure.Get *)
  Variable budget : option nat.                 (* substitution budget of ReplaceAllContent (D-C16) *)
  Variable eval : bytes -> res cval.            (* expr.Compile + expr.Run(program, nil) *)
  Variable decode : cval -> res cval.           (* Property.Unmarshall: the field's value afterwards *)
  Variable verdict : option cval -> bool.       (* validator on the field's value under the stated constraints *)

  Definition of_outcome (e : perr) (st : pstate) (o : outcome) : pres :=
    match o with
    | Done s => POk (with_tagval st s)
    | Panicked => PErr EPanicked
    | _ => PErr e
    end.

  (* ${}: if !MatchString(prop.TagStr) continue; prop.TagVal = ReplaceAllContent(prop.TagStr, resolver) *)
  Definition stage_quote (st : pstate) : pres :=
    match find_first b_dollar (ps_tagstr st) with
    | None => POk st
    | Some _ => of_outcome EQuote st (replace_all_content b_dollar (resolve fx cfg) budget 0 (ps_tagstr st))
    end.

  (* the callback of the #{} processor: compile, run, FormatAny *)
  Definition expr_fun (e : bytes) : res bytes := rbind (eval e) format_any.

  (* #{}: if !MatchString(prop.TagVal) continue; prop.TagVal = ReplaceAllContent(prop.TagVal, expr_fun) *)
  Definition stage_expr (st : pstate) : pres :=
    of_outcome EExpr st (replace_all_content b_hash expr_fun budget 0 (ps_tagval st)).

  (* value: TagVal == "" -> required ? error : skip; ParseAny(TagVal); Unmarshall *)
  Definition stage_bindvalue (st : pstate) : pres :=
    match ps_kind st with
    | TValue =>
      match ps_tagval st with
      | [] => if ps_required st then PErr EBind else POk st
      | _ =>
        match parse_any (ps_tagval st) with
        | Ok v => match decode v with
                  | Ok f => POk (with_field st f)
                  | Err => PErr EBind
                  | Panic => PErr EPanicked
                  end
        | Err => PErr EBind
        | Panic => PErr EPanicked
        end
      end
    | _ => POk st
    end.

  (* prefix: Get(TagVal) == nil -> required ? error : skip; Unmarshall *)
  Definition stage_bindprefix (st : pstate) : pres :=
    match ps_kind st with
    | TPrefix =>
      match cfg (ps_tagval st) with
      | VNull => if ps_required st then PErr EBind else POk st
      | v => match decode v with
             | Ok f => POk (with_field st f)
             | Err => PErr EBind
             | Panic => PErr EPanicked
             end
      end
    | _ => POk st
    end.

  (* validate: configuration properties with a validate argument *)
  Definition stage_validate (st : pstate) : pres :=
    match ps_kind st with
    | TOther => POk st
    | _ => if ps_validate st then (if verdict (ps_field st) then POk st else PErr EValidate) else POk st
    end.

  Definition stage_fun (id : nat) (st : pstate) : pres :=
    match id with
    | 0%nat => stage_quote st
    | 1%nat => stage_expr st
    | 2%nat => stage_bindvalue st
    | 3%nat => stage_bindprefix st
    | 4%nat => stage_validate st
    | _ => POk st
    end.

  Fixpoint run_stages (order : list nat) (st : pstate) : pres :=
    match order with
    | [] => POk st
    | id :: rest =>
      match stage_fun id st with
      | POk st' => run_stages rest st'
      | PErr e => PErr e
      end
    end.

  (* the stage order is COMPUTED from the processors' class / Order() *)
  Definition stage_order (facts : list participant) : list nat := map pid (sort_participants facts).

  Definition run_pipeline (facts : list participant) (st : pstate) : pres :=
    run_stages (stage_order facts) st.

  (* the reading the property gives: ${} then #{} then binding then validation *)
  Definition pbind (r : pres) (f : pstate -> pres) : pres :=
    match r with POk st => f st | PErr e => PErr e end.

  Definition spec_run (st : pstate) : pres :=
    pbind (stage_quote st) (fun s1 =>
    pbind (stage_expr s1) (fun s2 =>
    pbind (match ps_kind s2 with TPrefix => stage_bindprefix s2 | _ => stage_bindvalue s2 end) (fun s3 =>
    stage_validate s3))).
End Pipeline.

(* ---- the side condition on the processors' class / Order facts ------------------------- *)

Definition relevant (id : nat) : bool := Nat.leb id 4.

Fixpoint nat_list_eqb (a b : list nat) : bool :=
  match a, b with
  | [], [] => true
  | x :: a', y :: b' => Nat.eqb x y && nat_list_eqb a' b'
  | _, _ => false
  end.

(* the built-in stages occur once each and in the order  ${}  #{}  {value, prefix binding}  validate *)
Definition staged (facts : list participant) : bool :=
  let o := filter relevant (map pid (sort_participants facts)) in
  nat_list_eqb o [0; 1; 2; 3; 4]%nat || nat_list_eqb o [0; 1; 3; 2; 4]%nat.

(* strict order on classes: priority < ordered < unordered, Order() inside the first two *)
Definition cls_lt (a b : pclass) : bool :=
  match a, b with
  | Prio x, Prio y => Z.ltb x y
  | Prio _, _ => true
  | Ord x, Ord y => Z.ltb x y
  | Ord _, Unord => true
  | _, _ => false
  end.

Fixpoint find_pid (i : nat) (l : list participant) : option participant :=
  match l with
  | [] => None
  | p :: r => if Nat.eqb (pid p) i then Some p else find_pid i r
  end.

Definition count_pid (i : nat) (l : list participant) : nat :=
  length (filter (fun p => Nat.eqb (pid p) i) l).

Definition lt_ids (a b : nat) (facts : list participant) : bool :=
  match find_pid a facts, find_pid b facts with
  | Some pa, Some pb => cls_lt (pcls pa) (pcls pb)
  | _, _ => false
  end.

(* the same condition stated on the raw facts (no sorting involved) *)
Definition staged_classes (facts : list participant) : bool :=
  forallb (fun i => Nat.eqb (count_pid i facts) 1) [0; 1; 2; 3; 4]%nat
  && lt_ids 0 1 facts && lt_ids 1 2 facts && lt_ids 1 3 facts && lt_ids 2 4 facts && lt_ids 3 4 facts.

Fixpoint index_of (a : nat) (l : list nat) : option nat :=
  match l with
  | [] => None
  | x :: r => if Nat.eqb x a then Some O else option_map S (index_of a r)
  end.

Definition before_b (a b : nat) (l : list nat) : bool :=
  match index_of a l, index_of b l with
  | Some i, Some j => Nat.ltb i j
  | _, _ => false
  end.

(* ---- a component with several configuration properties ---------------------------------- *)

(* PostProcessProperties of ONE processor is handed ALL properties of the component and loops over
   them; the first error ends the call - and the creation of the component.  The processors are
   applied one after the other (ResolveAfterInstantiation), so a component's run is stage-major:
   every property goes through stage k before any property goes through stage k+1.  The oracles
   (evaluator, decoding into the field's Go type, validator verdict) belong to the property. *)
Record cprop : Type := mkCProp {
  cp_eval : bytes -> res cval;
  cp_decode : cval -> res cval;
  cp_verdict : option cval -> bool;
  cp_state : pstate
}.

Inductive cres : Type := COk (ps : list cprop) | CErr (e : perr).

Definition cp_with (p : cprop) (st : pstate) : cprop :=
  mkCProp (cp_eval p) (cp_decode p) (cp_verdict p) st.

Section Component.
  Variable fx : bool.
  Variable cfg : bytes -> cval.
  Variable budget : option nat.

  Definition cp_stage (id : nat) (p : cprop) : pres :=
    stage_fun fx cfg budget (cp_eval p) (cp_decode p) (cp_verdict p) id (cp_state p).

  (* the loop of one processor over the component's properties *)
  Fixpoint stage_all (id : nat) (ps : list cprop) : cres :=
    match ps with
    | [] => COk []
    | p :: r =>
      match cp_stage id p with
      | PErr e => CErr e
      | POk st => match stage_all id r with
                  | COk r' => COk (cp_with p st :: r')
                  | CErr e => CErr e
                  end
      end
    end.

  Fixpoint run_component (order : list nat) (ps : list cprop) : cres :=
    match order with
    | [] => COk ps
    | id :: rest =>
      match stage_all id ps with
      | COk ps' => run_component rest ps'
      | CErr e => CErr e
      end
    end.
End Component.

(* does the validate stage reject this property? *)
Definition cp_violates (p : cprop) : bool :=
  match ps_kind (cp_state p) with
  | TOther => false
  | _ => ps_validate (cp_state p) && negb (cp_verdict p (ps_field (cp_state p)))
  end.

(* ---- which processors are active when a component is created ---------------------------- *)

(* InvokeBeanFactoryPostProcessors walks the sorted sequence; every processor that is not lazy is
   CREATED as a component at that moment (GetComponentByName) and only then appended to the active
   list.  A component that is itself an eager post processor - participant [id_holder] of the
   facts - is therefore populated by the processors sorted BEFORE it only; every other component is
   created later (Refresh, or as a dependency of a component created by Refresh) with the whole
   sequence active. *)
Definition id_holder : nat := 30.

Fixpoint before_id (k : nat) (l : list nat) : list nat :=
  match l with
  | [] => []
  | x :: r => if Nat.eqb x k then [] else x :: before_id k r
  end.

Definition active_order (facts : list participant) : list nat :=
  before_id id_holder (stage_order facts).
