(* SyncMap.v — util/sync2.Map and the concurrent set utilities (util/list/concurrent_set.go,
   generic_concurrent_set.go) as short step programs over ATOMIC sync.Map primitives, their
   sequential specification, and linearizability.

     Load / Store / LoadOrStore / Delete            one primitive each
     Put / Exists / Remove (sets)                   one primitive each (Store k {} / Load / Delete)
     LoadOrStoreFn k f     repaired  (rep = true):  Load k; on a miss v := f(); LoadOrStore k v
                           unrepaired (rep = false): Load k; on a miss v := f(); Store k v       (D-C20a)
     Range / ForEach / ToArray                      not atomic: a sequence of per-key atomic loads; every key
                                                    present when the Range starts is visited exactly once (unless
                                                    it finishes early), other keys may or may not be visited
                                                    (sync.Map iterates its read-only entry table: revived
                                                    tombstones are seen, fresh keys are not)

   MODELLED, NOT VERIFIED: the atomicity of the sync.Map primitives themselves and the behaviour of
   Range described above (validated against the real map by the correspondence check); `f` is a
   value supplier without access to the map; a Range callback never stops the iteration early.

   Definitions only; proofs in Proofs/SyncMapProofs.v. *)
From Coq Require Export List Arith Bool.
Export ListNotations.

Notation key := nat (only parsing).
Notation val := nat (only parsing).

(* canonical finite maps: association lists sorted by key, no duplicates *)
Definition smap : Type := list (nat * nat).

Fixpoint get (m : smap) (k : nat) : option nat :=
  match m with
  | [] => None
  | (k', v) :: r => if Nat.eqb k k' then Some v else get r k
  end.

Fixpoint put (m : smap) (k v : nat) : smap :=
  match m with
  | [] => [(k, v)]
  | (k', v') :: r =>
      if Nat.ltb k k' then (k, v) :: m
      else if Nat.eqb k k' then (k, v) :: r
      else (k', v') :: put r k v
  end.

Fixpoint del (m : smap) (k : nat) : smap :=
  match m with
  | [] => []
  | (k', v') :: r => if Nat.eqb k k' then del r k else (k', v') :: del r k
  end.

Inductive op : Type :=
| OLoad (k : nat)
| OStore (k v : nat)
| OLoadOrStore (k v : nat)
| OLoadOrStoreFn (k v : nat)        (* v = the value f() produces *)
| ODelete (k : nat)
| ORange
| OPut (k : nat)
| OExists (k : nat)
| ORemove (k : nat).

Inductive ret : Type :=
| RNone
| RVal (x : option nat)
| RLos (v : nat) (loaded : bool)
| RBool (b : bool)
| RList (l : smap).

(* ---------- sequential specification ---------------------------------------------------------- *)

Definition spec (m : smap) (o : op) : smap * ret :=
  match o with
  | OLoad k => (m, RVal (get m k))
  | OStore k v => (put m k v, RNone)
  | OLoadOrStore k v | OLoadOrStoreFn k v =>
      match get m k with
      | Some x => (m, RLos x true)
      | None => (put m k v, RLos v false)
      end
  | ODelete k => (del m k, RNone)
  | ORange => (m, RList m)
  | OPut k => (put m k 0, RNone)
  | OExists k => (m, RBool (match get m k with Some _ => true | None => false end))
  | ORemove k => (del m k, RNone)
  end.

(* a sequential history: operations with their results, legal from state m *)
Fixpoint legal (m : smap) (S : list (op * ret)) : Prop :=
  match S with
  | [] => True
  | (o, r) :: S' => snd (spec m o) = r /\ legal (fst (spec m o)) S'
  end.

Fixpoint final (m : smap) (S : list (op * ret)) : smap :=
  match S with [] => m | (o, _) :: S' => final (fst (spec m o)) S' end.

(* ---------- concrete step model ---------------------------------------------------------------- *)

Inductive tst : Type :=
| TIdle
| TInv (o : op)                                   (* invoked, nothing executed yet *)
| TMiss (k v : nat)                               (* LoadOrStoreFn: the Load missed, f not yet entered *)
| TFn (k v : nat)                                 (* LoadOrStoreFn: f() entered (it will return v) *)
| TRng (must seen : list nat) (acc : smap)        (* Range: keys that must still be visited, keys visited, pairs reported *)
| TRngCb (must seen : list nat) (acc : smap) (k v : nat)   (* Range: (k, v) loaded, callback not yet entered *)
| TRes (o : op) (r : ret).                        (* result determined, not yet returned *)

Record thread : Type := mkThread { tstate : tst; tops : list op }.

Inductive sev : Type :=
| EInv (o : op)                   (* history event: invocation *)
| ERes (o : op) (r : ret)         (* history event: response *)
| ELin (o : op) (r : ret)         (* the primitive that determines the result (linearization point) *)
| EFn (k : nat)                   (* f() entered (some time after the Load of LoadOrStoreFn missed) *)
| EVisit (k : nat) (x : option nat)   (* Range loaded key k atomically *)
| ECb (k v : nat)                 (* the Range callback entered with (k, v) (some time after the load) *)
| ETau.

Definition keys_of (m : smap) : list nat := map fst m.

Definition is_point (o : op) : bool :=
  match o with OLoadOrStoreFn _ _ => false | ORange => false | _ => true end.

(* one atomic step of a thread; `ch` is used by Range only: Some k = visit key k next, None = finish;
   rep = LoadOrStoreFn repaired *)
Definition tstep (rep : bool) (ch : option nat) (m : smap) (th : thread) : option (smap * thread * sev) :=
  match tstate th with
  | TIdle =>
      match tops th with
      | [] => None
      | o :: rest => Some (m, mkThread (TInv o) rest, EInv o)
      end
  | TInv o =>
      match o with
      | OLoadOrStoreFn k v =>
          match get m k with
          | Some x => Some (m, mkThread (TRes o (RLos x true)) (tops th), ELin o (RLos x true))
          | None => Some (m, mkThread (TMiss k v) (tops th), ETau)
          end
      | ORange => Some (m, mkThread (TRng (keys_of m) [] []) (tops th), ETau)
      | _ => let (m', r) := spec m o in Some (m', mkThread (TRes o r) (tops th), ELin o r)
      end
  | TMiss k v => Some (m, mkThread (TFn k v) (tops th), EFn k)
  | TFn k v =>
      if rep then
        let (m', r) := spec m (OLoadOrStore k v) in
        Some (m', mkThread (TRes (OLoadOrStoreFn k v) r) (tops th), ELin (OLoadOrStoreFn k v) r)
      else
        Some (put m k v, mkThread (TRes (OLoadOrStoreFn k v) (RLos v false)) (tops th),
              ELin (OLoadOrStoreFn k v) (RLos v false))
  | TRng must seen acc =>
      match ch with
      | None =>
          (* finish: allowed once every key that had to be visited has been *)
          match must with
          | [] => Some (m, mkThread (TRes ORange (RList acc)) (tops th), ETau)
          | _ => None
          end
      | Some k =>
          if existsb (Nat.eqb k) seen then None
          else
            let must' := filter (fun k' => negb (Nat.eqb k' k)) must in
            match get m k with
            | Some v => Some (m, mkThread (TRngCb must' (k :: seen) (put acc k v) k v) (tops th), EVisit k (Some v))
            | None => Some (m, mkThread (TRng must' (k :: seen) acc) (tops th), EVisit k None)
            end
      end
  | TRngCb must seen acc k v => Some (m, mkThread (TRng must seen acc) (tops th), ECb k v)
  | TRes o r => Some (m, mkThread TIdle (tops th), ERes o r)
  end.

Definition supd (f : nat -> thread) (t : nat) (x : thread) : nat -> thread :=
  fun u => if Nat.eqb u t then x else f u.

Record scfg : Type := mkScfg { sm : smap; sthr : nat -> thread }.

Definition sstep (rep : bool) (c : scfg) (t : nat) (ch : option nat) : option (scfg * sev) :=
  match tstep rep ch (sm c) (sthr c t) with
  | Some (m', th', e) => Some (mkScfg m' (supd (sthr c) t th'), e)
  | None => None
  end.

Notation sevent := (nat * sev)%type.

Definition sinit (progs : nat -> list op) : scfg := mkScfg [] (fun t => mkThread TIdle (progs t)).

Inductive sreach (rep : bool) (progs : nat -> list op) : scfg -> list sevent -> Prop :=
| sreach_init : sreach rep progs (sinit progs) []
| sreach_step c tr t ch c' e :
    sreach rep progs c tr -> sstep rep c t ch = Some (c', e) -> sreach rep progs c' (tr ++ [(t, e)]).

Fixpoint srun (rep : bool) (c : scfg) (sched : list (nat * option nat)) : option (scfg * list sevent) :=
  match sched with
  | [] => Some (c, [])
  | (t, ch) :: s =>
      match sstep rep c t ch with
      | None => None
      | Some (c', e) =>
          match srun rep c' s with
          | None => None
          | Some (c'', tr) => Some (c'', (t, e) :: tr)
          end
      end
  end.

(* ---------- histories and linearizability -------------------------------------------------------- *)

Definition is_hist (e : sevent) : bool :=
  match snd e with EInv _ => true | ERes _ _ => true | _ => false end.
Definition hist (tr : list sevent) : list sevent := filter is_hist tr.

(* the operations in the order of their linearization points *)
Fixpoint lin_seq (tr : list sevent) : list (nat * (op * ret)) :=
  match tr with
  | [] => []
  | (t, ELin o r) :: rest => (t, (o, r)) :: lin_seq rest
  | _ :: rest => lin_seq rest
  end.
Fixpoint res_seq (tr : list sevent) : list (nat * (op * ret)) :=
  match tr with
  | [] => []
  | (t, ERes o r) :: rest => (t, (o, r)) :: res_seq rest
  | _ :: rest => res_seq rest
  end.

(* every thread's events are blocks  Inv o ... Lin o r ... Res o r  (the last block may be incomplete):
   the linearization point lies inside the operation's interval and determines its result *)
Inductive wst : Type := WIdle | WInv (o : op) | WLin (o : op) (r : ret).

Definition op_eq_dec : forall a b : op, {a = b} + {a <> b}.
Proof. decide equality; apply Nat.eq_dec. Defined.
Definition ret_eq_dec : forall a b : ret, {a = b} + {a <> b}.
Proof.
  decide equality; try apply Nat.eq_dec; try apply Bool.bool_dec.
  - decide equality. apply Nat.eq_dec.
  - apply list_eq_dec. decide equality; apply Nat.eq_dec.
Defined.

Definition wnext (s : wst) (e : sev) : option wst :=
  match s, e with
  | WIdle, EInv o => Some (WInv o)
  | WInv o, ELin o' r => if op_eq_dec o o' then Some (WLin o r) else None
  | WInv o, (EFn _ | EVisit _ _ | ECb _ _ | ETau) => Some (WInv o)
  | WLin o r, ERes o' r' => if op_eq_dec o o' then if ret_eq_dec r r' then Some WIdle else None else None
  | WLin o r, ETau => Some (WLin o r)
  | _, _ => None
  end.

Definition wupd (f : nat -> wst) (t : nat) (x : wst) : nat -> wst :=
  fun u => if Nat.eqb u t then x else f u.

Fixpoint gwf (s : nat -> wst) (tr : list sevent) : bool :=
  match tr with
  | [] => true
  | (t, e) :: rest => match wnext (s t) e with Some x => gwf (wupd s t x) rest | None => false end
  end.

(* Linearizability of a history H (list of Inv / Res events): linearization points can be inserted,
   each inside the interval of its operation, such that the operations taken in the order of their
   points, with the results the history reports, form a legal sequential history.  (Operations that
   are pending at the end may or may not have taken effect.) *)
Definition linearizable (H : list sevent) : Prop :=
  exists tr, hist tr = H /\ gwf (fun _ => WIdle) tr = true /\ legal [] (map snd (lin_seq tr)).

(* "two callers both win": two different threads get loaded = false from a load-or-store on key k *)
Definition wins (k : nat) (x : op * ret) : bool :=
  match x with
  | (OLoadOrStore k' _, RLos _ false) => Nat.eqb k k'
  | (OLoadOrStoreFn k' _, RLos _ false) => Nat.eqb k k'
  | _ => false
  end.
Definition deletes (k : nat) (o : op) : bool :=
  match o with ODelete k' => Nat.eqb k k' | ORemove k' => Nat.eqb k k' | _ => false end.

Definition two_winners (k : nat) (H : list sevent) : Prop :=
  exists t1 t2 x1 x2, t1 <> t2 /\ In (t1, x1) (res_seq H) /\ In (t2, x2) (res_seq H)
    /\ wins k x1 = true /\ wins k x2 = true.

(* ---------- executable checkers used by the correspondence ----------------------------------------- *)

Definition op_eqb (a b : op) : bool := if op_eq_dec a b then true else false.
Definition ret_eqb (a b : ret) : bool := if ret_eq_dec a b then true else false.

(* vm_compute is call-by-value: `a || b` and the library `existsb` evaluate both sides.  The searches below
   must short-circuit, so they use `if` and this lazy existsb. *)
Fixpoint lexistsb {A : Type} (f : A -> bool) (l : list A) : bool :=
  match l with [] => false | a :: r => if f a then true else lexistsb f r end.

(* (1) brute-force linearizability of a complete history given as operation records
       (thread, op, result, index of Inv, index of Res), real-time order included (Wing & Gong) *)
Record oprec : Type := mkOp { o_t : nat; o_op : op; o_ret : ret; o_inv : nat; o_res : nat }.

Fixpoint remove_nth {A} (n : nat) (l : list A) : list A :=
  match n, l with
  | _, [] => []
  | 0, _ :: r => r
  | S k, x :: r => x :: remove_nth k r
  end.

Definition minimal (a : oprec) (rem : list oprec) : bool :=
  forallb (fun b => negb (Nat.ltb (o_res b) (o_inv a))) rem.

Fixpoint lin_search (fuel : nat) (m : smap) (rem : list oprec) : bool :=
  match fuel with
  | 0 => false
  | S f =>
      match rem with
      | [] => true
      | _ =>
          lexistsb (fun i =>
            match nth_error rem i with
            | Some a =>
                if minimal a rem then
                  let (m', r) := spec m (o_op a) in
                  if ret_eqb r (o_ret a) then lin_search f m' (remove_nth i rem) else false
                else false
            | None => false
            end) (seq 0 (length rem))
      end
  end.
Definition linearizable_b (ops : list oprec) : bool := lin_search (S (length ops)) [] ops.

(* (2) complete refuter without real-time order: is some merge of the per-thread result sequences legal?
       (complete: Proofs/SyncMapProofs.v shows  linearizable H -> merge_search ... (res_seq H) = true
        for complete histories) *)
Fixpoint first_of (t : nat) (R : list (nat * (op * ret))) : option (op * ret) :=
  match R with [] => None | (u, x) :: r => if Nat.eqb u t then Some x else first_of t r end.
Fixpoint remove_first (t : nat) (R : list (nat * (op * ret))) : list (nat * (op * ret)) :=
  match R with [] => [] | (u, x) :: r => if Nat.eqb u t then r else (u, x) :: remove_first t r end.

Fixpoint merge_search (fuel : nat) (m : smap) (R : list (nat * (op * ret))) : bool :=
  match fuel with
  | 0 => false
  | S f =>
      match R with
      | [] => true
      | _ =>
          lexistsb (fun t =>
            match first_of t R with
            | Some (o, r) => let (m', r') := spec m o in if ret_eqb r' r then merge_search f m' (remove_first t R) else false
            | None => false
            end) (map fst R)
      end
  end.

(* (3) trace acceptor: is an observed event sequence (Inv, Res, f entered, Range callback entered with (k,v)) the
       observable projection of a run of the step model?  Hidden steps: primitives of point operations,
       the Load and the store of LoadOrStoreFn, Range begin / per-key load / finish.  (An observation is
       recorded some time AFTER the primitive it reports, so the primitives are separate hidden steps.) *)
Definition observable (e : sev) : bool :=
  match e with
  | EInv _ => true | ERes _ _ => true | EFn _ => true | ECb _ _ => true
  | _ => false
  end.

Definition sev_eqb (a b : sev) : bool :=
  match a, b with
  | EInv o, EInv o' => op_eqb o o'
  | ERes o r, ERes o' r' => op_eqb o o' && ret_eqb r r'
  | EFn k, EFn k' => Nat.eqb k k'
  | ECb k v, ECb k' v' => Nat.eqb k k' && Nat.eqb v v'
  | _, _ => false
  end.

(* candidate choices for a hidden step of thread t (only Range uses the choice) *)
Definition hidden_choices (c : scfg) (t : nat) : list (option nat) :=
  match tstate (sthr c t) with
  | TRng must _ _ => None :: map Some (must ++ keys_of (sm c))
  | _ => [None]
  end.

Fixpoint accept_search (rep : bool) (fuel : nat) (tids : list nat) (c : scfg) (obs : list sevent) : bool :=
  match fuel with
  | 0 => false
  | S f =>
      (* consume the next observed event *)
      if (match obs with
          | [] => forallb (fun t => match tstate (sthr c t), tops (sthr c t) with TIdle, [] => true | _, _ => false end) tids
          | (t, e) :: rest =>
              let ch := None in
              match sstep rep c t ch with
              | Some (c', e') => if sev_eqb e e' then accept_search rep f tids c' rest else false
              | None => false
              end
          end)
      then true
      else (* or fire a hidden step of some thread *)
        lexistsb (fun t =>
          lexistsb (fun ch =>
            match sstep rep c t ch with
            | Some (c', e') => if observable e' then false else accept_search rep f tids c' obs
            | None => false
            end) (hidden_choices c t)) tids
  end.

Definition model_accepts (rep : bool) (progs : list (list op)) (obs : list sevent) : bool :=
  let tids := seq 0 (length progs) in
  accept_search rep (6 * length obs + 10) tids (sinit (fun t => nth t progs [])) obs.
