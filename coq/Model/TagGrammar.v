(* Byte-level model of the tag argument grammar (C19).

   Sources modelled, line by line:
     github.com/go-kid/strings2 v0.0.1  split.go : Split / SplitWithConfig / Index / IndexSkipBlocks /
                                                   contains / DefaultSplitBlock            (module cache)
     /repo/component_definition/arg.go       : TagArg.Parse, Set, Add, formatArgType, Find, Has, isIntersect, ForEach /
                                               String (rendering of the entries in key order)
     /repo/component_definition/property.go  : NewProperty (TagVal = Parse result), IsRequired, SetArg / AddArg / Args
     /repo/container/processors/value_aware_post_processors.go : the `prop` shorthand rewrite
     /repo/container/processors/default_tag_scan_definition_registry_post_processor.go : Required default

   Conventions.
   * A Go string is a list of bytes [bytes = list N]; every byte 0..255 is representable (nothing in the
     model depends on a byte being < 256).
   * Go `int` values (indices, the `in` depth counter) are [Z]; none of them can leave the int64 range for a
     string that fits in memory, so unbounded Z is exact.
   * Every Go slice / index expression is a *checked* operation ([slice_from], [slice_to], [byte_at],
     [arr_set], [arr_at]) with an explicit [Panic] result.  The totality theorem (c19_total) says that
     [Panic] is unreachable from [tag_parse]; nothing is silently totalised.
   * The separator is a single byte ([sep : N]): every call site in /repo passes the one-byte literals
     "," and " " (and "=" to strings.Index), so Go's `len(sep)` is the literal 1 below.  (For separators
     of three or more bytes the third-party Index can return a position whose `s[m+len(sep):]` is out of
     range, e.g. Split(")abc(x", "abc", DefaultSplitBlock); not reachable from the container.)
   * Go `for` loops whose counter moves by exactly one per iteration towards a fixed bound are modelled
     as structural recursion on the number of remaining iterations (a [nat]); the Go counter itself is
     carried along as a [Z] and is what the checked slice operations see.

   Definitions only; proofs live in Proofs/TagGrammarProofs.v. *)
From Coq Require Export List ZArith NArith Bool.
Export ListNotations.
Local Open Scope Z_scope.

Definition bytes := list N.

Inductive res (A : Type) : Type :=
| Ok (a : A)
| Panic.
Arguments Ok {A} a.
Arguments Panic {A}.

Definition bind {A B : Type} (r : res A) (f : A -> res B) : res B :=
  match r with Ok a => f a | Panic => Panic end.

Definition blen {A : Type} (s : list A) : Z := Z.of_nat (length s).

(* s[lo:] *)
Definition slice_from {A : Type} (s : list A) (lo : Z) : res (list A) :=
  if (0 <=? lo) && (lo <=? blen s) then Ok (skipn (Z.to_nat lo) s) else Panic.

(* s[:hi] *)
Definition slice_to {A : Type} (s : list A) (hi : Z) : res (list A) :=
  if (0 <=? hi) && (hi <=? blen s) then Ok (firstn (Z.to_nat hi) s) else Panic.

(* s[i] *)
Definition byte_at (s : bytes) (i : Z) : res N :=
  if (0 <=? i) && (i <? blen s) then Ok (nth (Z.to_nat i) s 0%N) else Panic.

(* a[i] = x  on a Go slice of strings *)
Definition arr_set {A : Type} (a : list A) (i : Z) (x : A) : res (list A) :=
  if (0 <=? i) && (i <? blen a)
  then Ok (firstn (Z.to_nat i) a ++ x :: skipn (S (Z.to_nat i)) a)
  else Panic.

Fixpoint bytes_eqb (a b : bytes) : bool :=
  match a, b with
  | [], [] => true
  | x :: a', y :: b' => N.eqb x y && bytes_eqb a' b'
  | _, _ => false
  end.

(* ---- strings.Index / strings.Count for a one-byte separator -------------------------------- *)

(* strings.Index(s, sep): position of the first occurrence, -1 if none *)
Fixpoint bindex (s : bytes) (sep : N) : Z :=
  match s with
  | [] => -1
  | a :: r => if N.eqb a sep then 0
              else let k := bindex r sep in if k =? -1 then -1 else k + 1
  end.

(* strings.Count(s, sep) *)
Fixpoint bcount (s : bytes) (sep : N) : nat :=
  match s with
  | [] => O
  | a :: r => if N.eqb a sep then S (bcount r sep) else bcount r sep
  end.

(* ---- strings2 ------------------------------------------------------------------------------ *)

(* LeftBlocks = {"{", "[", "("}   RightBlocks = {"}", "]", ")"} *)
Definition left_blocks : list N := [123; 91; 40]%N.
Definition right_blocks : list N := [125; 93; 41]%N.

(* contains(s []string, b byte): `string(b) == b2`.  string(b) of a byte >= 0x80 is a two-byte UTF-8
   string and never equals a one-byte block string; hence the guard. *)
Definition contains (blocks : list N) (b : N) : bool :=
  N.ltb b 128 && existsb (N.eqb b) blocks.

(* The body of `for i := 0; i < len(s); i++ { ... }` in Index; [rem] = len(s) - i iterations remain.
     a := s[i]
     if contains(left, a)  { in++; continue }
     if contains(right, a) { in--; if in == 0 { idx = strings.Index(s[i+1:], sep)
                                                 if idx == -1 { return idx }
                                                 idx = idx + i + 1 }
                             continue }
     if in == 0 && idx <= i { if idx != i { idx = strings.Index(s[i:], sep) + i } else { break } }
   return idx *)
Fixpoint index_loop (rem : nat) (s : bytes) (sep : N) (left right : list N) (i inn idx : Z) : res Z :=
  match rem with
  | O => Ok idx
  | S rem' =>
    bind (byte_at s i) (fun a =>
    if contains left a then index_loop rem' s sep left right (i + 1) (inn + 1) idx
    else if contains right a then
      let inn' := inn - 1 in
      if inn' =? 0 then
        bind (slice_from s (i + 1)) (fun t =>
        let k := bindex t sep in
        if k =? -1 then Ok k
        else index_loop rem' s sep left right (i + 1) inn' (k + i + 1))
      else index_loop rem' s sep left right (i + 1) inn' idx
    else if (inn =? 0) && (idx <=? i) then
      if negb (idx =? i) then
        bind (slice_from s i) (fun t =>
        index_loop rem' s sep left right (i + 1) inn (bindex t sep + i))
      else Ok idx
    else index_loop rem' s sep left right (i + 1) inn idx)
  end.

(* strings2.Index(s, sep, left, right) *)
Definition index_skip (s : bytes) (sep : N) (left right : list N) : res Z :=
  let idx := bindex s sep in
  if idx =? -1 then Ok idx
  else index_loop (length s) s sep left right 0 0 idx.

(* strings2.IndexSkipBlocks(s, sep) *)
Definition index_skip_blocks (s : bytes) (sep : N) : res Z :=
  index_skip s sep left_blocks right_blocks.

(* The loop of SplitWithConfig (After = false, so sepSave = 0; len(sep) = 1); [k] = n - i iterations
   remain, [a] is the array made by make([]string, n).
     for i < n { m := Index(s, sep, left, right); if m < 0 { break }
                 a[i] = s[:m+sepSave]; s = s[m+len(sep):]; i++ }
     a[i] = s
     return a[:i+1] *)
Fixpoint split_loop (k : nat) (s : bytes) (sep : N) (left right : list N)
         (a : list bytes) (i : Z) : res (list bytes) :=
  let finish := bind (arr_set a i s) (fun a' => slice_to a' (i + 1)) in
  match k with
  | O => finish
  | S k' =>
    bind (index_skip s sep left right) (fun m =>
    if m <? 0 then finish
    else
      bind (slice_to s (m + 0)) (fun hd =>
      bind (arr_set a i hd) (fun a' =>
      bind (slice_from s (m + 1)) (fun s' =>
      split_loop k' s' sep left right a' (i + 1)))))
  end.

(* SplitWithConfig with N = -1, After = false, a non-empty one-byte Sep:
     n = strings.Count(s, sep) + 1 ; if n > len(s)+1 { n = len(s)+1 } ; a := make([]string, n) ; n-- ; i := 0 *)
Definition split_cfg (s : bytes) (sep : N) (left right : list N) : res (list bytes) :=
  let n0 := Z.of_nat (bcount s sep) + 1 in
  let n := if n0 >? blen s + 1 then blen s + 1 else n0 in
  let a := repeat ([] : bytes) (Z.to_nat n) in
  split_loop (Z.to_nat (n - 1)) s sep left right a 0.

(* strings2.Split(val, sep, strings2.DefaultSplitBlock) *)
Definition split_blocks (s : bytes) (sep : N) : res (list bytes) :=
  split_cfg s sep left_blocks right_blocks.

(* ---- TagArg -------------------------------------------------------------------------------- *)

(* TagArg = map[ArgType][]string as an association list with unique keys; [map_put] is `m[k] = v`
   (a later Set of the same key overrides), [map_get] is `m[k]`. *)
Definition argmap := list (bytes * list bytes).

Fixpoint map_put (m : argmap) (k : bytes) (v : list bytes) : argmap :=
  match m with
  | [] => [(k, v)]
  | (k', v') :: r => if bytes_eqb k' k then (k, v) :: r else (k', v') :: map_put r k v
  end.

Fixpoint map_get (m : argmap) (k : bytes) : option (list bytes) :=
  match m with
  | [] => None
  | (k', v') :: r => if bytes_eqb k' k then Some v' else map_get r k
  end.

(* strings.ToUpper of a ONE-byte string (the only way formatArgType calls it): ASCII letters are
   upper-cased, other ASCII bytes unchanged; a byte >= 0x80 alone is invalid UTF-8, strings.Map decodes
   it as RuneError and writes U+FFFD = EF BF BD. *)
Definition to_upper1 (b : N) : bytes :=
  if N.ltb b 128
  then [if N.leb 97 b && N.leb b 122 then (b - 32)%N else b]
  else [239; 191; 189]%N.

Definition to_upper_1byte (h : bytes) : bytes :=
  match h with
  | [b] => to_upper1 b
  | _ => h            (* not reached: the argument is always t[:1] *)
  end.

(* formatArgType: strings.ToUpper(t[:1]) + t[1:] *)
Definition format_arg_type (t : bytes) : res bytes :=
  bind (slice_to t 1) (fun h =>
  bind (slice_from t 1) (fun tl =>
  Ok (to_upper_1byte h ++ tl))).

(* Set(argType, val...): if argType == "" { return }; m[formatArgType(argType)] = val *)
Definition arg_set (m : argmap) (t : bytes) (val : list bytes) : res argmap :=
  match t with
  | [] => Ok m
  | _ => bind (format_arg_type t) (fun k => Ok (map_put m k val))
  end.

(* Add(argType, val...): if argType == "" { return }; argType = formatArgType(argType);
   m[argType] = append(m[argType], val...)
   (for a name that is not in the map yet m[argType] is nil and the append yields val - with no values at all the name
   is present with an empty list, as after Set without values) *)
Definition arg_add (m : argmap) (t : bytes) (val : list bytes) : res argmap :=
  match t with
  | [] => Ok m
  | _ => bind (format_arg_type t) (fun k =>
         Ok (map_put m k (match map_get m k with Some old => old ++ val | None => val end)))
  end.

(* ---- the exported argument API of a parsed Property ------------------------------------------------
   Property.SetArg(t, val...) = args.Set(t, val...), Property.AddArg(t, val...) = args.Add(t, val...), Property.Args()
   hands out the map itself (TagArg.Set / Add are exported too).  An application-defined post-processor adjusts the
   arguments of the points it is shown this way - e.g. AddArg("qualifier", profile) in the spelling tags use - and the
   built-in processors that run after it read them through Find / Has with the canonical constants. *)
Inductive arg_op : Type :=
| OpSet (t : bytes) (val : list bytes)
| OpAdd (t : bytes) (val : list bytes).

Definition apply_op (m : argmap) (o : arg_op) : res argmap :=
  match o with
  | OpSet t val => arg_set m t val
  | OpAdd t val => arg_add m t val
  end.

Fixpoint apply_ops (m : argmap) (ops : list arg_op) : res argmap :=
  match ops with
  | [] => Ok m
  | o :: r => bind (apply_op m o) (fun m' => apply_ops m' r)
  end.

(* the loop over exps in Parse; "=" is byte 61, " " is byte 32 *)
Fixpoint parse_exps (exps : list bytes) (m : argmap) : res argmap :=
  match exps with
  | [] => Ok m
  | exp :: r =>
    let sp := bindex exp 61 in
    if sp =? -1 then bind (arg_set m exp [[]]) (parse_exps r)
    else
      bind (slice_to exp sp) (fun name =>
      bind (slice_from exp (sp + 1)) (fun vs =>
      bind (split_blocks vs 32) (fun vals =>
      bind (arg_set m name vals) (parse_exps r))))
  end.

(* TagArg.Parse on a fresh map (as NewProperty calls it): value part and argument map.
     parts := Split(tag, ",", DefaultSplitBlock); tag = parts[0]; if len(parts) == 1 { return tag }
     exps := parts[1:] ; for _, exp := range exps { ... } *)
Definition tag_parse (tag : bytes) : res (bytes * argmap) :=
  bind (split_blocks tag 44) (fun parts =>
  match parts with
  | [] => Panic                                   (* parts[0] on an empty slice *)
  | p0 :: exps => bind (parse_exps exps []) (fun m => Ok (p0, m))
  end).

(* Find(argType): m[formatArgType(argType)] *)
Definition find (m : argmap) (t : bytes) : res (option (list bytes)) :=
  bind (format_arg_type t) (fun k => Ok (map_get m k)).

Definition is_intersect (a b : list bytes) : bool :=
  existsb (fun x => existsb (bytes_eqb x) b) a.

(* Has(argType, wants...) *)
Definition has (m : argmap) (t : bytes) (wants : list bytes) : res bool :=
  bind (format_arg_type t) (fun k =>
  match map_get m k with
  | None => Ok false
  | Some args => match wants with [] => Ok true | _ => Ok (is_intersect args wants) end
  end).

(* "Required", "false" *)
Definition arg_required : bytes := [82; 101; 113; 117; 105; 114; 101; 100]%N.
Definition lit_false : bytes := [102; 97; 108; 115; 101]%N.

(* IsRequired: !n.args.Has(ArgRequired, "false") *)
Definition is_required (m : argmap) : res bool :=
  bind (has m arg_required [lit_false]) (fun b => Ok (negb b)).

(* DefaultTagScanDefinitionRegistryPostProcessor:
     if d.Required && !property.Args().Has(ArgRequired) { property.SetArg(ArgRequired) } *)
Definition required_default (required : bool) (m : argmap) : res argmap :=
  if required then
    bind (has m arg_required []) (fun h => if h then Ok m else arg_set m arg_required [])
  else Ok m.

(* the `prop` shorthand of valueAwarePostProcessors.ExtractHandler:
     i := strings2.IndexSkipBlocks(tagVal, ","); if i != -1 { tagVal, argstr = tagVal[:i], tagVal[i:] }
     tagVal = fmt.Sprintf("${%s}%s", tagVal, argstr)          "$" = 36, "{" = 123, "}" = 125 *)
Definition prop_rewrite (tagVal : bytes) : res bytes :=
  bind (index_skip_blocks tagVal 44) (fun i =>
  if negb (i =? -1) then
    bind (slice_to tagVal i) (fun tv =>
    bind (slice_from tagVal i) (fun argstr =>
    Ok ([36; 123]%N ++ tv ++ [125]%N ++ argstr)))
  else Ok ([36; 123]%N ++ tagVal ++ [125]%N)).

(* what the scan of one tagged field produces: NewProperty + Required default.
   [shorthand] = the tag key was `prop` (rewritten into a `value` tag first). *)
Definition scan_property (shorthand required : bool) (tagVal : bytes) : res (bytes * argmap) :=
  bind (if shorthand then prop_rewrite tagVal else Ok tagVal) (fun tv =>
  bind (tag_parse tv) (fun p =>
  bind (required_default required (snd p)) (fun m => Ok (fst p, m)))).

(* ---- structured tags: rendering and well-formedness (used by c19_faithful) ------------------- *)

Fixpoint join (sep : N) (l : list bytes) : bytes :=
  match l with
  | [] => []
  | [x] => x
  | x :: r => x ++ sep :: join sep r
  end.

(* one argument: name=v1 v2 ... *)
Definition render_arg (a : bytes * list bytes) : bytes :=
  fst a ++ 61%N :: join 32 (snd a).

(* value,arg1,arg2,... *)
Definition render (v : bytes) (args : list (bytes * list bytes)) : bytes :=
  join 44 (v :: map render_arg args).

(* [seg_ok forbid d seg]: starting at bracket depth [d] (all three bracket kinds count alike, as in
   Index), the depth never drops below 0, ends at 0, and no byte of [forbid] occurs at depth 0. *)
Fixpoint seg_ok (forbid : list N) (d : nat) (seg : bytes) : bool :=
  match seg with
  | [] => Nat.eqb d 0
  | a :: r =>
    if contains left_blocks a then seg_ok forbid (S d) r
    else if contains right_blocks a then
      match d with O => false | S d' => seg_ok forbid d' r end
    else (negb (Nat.eqb d 0) || negb (existsb (N.eqb a) forbid)) && seg_ok forbid d r
  end.

(* an argument name: non-empty, no bracket, no "," and no "=" *)
Definition name_ok (n : bytes) : bool :=
  match n with [] => false | _ => true end &&
  forallb (fun b => negb (contains left_blocks b) && negb (contains right_blocks b)
                    && negb (N.eqb b 44) && negb (N.eqb b 61)) n.

(* an argument: a good name and at least one value, each value bracket-closed with no "," or " "
   outside brackets *)
Definition arg_ok (a : bytes * list bytes) : bool :=
  name_ok (fst a) &&
  match snd a with [] => false | _ => true end &&
  forallb (seg_ok [44; 32]%N 0) (snd a).

(* the value part: bracket-closed with no "," outside brackets *)
Definition value_ok (v : bytes) : bool := seg_ok [44]%N 0 v.

(* first byte upper-cased the way formatArgType does it (total version for non-empty names) *)
Definition upper_first (t : bytes) : bytes :=
  match t with
  | [] => []
  | b :: r => to_upper1 b ++ r
  end.

(* the argument map a structured tag denotes: Set in order, later duplicates override *)
Definition set_all (args : list (bytes * list bytes)) : argmap :=
  fold_left (fun m a => map_put m (upper_first (fst a)) (snd a)) args [].

(* TagArg.String() over the entries in ForEach order (keys sorted bytewise):
     "." + key + "(" + strings.Join(args, ",") + ")"  per entry      "." = 46, "(" = 40, ")" = 41 *)
Definition args_string (entries : argmap) : bytes :=
  flat_map (fun kv : bytes * list bytes => 46%N :: fst kv ++ 40%N :: join 44 (snd kv) ++ [41%N]) entries.

(* ASCII letters and flipping the case of one *)
Definition is_ascii_letter (b : N) : bool :=
  (N.leb 65 b && N.leb b 90) || (N.leb 97 b && N.leb b 122).
Definition flip_case (b : N) : N :=
  if N.leb 65 b && N.leb b 90 then (b + 32)%N
  else if N.leb 97 b && N.leb b 122 then (b - 32)%N
  else b.
Definition flip_first (t : bytes) : bytes :=
  match t with [] => [] | b :: r => flip_case b :: r end.
