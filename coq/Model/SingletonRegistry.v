(* Model of container/support/singleton_registry.go RegisterSingleton + util/framework_helper/component.go:
   the registered name of a component is its custom name when it declares a non-empty one, otherwise its
   default (package/type) name; registering a second, different instance under a taken name panics
   (syslog Panicf at the default log level) and leaves the first one; the same instance twice is a no-op.
   Definitions only. *)
From Coq Require Export List Arith Bool.
Export ListNotations.

Record reg_req : Type := mkReq {
  rq_inst : nat;               (* identity of the instance *)
  rq_custom : option nat;      (* Naming() result as a name id; None = no Naming method or empty string *)
  rq_default : nat             (* default name id (package path + type name) *)
}.

Definition reg_name (r : reg_req) : nat :=
  match rq_custom r with Some n => n | None => rq_default r end.

Definition sreg := list (nat * nat).     (* registered name -> instance *)

Fixpoint sfind (n : nat) (s : sreg) : option nat :=
  match s with
  | [] => None
  | (m, i) :: r => if Nat.eqb m n then Some i else sfind n r
  end.

Inductive reg_out : Type := RegOk | RegSame | RegPanic.

Definition register (s : sreg) (r : reg_req) : sreg * reg_out :=
  match sfind (reg_name r) s with
  | Some i => if Nat.eqb i (rq_inst r) then (s, RegSame) else (s, RegPanic)
  | None => (s ++ [(reg_name r, rq_inst r)], RegOk)
  end.

(* SetComponents(cs...) stops at the first panic (it unwinds the option) *)
Fixpoint register_all (s : sreg) (rs : list reg_req) : sreg * list reg_out :=
  match rs with
  | [] => (s, [])
  | r :: rest =>
    match register s r with
    | (s', RegPanic) => (s', [RegPanic])
    | (s', o) => let (s2, outs) := register_all s' rest in (s2, o :: outs)
    end
  end.

(* The refusal is `syslog` Panicf, which panics only while the log level lets Panic messages through: at the quietest
   level (app.LogLevel(syslog.LvFatal)) the duplicate is DROPPED silently — RegisterSingleton returns, the first
   registrant keeps the name and SetComponents goes on with the next component.  [RegPanic] then reads "dropped". *)
Fixpoint register_all_q (s : sreg) (rs : list reg_req) : sreg * list reg_out :=
  match rs with
  | [] => (s, [])
  | r :: rest =>
    let (s', o) := register s r in
    let (s2, outs) := register_all_q s' rest in (s2, o :: outs)
  end.

(* SetComponents refused the component set: some registration panicked *)
Definition is_panic (o : reg_out) : bool := match o with RegPanic => true | _ => false end.
Definition refused_from (s : sreg) (rs : list reg_req) : bool := existsb is_panic (snd (register_all s rs)).
Definition refused (rs : list reg_req) : bool := refused_from [] rs.

(* two requests announce one name for two different instances (decided on the requests alone) *)
Definition clash (a b : reg_req) : bool :=
  Nat.eqb (reg_name a) (reg_name b) && negb (Nat.eqb (rq_inst a) (rq_inst b)).
Definition has_clash (rs : list reg_req) : bool := existsb (fun a => existsb (clash a) rs) rs.
