(* Extended semantics of a start: two behaviours of go-kid/ioc that Model/Factory.v assumes away
   (its theorems are about scenarios whose callbacks do not re-enter the factory and whose processors do not
   short-circuit instantiation) are modelled here, on top of the same definitions, WITH the registry history:

   - x_short  (p, n): post-processor p's PostProcessBeforeInstantiation returns n's own instance, so
     createComponent (factory.go :164-188) skips doCreateComponent altogether: only the after-initialization
     callbacks run (ResolveBeforeInstantiation, delegate :178-194), no early exposure, no population, no Init;
   - x_initget n [d1; d2; ...]: n's Init method asks the factory for d1, d2, ... (GetComponentByName =
     doGetComponent, factory.go :132-138) before it returns, and keeps what it gets (reported as the
     pseudo-fields 100, 101, ... of n); a failing lookup makes Init fail.

   Proofs/FactoryXProofs.v: with no extras this is exactly Model/FactoryTrace.v (hence Model/Factory.v), so the
   theorems apply to every scenario without extras; the correspondence check runs THIS model against the real
   code on all generated scenarios, with and without extras.

   Definitions only. *)
From IocVerif Require Export Model.FactoryTrace.

Record extras : Type := mkX {
  x_short : list (name * name);
  x_initget : list (name * list name)
}.

Definition no_extras : extras := mkX [] [].

Definition initget_of (x : extras) (n : name) : list name :=
  match alookup n (x_initget x) with Some l => l | None => [] end.

Definition shorted (x : extras) (st : fstate) (n : name) : bool :=
  existsb (fun p => existsb (fun pn => Nat.eqb (fst pn) p && Nat.eqb (snd pn) n) (x_short x)) (active st).

(* what Init keeps from a lookup: a plain store, no dependent is recorded (nothing goes through Property.Inject) *)
Definition write_plain (st : fstate) (h : name) (k : nat) (vs : list ver) : fstate :=
  mkF (reg st) (((h, k), vs) :: flds st) (deps st) (injs st) (nextp st) (earlymade st) (active st) (log st) (scanned st).

Section WithRecX.
  Variable vt : variant.
  Variable s : scenario.
  Variable x : extras.
  Variable rec : fstate -> name -> tres (fstate * ver).

  Fixpoint init_gets_t (n : name) (j : nat) (ds : list name) (st : fstate) : tres fstate :=
    match ds with
    | [] => ([], Ok st)
    | d :: r =>
      match rec st d with
      | (o1, Ok (st1, v)) =>
        let (o2, r2) := init_gets_t n (S j) r (write_plain st1 n (100 + j) [v]) in (o1 ++ o2, r2)
      | (o1, Fail k st1) => (o1, Fail k st1)
      end
    end.

  Definition init_methods_xt (n : name) (c : comp) (st : fstate) : tres fstate :=
    match init_methods n c st with
    | Ok st2 =>
      match c_init c with
      | Some _ => init_gets_t n 0 (initget_of x n) st2
      | None => ([], Ok st2)
      end
    | Fail k st2 => ([], Fail k st2)
    end.

  Definition initialize_xt (st : fstate) (n : name) (c : comp) : tres (fstate * option ver) :=
    match before_chain s n c (active st) st with
    | Ok st1 =>
      match init_methods_xt n c st1 with
      | (o, Ok st2) => (o, after_chain s n (active st2) st2 None)
      | (o, Fail k st2) => (o, Fail k st2)
      end
    | Fail k st1 => ([], Fail k st1)
    end.

  Definition do_create_xt (st : fstate) (n : name) (c : comp) : tres (fstate * ver) :=
    let st0 := set_reg st (add_factory (reg st) n n) in
    match populate_t vt s rec st0 n c with
    | (o1, Ok st1) =>
      match initialize_xt st1 n c with
      | (oi, Ok (st2, w)) =>
        let (o2, r2) := get_singleton_t s st2 n false in
        (OAddFactory n n :: o1 ++ (oi ++ o2),
         match r2 with
         | Ok (_, None) => Ok (st2, match w with Some v => v | None => VOrig n end)
         | Ok (_, Some e) =>
           match w with
           | None => Ok (st2, e)
           | Some v =>
             match stale_dependents vt st2 n e with
             | [] => Ok (st2, v)
             | _ => Fail (FErr EStale) st2
             end
           end
         | Fail k st3 => Fail k st3
         end)
      | (oi, Fail k st2) => (OAddFactory n n :: o1 ++ oi, Fail k st2)
      end
    | (o1, Fail k st1) => (OAddFactory n n :: o1, Fail k st1)
    end.

  Definition create_xt (st : fstate) (n : name) : tres (fstate * ver) :=
    if scanned st then
      match get_comp (s_pop s) n with
      | None => ([], Fail (FErr ENoDef) st)
      | Some c =>
        if shorted x st n then
          ([], match after_chain s n (active st) st None with
               | Ok (st2, w) => Ok (st2, match w with Some v => v | None => VOrig n end)
               | Fail k st2 => Fail k st2
               end)
        else do_create_xt st n c
      end
    else ([], Fail (FErr ENoDef) st).

  Definition body_xt (st : fstate) (n : name) : tres (fstate * ver) := body_with vt s create_xt st n.
End WithRecX.

Fixpoint do_get_xt (vt : variant) (s : scenario) (x : extras) (fuel : nat) (st : fstate) (n : name)
  : tres (fstate * ver) :=
  match fuel with
  | 0 => ([], Fail FFuel st)
  | S f => body_xt vt s x (do_get_xt vt s x f) st n
  end.

(* a nested call either finds a cache entry or creates a name that had none (an init-time lookup included), so
   the fuel of Model/App.v still bounds the nesting depth *)
Fixpoint prepare_loop_xt (vt : variant) (s : scenario) (x : extras) (ps : list name) (st : fstate) : tres fstate :=
  match ps with
  | [] => ([], Ok st)
  | p :: r =>
    if is_lazy (s_pop s) p then prepare_loop_xt vt s x r (set_active st (active st ++ [p]))
    else match do_get_xt vt s x (fuel_of s) st p with
         | (o1, Ok (st1, _)) =>
           let (o2, r2) := prepare_loop_xt vt s x r (set_active st1 (active st1 ++ [p])) in (o1 ++ o2, r2)
         | (o1, Fail k st1) => (o1, Fail k st1)
         end
  end.

Fixpoint get_each_xt (vt : variant) (s : scenario) (x : extras) (ns : list name) (st : fstate) : tres fstate :=
  match ns with
  | [] => ([], Ok st)
  | n :: r => match do_get_xt vt s x (fuel_of s) st n with
              | (o1, Ok (st1, _)) => let (o2, r2) := get_each_xt vt s x r st1 in (o1 ++ o2, r2)
              | (o1, Fail k st1) => (o1, Fail k st1)
              end
  end.

Definition run_core_xt (vt : variant) (s : scenario) (x : extras) : tres fstate :=
  if s_loader_fail s then ([], Fail (FErr ECallback) finit)
  else match prepare_loop_xt vt s x (sorted_procs s) (set_scanned finit) with
       | (o1, Ok st1) =>
         match get_each_xt vt s x (eager_names s) st1 with
         | (o2, Ok st2) => (o1 ++ o2, call_runners s st2)
         | (o2, Fail k st2) => (o1 ++ o2, Fail k st2)
         end
       | (o1, Fail k st1) => (o1, Fail k st1)
       end.

Definition run_xt (vt : variant) (s : scenario) (x : extras) : tres fstate := run_core_xt vt (normalise vt s) x.

Fixpoint lookups_core_xt (vt : variant) (s : scenario) (x : extras) (ns : list name) (st : fstate)
  : list rop * (fstate * list lookup_out) :=
  match ns with
  | [] => ([], (st, []))
  | n :: r =>
    match do_get_xt vt s x (fuel_of s) st n with
    | (o1, Ok (st1, v)) =>
      let '(o2, (st2, outs)) := lookups_core_xt vt s x r st1 in (o1 ++ o2, (st2, LVer v :: outs))
    | (o1, Fail k st1) =>
      let '(o2, (st2, outs)) := lookups_core_xt vt s x r st1 in (o1 ++ o2, (st2, LFail k :: outs))
    end
  end.

(* Factory.GetComponents() without options (factory.go :120-130): GetComponentByName for every definition in name
   order; the first error ends it and is all the caller gets *)
Fixpoint bulk_core_xt (vt : variant) (s : scenario) (x : extras) (ns : list name) (st : fstate)
  : list rop * (fstate * res (list ver)) :=
  match ns with
  | [] => ([], (st, Ok []))
  | n :: r =>
    match do_get_xt vt s x (fuel_of s) st n with
    | (o1, Ok (st1, v)) =>
      let '(o2, (st2, r2)) := bulk_core_xt vt s x r st1 in
      (o1 ++ o2, (st2, match r2 with Ok vs => Ok (v :: vs) | Fail k l => Fail k l end))
    | (o1, Fail k st1) => (o1, (st1, Fail k st1))
    end
  end.
