(* Conc.v — small-step interleaving semantics for the container's two concurrent phases
   (App.Close and applyDefinitionRegistryPostProcessors).

   Threads are lists of atomic steps over a shared abstract store.  Thread 0 is the
   goroutine that calls Close / PrepareComponents ("main"); the others are the goroutines
   started by the `go func(...){...}(...)` statements.  A schedule is a list of thread ids;
   `run` executes it and yields the chronological trace.  "All interleavings" in the
   theorems = all schedules accepted by `run` (equivalently the inductive `reach` in
   Proofs/ConcProofs.v).

   MODELLED, NOT VERIFIED (trusted base): the Go scheduler (any enabled thread may take the
   next atomic step), sync.WaitGroup (a counter; Wait returns only at 0; Done below 0 is the
   Go panic and is a disabled step here - the theorems show it is never reached),
   sync.Mutex (one owner), `go` (always enabled; every thread id is the target of at most one go
   statement in the programs below), and the Go memory model's happens-before: program order,
   go-statement -> first step of the new goroutine, wg.Done -> return of a later wg.Wait,
   mu.Unlock -> a later mu.Lock.  An access through an internally synchronised object
   (sync.Map operation, the logger cache, methods of wg/mu) is `AAtom` and never races.
   The code *below* the closures (m.Close(), PostProcessDefinitionRegistry) is a sequence
   of opaque steps of that thread; its own accesses are checked dynamically by the race
   detector, not here.

   Definitions only; proofs live in Proofs/ConcProofs.v. *)
From Coq Require Export List Arith Bool.
Export ListNotations.

(* observable events of the Close phase *)
Inductive obs : Type :=
| OCall (i : nat)                 (* closer i's Close() entered *)
| ORet (i : nat) (err : bool)     (* closer i's Close() returned (err = returned an error) *)
| OCloseRet.                      (* App.Close returned *)

Inductive act : Type :=
| AGo (u : nat)                   (* go statement starting thread u *)
| AAdd (k : nat)                  (* wg.Add(k) *)
| ADone                           (* wg.Done() *)
| AWait                           (* wg.Wait() returns *)
| ALock (m : nat)
| AUnlock (m : nat)
| ARd (v : nat)                   (* plain (non-atomic) read of variable v *)
| AWr (v : nat)                   (* plain write *)
| AAtom (v : nat)                 (* access through an internally synchronised object *)
| ATau                            (* thread-local step *)
| AEv (o : obs).

Definition upd {A : Type} (f : nat -> A) (t : nat) (x : A) : nat -> A :=
  fun u => if Nat.eqb u t then x else f u.

Record cfg : Type := mkCfg {
  thr : nat -> list act;          (* remaining program of every thread *)
  started : nat -> bool;          (* the thread exists (main, or target of an executed go) *)
  wg : nat;                       (* WaitGroup counter *)
  held : nat -> option nat        (* owner of every mutex *)
}.

Definition enabled (c : cfg) (t : nat) (a : act) : bool :=
  match a with
  | ADone => Nat.ltb 0 (wg c)
  | AWait => Nat.eqb (wg c) 0
  | ALock m => match held c m with None => true | Some _ => false end
  | AUnlock m => match held c m with Some o => Nat.eqb o t | None => false end
  | _ => true
  end.

Definition apply (c : cfg) (t : nat) (a : act) (rest : list act) : cfg :=
  let th := upd (thr c) t rest in
  match a with
  | AGo u => mkCfg th (upd (started c) u true) (wg c) (held c)
  | AAdd k => mkCfg th (started c) (wg c + k) (held c)
  | ADone => mkCfg th (started c) (wg c - 1) (held c)
  | ALock m => mkCfg th (started c) (wg c) (upd (held c) m (Some t))
  | AUnlock m => mkCfg th (started c) (wg c) (upd (held c) m None)
  | _ => mkCfg th (started c) (wg c) (held c)
  end.

(* one atomic step of thread t; None = t cannot move (not started, finished, or blocked) *)
Definition step (c : cfg) (t : nat) : option (cfg * act) :=
  if started c t then
    match thr c t with
    | [] => None
    | a :: rest => if enabled c t a then Some (apply c t a rest, a) else None
    end
  else None.

Notation event := (nat * act)%type.

(* chronological trace of a schedule *)
Fixpoint run (c : cfg) (sched : list nat) : option (cfg * list event) :=
  match sched with
  | [] => Some (c, [])
  | t :: s =>
      match step c t with
      | None => None
      | Some (c', a) =>
          match run c' s with
          | None => None
          | Some (c'', tr) => Some (c'', (t, a) :: tr)
          end
      end
  end.

Definition init (prog : nat -> list act) : cfg :=
  mkCfg prog (fun t => Nat.eqb t 0) 0 (fun _ => None).

(* all interleavings: c with chronological trace tr is reachable from the initial state *)
Inductive reach (prog : nat -> list act) : cfg -> list event -> Prop :=
| reach_init : reach prog (init prog) []
| reach_step c tr t c' a :
    reach prog c tr -> step c t = Some (c', a) -> reach prog c' (tr ++ [(t, a)]).

(* what thread t has executed so far *)
Definition proj (t : nat) (tr : list event) : list act :=
  map snd (filter (fun e => Nat.eqb (fst e) t) tr).

(* ---------- happens-before and data races ------------------------------------------------- *)

(* e1 occurs earlier in the trace than e2 *)
Definition sync_edge (e1 e2 : event) : bool :=
  Nat.eqb (fst e1) (fst e2)                                   (* program order *)
  || match snd e1 with
     | AGo u => Nat.eqb u (fst e2)                            (* go -> steps of the new goroutine *)
     | ADone => match snd e2 with AWait => true | _ => false end
     | AUnlock m => match snd e2 with ALock m' => Nat.eqb m m' | _ => false end
     | _ => false
     end.

Inductive hb (tr : list event) : nat -> nat -> Prop :=
| hb_edge i j e1 e2 :
    i < j -> nth_error tr i = Some e1 -> nth_error tr j = Some e2 ->
    sync_edge e1 e2 = true -> hb tr i j
| hb_trans i j k : hb tr i j -> hb tr j k -> hb tr i k.

Definition conflict (a b : act) : bool :=
  match a, b with
  | AWr v, AWr w => Nat.eqb v w
  | AWr v, ARd w => Nat.eqb v w
  | ARd v, AWr w => Nat.eqb v w
  | _, _ => false
  end.

(* data race: two conflicting plain accesses of different threads, unordered by happens-before *)
Definition race (tr : list event) : Prop :=
  exists i j e1 e2, i < j /\ nth_error tr i = Some e1 /\ nth_error tr j = Some e2
    /\ fst e1 <> fst e2 /\ conflict (snd e1) (snd e2) = true /\ ~ hb tr i j.

(* executable happens-before: row j = the bit vector (length j) of the positions that happen before j,
   built left to right; every row is transitively closed because the earlier rows are *)
Fixpoint vor (a b : list bool) : list bool :=
  match a, b with
  | [], _ => b
  | _, [] => a
  | x :: a', y :: b' => (x || y) :: vor a' b'
  end.

Fixpoint close_row (direct : list bool) (rows : list (list bool)) (acc : list bool) : list bool :=
  match direct, rows with
  | d :: dr, r :: rr => close_row dr rr (if d then vor acc r else acc)
  | _, _ => acc
  end.

Fixpoint rows_acc (done_ : list event) (rows : list (list bool)) (todo : list event) : list (list bool) :=
  match todo with
  | [] => rows
  | e :: r =>
      let direct := map (fun e1 => sync_edge e1 e) done_ in
      rows_acc (done_ ++ [e]) (rows ++ [close_row direct rows direct]) r
  end.
Definition hb_rows (tr : list event) : list (list bool) := rows_acc [] [] tr.
Definition hb_at (rows : list (list bool)) (i j : nat) : bool := nth i (nth j rows []) false.
Definition hb_b (tr : list event) (i j : nat) : bool := hb_at (hb_rows tr) i j.

Fixpoint mem_nat (x : nat) (l : list nat) : bool :=
  match l with [] => false | y :: r => Nat.eqb x y || mem_nat x r end.

Definition race_at_b (tr : list event) (rows : list (list bool)) (i j : nat) : bool :=
  match nth_error tr i, nth_error tr j with
  | Some e1, Some e2 =>
      Nat.ltb i j && negb (Nat.eqb (fst e1) (fst e2)) && conflict (snd e1) (snd e2) && negb (hb_at rows i j)
  | _, _ => false
  end.
Definition races_b (tr : list event) : list (nat * nat) :=
  let n := length tr in
  let rows := hb_rows tr in
  filter (fun p => race_at_b tr rows (fst p) (snd p)) (list_prod (seq 0 n) (seq 0 n)).

(* ---------- the Close phase (app/app.go, func (s *App) Close) ------------------------------

     if len(s.CloserComponents) != 0 {
        wg := sync.WaitGroup{}; wg.Add(len(s.CloserComponents))
        for _, m := range s.CloserComponents { go func(m){ defer wg.Done(); if err := m.Close(); err != nil { log } }(m) }
        wg.Wait()
     }
   Thread i (1..n) runs closer i.  `fails i` = closer i returns an error (then it also logs). *)

Definition close_main (n : nat) : list act :=
  match n with
  | 0 => [AEv OCloseRet]
  | _ => [AAdd n] ++ map AGo (seq 1 n) ++ [AWait; AEv OCloseRet]
  end.

Definition close_child (fails : nat -> bool) (i : nat) : list act :=
  [AEv (OCall i); AEv (ORet i (fails i))] ++ (if fails i then [ATau] else []) ++ [ADone].

Definition close_prog (n : nat) (fails : nat -> bool) : nat -> list act :=
  fun t => if Nat.eqb t 0 then close_main n
           else if Nat.leb t n then close_child fails t else [].

(* ---------- executable trace acceptor for observed histories of the Close phase ------------

   An observed history is the list of obs events in the order of their sequence numbers.
   Silent steps (Add, Go, Tau, Done, Wait) are not observable; `saturate` fires every enabled
   silent step (they only ever enable further steps), then the next observed event must be
   the head of the thread that owns it.  Every state change goes through `step`, so an
   accepted history is the obs-projection of a trace of the model. *)

(* the observable projection of a trace *)
Definition obs_of (tr : list event) : list obs :=
  flat_map (fun e => match snd e with AEv o => [o] | _ => [] end) tr.

Definition silent (a : act) : bool := match a with AEv _ => false | _ => true end.

Definition step_if_silent (c : cfg) (t : nat) : option cfg :=
  match thr c t with
  | a :: _ => if silent a then match step c t with Some (c', _) => Some c' | None => None end else None
  | [] => None
  end.

Fixpoint first_silent (c : cfg) (ts : list nat) : option cfg :=
  match ts with
  | [] => None
  | t :: r => match step_if_silent c t with Some c' => Some c' | None => first_silent c r end
  end.

Fixpoint saturate (fuel : nat) (ts : list nat) (c : cfg) : cfg :=
  match fuel with
  | 0 => c
  | S f => match first_silent c ts with Some c' => saturate f ts c' | None => c end
  end.

Definition obs_eqb (a b : obs) : bool :=
  match a, b with
  | OCall i, OCall j => Nat.eqb i j
  | ORet i x, ORet j y => Nat.eqb i j && Bool.eqb x y
  | OCloseRet, OCloseRet => true
  | _, _ => false
  end.

Definition owner (o : obs) : nat := match o with OCall i => i | ORet i _ => i | OCloseRet => 0 end.

Definition accept_one (fuel : nat) (ts : list nat) (c : cfg) (o : obs) : option cfg :=
  let c1 := saturate fuel ts c in
  match thr c1 (owner o) with
  | AEv o' :: _ => if obs_eqb o o' then match step c1 (owner o) with Some (c2, _) => Some c2 | None => None end else None
  | _ => None
  end.

Fixpoint accept_all (fuel : nat) (ts : list nat) (c : cfg) (h : list obs) : option cfg :=
  match h with
  | [] => Some (saturate fuel ts c)
  | o :: r => match accept_one fuel ts c o with Some c' => accept_all fuel ts c' r | None => None end
  end.

(* the history is the obs-projection of a COMPLETE run of close_prog n fails *)
Definition close_accepts (n : nat) (fails : nat -> bool) (h : list obs) : bool :=
  let ts := seq 0 (S n) in
  match accept_all (4 * n + 8) ts (init (close_prog n fails)) h with
  | Some c => forallb (fun t => match thr c t with [] => true | _ => false end) ts
  | None => false
  end.

(* ---------- the closure footprint (extracted from /repo with go/ast, see harness/cmd/c20fp) -

   For one function that starts goroutines in a loop and then waits:
     fp_add_before_go  wg.Add(len(xs)) (or Add(1) per iteration) is executed by main before the go statement
     fp_done_deferred  the first statement of the closure is `defer wg.Done()`
     fp_wait_after     wg.Wait() follows the spawn loop in the same block
   and for every variable of the enclosing function that the closure captures (by reference):
     cv_sync     its type is sync.WaitGroup / sync.Mutex (only methods are called on it)
     cv_child    the closure's accesses in order: (is_write, lock held (0 = none, else mutex id), only on the failure path)
     cv_pre      main's accesses before the spawn loop, in the pass   (true = write)
     cv_mid      main's accesses between the first go statement and wg.Wait()
     cv_post     main's accesses after wg.Wait() *)

Record cvar : Type := mkCvar {
  cv_id : nat;
  cv_sync : bool;
  cv_child : list (bool * nat * bool);
  cv_pre : list bool;
  cv_mid : list bool;
  cv_post : list bool
}.

Record footprint : Type := mkFp {
  fp_add_before_go : bool;
  fp_done_deferred : bool;
  fp_wait_after : bool;
  fp_vars : list cvar
}.

Definition acc_of (w : bool) (v : nat) : act := if w then AWr v else ARd v.

(* child accesses: writes imply every child access of the variable sits under one and the same lock *)
Definition child_writes (cv : cvar) : bool := existsb (fun x => fst (fst x)) (cv_child cv).
Definition lock_of (cv : cvar) : nat :=
  match cv_child cv with [] => 0 | x :: _ => snd (fst x) end.
Definition child_locked (cv : cvar) : bool :=
  negb (Nat.eqb (lock_of cv) 0) && forallb (fun x => Nat.eqb (snd (fst x)) (lock_of cv)) (cv_child cv).

Definition cvar_ok (cv : cvar) : bool :=
  cv_sync cv
  || ((negb (child_writes cv) || child_locked cv)          (* children among themselves *)
      && (* main between go and Wait: no access that conflicts with a child access *)
         (match cv_child cv with
          | [] => true
          | _ => forallb (fun w => negb w && negb (child_writes cv)) (cv_mid cv)
          end)).

Fixpoint nodupb (l : list nat) : bool :=
  match l with [] => true | x :: r => negb (mem_nat x r) && nodupb r end.

Definition footprint_race_free (fp : footprint) : bool :=
  fp_add_before_go fp && fp_done_deferred fp && fp_wait_after fp
  && nodupb (map cv_id (fp_vars fp)) && forallb cvar_ok (fp_vars fp).

(* The phase program generated from a footprint: `passes` rounds (the outer loop over
   processors; 1 for Close) of n goroutines each.  Thread id of goroutine i (0-based) of round p
   is 1 + p*n + i.  Variables keep their identity across rounds (the most adverse reading: a
   per-round variable such as `errs` is treated as one shared variable).  `fails t` = goroutine t
   takes the failure path.  The three structure flags are honoured: a missing Add / Done / Wait
   produces a program without it. *)

Definition child_access (v : nat) (x : bool * nat * bool) (failing : bool) : list act :=
  let '(w, l, onfail) := x in
  if onfail && negb failing then []
  else match l with
       | 0 => [acc_of w v]
       | _ => [ALock l; acc_of w v; AUnlock l]
       end.

Definition child_body (fp : footprint) (failing : bool) : list act :=
  flat_map (fun cv => if cv_sync cv then [AAtom (cv_id cv)]
                      else flat_map (fun x => child_access (cv_id cv) x failing) (cv_child cv)) (fp_vars fp).

Definition phase_child (fp : footprint) (failing : bool) : list act :=
  child_body fp failing ++ [ATau] ++ (if fp_done_deferred fp then [ADone] else []).

Definition main_accs (sel : cvar -> list bool) (fp : footprint) : list act :=
  flat_map (fun cv => if cv_sync cv then [] else map (fun w => acc_of w (cv_id cv)) (sel cv)) (fp_vars fp).

Definition round_tids (n p : nat) : list nat := seq (1 + p * n) n.

Definition phase_round (fp : footprint) (n p : nat) : list act :=
  main_accs cv_pre fp
  ++ (if fp_add_before_go fp then [AAdd n] else [])
  ++ map AGo (round_tids n p)
  ++ main_accs cv_mid fp
  ++ (if fp_wait_after fp then [AWait] else [])
  ++ main_accs cv_post fp.

Definition phase_main (fp : footprint) (n passes : nat) : list act :=
  flat_map (phase_round fp n) (seq 0 passes).

Definition phase_prog (fp : footprint) (n passes : nat) (fails : nat -> bool) : nat -> list act :=
  fun t => if Nat.eqb t 0 then phase_main fp n passes
           else if Nat.leb t (n * passes) then phase_child fp (fails t) else [].
