(* Model of the three routes that put a configured value into a field (C17):

     prefix:"a.b"        propertiesAwarePostProcessors : Configure.Get("a.b") -> Property.Unmarshall
     value:"${a.b}"      configQuoteAwarePostProcessors: the placeholder is replaced by
                         strconv2.FormatAny(Get("a.b")) inside the tag text, then
                         valueAwarePostProcessors      : strconv2.ParseAny(TagVal) -> Property.Unmarshall
     prop:"a.b"          rewritten to value:"${a.b}" when the tags are scanned (ExtractHandler of the
                         value processor: IndexSkipBlocks(tag, ","), "${" + head + "}" + rest)
     value:"literal"     ParseAny(literal) -> Unmarshall

   Property.Unmarshall = reflectx.SetValue(field, mapstructure decoder) with
   WeaklyTypedInput = true, TagName = "yaml", ZeroFields = false, hook StringToTimeDuration
   (/repo/component_definition/property.go).  SetValue decodes into a FRESH value of the field's
   type (for a pointer field: a fresh value of the element type) and then replaces the field, so
   the decoder always starts from the zero value.

   [decode_weak] models the subset of github.com/mitchellh/mapstructure v1.5.0 (mapstructure.go:
   decode / decodeBasic / decodeString / decodeInt / decodeUint / decodeBool / decodeFloat /
   decodeSlice / decodeMap / decodeMapFromSlice / decodeMapFromMap / decodeStructFromMap /
   decodePtr) that these routes reach for inputs of the kinds viper+yaml.v3 and strconv2.ParseAny
   produce: nil, bool, int, float64, string, []any, map[string]any.

   Definitions only; lemmas live in Proofs/ValuesProofs.v.

   ABSTRACTIONS (see also Model/Strconv.v)
     float64       exact decimals  m * 10^e  (normalised); faithful for at most 15 significant digits
                   and integers up to 2^53 in magnitude.  float32 results are tagged and faithful for
                   at most 6 significant digits.
     struct types  list of (match name, type): match name = the yaml tag name if present, else the Go
                   field name; mapstructure matches a key exactly or with strings.EqualFold, which on
                   the ASCII identifiers of the fragment is equality after ASCII lower-casing.
                   All fields exported (unexported ones are skipped by mapstructure).
     errors        mapstructure collects errors of elements and fails at the end: only Ok / Err is
                   observable because the container aborts the start on any error.
   [dw_modelled] states where [decode_weak] is claimed to agree with mapstructure. *)
From IocVerif Require Export Model.Strconv Model.Placeholder.

Local Open Scope Z_scope.

(* ---- field types and field values ---------------------------------------------------- *)

Inductive ftype : Type :=
| TString
| TBool
| TInt (bits : Z)            (* int8/16/32/64, int = 64 *)
| TUint (bits : Z)
| TFloat (bits : Z)          (* 32 / 64 *)
| TAny                       (* interface{} *)
| TPtr (t : ftype)
| TSlice (t : ftype)
| TMap (t : ftype)           (* map[string]t *)
| TStruct (fs : list (bytes * ftype)).

Inductive fval : Type :=
| FStr (s : bytes)
| FBool (b : bool)
| FInt (z : Z)               (* signed and unsigned integer kinds *)
| FFloat (m e : Z)           (* m * 10^e, normalised as VDec *)
| FNil                       (* nil pointer / slice / map / interface *)
| FPtr (v : fval)
| FSlice (l : list fval)
| FMap (kvs : list (bytes * fval))      (* keys sorted bytewise, no duplicates *)
| FStruct (fs : list (bytes * fval))    (* declaration order *)
| FAny (v : cval).                      (* interface holding a value of the dynamic type of v *)

Fixpoint zero_of (t : ftype) : fval :=
  match t with
  | TString => FStr []
  | TBool => FBool false
  | TInt _ | TUint _ => FInt 0
  | TFloat _ => FFloat 0 0
  | TAny | TPtr _ | TSlice _ | TMap _ => FNil
  | TStruct fs => FStruct (map (fun nt : bytes * ftype => (fst nt, zero_of (snd nt))) fs)
  end.

(* ---- struct tags and the tag argument mapper=<tag key> ---------------------------------- *)

(* Field types as declared in Go: a struct field carries its Go name and its struct tags (tag key, tag text), e.g.
   MaxConn int `yaml:"max_conn" json:"maxConn,omitempty"`.  Property.Unmarshall builds a FRESH decoder
   configuration per call with TagName = "yaml" and overwrites it with the tag argument  mapper=<key>  of the property
   being bound (component_definition/property.go: newDecodeConfig, unmarshallArgTagName); mapstructure then names a
   field by  strings.SplitN(field.Tag.Get(TagName), ",", 2)[0]  if that is non-empty, else by its Go name
   (decodeStructFromMap).  [erase] is that choice: which decoder a property gets depends on ITS OWN mapper argument
   only - never on what was bound before it, in this or an earlier start of the process. *)
Inductive gtype : Type :=
| GString
| GBool
| GInt (bits : Z)
| GUint (bits : Z)
| GFloat (bits : Z)
| GAny
| GPtr (t : gtype)
| GSlice (t : gtype)
| GMap (t : gtype)
| GStruct (fs : list (bytes * list (bytes * bytes) * gtype)).   (* Go name, struct tags (key, text), type *)

Definition lit_yaml : bytes := [121;97;109;108]%N.
Definition lit_mapstructure : bytes := [109;97;112;115;116;114;117;99;116;117;114;101]%N.
Definition lit_mapper_arg : bytes := [44;109;97;112;112;101;114;61]%N.          (* ",mapper=" *)

(* reflect.StructTag.Get *)
Fixpoint tag_get (key : bytes) (tags : list (bytes * bytes)) : bytes :=
  match tags with
  | [] => []
  | (k, text) :: r => if beqb k key then text else tag_get key r
  end.

(* the name mapstructure matches configuration keys against *)
Definition match_name (tagkey go : bytes) (tags : list (bytes * bytes)) : bytes :=
  match fst (split_first b_comma (tag_get tagkey tags)) with
  | [] => go
  | n => n
  end.

(* DecoderConfig.TagName of the decoder that binds a property: "yaml" unless the property's own tag says
   mapper=<key>; an empty TagName is mapstructure's default "mapstructure" (NewDecoder) *)
Definition decoder_tag (mapper : option bytes) : bytes :=
  match mapper with
  | None => lit_yaml
  | Some [] => lit_mapstructure
  | Some m => m
  end.

Fixpoint erase (tagkey : bytes) (g : gtype) {struct g} : ftype :=
  match g with
  | GString => TString
  | GBool => TBool
  | GInt b => TInt b
  | GUint b => TUint b
  | GFloat b => TFloat b
  | GAny => TAny
  | GPtr t => TPtr (erase tagkey t)
  | GSlice t => TSlice (erase tagkey t)
  | GMap t => TMap (erase tagkey t)
  | GStruct fs =>
    TStruct ((fix go (fs : list (bytes * list (bytes * bytes) * gtype)) : list (bytes * ftype) :=
                match fs with
                | [] => []
                | (n, tags, t) :: r => (match_name tagkey n tags, erase tagkey t) :: go r
                end) fs)
  end.

(* the field type a property is decoded into *)
Definition bound_type (mapper : option bytes) (g : gtype) : ftype := erase (decoder_tag mapper) g.

(* ---- numbers ---------------------------------------------------------------------------- *)

(* float64(z) in the decimal abstraction: the normalised decimal of an integer *)
Definition dec_of_Z (z : Z) : cval := mk_dec (z <? 0) (digits_of_N (Z.to_N (Z.abs z))) 0.

Definition two53 : Z := 9007199254740992.

(* the float64 nearest to an integer (round half to even on a 53-bit significand); integers up to
   2^53 in magnitude are exact *)
Definition round53 (z : Z) : Z :=
  let a := Z.abs z in
  if a <=? two53 then z else
  let k := Z.log2 a - 52 in
  let q := a / 2 ^ k in
  let r := a mod 2 ^ k in
  let half := 2 ^ (k - 1) in
  let q' := if r <? half then q else if half <? r then q + 1 else if Z.even q then q else q + 1 in
  (if z <? 0 then -1 else 1) * (q' * 2 ^ k).

(* int64(f) for the float64 f that the decimal m * 10^e denotes: truncation toward zero (|f| < 2^63) *)
Definition dec_trunc (m e : Z) : Z :=
  if 0 <=? e then round53 (m * 10 ^ e) else Z.quot m (10 ^ (- e)).

(* reflect.Value.SetInt / SetUint on a narrower kind keep the low bits *)
Definition wrap_int (bits z : Z) : Z :=
  let r := z mod 2 ^ bits in if r <? 2 ^ (bits - 1) then r else r - 2 ^ bits.
Definition wrap_uint (bits z : Z) : Z := z mod 2 ^ bits.

(* strconv.FormatFloat(f, 'f', -1, 64) is Strconv.fmt_float_f (shared with the ${} callback of C16) *)

Definition Z_of_digits (s : bytes) : Z := Z.of_N (N_of_digits s).
Definition Z_of_octal (s : bytes) : Z :=
  Z.of_N (fold_left (fun acc d => N.add (N.mul acc 8) (N.sub d 48)) s 0%N).

(* unsigned body of strconv.ParseInt(s, 0, _) on the modelled texts: decimal, or octal after a
   leading 0; everything else that reaches here is a syntax error *)
Definition parse_uint_body (body : bytes) : option Z :=
  match body with
  | [] => None
  | [c] => if is_digit c then Some (Z_of_digits body) else None
  | c :: r =>
    if negb (forallb is_digit body) then None
    else if N.eqb c 48 then (if forallb (fun d => N.ltb d 56) r then Some (Z_of_octal r) else None)
    else Some (Z_of_digits body)
  end.

(* case dataKind == reflect.String of decodeInt: "" counts as "0"; ParseInt(str, 0, bits) *)
Definition str_to_int (bits : Z) (s : bytes) : res fval :=
  match s with
  | [] => Ok (FInt 0)
  | _ =>
    let (neg, body) := unsign s in
    match parse_uint_body body with
    | Some u =>
      let z := if neg then - u else u in
      if (- 2 ^ (bits - 1) <=? z) && (z <? 2 ^ (bits - 1)) then Ok (FInt z) else Err
    | None => Err
    end
  end.

(* ParseUint accepts no sign *)
Definition str_to_uint (bits : Z) (s : bytes) : res fval :=
  match s with
  | [] => Ok (FInt 0)
  | _ =>
    match parse_uint_body s with
    | Some u => if u <? 2 ^ bits then Ok (FInt u) else Err
    | None => Err
    end
  end.

(* texts on which str_to_int / str_to_uint are claimed faithful: "", proper decimal / octal digit
   strings, texts whose first byte after the sign is no digit, and texts containing a byte that no
   integer syntax of Go uses (hex, 0b, 0o and underscore forms are left out) *)
Definition int_syntax_byte (c : N) : bool :=
  is_digit c || (N.leb 65 c && N.leb c 90) || (N.leb 97 c && N.leb c 122) || N.eqb c 95.
Definition str_int_modelled (s : bytes) : bool :=
  let body := snd (unsign s) in
  match body with
  | [] => true
  | c :: _ => negb (is_digit c) || forallb is_digit body || negb (forallb int_syntax_byte body)
  end.

(* strconv.ParseBool *)
Definition parse_bool (s : bytes) : option bool :=
  if beqb s [49]%N || beqb s [116]%N || beqb s [84]%N || beqb s [84;82;85;69]%N
     || beqb s lit_true || beqb s [84;114;117;101]%N then Some true
  else if beqb s [48]%N || beqb s [102]%N || beqb s [70]%N || beqb s [70;65;76;83;69]%N
     || beqb s lit_false || beqb s [70;97;108;115;101]%N then Some false
  else None.

Definition fval_of_dec (v : cval) : fval :=
  match v with VDec m e => FFloat m e | _ => FFloat 0 0 end.

(* case dataKind == reflect.String of decodeFloat on the modelled texts: the language of
   strconv2's numberReg parses as that number; a text with a byte outside [0-9A-Za-z+-._] or
   without any digit that is not inf/infinity/nan is a syntax error *)
Definition str_to_float (s : bytes) : res fval :=
  match s with
  | [] => Ok (FFloat 0 0)
  | _ => if is_number s then Ok (fval_of_dec (parse_number s)) else Err
  end.

Definition float_syntax_byte (c : N) : bool :=
  int_syntax_byte c || N.eqb c b_plus || N.eqb c b_minus || N.eqb c b_dot.
Definition lit_inf : bytes := [105;110;102]%N.
Definition lit_infinity : bytes := [105;110;102;105;110;105;116;121]%N.
Definition lit_nan : bytes := [110;97;110]%N.
Definition str_float_modelled (s : bytes) : bool :=
  match s with
  | [] => true
  | _ =>
    (is_number s && negb (neg_zero s))
    || negb (forallb float_syntax_byte s)
    || (negb (existsb is_digit s)
        && let b := map lower_ascii (snd (unsign s)) in
           negb (beqb b lit_inf || beqb b lit_infinity || beqb b lit_nan))
  end.

(* ---- sequencing ------------------------------------------------------------------------- *)

Fixpoint res_all {A} (l : list (res A)) : res (list A) :=
  match l with
  | [] => Ok []
  | x :: r =>
    match x, res_all r with
    | Panic, _ => Panic
    | _, Panic => Panic
    | Ok a, Ok l' => Ok (a :: l')
    | _, _ => Err
    end
  end.

Definition rmap {A B} (f : A -> B) (r : res A) : res B :=
  match r with Ok a => Ok (f a) | Err => Err | Panic => Panic end.

(* struct field lookup: exact key first, else strings.EqualFold = ASCII case-insensitive here *)
Fixpoint map_get_fold (name : bytes) (m : list (bytes * cval)) : option cval :=
  match m with
  | [] => None
  | (k, v) :: r => if beqb (map lower_ascii k) (map lower_ascii name) then Some v else map_get_fold name r
  end.
Definition field_lookup (name : bytes) (m : list (bytes * cval)) : option cval :=
  match map_get name m with
  | Some v => Some v
  | None => map_get_fold name m
  end.

(* the map a map-typed field holds, as a key-sorted association list (later assignment wins) *)
Fixpoint fmap_set (k : bytes) (v : fval) (m : list (bytes * fval)) : list (bytes * fval) :=
  match m with
  | [] => [(k, v)]
  | (k', v') :: r =>
    if beqb k k' then (k, v) :: r
    else if bleb k k' then (k, v) :: (k', v') :: r
    else (k', v') :: fmap_set k v r
  end.
Definition fmap_of (kvs : list (bytes * fval)) : list (bytes * fval) :=
  fold_left (fun acc kv => fmap_set (fst kv) (snd kv) acc) kvs [].

(* ---- scalar conversions (WeaklyTypedInput = true) ---------------------------------------- *)

Definition to_string (v : cval) : res fval :=
  match v with
  | VStr s => Ok (FStr s)
  | VBool b => Ok (FStr [if b then 49%N else 48%N])                (* "1" / "0" *)
  | VInt z => Ok (FStr (digits_of_Z z))                            (* FormatInt(i, 10) *)
  | VDec m e => Ok (FStr (fmt_float_f m e))                        (* FormatFloat(f, 'f', -1, 64) *)
  | _ => Err
  end.

Definition to_bool (v : cval) : res fval :=
  match v with
  | VBool b => Ok (FBool b)
  | VInt z => Ok (FBool (negb (z =? 0)))
  | VDec m _ => Ok (FBool (negb (m =? 0)))
  | VStr s => match parse_bool s with
              | Some b => Ok (FBool b)
              | None => match s with [] => Ok (FBool false) | _ => Err end
              end
  | _ => Err
  end.

Definition to_int (bits : Z) (v : cval) : res fval :=
  match v with
  | VInt z => Ok (FInt (wrap_int bits z))
  | VDec m e => Ok (FInt (wrap_int bits (dec_trunc m e)))          (* int64(f), then SetInt *)
  | VBool b => Ok (FInt (if b then 1 else 0))
  | VStr s => str_to_int bits s
  | _ => Err
  end.

Definition to_uint (bits : Z) (v : cval) : res fval :=
  match v with
  | VInt z => Ok (FInt (wrap_uint bits z))                         (* uint64(i): weak mode accepts negatives *)
  | VDec m e => Ok (FInt (wrap_uint bits (dec_trunc m e)))         (* uint64(f) *)
  | VBool b => Ok (FInt (if b then 1 else 0))
  | VStr s => str_to_uint bits s
  | _ => Err
  end.

Definition to_float (v : cval) : res fval :=
  match v with
  | VInt z => Ok (fval_of_dec (dec_of_Z z))
  | VDec m e => Ok (FFloat m e)
  | VBool b => Ok (if b then FFloat 1 0 else FFloat 0 0)
  | VStr s => str_to_float s
  | _ => Err
  end.

Definition is_byte_type (t : ftype) : bool :=
  match t with TUint 8 => true | _ => false end.

(* ---- decode_weak -------------------------------------------------------------------------- *)

(* decoding into the zero value of T.  decode(nil) sets nothing: the zero value stays. *)
Fixpoint dw (T : ftype) (v : cval) {struct T} : res fval :=
  match v with
  | VNull => Ok (zero_of T)
  | _ =>
    match T with
    | TString => to_string v
    | TBool => to_bool v
    | TInt b => to_int b v
    | TUint b => to_uint b v
    | TFloat _ => to_float v
    | TAny => Ok (FAny v)                                  (* decodeBasic on a nil interface: val.Set(data) *)
    | TPtr t => rmap FPtr (dw t v)
    | TSlice t =>
      match v with
      | VList l => rmap FSlice (res_all (map (dw t) l))
      | VMap [] => Ok (FSlice [])                          (* empty maps turn into empty slices *)
      | VStr s => if is_byte_type t then Ok (FSlice (map (fun c => FInt (Z.of_N c)) s))
                  else rmap (fun x => FSlice [x]) (dw t v)
      | _ => rmap (fun x => FSlice [x]) (dw t v)           (* a single value is lifted into a slice of one *)
      end
    | TMap t =>
      match v with
      | VMap kvs =>
        rmap (fun l => FMap (fmap_of l))
             (res_all (map (fun kv : bytes * cval => rmap (fun x => (fst kv, x)) (dw t (snd kv))) kvs))
      | VList l =>
        (* decodeMapFromSlice: every element is decoded into the same map; [] gives an empty map *)
        match l with
        | [] => Ok (FMap [])
        | _ =>
          let one (acc : res (option (list (bytes * fval)))) (x : cval) :=
            match acc with
            | Ok a =>
              match x with
              | VNull => Ok a
              | VMap kvs =>
                match res_all (map (fun kv : bytes * cval => rmap (fun y => (fst kv, y)) (dw t (snd kv))) kvs) with
                | Ok l' => Ok (Some (fold_left (fun m kv => fmap_set (fst kv) (snd kv) m) l'
                                               (match a with Some m => m | None => [] end)))
                | Err => Err
                | Panic => Panic
                end
              | _ => Err
              end
            | _ => acc
            end in
          match fold_left one l (Ok None) with
          | Ok (Some m) => Ok (FMap m)
          | Ok None => Ok FNil
          | Err => Err
          | Panic => Panic
          end
        end
      | _ => Err
      end
    | TStruct fs =>
      match v with
      | VMap kvs =>
        rmap FStruct
          ((fix go (fs : list (bytes * ftype)) : res (list (bytes * fval)) :=
              match fs with
              | [] => Ok []
              | (n, t) :: r =>
                let x := match field_lookup n kvs with
                         | Some fv => dw t fv
                         | None => Ok (zero_of t)
                         end in
                match x, go r with
                | Panic, _ => Panic
                | _, Panic => Panic
                | Ok a, Ok l' => Ok ((n, a) :: l')
                | _, _ => Err
                end
              end) fs)
      | _ => Err
      end
    end
  end.

Definition decode_weak (v : cval) (T : ftype) : res fval := dw T v.

(* ---- where decode_weak is claimed faithful ------------------------------------------------ *)

(* a float64 in the exact-decimal abstraction whose int64 conversion is defined (|f| < 2^63) *)
Definition dec_int_ok (m e : Z) : bool :=
  dec_ok m e && ((e <? 0) || (Z.abs m * 10 ^ e <? 2 ^ 62)).

Definition sig_digits (m : Z) : Z := Z.of_nat (length (digits_of_N (Z.to_N (Z.abs m)))).

Definition lower_ident_byte (c : N) : bool :=
  (N.leb 97 c && N.leb c 122) || is_digit c || N.eqb c 95.

(* float32: at most 6 significant digits survive, and the magnitude stays inside the normal range
   (beyond it SetFloat gives +-Inf / ParseFloat(s, 32) reports a range error) *)
Definition float_bits_ok (bits m e : Z) : bool :=
  (bits =? 64) ||
  ((sig_digits m <=? 6) && ((m =? 0) || ((-37 <=? e + sig_digits m - 1) && (e + sig_digits m - 1 <=? 37)))).

Definition scalar_modelled (T : ftype) (v : cval) : bool :=
  match T, v with
  | _, VNull => true
  | (TString | TBool | TAny), VDec m e => dec_ok m e
  | (TString | TAny), _ => true
  | TBool, VStr _ => true
  | TBool, _ => true
  | TInt _, VDec m e => dec_int_ok m e
  | TUint _, VDec m e => dec_int_ok m e && (0 <=? m)          (* uint64 of a negative float is platform-defined: kept out *)
  | (TInt _ | TUint _), VStr s => str_int_modelled s
  | TFloat b, VInt z => (Z.abs z <=? two53) && float_bits_ok b (match dec_of_Z z with VDec m _ => m | _ => 0 end) 0
  | TFloat b, VDec m e => dec_ok m e && float_bits_ok b m e
  | TFloat b, VStr s => str_float_modelled s &&
                        match parse_number s with
                        | VDec m e => if is_number s then dec_ok m e && float_bits_ok b m e else true
                        | _ => true
                        end
  | _, _ => true
  end.

Fixpoint dw_modelled (T : ftype) (v : cval) {struct T} : bool :=
  match v with
  | VNull => true
  | _ =>
    match T with
    | TPtr t => dw_modelled t v
    | TSlice t =>
      match v with
      | VList l => forallb (dw_modelled t) l
      | VMap [] => true
      | _ => dw_modelled t v
      end
    | TMap t =>
      match v with
      | VMap kvs => forallb (fun kv : bytes * cval => dw_modelled t (snd kv)) kvs
      | VList l => forallb (fun x => match x with
                                     | VMap kvs => forallb (fun kv : bytes * cval => dw_modelled t (snd kv)) kvs
                                     | VNull => true
                                     | VList _ => false      (* nested lists recurse in the code: not modelled *)
                                     | _ => true
                                     end) l
      | _ => true
      end
    | TStruct fs =>
      match v with
      | VMap kvs =>
        forallb (fun kv : bytes * cval => forallb lower_ident_byte (fst kv)) kvs &&
        (fix go (fs : list (bytes * ftype)) : bool :=
           match fs with
           | [] => true
           | (n, t) :: r =>
             match field_lookup n kvs with Some fv => dw_modelled t fv | None => true end && go r
           end) fs
      | _ => true
      end
    | TAny => val_in_fragment v
    | _ => scalar_modelled T v
    end
  end.

(* ---- the routes ----------------------------------------------------------------------------- *)

(* prefix:"key"   (req = IsRequired(): no  required=false  argument) *)
Definition bind_prefix_r (req : bool) (v : cval) (T : ftype) : res fval :=
  match v with
  | VNull => if req then Err else Ok (zero_of T)
  | _ => decode_weak v T
  end.
Definition bind_prefix (v : cval) (T : ftype) : res fval := bind_prefix_r true v T.

(* value:"text" after the placeholder stages: an empty TagVal is "required" or skipped *)
Definition bind_value_r (req : bool) (text : bytes) (T : ftype) : res fval :=
  match text with
  | [] => if req then Err else Ok (zero_of T)
  | _ => rbind (parse_any text) (fun v => decode_weak v T)
  end.
Definition bind_value (text : bytes) (T : ftype) : res fval := bind_value_r true text T.

(* FormatAny as the ${} callback applies it is Strconv.format_cfg:  [fx] = repair D-C17g (fixes/D-C17g.diff), a
   float64 is spliced in plain digits, strconv.FormatFloat(f, 'f', -1, 64), instead of %v's exponent form *)

(* the value route for a configured value: format, then the text is bound *)
Definition bind_formatted (fx : bool) (v : cval) (T : ftype) : res fval :=
  rbind (format_cfg fx v) (fun text => bind_value text T).

Definition ph (key : bytes) : bytes := b_dollar :: b_lbrace :: key ++ [b_rbrace].

(* key[:default] - the body of a placeholder that carries a default, ${key:default}, and the prop shorthand
   prop:"key:default"; the default is for keys that are [absent] (Placeholder.v) *)
Definition key_dflt (key : bytes) (dflt : option bytes) : bytes :=
  match dflt with Some d => key ++ b_colon :: d | None => key end.

(* the callback handed to ReplaceAllContent is Placeholder.resolve, whose first argument is the variant of the
   tree at hand; the name of earlier rounds is kept as an abbreviation *)
Notation resolve_fx := resolve (only parsing).

(* no  #{...}  left in the text: the expression stage (C18) leaves it alone *)
Definition expr_free (text : bytes) : bool :=
  match find_first b_hash text with None => true | Some _ => false end.

(* value:"<tagstr>" through the ${} stage (ReplaceAllContent with its substitution budget; on texts whose
   substitution ends, the unrepaired loop gives the same), the #{} stage on expression-free texts, and the
   binding stage.  A text that still holds  #{...}  goes to expr-lang, which this model does not cover: [None]. *)
Definition bind_tag_value (fx : bool) (cfg : bytes -> cval) (req : bool) (tagstr : bytes) (T : ftype)
  : option (res fval) :=
  let bound text := if expr_free text then Some (bind_value_r req text T) else None in
  match find_first b_dollar tagstr with
  | None => bound tagstr
  | Some _ =>
    match replace_all_content b_dollar (resolve fx cfg) (Some repo_budget) O tagstr with
    | Done text => bound text
    | Panicked => Some Panic
    | _ => Some Err
    end
  end.

Definition bind_key_value (fx : bool) (cfg : bytes -> cval) (key : bytes) (T : ftype) : option (res fval) :=
  bind_tag_value fx cfg true (ph key) T.

(* prop:"tag": the ExtractHandler's rewrite of the whole tag text, then NewProperty's split *)
Definition prop_rewrite (tag : bytes) : bytes :=
  let i := index_skip b_comma tag in
  if i <? 0 then b_dollar :: b_lbrace :: tag ++ [b_rbrace]
  else b_dollar :: b_lbrace :: firstn (Z.to_nat i) tag ++ b_rbrace :: skipn (Z.to_nat i) tag.

(* TagArg.Parse: the value part is the text before the first top-level comma *)
Definition tag_value_part (tag : bytes) : bytes :=
  match split_blocks b_comma tag with x :: _ => x | [] => [] end.

(* ",required=false" among the arguments (the only argument the binding stages read here) *)
Definition lit_req_false : bytes := [44;114;101;113;117;105;114;101;100;61;102;97;108;115;101]%N.

Definition bind_prop (fx : bool) (cfg : bytes -> cval) (req : bool) (tag : bytes) (T : ftype) : option (res fval) :=
  bind_tag_value fx cfg req (tag_value_part (prop_rewrite tag)) T.

(* ---- the domain of the agreement theorem ------------------------------------------------------ *)

(* ints become float64 on the value path *)
Fixpoint floatify (v : cval) : cval :=
  match v with
  | VInt z => dec_of_Z z
  | VList l => VList (map floatify l)
  | VMap kvs => VMap (map (fun kv : bytes * cval => (fst kv, floatify (snd kv))) kvs)
  | _ => v
  end.

(* bytes that encoding/json writes as themselves and the model's JSON reader accepts *)
Definition json_plain_byte (c : N) : bool :=
  printable c && negb (N.eqb c b_dquote || N.eqb c b_bslash || N.eqb c b_lt || N.eqb c b_gt || N.eqb c b_amp).
Definition json_plain (s : bytes) : bool := forallb json_plain_byte s.

Definition int_safe (z : Z) : bool := Z.abs z <=? two53.

(* a float64 in normal form (VDec 0 0, or a significand not divisible by ten) ... *)
Definition dec_normal (m e : Z) : bool := if m =? 0 then e =? 0 else negb (m mod 10 =? 0).
(* ... its decimal exponent (position of the first significant digit) ... *)
Definition dec_exp (m e : Z) : Z := sig_digits m + e - 1.
(* ... of a magnitude that %v writes in plain digits (1e-4 <= |x| < 1e6: numberReg's language) ... *)
Definition dec_top_safe (m e : Z) : bool :=
  dec_normal m e && ((m =? 0) || ((-4 <=? dec_exp m e) && (dec_exp m e <? 6))).
(* ... or that encoding/json writes in plain digits (1e-6 <= |x| < 1e21) *)
Definition dec_json_safe (m e : Z) : bool :=
  dec_normal m e && ((m =? 0) || ((-6 <=? dec_exp m e) && (dec_exp m e <? 21))).

(* strictly increasing keys (checked pairwise): the canonical presentation of a Go map *)
Fixpoint keys_sorted (ks : list bytes) : bool :=
  match ks with
  | [] => true
  | k :: r => forallb (fun k' => bleb k k' && negb (beqb k k')) r && keys_sorted r
  end.

(* values whose JSON text (inside a list or map) is read back as [floatify v] *)
Fixpoint jsafe (v : cval) : bool :=
  match v with
  | VNull | VBool _ => true
  | VInt z => int_safe z
  | VDec m e => dec_json_safe m e
  | VStr s => json_plain s
  | VList l => forallb jsafe l
  | VMap kvs => keys_sorted (map fst kvs)
                && forallb (fun kv : bytes * cval => json_plain (fst kv) && jsafe (snd kv)) kvs
  end.

Fixpoint no_int (v : cval) : bool :=
  match v with
  | VInt _ => false
  | VList l => forallb no_int l
  | VMap kvs => forallb (fun kv : bytes * cval => no_int (snd kv)) kvs
  | _ => true
  end.

(* a number may end in this type without a change of meaning: not an interface *)
Fixpoint int_target (T : ftype) : bool :=
  match T with
  | TAny => false
  | TPtr t | TSlice t => int_target t
  | _ => true
  end.

(* [nsafe T v]: decoding [floatify v] into T gives what decoding v gives *)
Fixpoint nsafe (T : ftype) (v : cval) {struct T} : bool :=
  match v with
  | VNull | VBool _ | VStr _ | VDec _ _ => true
  | VInt _ => int_target T
  | VList l =>
    match T with
    | TPtr t => nsafe t v
    | TSlice t => forallb (nsafe t) l
    | _ => no_int v
    end
  | VMap kvs =>
    match T with
    | TPtr t => nsafe t v
    | TSlice t => match kvs with [] => true | _ => nsafe t v end
    | TMap t => forallb (fun kv : bytes * cval => nsafe t (snd kv)) kvs
    | TStruct fs =>
      (fix go (fs : list (bytes * ftype)) : bool :=
         match fs with
         | [] => true
         | (n, t) :: r => match field_lookup n kvs with Some fv => nsafe t fv | None => true end && go r
         end) fs
    | _ => no_int v
    end
  end.

(* the domain of c17_paths_agree; with the repair D-C17g floats of every magnitude are in *)
Definition safe (fx : bool) (v : cval) (T : ftype) : bool :=
  match v with
  | VNull => false
  | VBool _ => true
  | VStr s => plain s && negb (beqb s [])
  | VInt z => int_safe z && int_target T
  | VDec m e => if fx then dec_normal m e else dec_top_safe m e
  | VList _ | VMap _ => jsafe v && nsafe T v
  end.

(* neither sigil occurs: the placeholder and expression stages leave the text alone *)
Definition inert (text : bytes) : bool :=
  forallb (fun c => negb (N.eqb c b_dollar || N.eqb c b_hash)) text.

(* ---- "already of the field's type": the reading of the property that needs no conversion ---- *)

Fixpoint opt_all {A} (l : list (option A)) : option (list A) :=
  match l with
  | [] => Some []
  | x :: r => match x, opt_all r with Some a, Some b => Some (a :: b) | _, _ => None end
  end.

(* [embed T v = Some f]: v is a value of type T as it stands (strings into string fields, bools into
   bool, ints into int, float64 into float64, lists into slices, maps into maps and into structs
   whose fields are all supplied under their own names, anything into interface{}); f is that value. *)
Fixpoint embed (T : ftype) (v : cval) {struct T} : option fval :=
  match T with
  | TString => match v with VStr s => Some (FStr s) | _ => None end
  | TBool => match v with VBool b => Some (FBool b) | _ => None end
  | TInt b => match v with VInt z => if (b =? 64) && int_ok z then Some (FInt z) else None | _ => None end
  | TUint _ => None
  | TFloat b => match v with VDec m e => if b =? 64 then Some (FFloat m e) else None | _ => None end
  | TAny => match v with VNull => None | _ => Some (FAny v) end
  | TPtr t => match v with VNull => None | _ => option_map FPtr (embed t v) end
  | TSlice t => match v with
                | VList l => option_map FSlice (opt_all (map (embed t) l))
                | _ => None
                end
  | TMap t => match v with
              | VMap kvs =>
                option_map (fun l => FMap (fmap_of l))
                  (opt_all (map (fun kv : bytes * cval => option_map (fun x => (fst kv, x)) (embed t (snd kv))) kvs))
              | _ => None
              end
  | TStruct fs =>
    match v with
    | VMap kvs =>
      option_map FStruct
        ((fix go (fs : list (bytes * ftype)) : option (list (bytes * fval)) :=
            match fs with
            | [] => Some []
            | (n, t) :: r =>
              match map_get n kvs with
              | Some fv => match embed t fv, go r with Some a, Some l' => Some ((n, a) :: l') | _, _ => None end
              | None => None
              end
            end) fs)
    | _ => None
    end
  end.
