(* C02 oracle and non-triviality on wiring cases. Correspondence: Corr/Wiring.v [wcheck];
   oracles: Corr/WiringOracles.v (static scenario data + the implementation's observation only). *)
From Coq Require Import List Arith Bool.
From IocVerif Require Import Model.App Corr.Wiring Corr.WiringOracles Corr.WiringFacts Proofs.FactoryNoPanic Proofs.FactoryWiring Proofs.FactoryLiveness.
Import ListNotations.

Definition check_case : wcase -> bool := wcheck.

(* terminates without panic/crash/hang; never wired to itself; satisfiable graphs without substitution or faults start with every required point populated *)
(* the hypotheses of theorem c02_cycles_succeed, evaluated on the scenario: whenever they hold the
   IMPLEMENTATION must have started successfully (the theorem says the model does) *)
Definition live_hyp (c : wcase) : bool :=
  let s := normalise repaired (w_scn c) in
  negb (has_extras c) && no_subst_b s && no_faults_b s && satisfiable_b repaired s && procs_pointless_b s && stages_ok_b s.

Definition oracle_case (c : wcase) : bool := (if live_hyp c then ok_start c else true) && oracle_clean_outcome c && oracle_never_self c && oracle_cycles_succeed c && (if no_substitution c then oracle_points c else true).

Definition nontrivial (c : wcase) : bool := has_cycle c.

Definition mismatches (cs : list wcase) : list nat := wmismatches cs.
Definition violations (cs : list wcase) : list nat :=
  map w_id (filter (fun c => negb (oracle_case c)) cs).
Definition count_nontrivial (cs : list wcase) : list nat := [length (filter nontrivial cs)].
Definition count_live_hyp (cs : list wcase) : list nat := [length (filter (fun c => live_hyp c && has_cycle c) cs)].
