(* C02 oracle and non-triviality on wiring cases. Correspondence: Corr/Wiring.v [wcheck];
   oracles: Corr/WiringOracles.v (static scenario data + the implementation's observation only). *)
From Coq Require Import List Arith Bool.
From IocVerif Require Import Model.App Corr.Wiring Corr.WiringOracles.
Import ListNotations.

Definition check_case : wcase -> bool := wcheck.

(* terminates without panic/crash/hang; never wired to itself; satisfiable graphs without substitution or faults start with every required point populated *)
Definition oracle_case (c : wcase) : bool := oracle_clean_outcome c && oracle_never_self c && oracle_cycles_succeed c && (if no_substitution c then oracle_points c else true).

Definition nontrivial (c : wcase) : bool := has_cycle c.

Definition mismatches (cs : list wcase) : list nat := wmismatches cs.
Definition violations (cs : list wcase) : list nat :=
  map w_id (filter (fun c => negb (oracle_case c)) cs).
Definition count_nontrivial (cs : list wcase) : list nat := [length (filter nontrivial cs)].
