(* C05 oracle and non-triviality on wiring cases. Correspondence: Corr/Wiring.v [wcheck_obs];
   oracles: Corr/WiringOracles.v (static scenario data + the implementation's observation only). *)
From Coq Require Import List Arith Bool.
From IocVerif Require Import Model.App Corr.Wiring Corr.WiringOracles.
Import ListNotations.

Definition check_case : wcase -> bool := wcheck_obs.

(* populate, then before / AfterPropertiesSet / Init / after exactly once; dependencies first; lazy only if needed *)
Definition oracle_case (c : wcase) : bool := oracle_lifecycle c.

Definition nontrivial (c : wcase) : bool := ok_start c && (1 <=? count_points c (fun h kp => negb (Nat.eqb (length (obs_field (w_obs c) h (fst kp))) 0))) && existsb (fun e => match e with EvInit _ => true | _ => false end) (ob_log (w_obs c)).

Definition mismatches (cs : list wcase) : list nat := wmismatches_obs cs.
Definition violations (cs : list wcase) : list nat :=
  map w_id (filter (fun c => negb (oracle_case c)) cs).
Definition count_nontrivial (cs : list wcase) : list nat := [length (filter nontrivial cs)].
