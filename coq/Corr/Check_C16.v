(* Correspondence and oracle for C16, evaluated by vm_compute on cases written by the harness.

   kinds of cases
     0  direct   el.NewQuote()/NewExpr().ReplaceAllContent(cin, f), f given as a table
     1  e2e      a real App.Run; cin = TagStr as the real ${} processor read it, ccfg = the
                 configuration as a table path -> value (built by the generator from its own tree),
                 cobs = TagVal right after the ${} processor (observer at Priority Order 5) or the
                 outcome class (error / panic / hang)
     2  strconv  strconv2.ParseAny(cin) = cvobs, FormatAny of it = cobs
     3  format   strconv2.FormatAny(cvobs) = cobs, cvobs read back from the real Configure

     hist (record hcase)  ONE Configure over time: resolutions of tag texts (through the real ${} processor bound
                 to that Configure: called directly, or by a new App.Run on the shared Configure, or for
                 successive components of one App.Run), Configure.Set and Configure.Get in any order.  The
                 configuration is the model's store (Model/ConfigStore.v: vget / vset), not a table.

   cfix = the variant of the ${} callback the tree under test has, read off the running code by a facts probe
   (tools/props/c16.py): true = repair D-C17g (a float64 is spliced by FormatFloat(f,'f',-1,64)), false = the
   unrepaired callback (FormatAny).  Kinds 2 and 3 call strconv2 directly and do not depend on it. *)
From Coq Require Import List NArith ZArith Bool Arith.
From IocVerif Require Import Model.Strconv Model.Placeholder Model.ConfigStore.
Import ListNotations.

Record case := mkCase {
  cid : nat;
  ckind : nat;
  csig : N;
  ctable : list (bytes * res bytes);
  ccfg : list (bytes * cval);
  cin : bytes;
  cast : list tpart;          (* the AST the generator rendered cin from; [] when there is none *)
  cstrict : bool;             (* the generator claims: cin = render cast *)
  cobs : outcome;
  cvobs : cval;
  cfix : bool
}.

Fixpoint table_get (k : bytes) (t : list (bytes * res bytes)) : res bytes :=
  match t with
  | [] => Err
  | (k', r) :: rest => if beqb k k' then r else table_get k rest
  end.
Definition table_fun (t : list (bytes * res bytes)) (k : bytes) : res bytes := table_get k t.

Definition outcome_eqb (a b : outcome) : bool :=
  match a, b with
  | Done x, Done y => beqb x y
  | Failed, Failed => true
  | Panicked, Panicked => true
  | Exhausted, Failed => true       (* the budget error is an error return for the caller *)
  | Exhausted, Exhausted => true
  | OutOfFuel, OutOfFuel => true
  | _, _ => false
  end.

Definition model_fun (c : case) : bytes -> res bytes :=
  match ckind c with
  | 0%nat => table_fun (ctable c)
  | _ => resolve (cfix c) (cfg_of (ccfg c))
  end.

Definition model_out (c : case) : outcome :=
  replace_all_content (csig c) (model_fun c) (Some repo_budget) 0 (cin c).

(* the run of the model stays inside the modelled fragment of strconv2 (Model/Strconv.v): every
   default that is parsed satisfies text_in_fragment (e.g. at most 15 significant digits), every
   configured value that is rendered satisfies val_in_fragment *)
Definition step_in_fragment (cfg : bytes -> cval) (exp : bytes) : bool :=
  let (key, dflt) := split_first b_colon exp in
  let v := cfg key in
  if absent v then
    match dflt with
    | Some (c :: d) => text_in_fragment (c :: d)
    | _ => true
    end
  else val_in_fragment v.

Fixpoint rac_in_fragment (fx : bool) (cfg : bytes -> cval) (fuel : nat) (s : bytes) : bool :=
  match find_first b_dollar s with
  | None => true
  | Some (i, n) =>
    match fuel with
    | O => true
    | S k =>
      let elr := firstn n (skipn i s) in
      step_in_fragment cfg (content elr) &&
        match resolve fx cfg (content elr) with
        | Ok r => rac_in_fragment fx cfg k (replace_first s elr r)
        | _ => true
        end
    end
  end.

Definition e2e_in_fragment (c : case) : bool := rac_in_fragment (cfix c) (cfg_of (ccfg c)) repo_budget (cin c).

Definition check_case (c : case) : bool :=
  match ckind c with
  | 0%nat => outcome_eqb (model_out c) (cobs c)
  | 1%nat => if e2e_in_fragment c then outcome_eqb (model_out c) (cobs c) else true
  | 2%nat =>
    if text_in_fragment (cin c) then
      match parse_any (cin c), cobs c with
      | Ok v, Done t => cval_eqb v (cvobs c) && match format_any v with Ok t' => beqb t t' | _ => false end
      | Err, Failed => true
      | Panic, Panicked => true
      | _, _ => false
      end
    else true
  | _ =>
    if val_in_fragment (cvobs c) then
      match format_any (cvobs c), cobs c with
      | Ok t, Done t' => beqb t t'
      | _, _ => false
      end
    else true
  end.

(* ---- the property itself, on the implementation's observation ------------------------- *)

(* the literal reading of the property: the configured value when one is present (nil, empty map,
   empty list count as absent), otherwise the default text as written; without a default the
   (empty) configured value, i.e. nothing for nil.  "The configured value" as a text is what the callback of
   the tree at hand writes for it (format_cfg: for a float64, %v's text before the repair D-C17g, plain digits
   after it; that the text reads back as the same value is C17's subject) *)
Definition spec_resolve (fx : bool) (cfg : bytes -> cval) (exp : bytes) : res bytes :=
  let (key, dflt) := split_first b_colon exp in
  let v := cfg key in
  if absent v then
    match dflt with
    | Some (c :: d) => Ok (c :: d)
    | _ => match v with VNull => Ok [] | _ => format_cfg fx v end
    end
  else format_cfg fx v.

Definition spec_fun (c : case) : bytes -> res bytes :=
  match ckind c with
  | 0%nat => table_fun (ctable c)
  | _ => spec_resolve (cfix c) (cfg_of (ccfg c))
  end.

Definition strict_applies (c : case) : bool :=
  cstrict c && beqb (render_all (csig c) (cast c)) (cin c)
  && forallb wf (cast c) && forallb (clean (spec_fun c)) (cast c)
  && Nat.leb (ph_count_all (cast c)) repo_budget.

Definition oracle_case (c : case) : bool :=
  match ckind c with
  | 0%nat | 1%nat =>
    match cobs c with
    | OutOfFuel => false                       (* never a hang *)
    | Panicked => false                        (* an error or an empty value, not a crash *)
    | _ => if strict_applies c
           then outcome_eqb (of_res (subst_all (spec_fun c) (cast c))) (cobs c)
           else true
    end
  | _ => true
  end.

Definition nontrivial (c : case) : bool :=
  match ckind c with
  | 0%nat | 1%nat => Nat.leb 2 (count_byte b_lbrace (cin c))
  | _ => false
  end.

Definition mismatches (cs : list case) : list nat :=
  map cid (filter (fun c => negb (check_case c)) cs).
Definition violations (cs : list case) : list nat :=
  map cid (filter (fun c => negb (oracle_case c)) cs).
Definition count_nontrivial (cs : list case) : list nat :=
  [length (filter nontrivial cs)].
(* cases on which the denotational oracle applied / strconv cases inside the fragment *)
Definition count_strict (cs : list case) : list nat :=
  [length (filter strict_applies cs)].
Definition count_infrag (cs : list case) : list nat :=
  [length (filter (fun c => match ckind c with
                            | 2%nat => text_in_fragment (cin c)
                            | 3%nat => val_in_fragment (cvobs c)
                            | _ => false end) cs)].

(* e2e cases in whose run a float64 was spliced on which the two variants of the callback differ (%v writes an
   exponent form): the stage repaired by D-C17g is exercised *)
Definition step_float_eform (cfg : bytes -> cval) (exp : bytes) : bool :=
  let (key, dflt) := split_first b_colon exp in
  let v := cfg key in
  match (if absent v then match dflt with Some (c :: d) => parse_any (c :: d) | _ => Ok v end else Ok v) with
  | Ok (VDec m e) => negb (beqb (fmt_float_f m e) (fmt_float_v m e))
  | _ => false
  end.

Fixpoint rac_float_eform (fx : bool) (cfg : bytes -> cval) (fuel : nat) (s : bytes) : bool :=
  match find_first b_dollar s with
  | None => false
  | Some (i, n) =>
    match fuel with
    | O => false
    | S k =>
      let elr := firstn n (skipn i s) in
      if step_float_eform cfg (content elr) then true
      else match resolve fx cfg (content elr) with
           | Ok r => rac_float_eform fx cfg k (replace_first s elr r)
           | _ => false
           end
    end
  end.

Definition count_float_eform (cs : list case) : list nat :=
  [length (filter (fun c => match ckind c with
                            | 1%nat => e2e_in_fragment c && rac_float_eform (cfix c) (cfg_of (ccfg c)) repo_budget (cin c)
                            | _ => false end) cs)].

(* ---- known-finding classes: which non-canonical default texts were actually used ---------
   (the default text can be the product of an inner substitution, so this is computed along the
   run of the model, not read off the tag).  0 = canonical; 1 number-like, 2 bool-like in another
   letter case, 3 quoted, 4 bracketed, 5 a lone quote character (ParseAny panics), 6 other *)
(* the default comes out as written: Strconv.canonical_text with the callback's formatting *)
Definition canonical_cfg (fx : bool) (s : bytes) : bool :=
  match parse_any s with
  | Ok v => match format_cfg fx v with Ok t => beqb t s | _ => false end
  | _ => false
  end.

(* a number-like default whose value lies outside the modelled float64 fragment (more than 15 significant
   digits): the model renders it exactly, the code through a float64, so "canonical" cannot be decided here;
   such a default counts as number-like (class 1) *)
Definition number_beyond_model (d : bytes) : bool :=
  is_number d && match parse_any d with Ok v => negb (val_in_fragment v) | _ => false end.

Definition default_class (fx : bool) (d : bytes) : nat :=
  if number_beyond_model d then 1%nat
  else if canonical_cfg fx d then 0%nat
  else if is_quoted d then (match d with [_] => 5%nat | _ => 3%nat end)
  else if bracketed d then 4%nat
  else if beqb (map lower_ascii d) lit_true || beqb (map lower_ascii d) lit_false then 2%nat
  else if is_number d then 1%nat
  else 6%nat.

Definition used_default_class (fx : bool) (cfg : bytes -> cval) (exp : bytes) : nat :=
  let (key, dflt) := split_first b_colon exp in
  if absent (cfg key) then
    match dflt with
    | Some (c :: d) => default_class fx (c :: d)
    | _ => 0%nat
    end
  else 0%nat.

Fixpoint rac_classes (fx : bool) (cfg : bytes -> cval) (fuel : nat) (s : bytes) : list nat :=
  match find_first b_dollar s with
  | None => []
  | Some (i, n) =>
    match fuel with
    | O => []
    | S k =>
      let elr := firstn n (skipn i s) in
      used_default_class fx cfg (content elr) ::
        match resolve fx cfg (content elr) with
        | Ok r => rac_classes fx cfg k (replace_first s elr r)
        | _ => []
        end
    end
  end.

(* for every e2e case that violates the oracle: the pair  cid, class  (flattened), one per distinct class used *)
Definition kf_codes (cs : list case) : list nat :=
  flat_map (fun c =>
    match ckind c with
    | 1%nat =>
      if oracle_case c then []
      else flat_map (fun k => [cid c; k])
               (nodup Nat.eq_dec (filter (fun k => negb (Nat.eqb k 0)) (rac_classes (cfix c) (cfg_of (ccfg c)) repo_budget (cin c))))
    | _ => []
    end) cs.

(* ---- histories on one Configure ------------------------------------------------------------------------- *)

Inductive hobs : Type :=
| OResolve (cin : bytes) (ast : list tpart) (strict : bool) (o : outcome)
    (* TagStr as the ${} processor read it; the AST the generator rendered it from; observed TagVal / outcome *)
| OSet (key : bytes) (v : cval)       (* Configure.Set(key, v) *)
| OGet (key : bytes) (v : cval).      (* Configure.Get(key) returned v (VNull = nil) *)

Record hcase := mkHCase {
  hid : nat;
  hconfig : cval;              (* the document the loaders merged (VMap; VMap [] when there is none) *)
  hsteps : list hobs;
  hfix : bool
}.

Definition store0 (c : hcase) : vstore :=
  mkStore [] (match hconfig c with VMap kvs => kvs | _ => [] end).

(* every key the run of the model looks up is one the store model covers (non-empty, no signed segment) *)
Fixpoint rac_keys_modelled (fx : bool) (cfg : bytes -> cval) (fuel : nat) (s : bytes) : bool :=
  match find_first b_dollar s with
  | None => true
  | Some (i, n) =>
    match fuel with
    | O => true
    | S k =>
      let elr := firstn n (skipn i s) in
      key_modelled (fst (split_first b_colon (content elr))) &&
        match resolve fx cfg (content elr) with
        | Ok r => rac_keys_modelled fx cfg k (replace_first s elr r)
        | _ => true
        end
    end
  end.

Definition resolve_modelled (fx : bool) (s : vstore) (cin : bytes) : bool :=
  rac_in_fragment fx (vget s) repo_budget cin && rac_keys_modelled fx (vget s) repo_budget cin.

(* model vs implementation, step by step; a Set outside the model's domain is a fault of the generator *)
Fixpoint hcheck (fx : bool) (s : vstore) (steps : list hobs) : bool :=
  match steps with
  | [] => true
  | OResolve cin _ _ o :: r =>
      (if resolve_modelled fx s cin
       then outcome_eqb (quote_stage fx (vget s) (Some repo_budget) 0 cin) o else true)
      && hcheck fx s r
  | OSet k v :: r => key_modelled k && val_modelled v && hcheck fx (vset s k v) r
  | OGet k v :: r => key_modelled k && cval_eqb (vget s k) v && hcheck fx s r
  end.

Definition check_hcase (c : hcase) : bool := cfg_modelled (hconfig c) && hcheck (hfix c) (store0 c) (hsteps c).

(* the property on the observation: never a hang, never a panic; where the tag is a clean AST the outcome is the
   denotation over the configuration AS IT IS AT THAT MOMENT (the store after the Sets made so far) *)
Definition strict_applies_f (f : bytes -> res bytes) (strict : bool) (ast : list tpart) (cin : bytes) : bool :=
  strict && beqb (render_all b_dollar ast) cin
  && forallb wf ast && forallb (clean f) ast
  && Nat.leb (ph_count_all ast) repo_budget.

Definition hstrict (fx : bool) (s : vstore) (cin : bytes) (ast : list tpart) (strict : bool) : bool :=
  strict_applies_f (spec_resolve fx (vget s)) strict ast cin && rac_keys_modelled fx (vget s) repo_budget cin.

Fixpoint horacle (fx : bool) (s : vstore) (steps : list hobs) : bool :=
  match steps with
  | [] => true
  | OResolve cin ast strict o :: r =>
      match o with
      | OutOfFuel => false
      | Panicked => false
      | _ => if hstrict fx s cin ast strict
             then outcome_eqb (of_res (subst_all (spec_resolve fx (vget s)) ast)) o
             else true
      end && horacle fx s r
  | OSet k v :: r => horacle fx (vset s k v) r
  | OGet _ _ :: r => horacle fx s r
  end.

Definition oracle_hcase (c : hcase) : bool := horacle (hfix c) (store0 c) (hsteps c).

(* non-trivial: a resolution, then a Set, then another resolution *)
Fixpoint hphase (ph : nat) (steps : list hobs) : bool :=
  match steps with
  | [] => false
  | OResolve _ _ _ _ :: r => match ph with 2%nat => true | _ => hphase 1 r end
  | OSet _ _ :: r => hphase (match ph with 0%nat => 0%nat | _ => 2%nat end) r
  | _ :: r => hphase ph r
  end.
Definition hnontrivial (c : hcase) : bool := hphase 0 (hsteps c).

Fixpoint hcount_strict_steps (fx : bool) (s : vstore) (steps : list hobs) : nat :=
  match steps with
  | [] => O
  | OResolve cin ast strict _ :: r => (if hstrict fx s cin ast strict then 1 else 0) + hcount_strict_steps fx s r
  | OSet k v :: r => hcount_strict_steps fx (vset s k v) r
  | _ :: r => hcount_strict_steps fx s r
  end.

Definition hmismatches (cs : list hcase) : list nat := map hid (filter (fun c => negb (check_hcase c)) cs).
Definition hviolations (cs : list hcase) : list nat := map hid (filter (fun c => negb (oracle_hcase c)) cs).
Definition hcount_nontrivial (cs : list hcase) : list nat := [length (filter hnontrivial cs)].
Definition hcount_strict (cs : list hcase) : list nat :=
  [list_sum (map (fun c => hcount_strict_steps (hfix c) (store0 c) (hsteps c)) cs)].
Definition hcount_resolves (cs : list hcase) : list nat :=
  [list_sum (map (fun c => length (filter (fun o => match o with OResolve _ _ _ _ => true | _ => false end) (hsteps c))) cs)].
