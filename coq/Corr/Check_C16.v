(* Correspondence and oracle for C16, evaluated by vm_compute on cases written by the harness.

   kinds of cases
     0  direct   el.NewQuote()/NewExpr().ReplaceAllContent(cin, f), f given as a table
     1  e2e      a real App.Run; cin = TagStr as the real ${} processor read it, ccfg = the
                 configuration as a table path -> value (built by the generator from its own tree),
                 cobs = TagVal right after the ${} processor (observer at Priority Order 5) or the
                 outcome class (error / panic / hang)
     2  strconv  strconv2.ParseAny(cin) = cvobs, FormatAny of it = cobs
     3  format   strconv2.FormatAny(cvobs) = cobs, cvobs read back from the real Configure *)
From Coq Require Import List NArith ZArith Bool Arith.
From IocVerif Require Import Model.Strconv Model.Placeholder.
Import ListNotations.

Record case := mkCase {
  cid : nat;
  ckind : nat;
  csig : N;
  ctable : list (bytes * res bytes);
  ccfg : list (bytes * cval);
  cin : bytes;
  cast : list tpart;          (* the AST the generator rendered cin from; [] when there is none *)
  cstrict : bool;             (* the generator claims: cin = render cast *)
  cobs : outcome;
  cvobs : cval
}.

Fixpoint table_get (k : bytes) (t : list (bytes * res bytes)) : res bytes :=
  match t with
  | [] => Err
  | (k', r) :: rest => if beqb k k' then r else table_get k rest
  end.
Definition table_fun (t : list (bytes * res bytes)) (k : bytes) : res bytes := table_get k t.

Definition outcome_eqb (a b : outcome) : bool :=
  match a, b with
  | Done x, Done y => beqb x y
  | Failed, Failed => true
  | Panicked, Panicked => true
  | Exhausted, Failed => true       (* the budget error is an error return for the caller *)
  | Exhausted, Exhausted => true
  | OutOfFuel, OutOfFuel => true
  | _, _ => false
  end.

Definition model_fun (c : case) : bytes -> res bytes :=
  match ckind c with
  | 0%nat => table_fun (ctable c)
  | _ => resolve (cfg_of (ccfg c))
  end.

Definition model_out (c : case) : outcome :=
  replace_all_content (csig c) (model_fun c) (Some repo_budget) 0 (cin c).

Definition check_case (c : case) : bool :=
  match ckind c with
  | 0%nat | 1%nat => outcome_eqb (model_out c) (cobs c)
  | 2%nat =>
    if text_in_fragment (cin c) then
      match parse_any (cin c), cobs c with
      | Ok v, Done t => cval_eqb v (cvobs c) && match format_any v with Ok t' => beqb t t' | _ => false end
      | Err, Failed => true
      | Panic, Panicked => true
      | _, _ => false
      end
    else true
  | _ =>
    if val_in_fragment (cvobs c) then
      match format_any (cvobs c), cobs c with
      | Ok t, Done t' => beqb t t'
      | _, _ => false
      end
    else true
  end.

(* ---- the property itself, on the implementation's observation ------------------------- *)

(* the literal reading of the property: the configured value when one is present (nil, empty map,
   empty list count as absent), otherwise the default text as written; without a default the
   (empty) configured value, i.e. nothing for nil *)
Definition spec_resolve (cfg : bytes -> cval) (exp : bytes) : res bytes :=
  let (key, dflt) := split_first b_colon exp in
  let v := cfg key in
  if absent v then
    match dflt with
    | Some (c :: d) => Ok (c :: d)
    | _ => match v with VNull => Ok [] | _ => format_any v end
    end
  else format_any v.

Definition spec_fun (c : case) : bytes -> res bytes :=
  match ckind c with
  | 0%nat => table_fun (ctable c)
  | _ => spec_resolve (cfg_of (ccfg c))
  end.

Definition strict_applies (c : case) : bool :=
  cstrict c && beqb (render_all (csig c) (cast c)) (cin c)
  && forallb wf (cast c) && forallb (clean (spec_fun c)) (cast c)
  && Nat.leb (ph_count_all (cast c)) repo_budget.

Definition oracle_case (c : case) : bool :=
  match ckind c with
  | 0%nat | 1%nat =>
    match cobs c with
    | OutOfFuel => false                       (* never a hang *)
    | Panicked => false                        (* an error or an empty value, not a crash *)
    | _ => if strict_applies c
           then outcome_eqb (of_res (subst_all (spec_fun c) (cast c))) (cobs c)
           else true
    end
  | _ => true
  end.

Definition nontrivial (c : case) : bool :=
  match ckind c with
  | 0%nat | 1%nat => Nat.leb 2 (count_byte b_lbrace (cin c))
  | _ => false
  end.

Definition mismatches (cs : list case) : list nat :=
  map cid (filter (fun c => negb (check_case c)) cs).
Definition violations (cs : list case) : list nat :=
  map cid (filter (fun c => negb (oracle_case c)) cs).
Definition count_nontrivial (cs : list case) : list nat :=
  [length (filter nontrivial cs)].
(* cases on which the denotational oracle applied / strconv cases inside the fragment *)
Definition count_strict (cs : list case) : list nat :=
  [length (filter strict_applies cs)].
Definition count_infrag (cs : list case) : list nat :=
  [length (filter (fun c => match ckind c with
                            | 2%nat => text_in_fragment (cin c)
                            | 3%nat => val_in_fragment (cvobs c)
                            | _ => false end) cs)].

(* ---- known-finding classes: which non-canonical default texts were actually used ---------
   (the default text can be the product of an inner substitution, so this is computed along the
   run of the model, not read off the tag).  0 = canonical; 1 number-like, 2 bool-like in another
   letter case, 3 quoted, 4 bracketed, 5 a lone quote character (ParseAny panics), 6 other *)
Definition default_class (d : bytes) : nat :=
  if canonical_text d then 0%nat
  else if is_quoted d then (match d with [_] => 5%nat | _ => 3%nat end)
  else if bracketed d then 4%nat
  else if beqb (map lower_ascii d) lit_true || beqb (map lower_ascii d) lit_false then 2%nat
  else if is_number d then 1%nat
  else 6%nat.

Definition used_default_class (cfg : bytes -> cval) (exp : bytes) : nat :=
  let (key, dflt) := split_first b_colon exp in
  if absent (cfg key) then
    match dflt with
    | Some (c :: d) => default_class (c :: d)
    | _ => 0%nat
    end
  else 0%nat.

Fixpoint rac_classes (cfg : bytes -> cval) (fuel : nat) (s : bytes) : list nat :=
  match find_first b_dollar s with
  | None => []
  | Some (i, n) =>
    match fuel with
    | O => []
    | S k =>
      let elr := firstn n (skipn i s) in
      used_default_class cfg (content elr) ::
        match resolve cfg (content elr) with
        | Ok r => rac_classes cfg k (replace_first s elr r)
        | _ => []
        end
    end
  end.

(* for every e2e case that violates the oracle: cid * 10 + class, one entry per distinct class used *)
Definition kf_codes (cs : list case) : list nat :=
  flat_map (fun c =>
    match ckind c with
    | 1%nat =>
      if oracle_case c then []
      else map (fun k => (cid c * 10 + k)%nat)
               (nodup Nat.eq_dec (filter (fun k => negb (Nat.eqb k 0)) (rac_classes (cfg_of (ccfg c)) repo_budget (cin c))))
    | _ => []
    end) cs.
