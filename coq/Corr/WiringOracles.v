(* Property oracles of the wiring family, evaluated on the IMPLEMENTATION's observation of a case.
   They use only the static description of the scenario (types, interfaces, qualifiers, names:
   Model/Resolve.v records and [type_ok]/[func_ok]/[qual_ok]) and the observation; none of them
   calls the dynamic model (do_get / run), so a defect shared by model and code is still seen.  The one exception is
   [early_created], which only delimits the CLASS of the known finding KF-C05a (which holders were created during
   PrepareComponents): it asks the model of the tree, and a case counts as known only if model and code agree on it. *)
From Coq Require Import List Arith Bool ZArith.
From IocVerif Require Import Model.App Model.FactoryX Corr.Wiring.
Import ListNotations.

Section Oracles.
  Variable c : wcase.
  Let s := w_scn c.
  Let pop := s_pop s.
  Let o := w_obs c.
  Let x := w_x c.

  (* injection points only: what a component's Init looked up by itself (pseudo-fields 100, 101, ... of cases with
     extras) is not a "holder" of C01/C03 — it is compared with the model, not judged by the oracles *)
  Definition point_fields : list ((name * nat) * list ver) :=
    filter (fun f => snd (fst f) <? 100) (ob_fields o).
  (* n can be handed to the container by a short-circuiting post-processor (then it has no lifecycle of its own) *)
  Definition short_target (n : name) : bool := existsb (fun pn => Nat.eqb (snd pn) n) (x_short x).

  Definition comp_at (n : name) : option comp := get_comp pop n.
  Definition all_names : list name := names_of pop.

  Definition ok_start : bool := outcome_eqb (ob_outcome o) OOk.

  Definition eager (n : name) : bool := negb (is_lazy pop n).

  (* components whose injection ran with the whole built-in pipeline: everything except
     post-processor components (created during PrepareComponents with a shorter pipeline) *)
  Definition is_proc (n : name) : bool :=
    match comp_at n with Some cc => match c_proc cc with Some _ => true | None => false end | None => false end.

  Definition points_of (n : name) : list (nat * point) :=
    match comp_at n with
    | Some cc => filter (fun kp => observable_point s (n, fst kp))
                        (combine (seq 0 (length (c_points cc))) (c_points cc))
    | None => []
    end.

  Definition fld (h : name) (k : nat) : list ver := obs_field o h k.

  (* statically admissible providers of an unnamed point of holder h *)
  Definition admissible (h : name) (p : point) (n : name) : bool :=
    negb (Nat.eqb n h) &&
    match comp_at n with
    | None => false
    | Some cc =>
      type_ok cc (pt_target p)
      && match pt_sel p with
         | SFunc m rets => func_ok cc m rets
         | SByName (Some m) => Nat.eqb m n
         | SByName None => false
         | SByType => true
         end
      && match pt_quals p with
         | Some qs => qual_ok pop qs n
         | None => true
         end
    end.

  Definition providers (h : name) (p : point) : list name :=
    if pt_slice p then
      match pt_sel p with SByName _ => [] | _ => filter (admissible h p) all_names end
    else filter (admissible h p) all_names.

  (* a statically admissible provider whose published object is a proxy that cannot be stored in the
     field (pointer-typed field, wrapped component): the point is outside the completeness clauses *)
  Definition unassignable_now (p : point) (n : name) : bool :=
    match lookup_of c n with
    | Some (LTVer v) => negb (assignable pop v (pt_target p))
    | _ => true
    end.
  Definition blocked (h : name) (p : point) : bool :=
    existsb (unassignable_now p) (filter (admissible h p) all_names).

  Fixpoint count_occ_name (n : name) (l : list name) : nat :=
    match l with [] => 0 | m :: r => (if Nat.eqb m n then 1 else 0) + count_occ_name n r end.

  Definition same_set (a b : list name) : bool :=
    forallb (fun x => Nat.eqb (count_occ_name x a) 1 && mem x b) a
    && forallb (fun x => mem x a) b.

  (* ---- C01 / C03: one version per component, equal to the lookup -------------------------------- *)
  (* Factory.GetComponents(), when it was issued and succeeded: one more route to the published versions.  Every
     component it returns is the version the lookup by name returned and the version every holder holds *)
  Definition bulk_vers : option (list ver) :=
    match ob_bulk o with
    | Some l => if forallb (fun t => match t with LTVer _ => true | _ => false end) l
                then Some (flat_map (fun t => match t with LTVer v => [v] | _ => [] end) l) else None
    | None => None
    end.
  Definition bulk_agrees : bool :=
    match bulk_vers with
    | Some vs =>
      forallb (fun v => match lookup_of c (owner v) with
                        | Some (LTVer v') => ver_eqb v v'
                        | _ => true        (* not looked up by name, or that lookup failed (the bulk lookup retried it) *)
                        end) vs
      && forallb (fun f => forallb (fun v => forallb (fun b => negb (Nat.eqb (owner b) (owner v)) || ver_eqb b v) vs) (snd f))
                 point_fields
    | None => true
    end.

  Definition oracle_one_version : bool :=
    if ok_start then
      forallb (fun f =>
        forallb (fun v => match lookup_of c (owner v) with
                          | Some (LTVer v') => ver_eqb v v'
                          | _ => false
                          end) (snd f)) point_fields
      && bulk_agrees
    else true.

  (* ---- never a panic / crash / hang --------------------------------------------------------------- *)
  Definition oracle_clean_outcome : bool :=
    match ob_outcome o with OOk | OErr => true | _ => false end.

  (* ---- never wired to itself ----------------------------------------------------------------------- *)
  Definition oracle_never_self : bool :=
    forallb (fun f => forallb (fun v => negb (is_self (fst (fst f)) v)) (snd f)) point_fields.

  (* ---- per-point soundness/completeness for eagerly created, fully processed holders ------------ *)
  Definition checked_holder (h : name) : bool := eager h && negb (is_proc h) && negb (short_target h).

  Definition point_ok (h : name) (kp : nat * point) : bool :=
    let (k, p) := kp in
    let got := map owner (fld h k) in
    let prov := providers h p in
    (* soundness: whatever was injected is an admissible provider *)
    forallb (fun n => mem n prov) got
    && (if blocked h p then true else
        if pt_slice p then
          (* completeness: every admissible provider exactly once *)
          same_set got prov
        else
          match prov with
          | [] => true
          | _ => Nat.eqb (length got) 1
          end)
    (* a required point of a started component is never empty *)
    && (if pt_required p then negb (Nat.eqb (length got) 0) else true).
  (* note: an unassignable named component on a REQUIRED point must fail the start (C07), which the last
     clause expresses: got would be empty *)

  Definition oracle_points : bool :=
    if ok_start then
      forallb (fun h => if checked_holder h then forallb (point_ok h) (points_of h) else true) all_names
    else true.

  (* soundness alone, for every holder that has anything injected (lazy ones included) *)
  Definition oracle_points_sound : bool :=
    forallb (fun h =>
      if is_proc h then true else
      forallb (fun kp => forallb (fun n => mem n (providers h (snd kp))) (map owner (fld h (fst kp))))
              (points_of h)) all_names.

  (* ---- C08: Primary / non-alias ranking on single-valued unnamed points --------------------------- *)
  Definition rank_ok (h : name) (kp : nat * point) : bool :=
    let (k, p) := kp in
    if pt_slice p then true else
    match pt_sel p with
    | SByName _ => true
    | _ =>
      let prov := providers h p in
      if blocked h p then true else
      if 2 <=? length prov then
        let prim := filter (is_primary pop) prov in
        let plain := filter (fun n => negb (is_alias pop n)) prov in
        match map owner (fld h k) with
        | [n] =>
          match prim with
          | [x] => Nat.eqb n x
          | [] => match plain with [x] => Nat.eqb n x | _ => true end
          | _ => mem n prim        (* several primaries: any of them *)
          end
        | _ => true
        end
      else true
    end.

  Definition oracle_rank : bool :=
    if ok_start then
      forallb (fun h => if checked_holder h then forallb (rank_ok h) (points_of h) else true) all_names
    else true.

  (* ---- C09: a successful start reached no failing callback; a failed one ran no runner ---------- *)
  Definition proc_faulty (p : name) (ph : phase) (n : name) : bool := faulty s p ph n.

  Definition event_clean (e : event) : bool :=
    match e with
    | EvEarly p n => negb (proc_faulty p PhEarly n)
    | EvBefore p n _ => negb (proc_faulty p PhBefore n)
    | EvAfter p n => negb (proc_faulty p PhAfter n)
    | EvAPS n => match comp_at n with Some cc => match c_aps cc with Some true => false | _ => true end | None => true end
    | EvInit n => match comp_at n with Some cc => match c_init cc with Some true => false | _ => true end | None => true end
    | EvRun n => negb (runner_fails s n)
    end.

  Definition is_run (e : event) : bool := match e with EvRun _ => true | _ => false end.

  Definition cfg_ok (h : name) : bool :=
    match comp_at h with
    | Some cc => forallb (fun cp => negb (cp_required cp) || cp_sat cp) (c_cpoints cc)
    | None => true
    end.

  Definition oracle_faults : bool :=
    match ob_outcome o with
    | OOk => forallb event_clean (ob_log o) && negb (s_loader_fail s)
             && forallb (fun h => if checked_holder h then cfg_ok h else true) all_names
    | OErr =>
      (* every callback before the failure succeeded; a runner ran only if the failure IS a runner's *)
      forallb event_clean (removelast (ob_log o))
      && match filter is_run (ob_log o) with
         | [] => true
         | _ => match last (ob_log o) (EvAPS 0) with
                | EvRun n => runner_fails s n
                | _ => false
                end
         end
    | _ => false
    end.

  (* ---- C05: lifecycle ----------------------------------------------------------------------------- *)
  Definition ev_comp (e : event) : option name :=
    match e with
    | EvEarly _ n => None                 (* early references are not lifecycle steps *)
    | EvBefore _ n _ | EvAfter _ n => Some n
    | EvAPS n | EvInit n => Some n
    | EvRun _ => None
    end.

  Definition sublog (l : list event) (n : name) : list event :=
    filter (fun e => match ev_comp e with Some m => Nat.eqb m n | None => false end) l.

  Definition stage (e : event) : nat :=
    match e with EvBefore _ _ _ => 0 | EvAPS _ => 1 | EvInit _ => 2 | EvAfter _ _ => 3 | _ => 4 end.

  Fixpoint stages_monotone (l : list event) : bool :=
    match l with
    | [] => true
    | e :: r => match r with
                | [] => true
                | e' :: _ => (stage e <=? stage e') && stages_monotone r
                end
    end.

  Definition befores (l : list event) : list name :=
    flat_map (fun e => match e with EvBefore p _ _ => [p] | _ => [] end) l.
  Definition afters (l : list event) : list name :=
    flat_map (fun e => match e with EvAfter p _ => [p] | _ => [] end) l.
  Definition count_ev (f : event -> bool) (l : list event) : nat := length (filter f l).
  Definition is_init_of (n : name) (e : event) : bool := match e with EvInit m => Nat.eqb m n | _ => false end.
  Definition is_aps_of (n : name) (e : event) : bool := match e with EvAPS m => Nat.eqb m n | _ => false end.

  (* snapshot taken at every before-callback equals the final set-ness of the (observable) points *)
  Fixpoint snap_matches (n : name) (k : nat) (snap : list bool) (npoints : nat) : bool :=
    match snap, npoints with
    | [], 0 => true
    | b :: r, S m =>
      (if observable_point s (n, k) then Bool.eqb b (negb (Nat.eqb (length (fld n k)) 0)) else true)
      && snap_matches n (S k) r m
    | _, _ => false
    end.

  Definition snaps_final (l : list event) (n : name) : bool :=
    forallb (fun e => match e with
                      | EvBefore _ m snap =>
                        if Nat.eqb m n then
                          snap_matches n 0 snap (match comp_at n with Some cc => length (c_points cc) | None => 0 end)
                        else true
                      | _ => true
                      end) l.

  Definition whole_log : list event := ob_log o ++ ob_logafter o.

  Fixpoint nodup_names (l : list name) : bool :=
    match l with [] => true | a :: r => negb (mem a r) && nodup_names r end.

  (* a short-circuited component: after-initialization callbacks only, each processor once *)
  Definition short_shape (l : list event) : bool :=
    forallb (fun e => match e with EvAfter _ _ => true | _ => false end) l && nodup_names (afters l).

  Definition lifecycle_ok (n : name) : bool :=
    let l := sublog (ob_log o) n in
    (short_target n && short_shape l) ||
    stages_monotone l
    && list_eqb Nat.eqb (befores l) (afters l)
    && (count_ev (is_init_of n) l <=? 1) && (count_ev (is_aps_of n) l <=? 1)
    && match comp_at n with
       | Some cc =>
         (* an eager component with an Init method is initialised exactly once during the start *)
         (if eager n then
            match c_init cc with
            | Some _ => Nat.eqb (count_ev (is_init_of n) (ob_log o)) 1
            | None => true
            end
          else true)
       | None => true
       end.

  Fixpoint index_of (f : event -> bool) (l : list event) (i : nat) : option nat :=
    match l with
    | [] => None
    | e :: r => if f e then Some i else index_of f r (S i)
    end.

  (* static reachability along admissible-provider edges (over-approximates "depends back") *)
  (* a by-name point requests its target whether or not it turns out to be assignable: the named
     component is created on behalf of the holder, so it counts as an edge for "depends back" *)
  Definition succs (n : name) : list name :=
    flat_map (fun kp => providers n (snd kp)
                        ++ match pt_sel (snd kp) with SByName (Some m) => [m] | _ => [] end) (points_of n)
    ++ initget_of x n.                 (* what n's Init asks the factory for is requested by n *)

  Fixpoint reach (fuel : nat) (frontier seen : list name) : list name :=
    match fuel with
    | 0 => seen
    | S f =>
      let next := filter (fun m => negb (mem m seen)) (flat_map succs frontier) in
      match next with
      | [] => seen
      | _ => reach f next (seen ++ next)
      end
    end.

  Definition reaches (a b : name) : bool := mem b (reach (length pop) [a] []).

  (* components created during PrepareComponents: eager post-processor components and everything they request.
     They are populated by the processors active at that moment only (KF-C05a). *)
  (* ... "everything they request" under the pipeline that is active at that moment: without the further-matching
     processor the candidates are not narrowed, so more components are requested than the complete pipeline would.  The
     exact set is what the model of the tree has cached when its PrepareComponents loop ends *)
  Definition has_entry (r : rstate) (h : name) : bool :=
    match alookup h (L1 r), alookup h (L2 r), alookup h (L3 r) with None, None, None => false | _, _, _ => true end.
  Definition prepared_cached (h : name) : bool :=
    let sn := normalise repaired s in
    match prepare_loop_xt repaired sn x (sorted_procs sn) (set_scanned finit) with
    | (_, Ok st) => has_entry (reg st) h
    | (_, Fail _ st) => has_entry (reg st) h
    end.
  Definition early_created (h : name) : bool :=
    existsb (fun p => is_proc p && eager p && (Nat.eqb p h || reaches p h)) all_names || prepared_cached h.

  (* eager holders (post-processor components included) with a point that violates soundness, completeness or
     "a required point of a started component is never empty" *)
  Definition bad_holders : list name :=
    if ok_start then
      filter (fun h => eager h && negb (short_target h) && negb (forallb (point_ok h) (points_of h))) all_names
    else [].

  (* when Init n runs, every held dependency d that cannot reach n back has completed its Init *)
  Definition deps_first (n : name) : bool :=
    match index_of (is_init_of n) (ob_log o) 0 with
    | None => true
    | Some i =>
      forallb (fun kp =>
        forallb (fun v =>
          let d := owner v in
          if Nat.eqb d n || reaches d n then true
          else match comp_at d with
               | Some cd => match c_init cd with
                            | Some _ => match index_of (is_init_of d) (ob_log o) 0 with
                                        | Some j => j <? i
                                        | None => short_target d   (* handed over by a short-circuiting processor: it has no Init of its own *)
                                        end
                            | None => true
                            end
               | None => true
               end) (fld n (fst kp))) (points_of n)
    end.

  (* lazy components initialised during the start are reachable from an eager one through injected edges *)
  Definition raw_points_of (n : name) : list (nat * point) :=
    match comp_at n with
    | Some cc => combine (seq 0 (length (c_points cc))) (c_points cc)
    | None => []
    end.

  Definition held_edges (n : name) : list name :=
    flat_map (fun kp =>
                if observable_point s (n, fst kp) then
                  map owner (fld n (fst kp))
                  ++ match pt_sel (snd kp) with SByName (Some m) => [m] | _ => [] end
                  ++ (if blocked n (snd kp) then providers n (snd kp) else [])
                else providers n (snd kp))         (* App.ApplicationRunners: cleared after the start *)
             (raw_points_of n)
    ++ initget_of x n.
  Fixpoint reach_held (fuel : nat) (frontier seen : list name) : list name :=
    match fuel with
    | 0 => seen
    | S f =>
      let next := filter (fun m => negb (mem m seen)) (flat_map held_edges frontier) in
      match next with [] => seen | _ => reach_held f next (seen ++ next) end
    end.
  Definition needed : list name :=
    let roots := filter eager all_names in reach_held (length pop) roots roots.

  Definition lazy_only_if_needed (n : name) : bool :=
    if eager n then true
    else if Nat.eqb (count_ev (is_init_of n) (ob_log o)) 0 then true
    else mem n needed.

  Definition oracle_lifecycle : bool :=
    if ok_start then
      forallb (fun n => lifecycle_ok n && snaps_final (ob_log o) n && deps_first n && lazy_only_if_needed n)
              all_names
    else forallb (fun n => let l := sublog (ob_log o) n in
                           (count_ev (is_init_of n) l <=? 1) && (count_ev (is_aps_of n) l <=? 1)) all_names.

  (* ---- C13: runners ---------------------------------------------------------------------------------- *)
  Definition runner_names : list name :=
    filter (fun n => match comp_at n with Some cc => match c_runner cc with Some _ => true | None => false end | None => false end)
           all_names.
  Definition runs_of (l : list event) : list name := flat_map (fun e => match e with EvRun n => [n] | _ => [] end) l.

  Definition run_parts (ns : list name) : list participant :=
    flat_map (fun n => match comp_at n with
                       | Some cc => match c_runner cc with Some (cls, _) => [mkPart n cls] | None => [] end
                       | None => []
                       end) ns.

  Fixpoint all_before_first_run (l : list event) : bool :=
    (* no lifecycle event of the start after the first runner event *)
    match l with
    | [] => true
    | EvRun _ :: r => forallb is_run r
    | _ :: r => all_before_first_run r
    end.

  Definition oracle_runners : bool :=
    let rs := runs_of (ob_log o) in
    match ob_outcome o with
    | OOk =>
      same_set rs runner_names
      && contract_ok (run_parts rs)
      && all_before_first_run (ob_log o)
      && forallb (fun n => negb (runner_fails s n)) rs
      && forallb (fun n => match comp_at n with
                           | Some cc => if eager n then
                                          match c_init cc with
                                          | Some _ => Nat.eqb (count_ev (is_init_of n) (ob_log o)) 1
                                          | None => true
                                          end
                                        else true
                           | None => true
                           end) all_names
    | OErr =>
      contract_ok (run_parts rs) && all_before_first_run (ob_log o)
      && forallb (fun n => Nat.eqb (count_occ_name n rs) 1) rs
      && forallb (fun n => negb (runner_fails s n)) (removelast rs)
    | _ => false
    end.

  (* ---- structural indicators for non-triviality counts ------------------------------------------- *)
  Definition has_cycle : bool := existsb (fun n => mem n (reach (length pop) (succs n) (succs n))) all_names.
  Definition has_wrap : bool :=
    existsb (fun f => existsb (fun v => match v with VProxy _ _ => true | _ => false end) (snd f)) (ob_fields o)
    || existsb (fun t => match t with LTVer (VProxy _ _) => true | _ => false end) (ob_lookups o).
  Definition shared (k : nat) : bool :=
    existsb (fun n => k <=? length (filter (fun f => existsb (fun v => Nat.eqb (owner v) n) (snd f)) (ob_fields o)))
            all_names.
End Oracles.

(* ---- scenario-level predicates used by several checks ------------------------------------------------ *)
Definition no_substitution (c : wcase) : bool :=
  forallb (fun cc => match c_proc cc with
                     | Some (_, PUser early after) =>
                       forallb (fun x => match snd x with ENone => true | _ => false end) early
                       && forallb (fun x => match snd x with ANone => true | _ => false end) after
                     | _ => true
                     end) (s_pop (w_scn c)).

Definition no_faults (c : wcase) : bool :=
  let s := w_scn c in
  match s_faults s with [] => true | _ => false end
  && negb (s_loader_fail s)
  && forallb (fun cc => match c_aps cc with Some true => false | _ => true end
                        && match c_init cc with Some true => false | _ => true end
                        && match c_runner cc with Some (_, true) => false | _ => true end) (s_pop s).

(* every required point of every (non-processor) component has a provider, every required value is configured *)
Definition all_satisfiable (c : wcase) : bool :=
  forallb (fun h =>
    if is_proc c h then true else
    forallb (fun kp => negb (pt_required (snd kp))
                       || negb (Nat.eqb (length (providers c h (snd kp))) 0)) (points_of c h)
    && cfg_ok c h) (all_names c).

(* C02: with no substitution and no faults, a satisfiable graph starts, whatever its cycles *)
Definition oracle_cycles_succeed (c : wcase) : bool :=
  if no_substitution c && no_faults c && all_satisfiable c then ok_start c else true.

Definition count_points (c : wcase) (f : name -> nat * point -> bool) : nat :=
  length (flat_map (fun h => filter (f h) (points_of c h)) (all_names c)).
