(* Correspondence and oracle for C12, evaluated by vm_compute on cases written by the harness.
   A case = the registered participants (id, class, Order as read back from the Go values) and
   the sequence of ids the implementation produced (the result of SortOrderedComponents, or
   the order in which callbacks were invoked during a real App.Run). *)
From Coq Require Import List ZArith Bool Arith.
From IocVerif Require Import Model.Sorter.
Import ListNotations.

Record case := mkCase { cid : nat; cin : list participant; cout : list nat }.

Fixpoint find_part (l : list participant) (i : nat) : option participant :=
  match l with
  | [] => None
  | p :: r => if Nat.eqb (pid p) i then Some p else find_part r i
  end.

Fixpoint lookup_all (l : list participant) (ids : list nat) : option (list participant) :=
  match ids with
  | [] => Some []
  | i :: r => match find_part l i, lookup_all l r with
              | Some p, Some ps => Some (p :: ps)
              | _, _ => None
              end
  end.

Fixpoint ins_nat (x : nat) (l : list nat) : list nat :=
  match l with [] => [x] | y :: r => if Nat.leb x y then x :: y :: r else y :: ins_nat x r end.
Definition sort_nat (l : list nat) : list nat := fold_right ins_nat [] l.

Definition list_nat_eqb (a b : list nat) : bool :=
  if list_eq_dec Nat.eq_dec a b then true else false.

Definition pclass_eqb (a b : pclass) : bool :=
  match a, b with
  | Prio x, Prio y => Z.eqb x y
  | Ord x, Ord y => Z.eqb x y
  | Unord, Unord => true
  | _, _ => false
  end.

Fixpoint proj_eqb (a b : list pclass) : bool :=
  match a, b with
  | [], [] => true
  | x :: a', y :: b' => pclass_eqb x y && proj_eqb a' b'
  | _, _ => false
  end.

(* same multiset of ids: each participant exactly once *)
Definition ids_perm (c : case) : bool :=
  list_nat_eqb (sort_nat (map pid (cin c))) (sort_nat (cout c)).

(* model vs implementation: same ids, and same (class, Order) sequence as the model's sort *)
Definition check_case (c : case) : bool :=
  ids_perm c &&
  match lookup_all (cin c) (cout c) with
  | Some outp => proj_eqb (proj outp) (proj (sort_participants (cin c)))
  | None => false
  end.

(* the property on the implementation's own output: exactly once + contract *)
Definition oracle_case (c : case) : bool :=
  ids_perm c &&
  match lookup_all (cin c) (cout c) with
  | Some outp => contract_ok outp
  | None => false
  end.

Fixpoint has_tie (l : list pclass) : bool :=
  match l with
  | [] => false
  | a :: r => existsb (pclass_eqb a) r || has_tie r
  end.

(* non-trivial: at least two classes present and at least one tie *)
Definition nontrivial (c : case) : bool :=
  let l := cin c in
  (2 <=? (if existsb is_prio l then 1 else 0) + (if existsb is_ord l then 1 else 0)
         + (if existsb is_unord l then 1 else 0))%nat
  && has_tie (filter (fun a => match a with Unord => false | _ => true end) (proj l)).

Definition mismatches (cs : list case) : list nat :=
  map cid (filter (fun c => negb (check_case c)) cs).
Definition violations (cs : list case) : list nat :=
  map cid (filter (fun c => negb (oracle_case c)) cs).
Definition count_nontrivial (cs : list case) : list nat :=
  [length (filter nontrivial cs)].
