(* Correspondence and oracle for C20, evaluated by vm_compute on observations of the real code.
   Three kinds of cases:
     CSeq   a sequential script run on sync2.Map / ConcurrentSets / the generic concurrent set, with the results
     CHist  a concurrent history recorded from the real containers with forced interleavings:
            the observed events (Inv, Res, f-called, Range callback) and the operation records
     CRace  one start+shutdown of a real container under the Go race detector
            (outcome 0 = no report, 1 = DATA RACE reported, 2 = panic/crash/hang), with the number of failing scanners *)
From Coq Require Import List Arith Bool.
From IocVerif Require Import Model.SyncMap.
Import ListNotations.

Inductive case : Type :=
| CSeq (id : nat) (ops : list op) (rets : list ret)
| CHist (id : nat) (progs : list (list op)) (obs : list sevent) (recs : list oprec)
| CRace (id : nat) (outcome : nat) (nfail : nat).

Definition cid (c : case) : nat :=
  match c with CSeq i _ _ => i | CHist i _ _ _ => i | CRace i _ _ => i end.

Fixpoint seq_rets (m : smap) (ops : list op) : list ret :=
  match ops with [] => [] | o :: r => snd (spec m o) :: seq_rets (fst (spec m o)) r end.

Fixpoint rets_eqb (a b : list ret) : bool :=
  match a, b with
  | [], [] => true
  | x :: a', y :: b' => ret_eqb x y && rets_eqb a' b'
  | _, _ => false
  end.

(* model vs implementation *)
Definition check_case (c : case) : bool :=
  match c with
  | CSeq _ ops rets => rets_eqb (seq_rets [] ops) rets
  | CHist _ progs obs _ => model_accepts true progs obs          (* a trace of the REPAIRED concrete step model *)
  | CRace _ outcome _ => Nat.eqb outcome 0                        (* the model (c20_race_free) predicts no race *)
  end.

(* the property on the implementation's observation *)
Definition key_of (o : op) : option nat :=
  match o with
  | OLoadOrStore k _ => Some k | OLoadOrStoreFn k _ => Some k | _ => None end.
Definition rec_wins (k : nat) (a : oprec) : bool := wins k (o_op a, o_ret a).
Definition no_two_winners_b (recs : list oprec) : bool :=
  forallb (fun a =>
    match key_of (o_op a) with
    | Some k =>
        existsb (fun b => deletes k (o_op b)) recs
        || Nat.leb (length (filter (rec_wins k) recs)) 1
    | None => true
    end) recs.

Definition oracle_case (c : case) : bool :=
  match c with
  | CSeq _ ops rets => rets_eqb (seq_rets [] ops) rets
  | CHist _ _ _ recs => linearizable_b recs && no_two_winners_b recs
  | CRace _ outcome _ => Nat.eqb outcome 0
  end.

(* non-trivial: a script that reads back something it wrote (>= 4 ops); a history in which two operations of
   different threads overlap in real time; a start with at least two failing scanners *)
Definition mutates (o : op) : bool :=
  match o with OLoad _ => false | ORange => false | OExists _ => false | _ => true end.
Definition overlaps (a b : oprec) : bool :=
  negb (Nat.eqb (o_t a) (o_t b)) && Nat.ltb (o_inv a) (o_res b) && Nat.ltb (o_inv b) (o_res a).
Definition nontrivial (c : case) : bool :=
  match c with
  | CSeq _ ops _ => Nat.leb 4 (length ops) && existsb mutates ops && existsb (fun o => negb (mutates o)) ops
  | CHist _ _ _ recs => existsb (fun a => existsb (overlaps a) recs) recs
  | CRace _ _ nfail => Nat.leb 2 nfail
  end.

Definition mismatches (cs : list case) : list nat := map cid (filter (fun c => negb (check_case c)) cs).
Definition violations (cs : list case) : list nat := map cid (filter (fun c => negb (oracle_case c)) cs).
Definition count_nontrivial (cs : list case) : list nat := [length (filter nontrivial cs)].
Definition nontrivial_ids (cs : list case) : list nat := map cid (filter nontrivial cs).
