(* Correspondence and oracle for C20, evaluated by vm_compute on observations of the real code.
   Three kinds of cases:
     CSeq   a sequential script run on sync2.Map / ConcurrentSets / the generic concurrent set, with the results
     CHist  a concurrent history recorded from the real containers with forced interleavings:
            the observed events (Inv, Res, f-called, Range callback) and the operation records
     CRace  one start+shutdown of a real container under the Go race detector
            (outcome 0 = no report, 1 = DATA RACE reported, 2 = panic/crash/hang), with the number of failing scanners
     CStress one observation of G goroutines that were released together and ran their operation lists on ONE
            shared container truly in parallel (no synchronisation added by the driver; -race build and normal
            build): the per-goroutine results, the contents after the join and a sequential coda
     CScan  one TIMED observation of such goroutines (scanners running Range / ToArray / ForEach / Load against
            goroutines that store and delete the same few keys): every operation with a ticket taken before its call
            and one taken after its return (one atomic counter); checked by Model/ScanCheck.scan_check (per-pair
            provenance and per-key completeness of every observer; no snapshot is demanded of a Range)
     CLog   the library's own logger (syslog) used by several goroutines at once: the lines of every round as they
            arrived in the output, each looked up among the lines of a sequential reference run; every round has to be
            an interleaving of the goroutines' line sequences (Model/Merge.v: nothing spliced, lost, doubled or out of
            a goroutine's program order) *)
From Coq Require Import List Arith Bool Uint63 NArith.
From IocVerif Require Import Model.SyncMap Model.ScanCheck Model.Merge.
Import ListNotations.

(* ---------- the whole exported API of the containers, on top of the sequential specification ----------
   XP o          a point operation of SyncMap.op, or a full Range / ToArray / ForEach (ORange)
   XLength       Length()                      = number of elements
   XRangeStop    Range whose callback returns false at the first pair
   XExistsAny / XExistsAll / XPutAll / XRemoveAll   the variadic set operations = iterated Exists / Put / Remove *)
Inductive xop : Type :=
| XP (o : op)
| XLength
| XRangeStop
| XExistsAny (ks : list nat)
| XExistsAll (ks : list nat)
| XPutAll (ks : list nat)
| XRemoveAll (ks : list nat).

Definition has (m : smap) (k : nat) : bool :=
  match snd (spec m (OExists k)) with RBool b => b | _ => false end.

Definition xspec (m : smap) (x : xop) : smap * ret :=
  match x with
  | XP o => spec m o
  | XLength => (m, RVal (Some (length m)))
  | XRangeStop => (m, RList (firstn 1 m))
  | XExistsAny ks => (m, RBool (existsb (has m) ks))
  | XExistsAll ks => (m, RBool (forallb (has m) ks))
  | XPutAll ks => (fold_left (fun a k => fst (spec a (OPut k))) ks m, RNone)
  | XRemoveAll ks => (fold_left (fun a k => fst (spec a (ORemove k))) ks m, RNone)
  end.

Record stress : Type := mkStress {
  s_outcome : nat;                        (* 0 = ran to the end, 1 = DATA RACE reported, 2 = panic / crash / hang *)
  s_width : nat;                          (* W > 0: goroutine g touches only the keys k with k / W = g;  0: shared keys *)
  s_nkeys : nat;                          (* key universe 0 .. nkeys-1 *)
  s_init : list (nat * nat);              (* contents installed before the goroutines start *)
  s_runs : list (list (xop * ret));       (* per goroutine: its operations with their results, in program order *)
  s_final : smap;                         (* contents after the join (full Range / ToArray, sorted by key) *)
  s_fin : list (xop * ret)                (* sequential coda after the join *)
}.

Record scan : Type := mkScan {
  sc_outcome : nat;                       (* 0 = ran to the end, otherwise panic / crash / hang / undecodable *)
  sc_nkeys : nat;                         (* key universe 0 .. nkeys-1 *)
  sc_recs : list trec;                    (* every operation (contents at the start = writes with tickets 0, the contents
                                             after the join = one last Range), with its tickets *)
  sc_partial : list (N * N * smap)        (* Ranges whose callback stopped the iteration: interval, reported pairs *)
}.

Record logobs : Type := mkLog {
  lg_outcome : nat;                       (* 0 = ran to the end, 1 = DATA RACE reported, 2 = panic / crash / hang *)
  lg_ref_ok : bool;                       (* the sequential reference run printed exactly the calls the level filter lets
                                             through, each line with its level mark, its prefixes and its text (strings:
                                             compared by the Python side) *)
  lg_progs : list (list (nat * nat));     (* per goroutine: (logger, line number) of its calls that print, in program order *)
  lg_rounds : list (list (nat * nat))     (* per round: the output lines in the order they arrived, as (goroutine, line
                                             number); a line that no call prints is (number of goroutines, 0) *)
}.

Inductive case : Type :=
| CSeq (id : nat) (ops : list op) (rets : list ret)
| CHist (id : nat) (progs : list (list op)) (obs : list sevent) (recs : list oprec)
| CRace (id : nat) (outcome : nat) (nfail : nat) (nlogged : nat)
| CStress (id : nat) (s : stress)
| CScan (id : nat) (s : scan)
| CLog (id : nat) (s : logobs).

Definition cid (c : case) : nat :=
  match c with CSeq i _ _ => i | CHist i _ _ _ => i | CRace i _ _ _ => i | CStress i _ => i | CScan i _ => i | CLog i _ => i end.

(* every round of the output is an interleaving of the goroutines' line sequences *)
Definition log_ok (s : logobs) : bool :=
  Nat.eqb (lg_outcome s) 0 && lg_ref_ok s
  && forallb (merge_b Nat.eqb (map (map snd) (lg_progs s))) (lg_rounds s).

(* two goroutines print through the same logger *)
Fixpoint shares_logger (progs : list (list (nat * nat))) : bool :=
  match progs with
  | [] => false
  | p :: rest =>
      (if existsb (fun e => existsb (fun q => existsb (fun e' => Nat.eqb (fst e) (fst e')) q) rest) p then true
       else shares_logger rest)
  end.

Fixpoint seq_rets (m : smap) (ops : list op) : list ret :=
  match ops with [] => [] | o :: r => snd (spec m o) :: seq_rets (fst (spec m o)) r end.

Fixpoint rets_eqb (a b : list ret) : bool :=
  match a, b with
  | [], [] => true
  | x :: a', y :: b' => ret_eqb x y && rets_eqb a' b'
  | _, _ => false
  end.

(* ---------- stress observations ---------------------------------------------------------------------- *)

Definition mem (k : nat) (l : list nat) : bool := existsb (Nat.eqb k) l.
Definition smap_eqb (a b : smap) : bool := ret_eqb (RList a) (RList b).
Definition oeqb (a b : option nat) : bool := ret_eqb (RVal a) (RVal b).

(* canonical: keys strictly increasing (so no key is reported twice) *)
Fixpoint canon_from (lo : nat) (l : smap) : bool :=
  match l with [] => true | (k, _) :: r => Nat.leb lo k && canon_from (S k) r end.
Definition canon (l : smap) : bool := canon_from 0 l.

Definition xkeys (x : xop) : list nat :=
  match x with
  | XP (OLoad k) | XP (ODelete k) | XP (OPut k) | XP (OExists k) | XP (ORemove k) => [k]
  | XP (OStore k _) | XP (OLoadOrStore k _) | XP (OLoadOrStoreFn k _) => [k]
  | XP ORange | XLength | XRangeStop => []
  | XExistsAny ks | XExistsAll ks | XPutAll ks | XRemoveAll ks => ks
  end.
(* what an operation may write / delete *)
Definition xwrites (x : xop) : list (nat * nat) :=
  match x with
  | XP (OStore k v) | XP (OLoadOrStore k v) | XP (OLoadOrStoreFn k v) => [(k, v)]
  | XP (OPut k) => [(k, 0)]
  | XPutAll ks => map (fun k => (k, 0)) ks
  | _ => []
  end.
Definition xplain (x : xop) : list nat :=          (* writers that are not load-or-store *)
  match x with
  | XP (OStore k _) | XP (OPut k) => [k]
  | XPutAll ks => ks
  | _ => []
  end.
Definition xdeletes (x : xop) : list nat :=
  match x with XP (ODelete k) | XP (ORemove k) => [k] | XRemoveAll ks => ks | _ => [] end.
Definition xmutates (x : xop) : bool :=
  match xwrites x, xdeletes x with [], [] => false | _, _ => true end.

Definition init_map (s : stress) : smap := fold_left (fun a p => put a (fst p) (snd p)) (s_init s) [].
Definition xfinal (m : smap) (run : list (xop * ret)) : smap := fold_left (fun a xr => fst (xspec a (fst xr))) run m.

(* (a) DISJOINT key ranges (W > 0): everything a goroutine observes about its own keys is determined by its own
       program (sequential specification run on the goroutine's own part of the contents); the contents after the
       join are those of the programs run one after the other.  Range / ToArray / ForEach / Length also see the
       other goroutines' keys: only their own-key part is determined (Range is not a snapshot, KF-C20c). *)
Fixpoint dis_run (own : nat -> bool) (others : nat) (m : smap) (run : list (xop * ret)) : bool :=
  match run with
  | [] => true
  | (x, r) :: rest =>
      if forallb own (xkeys x) then
        if (match x, r with
            | XP ORange, RList l => canon l && smap_eqb (filter (fun p => own (fst p)) l) m
            | XLength, RVal (Some n) => Nat.leb (length m) n && Nat.leb n (length m + others)
            | XRangeStop, RList l =>
                Nat.leb (length l) 1 && (match m with [] => true | _ => Nat.eqb (length l) 1 end)
                && forallb (fun p => if own (fst p) then oeqb (get m (fst p)) (Some (snd p)) else true) l
            | _, _ => ret_eqb (snd (xspec m x)) r
            end)
        then dis_run own others (fst (xspec m x)) rest else false
      else false
  end.

Definition dis_ok (s : stress) : bool :=
  let W := s_width s in
  let G := length (s_runs s) in
  let m0 := init_map s in
  Nat.eqb (s_nkeys s) (G * W)
  && forallb (fun p => Nat.ltb (fst p) (s_nkeys s)) (s_init s)
  && forallb (fun g => let own := fun k => Nat.eqb (k / W) g in
                       dis_run own (s_nkeys s - W) (filter (fun p => own (fst p)) m0) (nth g (s_runs s) []))
             (seq 0 G)
  && smap_eqb (fold_left xfinal (s_runs s) m0) (s_final s).

(* (b) the sequential coda after the join is the sequential specification run from the joined contents *)
Fixpoint fin_run (m : smap) (fin : list (xop * ret)) : bool :=
  match fin with
  | [] => true
  | (x, r) :: rest =>
      if (match x, r with
          | XRangeStop, RList l =>
              Nat.eqb (length l) (Nat.min 1 (length m)) && forallb (fun p => oeqb (get m (fst p)) (Some (snd p))) l
          | _, _ => ret_eqb (snd (xspec m x)) r
          end)
      then fin_run (fst (xspec m x)) rest else false
  end.

(* (c) small histories of point operations on shared keys: some merge of the per-goroutine result sequences must be
       a legal sequential history (SyncMap.merge_search, the complete refuter of linearizability) *)
Definition point_of (xr : xop * ret) : option (op * ret) :=
  match fst xr with
  | XP ORange => None
  | XP o => Some (o, snd xr)
  | _ => None
  end.
Fixpoint tag_runs (g : nat) (runs : list (list (xop * ret))) : option (list (nat * (op * ret))) :=
  match runs with
  | [] => Some []
  | run :: rest =>
      match tag_runs (S g) rest with
      | None => None
      | Some R =>
          (fix go (l : list (xop * ret)) : option (list (nat * (op * ret))) :=
             match l with
             | [] => Some R
             | xr :: l' => match point_of xr, go l' with Some p, Some R' => Some ((g, p) :: R') | _, _ => None end
             end) run
      end
  end.
Definition sc_limit : nat := 9.
Definition sc_ok (s : stress) : bool :=
  match tag_runs 0 (s_runs s) with
  | Some R => if Nat.leb (length R) sc_limit then merge_search (S (length R)) (init_map s) R else true
  | None => true
  end.

Definition shape_ok (s : stress) : bool :=
  Nat.eqb (s_outcome s) 0 && canon (s_final s) && forallb (fun p => Nat.ltb (fst p) (s_nkeys s)) (s_final s).

Definition stress_check (s : stress) : bool :=
  if shape_ok s then
    (if Nat.eqb (s_width s) 0 then true else dis_ok s) && fin_run (s_final s) (s_fin s) && sc_ok s
  else false.

(* (d) per-key consequences of atomicity that hold for EVERY workload (shared keys included).  Independent of the
       step model: they only use which operations the case contains.
         - a key that no operation of the case deletes ("del-free") is present from the moment a write of it
           completed: the writing goroutine's later Load / Exists / LoadOrStore find it, its later full
           Range / ToArray / ForEach report it, its later Length() counts it, and it is in the joined contents
         - a value reported for a key is a value some operation of the case writes to that key; a key nobody
           writes is never reported
         - Length() lies between the number of such keys and the number of keys the case writes at all
         - at most one load-or-store wins a del-free key; if load-or-stores are its only writers, exactly one
           wins and every value ever reported for the key is the winner's *)
(* the summaries of a case are computed once (vm_compute is call-by-value) and handed down as section variables *)
Fixpoint nub_pairs (l : list (nat * nat)) : list (nat * nat) :=
  match l with
  | [] => []
  | p :: r =>
      let r' := nub_pairs r in
      if lexistsb (fun q => if Nat.eqb (fst p) (fst q) then Nat.eqb (snd p) (snd q) else false) r' then r' else p :: r'
  end.

(* every (key, value) an operation reported *)
Definition reported (xr : xop * ret) : list (nat * nat) :=
  match xr with
  | (XP (OLoad k), RVal (Some v)) => [(k, v)]
  | (XP (OLoadOrStore k _), RLos y _) | (XP (OLoadOrStoreFn k _), RLos y _) => [(k, y)]
  | (_, RList l) => l
  | _ => []
  end.
Definition xwins (k : nat) (xr : xop * ret) : bool :=
  match fst xr with XP o => wins k (o, snd xr) | _ => false end.

Section StressInv.
  Variable nkeys : nat.
  Variable W_all : list (nat * nat).     (* (key, value) pairs the case writes: contents at the start + writers, no duplicates *)
  Variable DF : list nat.                (* the del-free keys: no operation of the case deletes them *)
  Variable WK : list nat.                (* the keys the case writes at all *)
  Definition delfree (k : nat) : bool := mem k DF.
  Definition sane (k v : nat) : bool :=
    lexistsb (fun p => if Nat.eqb k (fst p) then Nat.eqb v (snd p) else false) W_all.   (* lazy: vm_compute is call-by-value *)
  Definition written (k : nat) : bool := mem k WK.
  Definition sane_list (l : smap) : bool :=
    canon l && forallb (fun p => sane (fst p) (snd p) && Nat.ltb (fst p) nkeys) l.

  Definition obs_ok (mine : list nat) (x : xop) (r : ret) : bool :=
    match x, r with
    | XP (OLoad k), RVal None => negb (mem k mine)
    | XP (OLoad k), RVal (Some v) => sane k v
    | XP (OExists k), RBool b => if b then written k else negb (mem k mine)
    | XP (OLoadOrStore k v), RLos y loaded | XP (OLoadOrStoreFn k v), RLos y loaded =>
        if loaded then sane k y else Nat.eqb y v && negb (mem k mine)
    | XP ORange, RList l => sane_list l && forallb (fun k => mem k (keys_of l)) mine
    | XLength, RVal (Some n) => Nat.leb (length mine) n && Nat.leb n (length WK)
    | XRangeStop, RList l =>
        sane_list l && Nat.leb (length l) 1 && (match mine with [] => true | _ => Nat.eqb (length l) 1 end)
    | XExistsAny ks, RBool b => if b then existsb written ks else negb (existsb (fun k => mem k mine) ks)
    | XExistsAll ks, RBool b => if b then forallb written ks else negb (forallb (fun k => mem k mine) ks)
    | XP (OStore _ _), RNone | XP (ODelete _), RNone | XP (OPut _), RNone | XP (ORemove _), RNone => true
    | XPutAll _, RNone | XRemoveAll _, RNone => true
    | _, _ => false
    end.

  Definition learn_keys (mine : list nat) (ks : list nat) : list nat :=
    fold_left (fun a k => if delfree k && negb (mem k a) then k :: a else a) ks mine.
  Definition learn (mine : list nat) (x : xop) : list nat := learn_keys mine (map fst (xwrites x)).

  Fixpoint inv_run (mine : list nat) (run : list (xop * ret)) : bool :=
    match run with
    | [] => true
    | (x, r) :: rest => if obs_ok mine x r then inv_run (learn mine x) rest else false
    end.

  Variable final : smap.
  Variable allxr : list (xop * ret).     (* every operation of the parallel phase with its result *)
  Variable PK : list nat.                (* keys with a writer that is not a load-or-store (or present at the start) *)
  Variable REP : list (nat * nat).       (* every (key, value) reported in the parallel phase, no duplicates *)

  Definition key_ok (k : nat) : bool :=
    if delfree k && written k then
      let nwin := length (filter (xwins k) allxr) in
      has final k
      && (if mem k PK then Nat.leb nwin 1
          else Nat.eqb nwin 1
               && forallb (fun p => if Nat.eqb (fst p) k then oeqb (get final k) (Some (snd p)) else true) REP)
    else true.
End StressInv.

Definition inv_ok (s : stress) : bool :=
  let nkeys := s_nkeys s in
  let univ := seq 0 nkeys in
  let allxr := concat (s_runs s) in
  let allx := map fst allxr in
  let W_all := nub_pairs (s_init s ++ flat_map xwrites allx) in
  let D_all := flat_map xdeletes allx in
  let DF := filter (fun k => negb (mem k D_all)) univ in
  let WK := filter (fun k => existsb (fun p => Nat.eqb k (fst p)) W_all) univ in
  let P_all := map fst (s_init s) ++ flat_map xplain allx in
  let PK := filter (fun k => mem k P_all) univ in
  let REP := nub_pairs (flat_map reported allxr) in
  let mine0 := learn_keys DF [] (map fst (s_init s)) in
  sane_list nkeys W_all (s_final s)
  && forallb (inv_run nkeys W_all DF WK mine0) (s_runs s)
  && forallb (key_ok DF WK (s_final s) allxr PK REP) univ.

Definition stress_oracle (s : stress) : bool :=
  if stress_check s then inv_ok s else false.

(* ---------- transport of stress observations ---------------------------------------------------------------
   Everything above works on the [stress] record.  Only the cases FILE is compact: a stress observation is
   serialised to a byte stream ([p_stress] is the format) that is packed into primitive 63-bit integers (up to
   seven bytes per integer, most significant first, under a leading 1 marker), because Coq elaborates a literal
   record / list term at ~12 us per character (a 1 600-operation observation = 0.6 s) while unpacking and decoding
   inside vm_compute is cheap.  A stream that does not decode is an observation with outcome 2: it fails
   [stress_check] and [stress_oracle], it is never dropped.  [SB_example] ties the format to a literal term. *)
Fixpoint int_bits_to_nat (k : nat) (b : int) : nat :=
  match k with
  | O => 0
  | S k' => (if Uint63.eqb (Uint63.land b 1) 0 then 0 else 1) + 2 * int_bits_to_nat k' (Uint63.lsr b 1)
  end.
Fixpoint unpack_int (fuel : nat) (v : int) (acc : list nat) : list nat :=
  match fuel with
  | O => acc
  | S f => if Uint63.leb v 1 then acc
           else unpack_int f (Uint63.lsr v 8) (int_bits_to_nat 8 (Uint63.land v 255) :: acc)
  end.
Definition unpack (l : list int) : list nat := flat_map (fun v => unpack_int 8 v []) l.

Definition P (A : Type) : Type := list nat -> option (A * list nat).
Definition p_bind {A C : Type} (p : P A) (f : A -> P C) : P C :=
  fun s => match p s with Some (a, r) => f a r | None => None end.
Definition p_ret {A : Type} (a : A) : P A := fun s => Some (a, s).
(* a number: one byte < 255, or 255 followed by two bytes (big endian) *)
Definition p_num : P nat := fun s =>
  match s with
  | 255 :: hi :: lo :: r => Some (hi * 256 + lo, r)
  | 255 :: _ => None
  | a :: r => Some (a, r)
  | [] => None
  end.
Fixpoint p_rep {A : Type} (p : P A) (n : nat) : P (list A) :=
  match n with
  | O => p_ret []
  | S k => p_bind p (fun x => p_bind (p_rep p k) (fun xs => p_ret (x :: xs)))
  end.
Definition p_list {A : Type} (p : P A) : P (list A) := p_bind p_num (p_rep p).
Definition p_pair : P (nat * nat) := p_bind p_num (fun k => p_bind p_num (fun v => p_ret (k, v))).
Definition p1 {A} (f : nat -> A) : P A := p_bind p_num (fun k => p_ret (f k)).
Definition p2 {A} (f : nat -> nat -> A) : P A := p_bind p_num (fun k => p_bind p_num (fun v => p_ret (f k v))).
Definition pl {A} (f : list nat -> A) : P A := p_bind (p_list p_num) (fun ks => p_ret (f ks)).

Definition p_xop : P xop :=
  p_bind p_num (fun code =>
    match code with
    | 0 => p1 (fun k => XP (OLoad k))
    | 1 => p2 (fun k v => XP (OStore k v))
    | 2 => p2 (fun k v => XP (OLoadOrStore k v))
    | 3 => p2 (fun k v => XP (OLoadOrStoreFn k v))
    | 4 => p1 (fun k => XP (ODelete k))
    | 5 => p_ret (XP ORange)
    | 6 => p1 (fun k => XP (OPut k))
    | 7 => p1 (fun k => XP (OExists k))
    | 8 => p1 (fun k => XP (ORemove k))
    | 9 => p_ret XLength
    | 10 => p_ret XRangeStop
    | 11 => pl XExistsAny
    | 12 => pl XExistsAll
    | 13 => pl XPutAll
    | 14 => pl XRemoveAll
    | _ => fun _ => None
    end).
Definition p_ret_ : P ret :=
  p_bind p_num (fun code =>
    match code with
    | 0 => p_ret RNone
    | 1 => p_ret (RVal None)
    | 2 => p1 (fun v => RVal (Some v))
    | 3 => p1 (fun v => RLos v false)
    | 4 => p1 (fun v => RLos v true)
    | 5 => p_ret (RBool false)
    | 6 => p_ret (RBool true)
    | 7 => p_bind (p_list p_pair) (fun l => p_ret (RList l))
    | _ => fun _ => None
    end).
Definition p_xr : P (xop * ret) := p_bind p_xop (fun x => p_bind p_ret_ (fun r => p_ret (x, r))).

Definition p_stress : P stress :=
  p_bind p_num (fun outcome => p_bind p_num (fun width => p_bind p_num (fun nkeys =>
  p_bind (p_list p_pair) (fun init => p_bind (p_list (p_list p_xr)) (fun runs =>
  p_bind (p_list p_pair) (fun final => p_bind (p_list p_xr) (fun fin =>
  p_ret (mkStress outcome width nkeys init runs final fin)))))))).

Definition SB (blob : list int) : stress :=
  match p_stress (unpack blob) with
  | Some (s, []) => s
  | _ => mkStress 2 0 0 [] [] [] []
  end.

Example SB_example :
  SB [72057602644707586; 72623846804499459; 143835001589400073; 72626071647878913; 84443631364210689;
      73748647199714305; 74593106539971585; 256]%uint63
  = mkStress 0 0 2 [(1, 9)]
      [[(XP (OLoadOrStoreFn 0 300), RLos 300 false); (XP (OLoad 1), RVal (Some 9))];
       [(XP ORange, RList [(0, 300); (1, 9)]); (XExistsAny [0; 1], RBool true)]]
      [(0, 300); (1, 9)] [(XLength, RVal (Some 2)); (XP (ODelete 1), RNone)].
Proof. vm_compute. reflexivity. Qed.

(* ---------- timed observations (scans against churn) --------------------------------------------------------- *)
Definition rec_pairs (a : trec) : smap := match t_ret a with RList l => l | _ => [] end.
Definition scan_ok (s : scan) : bool :=
  if Nat.eqb (sc_outcome s) 0 then
    if forallb (fun a => forallb (fun p => Nat.ltb (fst p) (sc_nkeys s)) (rec_pairs a)) (sc_recs s)
    then scan_check (sc_recs s) (sc_partial s) else false
  else false.

(* non-trivial: a full scan overlaps (in tickets) a write or delete of another operation *)
Definition is_scan (a : trec) : bool := match t_op a with ORange => true | _ => false end.
Definition scan_nontrivial (s : scan) : bool :=
  lexistsb (fun r => if is_scan r
                     then lexistsb (fun u => if has_eff u then if bef r u then false else negb (bef u r) else false) (sc_recs s)
                     else false) (sc_recs s).

(* transport: the same byte stream / packing as the stress observations; tickets are decoded to binary numbers *)
Definition p_numN : P N := fun s =>
  match s with
  | 255 :: hi :: lo :: r => Some ((N.of_nat hi * 256 + N.of_nat lo)%N, r)
  | 255 :: _ => None
  | a :: r => Some (N.of_nat a, r)
  | [] => None
  end.
Definition p_trec : P trec :=
  p_bind p_xop (fun x => p_bind p_ret_ (fun r => p_bind p_numN (fun i => p_bind p_numN (fun j =>
    match x with XP o => p_ret (mkT o r i j) | _ => fun _ => None end)))).
Definition p_partial : P (N * N * smap) :=
  p_bind p_numN (fun i => p_bind p_numN (fun j => p_bind (p_list p_pair) (fun l => p_ret (i, j, l)))).
Definition p_scan : P scan :=
  p_bind p_num (fun outcome => p_bind p_num (fun nkeys =>
  p_bind (p_list p_trec) (fun recs => p_bind (p_list p_partial) (fun part =>
  p_ret (mkScan outcome nkeys recs part))))).
Definition TB (blob : list int) : scan :=
  match p_scan (unpack blob) with
  | Some (s, []) => s
  | _ => mkScan 2 0 [] []
  end.

(* a Range that overlaps Delete 0 may report key 0 with the value stored before, or not at all; the pair (0, 0) - a
   value nobody stored - is rejected; so is the stored value once the Delete had returned before the Range began, and
   a Range that misses a key nobody touched *)
Example scan_examples :
  let st := mkT (OStore 0 5) RNone 1 2 in
  let st1 := mkT (OStore 1 6) RNone 1 2 in
  let dl (a b : nat) := mkT (ODelete 0) RNone (N.of_nat a) (N.of_nat b) in
  let rg l (a b : nat) := mkT ORange (RList l) (N.of_nat a) (N.of_nat b) in
  (scan_check [st; st1; dl 4 7; rg [(0, 5); (1, 6)] 3 8] [],
   scan_check [st; st1; dl 4 7; rg [(1, 6)] 3 8] [],
   scan_check [st; st1; dl 4 7; rg [(0, 0); (1, 6)] 3 8] [],
   scan_check [st; st1; dl 3 4; rg [(0, 5); (1, 6)] 5 6] [],
   scan_check [st; st1; dl 4 7; rg [(0, 5)] 3 8] [],
   scan_check [st; st1; dl 4 7] [(3%N, 8%N, [(0, 0)])])
  = (true, true, false, false, false, false).
Proof. vm_compute. reflexivity. Qed.

(* model vs implementation *)
Definition check_case (c : case) : bool :=
  match c with
  | CSeq _ ops rets => rets_eqb (seq_rets [] ops) rets
  | CHist _ progs obs _ => model_accepts true progs obs          (* a trace of the REPAIRED concrete step model *)
  | CRace _ outcome _ _ => Nat.eqb outcome 0                      (* the model (c20_race_free) predicts no race *)
  | CStress _ s => stress_check s
  | CScan _ s => scan_ok s
  | CLog _ s => log_ok s
  end.

(* the property on the implementation's observation *)
Definition key_of (o : op) : option nat :=
  match o with
  | OLoadOrStore k _ => Some k | OLoadOrStoreFn k _ => Some k | _ => None end.
Definition rec_wins (k : nat) (a : oprec) : bool := wins k (o_op a, o_ret a).
Definition no_two_winners_b (recs : list oprec) : bool :=
  forallb (fun a =>
    match key_of (o_op a) with
    | Some k =>
        existsb (fun b => deletes k (o_op b)) recs
        || Nat.leb (length (filter (rec_wins k) recs)) 1
    | None => true
    end) recs.

Definition oracle_case (c : case) : bool :=
  match c with
  | CSeq _ ops rets => rets_eqb (seq_rets [] ops) rets
  | CHist _ _ _ recs => linearizable_b recs && no_two_winners_b recs
  | CRace _ outcome _ _ => Nat.eqb outcome 0
  | CStress _ s => stress_oracle s
  | CScan _ s => scan_ok s
  | CLog _ s => log_ok s
  end.

(* non-trivial: a script that reads back something it wrote (>= 4 ops); a history in which two operations of
   different threads overlap in real time; a start with at least two failing scanners, or a start / shutdown in which at
   least two goroutines report through the library's own logger at a level that prints; a stress observation in
   which at least two goroutines mutate the shared container; a log observation in which two goroutines print through
   the same logger *)
Definition mutates (o : op) : bool :=
  match o with OLoad _ => false | ORange => false | OExists _ => false | _ => true end.
Definition overlaps (a b : oprec) : bool :=
  negb (Nat.eqb (o_t a) (o_t b)) && Nat.ltb (o_inv a) (o_res b) && Nat.ltb (o_inv b) (o_res a).
Definition nontrivial (c : case) : bool :=
  match c with
  | CSeq _ ops _ => Nat.leb 4 (length ops) && existsb mutates ops && existsb (fun o => negb (mutates o)) ops
  | CHist _ _ _ recs => existsb (fun a => existsb (overlaps a) recs) recs
  | CRace _ _ nfail nlogged => Nat.leb 2 nfail || Nat.leb 2 nlogged
  | CStress _ s => Nat.leb 2 (length (filter (fun run => existsb (fun xr => xmutates (fst xr)) run) (s_runs s)))
  | CScan _ s => scan_nontrivial s
  | CLog _ s => shares_logger (lg_progs s)
  end.

Definition mismatches (cs : list case) : list nat := map cid (filter (fun c => negb (check_case c)) cs).
Definition violations (cs : list case) : list nat := map cid (filter (fun c => negb (oracle_case c)) cs).
Definition count_nontrivial (cs : list case) : list nat := [length (filter nontrivial cs)].
Definition nontrivial_ids (cs : list case) : list nat := map cid (filter nontrivial cs).
