(* Correspondence and oracle for C11, evaluated by vm_compute on cases written by the harness.

   A case = a struct shape (as generated, the Go type was built from the same description), the tag
   processors registered in the real App (tag / Required / ExtractHandler kind, read back from the real
   constructors), and what was observed around a real App.Run: the outcome, every property a recording user
   tag processor was handed for the component (field, tag, value, arguments), the paths of all fields whose
   value changed (every field at every depth is snapshotted, unexported ones included), and — for the
   metamorphic check — the values and properties of the flattened twin registered in the same App.

   [check_case]  : the model (Model/Scan.v: scan_fields / properties_of / footprint — the functions the
                   theorems of Properties/C11.v are about) reproduces the observation.
   [oracle_case] : the property on the observation: every changed field is writable by the declaration
                   ([writable_at]: exported, reached through entered structs only, carrying a recognised tag,
                   or inside such a field); the processors got exactly the declared carriers; a shape and
                   its flattening ended with equal values and equal properties. *)
From Coq Require Import List String Bool Arith.
From IocVerif Require Import Model.Scan.
Import ListNotations.
Local Open Scope list_scope.

Definition pobs := (string * string * string * targs)%type.      (* field, tag, value, args *)

Record meta := mkMeta {
  m_nested_vals : list (string * string);     (* leaf key (path without entered structs) -> rendered value *)
  m_flat_vals : list (string * string);
  m_flat_props : list pobs
}.

Record case := mkCase {
  cid : nat;
  cshape : comp;
  cprocs : list tagproc;
  cok : bool;                       (* Run returned nil, no panic *)
  cprops : list pobs;               (* recorded by the user processor *)
  cchanged : list path;             (* fields whose value differs after Run *)
  cmeta : option meta
}.

(* ---- comparisons ------------------------------------------------------------------------------ *)

Fixpoint list_eqb {A} (eqb : A -> A -> bool) (a b : list A) : bool :=
  match a, b with
  | [], [] => true
  | x :: a', y :: b' => eqb x y && list_eqb eqb a' b'
  | _, _ => false
  end.

Fixpoint lookup_arg (k : string) (a : targs) : option (list string) :=
  match a with [] => None | (k', v) :: r => if String.eqb k k' then Some v else lookup_arg k r end.

(* arguments are a map in the implementation: compare without order *)
Definition args_eqv (a b : targs) : bool :=
  Nat.eqb (List.length a) (List.length b) &&
  forallb (fun kv => match lookup_arg (fst kv) b with
                     | Some v => list_eqb String.eqb (snd kv) v
                     | None => false
                     end) a.

Definition pobs_eqb (x y : pobs) : bool :=
  match x, y with
  | (f1, t1, v1, a1), (f2, t2, v2, a2) =>
      String.eqb f1 f2 && String.eqb t1 t2 && String.eqb v1 v2 && args_eqv a1 a2
  end.

Fixpoint remove_first {A} (eqb : A -> A -> bool) (x : A) (l : list A) : option (list A) :=
  match l with
  | [] => None
  | y :: r => if eqb x y then Some r
              else match remove_first eqb x r with Some r' => Some (y :: r') | None => None end
  end.

Fixpoint multiset_eqb {A} (eqb : A -> A -> bool) (a b : list A) : bool :=
  match a with
  | [] => match b with [] => true | _ => false end
  | x :: a' => match remove_first eqb x b with Some b' => multiset_eqb eqb a' b' | None => false end
  end.

Fixpoint is_prefix (q p : path) : bool :=
  match q, p with
  | [], _ => true
  | a :: q', b :: p' => String.eqb a b && is_prefix q' p'
  | _ :: _, [] => false
  end.

(* ---- model vs implementation ---------------------------------------------------------------- *)

Definition model_props (c : case) : list pobs :=
  flat_map (fun tp => map pr_obs (properties_of tp (cshape c))) (cprocs c).

Definition check_case (c : case) : bool :=
  cok c &&
  multiset_eqb pobs_eqb (model_props c) (cprops c) &&
  (* the set of changed fields is exactly the footprint (every generated recognised tag is satisfiable
     and writes a non-zero value): each changed path lies at or below a footprint path, and each footprint
     path has a changed path at or below it *)
  let fp := footprint (cprocs c) (cshape c) in
  forallb (fun p => existsb (fun q => is_prefix q p) fp) (cchanged c) &&
  forallb (fun q => existsb (fun p => is_prefix q p) (cchanged c)) fp &&
  match cmeta c with
  | None => true
  | Some m =>
      multiset_eqb pobs_eqb
        (flat_map (fun tp => map pr_obs (properties_of tp (flatten_all (cshape c)))) (cprocs c))
        (m_flat_props m)
  end.

(* ---- the property on the observation ------------------------------------------------------------ *)

(* the declared carriers of tp's tag: exported fields reached through entered structs only *)
Fixpoint declared (tp : tagproc) (s : shape) : list pobs :=
  match s with
  | Leaf n e tags k imp =>
      if e then match carries tp tags imp with
                | Some (v, a) => [(n, tp_tag tp, v, with_required tp a)]
                | None => []
                end
      else []
  | Sub n e anon byv tags imp fs =>
      if enterable anon byv tags
      then (fix go (l : list shape) : list pobs :=
              match l with [] => [] | x :: r => declared tp x ++ go r end) fs
      else if e then match carries tp tags imp with
                     | Some (v, a) => [(n, tp_tag tp, v, with_required tp a)]
                     | None => []
                     end
           else []
  end.

Definition declared_all (c : case) : list pobs :=
  flat_map (fun tp => flat_map (declared tp) (cshape c)) (cprocs c).

Definition vals_eqb (a b : list (string * string)) : bool :=
  multiset_eqb (fun x y => String.eqb (fst x) (fst y) && String.eqb (snd x) (snd y)) a b.

Definition oracle_case (c : case) : bool :=
  cok c &&
  (* frame: nothing outside the declared writable fields changed *)
  forallb (writable_at (cprocs c) (cshape c)) (cchanged c) &&
  (* every processor (the user's included) was handed exactly the declared carriers of its tag *)
  multiset_eqb pobs_eqb (declared_all c) (cprops c) &&
  (* embedded or declared directly: same values, same properties *)
  match cmeta c with
  | None => true
  | Some m => vals_eqb (m_nested_vals m) (m_flat_vals m) &&
              multiset_eqb pobs_eqb (cprops c) (m_flat_props m)
  end.

(* ---- non-triviality ----------------------------------------------------------------------------- *)

(* every declared position with a tag some processor recognises, at any depth, entered or not *)
Fixpoint tagged_paths (procs : list tagproc) (pre : path) (s : shape) : list path :=
  match s with
  | Leaf n e tags k imp => if recognised procs tags imp then [pre ++ [n]] else []
  | Sub n e anon byv tags imp fs =>
      (if recognised procs tags imp then [pre ++ [n]] else []) ++
      (fix go (l : list shape) : list path :=
         match l with [] => [] | x :: r => tagged_paths procs (pre ++ [n]) x ++ go r end) fs
  end.

Definition path_eqb (a b : path) : bool := list_eqb String.eqb a b.

(* a property found below an entered struct, and a recognised-looking field the container must leave alone *)
Definition nontrivial (c : case) : bool :=
  let fp := footprint (cprocs c) (cshape c) in
  existsb (fun q => (2 <=? List.length q)%nat) fp &&
  existsb (fun t => negb (existsb (fun q => is_prefix q t) fp))
          (flat_map (tagged_paths (cprocs c) []) (cshape c)).

Definition mismatches (cs : list case) : list nat :=
  map cid (filter (fun c => negb (check_case c && wf_comp (cshape c))) cs).
Definition violations (cs : list case) : list nat :=
  map cid (filter (fun c => negb (oracle_case c)) cs).
Definition count_nontrivial (cs : list case) : list nat :=
  [List.length (filter nontrivial cs)].
