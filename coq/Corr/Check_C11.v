(* Correspondence and oracle for C11, evaluated by vm_compute on cases written by the harness.

   A case = a struct shape (as generated, the Go type was built from the same description), the tag
   processors registered in the real App (tag / Required / ExtractHandler kind, read back from the real
   constructors), and what was observed around a real App.Run: the outcome, every property a recording user
   tag processor was handed for the component (field, tag, value, arguments), the paths of all fields whose
   value changed (every field at every depth is snapshotted, unexported ones included), and — for the
   metamorphic check — the values and properties of the flattened twin registered in the same App.

   [check_case]  : the model (Model/Scan.v: scan_fields / properties_of / footprint — the functions the
                   theorems of Properties/C11.v are about) reproduces the observation.
   [oracle_case] : the property on the observation: every changed field is writable by the declaration
                   ([writable_at]: exported, reached through entered structs only, carrying a recognised tag,
                   or inside such a field); the processors got exactly the declared carriers; a shape and
                   its flattening ended with equal values and equal properties. *)
From Coq Require Import List String Bool Arith.
From IocVerif Require Import Model.Scan.
Import ListNotations.
Local Open Scope list_scope.

Definition pobs := (string * string * string * targs)%type.      (* field, tag, value, args *)

Record meta := mkMeta {
  m_nested_vals : list (string * string);     (* leaf key (path without entered structs) -> rendered value *)
  m_flat_vals : list (string * string);
  m_flat_props : list pobs;
  m_flat_logs : list (path * string)          (* the twin's logger fields: path -> prefix (see clogs) *)
}.

Record case := mkCase {
  cid : nat;
  cshape : comp;
  cprocs : list tagproc;
  cok : bool;                       (* Run returned nil, no panic *)
  cprops : list pobs;               (* recorded by the user processor *)
  cchanged : list path;             (* fields whose value differs after Run *)
  cmeta : option meta;
  cnamed : bool;                    (* the struct types have names (generated source); reflect.StructOf types have none *)
  clogs : list (path * string)      (* every non-nil syslog.Logger field after Run: the prefix its logger was made for,
                                       the component's own name written "@"; marked when it is not the shared logger
                                       syslog.Pref hands out for that prefix *)
}.

(* ---- comparisons ------------------------------------------------------------------------------ *)

Fixpoint list_eqb {A} (eqb : A -> A -> bool) (a b : list A) : bool :=
  match a, b with
  | [], [] => true
  | x :: a', y :: b' => eqb x y && list_eqb eqb a' b'
  | _, _ => false
  end.

Fixpoint lookup_arg (k : string) (a : targs) : option (list string) :=
  match a with [] => None | (k', v) :: r => if String.eqb k k' then Some v else lookup_arg k r end.

(* arguments are a map in the implementation: compare without order *)
Definition args_eqv (a b : targs) : bool :=
  Nat.eqb (List.length a) (List.length b) &&
  forallb (fun kv => match lookup_arg (fst kv) b with
                     | Some v => list_eqb String.eqb (snd kv) v
                     | None => false
                     end) a.

Definition pobs_eqb (x y : pobs) : bool :=
  match x, y with
  | (f1, t1, v1, a1), (f2, t2, v2, a2) =>
      String.eqb f1 f2 && String.eqb t1 t2 && String.eqb v1 v2 && args_eqv a1 a2
  end.

Fixpoint remove_first {A} (eqb : A -> A -> bool) (x : A) (l : list A) : option (list A) :=
  match l with
  | [] => None
  | y :: r => if eqb x y then Some r
              else match remove_first eqb x r with Some r' => Some (y :: r') | None => None end
  end.

Fixpoint multiset_eqb {A} (eqb : A -> A -> bool) (a b : list A) : bool :=
  match a with
  | [] => match b with [] => true | _ => false end
  | x :: a' => match remove_first eqb x b with Some b' => multiset_eqb eqb a' b' | None => false end
  end.

Fixpoint is_prefix (q p : path) : bool :=
  match q, p with
  | [], _ => true
  | a :: q', b :: p' => String.eqb a b && is_prefix q' p'
  | _ :: _, [] => false
  end.

(* ---- model vs implementation ---------------------------------------------------------------- *)

Definition model_props (c : case) : list pobs :=
  flat_map (fun tp => map pr_obs (properties_of tp (cshape c))) (cprocs c).

(* the logger every logger point receives, according to the model (Scan.logger_points / logger_pref) *)
Definition self_name : string := "@".

Definition model_logs (named : bool) (procs : list tagproc) (sh : comp) : list (path * string) :=
  flat_map (fun tp => if String.eqb (tp_tag tp) "logger"
                      then map (fun pr => (pr_path pr, logger_pref self_name named pr)) (logger_points tp sh)
                      else []) procs.

Definition log_eqb (x y : path * string) : bool :=
  list_eqb String.eqb (fst x) (fst y) && String.eqb (snd x) (snd y).

Definition check_case (c : case) : bool :=
  cok c &&
  multiset_eqb pobs_eqb (model_props c) (cprops c) &&
  multiset_eqb log_eqb (model_logs (cnamed c) (cprocs c) (cshape c)) (clogs c) &&
  (* the set of changed fields is exactly the footprint (every generated recognised tag is satisfiable
     and writes a non-zero value): each changed path lies at or below a footprint path, and each footprint
     path has a changed path at or below it *)
  let fp := footprint (cprocs c) (cshape c) in
  forallb (fun p => existsb (fun q => is_prefix q p) fp) (cchanged c) &&
  forallb (fun q => existsb (fun p => is_prefix q p) (cchanged c)) fp &&
  match cmeta c with
  | None => true
  | Some m =>
      multiset_eqb pobs_eqb
        (flat_map (fun tp => map pr_obs (properties_of tp (flatten_all (cshape c)))) (cprocs c))
        (m_flat_props m) &&
      multiset_eqb log_eqb (model_logs (cnamed c) (cprocs c) (flatten_all (cshape c))) (m_flat_logs m)
  end.

(* ---- the property on the observation ------------------------------------------------------------ *)

(* the declared carriers of tp's tag: exported fields reached through entered structs only *)
Fixpoint declared (tp : tagproc) (s : shape) : list pobs :=
  match s with
  | Leaf n e tags k imp =>
      if e then match carries tp tags imp with
                | Some (v, a) => [(n, tp_tag tp, v, with_required tp a)]
                | None => []
                end
      else []
  | Sub n e anon byv tags imp fs =>
      if enterable anon byv tags
      then (fix go (l : list shape) : list pobs :=
              match l with [] => [] | x :: r => declared tp x ++ go r end) fs
      else if e then match carries tp tags imp with
                     | Some (v, a) => [(n, tp_tag tp, v, with_required tp a)]
                     | None => []
                     end
           else []
  end.

Definition declared_all (c : case) : list pobs :=
  flat_map (fun tp => flat_map (declared tp) (cshape c)) (cprocs c).

(* the declared logger points: exported fields of type syslog.Logger carrying the logger tag, reached through entered
   structs only; each with its path, the tag's value and arguments *)
Fixpoint declared_logs (pre : path) (s : shape) : list (path * string * targs) :=
  match s with
  | Leaf n e tags k imp =>
      if e && kind_is_logger k
      then match find_tag "logger" tags with Some t => [(pre ++ [n], tg_val t, tg_args t)] | None => [] end
      else []
  | Sub n e anon byv tags imp fs =>
      if enterable anon byv tags
      then (fix go (l : list shape) : list (path * string * targs) :=
              match l with [] => [] | x :: r => declared_logs (pre ++ [n]) x ++ go r end) fs
      else []
  end.

Fixpoint lookup_log (p : path) (l : list (path * string)) : option string :=
  match l with
  | [] => None
  | (q, v) :: r => if list_eqb String.eqb p q then Some v else lookup_log p r
  end.

(* "processed identically whether declared directly or inside embedded structs": a logger point receives the logger
   the same tag yields on a field declared directly on the component ([logger_direct]: the tag's own prefix, else the
   component's name) - wherever it is declared; only a tag that itself asks for the position (`embed` and no prefix)
   is exempt when it lies inside an embedded struct ([direct_only] = false) *)
Definition logs_as_declared (direct_only : bool) (sh : comp) (logs : list (path * string)) : bool :=
  forallb (fun d => match d with
                    | (p, v, a) =>
                        if wants_position v a && negb (direct_only || Nat.eqb (List.length p) 1) then true
                        else match lookup_log p logs with
                             | Some got => String.eqb got (logger_direct self_name v)
                             | None => false
                             end
                    end)
          (flat_map (declared_logs []) sh).

Definition has_logger_proc (c : case) : bool := existsb (fun tp => String.eqb (tp_tag tp) "logger") (cprocs c).

Definition vals_eqb (a b : list (string * string)) : bool :=
  multiset_eqb (fun x y => String.eqb (fst x) (fst y) && String.eqb (snd x) (snd y)) a b.

Definition oracle_case (c : case) : bool :=
  cok c &&
  (* frame: nothing outside the declared writable fields changed *)
  forallb (writable_at (cprocs c) (cshape c)) (cchanged c) &&
  (* every processor (the user's included) was handed exactly the declared carriers of its tag *)
  multiset_eqb pobs_eqb (declared_all c) (cprops c) &&
  (* every logger point holds the logger of a directly declared one *)
  (negb (has_logger_proc c) || logs_as_declared false (cshape c) (clogs c)) &&
  (* embedded or declared directly: same values, same properties, same loggers *)
  match cmeta c with
  | None => true
  | Some m => vals_eqb (m_nested_vals m) (m_flat_vals m) &&
              multiset_eqb pobs_eqb (cprops c) (m_flat_props m) &&
              (negb (has_logger_proc c) || logs_as_declared true (flatten_all (cshape c)) (m_flat_logs m))
  end.

(* ---- non-triviality ----------------------------------------------------------------------------- *)

(* every declared position with a tag some processor recognises, at any depth, entered or not *)
Fixpoint tagged_paths (procs : list tagproc) (pre : path) (s : shape) : list path :=
  match s with
  | Leaf n e tags k imp => if recognised procs tags imp then [pre ++ [n]] else []
  | Sub n e anon byv tags imp fs =>
      (if recognised procs tags imp then [pre ++ [n]] else []) ++
      (fix go (l : list shape) : list path :=
         match l with [] => [] | x :: r => tagged_paths procs (pre ++ [n]) x ++ go r end) fs
  end.

Definition path_eqb (a b : path) : bool := list_eqb String.eqb a b.

(* a property found below an entered struct, and a recognised-looking field the container must leave alone *)
Definition nontrivial (c : case) : bool :=
  let fp := footprint (cprocs c) (cshape c) in
  existsb (fun q => (2 <=? List.length q)%nat) fp &&
  existsb (fun t => negb (existsb (fun q => is_prefix q t) fp))
          (flat_map (tagged_paths (cprocs c) []) (cshape c)).

Definition mismatches (cs : list case) : list nat :=
  map cid (filter (fun c => negb (check_case c && wf_comp (cshape c))) cs).
Definition violations (cs : list case) : list nat :=
  map cid (filter (fun c => negb (oracle_case c)) cs).
Definition count_nontrivial (cs : list case) : list nat :=
  [List.length (filter nontrivial cs)].
