(* C13 oracle and non-triviality on wiring cases. Correspondence: Corr/Wiring.v [wcheck_obs];
   oracles: Corr/WiringOracles.v (static scenario data + the implementation's observation only). *)
From Coq Require Import List Arith Bool.
From IocVerif Require Import Model.App Corr.Wiring Corr.WiringOracles.
Import ListNotations.

Definition check_case : wcase -> bool := wcheck_obs.

(* every runner once, in contract order, after all eager initialisation; stop at the first failing runner *)
Definition oracle_case (c : wcase) : bool := oracle_runners c.

Definition nontrivial (c : wcase) : bool := (2 <=? length (runner_names c)) || negb (forallb (fun n => negb (runner_fails (w_scn c) n)) (runner_names c)).

Definition mismatches (cs : list wcase) : list nat := wmismatches_obs cs.
Definition violations (cs : list wcase) : list nat :=
  map w_id (filter (fun c => negb (oracle_case c)) cs).
Definition count_nontrivial (cs : list wcase) : list nat := [length (filter nontrivial cs)].
