(* C10: the same component set started under several registration orders (and repeated, so that Go's
   map iteration order varies): every run must agree with the model (wcheck_obs on each) and, independently
   of the model, the runs must agree with each other on the order-insensitive projection. *)
From Coq Require Import List Arith Bool.
From IocVerif Require Import Model.App Corr.Wiring Corr.WiringOracles.
Import ListNotations.

Record pcase : Type := mkP { p_base : wcase; p_others : list obs }.
Notation case := pcase.

Definition ver_mem (v : ver) (l : list ver) : bool := existsb (ver_eqb v) l.
Definition vers_same_set (a b : list ver) : bool :=
  forallb (fun v => ver_mem v b) a && forallb (fun v => ver_mem v a) b && Nat.eqb (length a) (length b).

Fixpoint fields_equiv (a b : list ((name * nat) * list ver)) : bool :=
  match a, b with
  | [], [] => true
  | (k, x) :: a', (k', y) :: b' => key_eqb k k' && vers_same_set x y && fields_equiv a' b'
  | _, _ => false
  end.

(* success flag, every point's value (slices as sets), every lookup *)
Definition obs_equiv (a b : obs) : bool :=
  outcome_eqb (ob_outcome a) (ob_outcome b)
  && match ob_outcome a with
     | OOk => fields_equiv (ob_fields a) (ob_fields b)
              && list_eqb ltoken_eqb (ob_lookups a) (ob_lookups b)
     | _ => true
     end.

Definition with_obs (c : wcase) (o : obs) : wcase := mkW (w_id c) (w_scn c) (w_lookups c) o (w_x c).

Definition check_case (c : pcase) : bool :=
  wcheck_obs (p_base c) && forallb (fun o => wcheck_obs (with_obs (p_base c) o)) (p_others c).

Definition oracle_case (c : pcase) : bool :=
  forallb (fun o => obs_equiv (w_obs (p_base c)) o) (p_others c)
  && oracle_clean_outcome (p_base c).

(* non-trivial: a cycle, a substituting processor, or a single point with several providers *)
Definition nontrivial (c : pcase) : bool :=
  let b := p_base c in
  has_cycle b || negb (no_substitution b)
  || (1 <=? count_points b (fun h kp => negb (pt_slice (snd kp)) && (2 <=? length (providers b h (snd kp))))).

Definition mismatches (cs : list pcase) : list nat := map (fun c => w_id (p_base c)) (filter (fun c => negb (check_case c)) cs).
Definition violations (cs : list pcase) : list nat := map (fun c => w_id (p_base c)) (filter (fun c => negb (oracle_case c)) cs).
Definition count_nontrivial (cs : list pcase) : list nat := [length (filter nontrivial cs)].
