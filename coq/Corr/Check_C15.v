(* Correspondence and oracle for C15, evaluated by vm_compute on cases written by the harness.

   A case = what was configured (the os.Args configure.Default() saw, then the option sequence with
   the loaders' documents) and what the real App observed after Run: the outcome class, App.Get(p)
   for every path of every document, and the value a prefix-bound map field received.

   [check_case]  : the model (Model/ConfigMerge.v: configured / sequence / run_seq / merge / getd —
                   the functions the theorems of Properties/C15.v are about) reproduces the observation.
   [oracle_case] : the property itself on the observation, without the merge model: per path the
                   LAST supplier in the loader sequence wins (leaf), maps stay maps, nothing the
                   configured sources supply is missing, no panic; source-adding options add.
   Loaders of equal class and Order (two files, two user loaders with the same Order()) must be consulted in
   the order in which they were added — the reading of "for a key supplied by several loaders the last
   one wins" for sources the sorter does not separate; sort.Slice on at most 12 elements is a stable
   insertion sort and the generator stays below that — so exactly ONE sequence is admissible,
   [sequence] of Model/ConfigMerge.v (c15_sequence_contract + c15_sequence_stable determine it).

   A history case ([hcase]) is ONE Configure driven through several steps (SetLoaders / AddLoaders /
   Initialize / reads): [check_hcase] replays it on the code's own model ([cstep_run Stored]: the sorted
   list is stored back), [oracle_hcase] evaluates the property on the observation in the
   specification's view (every Initialize consults [sequence] of ALL loaders configured so far; per
   path the last supplier among all documents merged so far wins).

   A re-use case ([rcase]) applies option values / loader slices that were built ONCE to several objects
   (Apps, Configures) or several times to one; every object is judged as a history from the VALUES.

   ArgsLoaders reach this file as the argument STRINGS the real loader received ([LArgv]); typing the values
   (strconv2.ParseAny) and splitting key from value is the model's job (ConfigMerge.parse_arg). *)
From Coq Require Import List String ZArith Bool Arith.
From IocVerif Require Import Model.Strconv.   (* before ConfigMerge: its is_map / ... are the ones meant below *)
From IocVerif Require Import Model.Sorter Model.ConfigMerge.
Import ListNotations.
Local Open Scope list_scope.

Inductive oclass := OOk | OErr | OPanic.

Record case := mkCase {
  cid : nat;
  cosargs : list bytes;                     (* os.Args[1:] as the process received them ("--app.config=K=V" strings) *)
  cops : list copt;                         (* options passed to Run, in order *)
  cout : oclass;                            (* observed outcome of Run *)
  cgets : list (path * option ctree);       (* observed App.Get(p); None = nil *)
  cbound : option (key * option ctree);     (* prefix:"k" map field of a component: observed value *)
  clog : list nat                           (* ids of the user-written loaders in the order LoadConfig was called *)
}.

(* ---- comparison of values: maps are compared as maps (key order is not observable) ---------- *)

Definition atom_eqb (a b : atom) : bool :=
  match a, b with
  | ANull, ANull => true
  | ABool x, ABool y => Bool.eqb x y
  | AInt x, AInt y => Z.eqb x y
  | AFloat x, AFloat y => String.eqb x y
  | AStr x, AStr y => String.eqb x y
  | _, _ => false
  end.

Fixpoint teqv (a b : ctree) {struct a} : bool :=
  match a, b with
  | CLeaf x, CLeaf y => atom_eqb x y
  | CList xs, CList ys =>
      (fix go (xs ys : list ctree) {struct xs} : bool :=
         match xs, ys with
         | [], [] => true
         | x :: xr, y :: yr => teqv x y && go xr yr
         | _, _ => false
         end) xs ys
  | CMap xs, CMap ys =>
      Nat.eqb (length xs) (length ys) &&
      (fix go (xs : list (key * ctree)) : bool :=
         match xs with
         | [] => true
         | (k, v) :: r => match lookup k ys with Some w => teqv v w | None => false end && go r
         end) xs
  | _, _ => false
  end.

(* viper.Get cannot tell a null value from an absent key *)
Definition norm (o : option ctree) : option ctree :=
  match o with Some (CLeaf ANull) => None | _ => o end.

Definition oeqv (a b : option ctree) : bool :=
  match norm a, norm b with
  | None, None => true
  | Some x, Some y => teqv x y
  | _, _ => false
  end.

(* ---- admissible loader sequences -------------------------------------------------------- *)

Definition admissible (ls : list loader) : list (list loader) := [sequence ls].

Definition list_nat_eqb (a b : list nat) : bool :=
  if list_eq_dec Nat.eq_dec a b then true else false.

(* the user-written loaders among those a pass calls, in calling order *)
Definition user_lids (used : list loader) : list nat := map lid (filter is_user used).
Definition log_of (seq : list loader) : list nat :=
  let '(_, _, used) := consult seq in user_lids used.

Definition os_loader (c : case) : loader := mkLoader 0 (LArgv (cosargs c)).
Definition loaders_of (c : case) : list loader := configured Repaired (os_loader c) (cops c).

(* ---- model vs implementation ----------------------------------------------------------------- *)

Definition obs_match (c : case) (seq : list loader) : bool :=
  list_nat_eqb (log_of seq) (clog c) &&
  match run_seq [] seq, cout c with
  | RErr, OErr => true
  | RPanic, OPanic => true
  | ROk cfg, OOk =>
      forallb (fun pg => oeqv (getd (fst pg) cfg) (snd pg)) (cgets c) &&
      match cbound c with
      | None => true
      | Some (k, b) => oeqv (getd [k] cfg) b
      end
  | _, _ => false
  end.

Definition check_case (c : case) : bool :=
  existsb (fun seq => obs_match c seq) (admissible (loaders_of c)).

(* ---- the property on the observation ----------------------------------------------------------- *)

(* documents of a sequence as the SPECIFICATION sees them; None when some loader cannot deliver *)
Definition unreadable (l : loader) : bool := match lk l with LFile None => true | _ => false end.
(* the scalar-then-dotted key clash inside one ArgsLoader (go-kid/properties panics); a panic of strconv2.ParseAny on
   a value text is NOT this shape *)
Definition args_panics (l : loader) : bool :=
  match lk l with
  | LArgs a => match args_load a with LoadPanic => true | _ => false end
  | LArgv a => match argv_typed a with
               | Ok args => match args_load args with LoadPanic => true | _ => false end
               | _ => false
               end
  | _ => false
  end.

Definition lookup_obs (p : path) (gs : list (path * option ctree)) : option (option ctree) :=
  match find (fun pg => if list_eq_dec string_dec (fst pg) p then true else false) gs with
  | Some pg => Some (snd pg)
  | None => None
  end.

(* per path: last supplier wins on leaves; a map-valued last supplier leaves a map *)
Definition path_ok (skip_conflicts : bool) (docs : list doc) (pg : path * option ctree) : bool :=
  let vals := map (getd (fst pg)) docs in
  if skip_conflicts && conflictb false vals then true else
  match last_some vals with
  | None => oeqv None (snd pg)
  | Some v => if is_map v then match snd pg with Some (CMap _) => true | _ => false end
              else oeqv (Some v) (snd pg)
  end.

Definition bound_ok (c : case) : bool :=
  match cbound c with
  | None => true
  | Some (k, b) => match lookup_obs [k] (cgets c) with Some g => oeqv g b | None => false end
  end.

Definition oracle_gen (skip_conflicts : bool) (c : case) : bool :=
  let ls := loaders_of c in
  list_nat_eqb (log_of (sequence ls)) (clog c) &&
  if existsb unreadable ls then match cout c with OErr => true | _ => false end
  else match cout c with
       | OOk =>
           bound_ok c &&
           existsb (fun seq => match docs_of seq with
                               | Some docs => forallb (path_ok skip_conflicts docs) (cgets c)
                               | None => false
                               end) (admissible ls)
       | _ => false
       end.

Definition oracle_case (c : case) : bool := oracle_gen false c.

(* known-finding classes, decided per case on the data *)
(* KF-C15b: the oracle fails ONLY at paths that are a map in an earlier source and a non-map in a later one *)
Definition kf_b_case (c : case) : bool :=
  negb (oracle_gen false c) && oracle_gen true c.
(* KF-C15c: a panic, and some ArgsLoader in the list has the scalar-then-dotted shape *)
Definition kf_c_case (c : case) : bool :=
  negb (oracle_gen false c) &&
  match cout c with OPanic => existsb args_panics (loaders_of c) | _ => false end.

(* ---- non-triviality --------------------------------------------------------------------------- *)

Definition supplied_count (docs : list doc) (p : path) : nat :=
  length (filter (fun d => match getd p d with Some v => negb (is_map v) | None => false end) docs).

(* at least two loaded documents, a leaf path supplied by two or more of them and one supplied by exactly one *)
Definition nontrivial (c : case) : bool :=
  match docs_of (sequence (loaders_of c)) with
  | Some docs =>
      (2 <=? length docs)%nat &&
      existsb (fun pg => (2 <=? supplied_count docs (fst pg))%nat) (cgets c) &&
      existsb (fun pg => Nat.eqb (supplied_count docs (fst pg)) 1) (cgets c)
  | None => false
  end.

(* generated documents must be well-formed (the theorems' standing hypothesis) *)
Definition wf_case (c : case) : bool :=
  forallb (fun l => match load l with LoadOk (Some d) => wf_doc d | _ => true end) (loaders_of c).

(* ---- histories: one Configure, several steps ------------------------------------------------------ *)

Inductive hobs : Type :=
| HSet (ls : list loader)                          (* SetLoaders(ls...) *)
| HAdd (ls : list loader)                          (* AddLoaders(ls...) / app.AddConfigLoader / app.SetConfig *)
| HInit (out : oclass) (log : list nat)            (* Initialize (directly or inside App.Run): observed outcome, user loaders called *)
| HGet (gets : list (path * option ctree)).        (* reads: observed Get(p) *)

Record hcase := mkHCase {
  hid : nat;
  hstart : list loader;                     (* what the Configure held before the first step: [] (NewConfigure) or
                                               [ArgsLoader(os.Args)] (configure.Default) *)
  hsteps : list hobs;
  hbound : option (key * option ctree)      (* prefix-bound map field of a component of the final App.Run *)
}.

Definition st_of (r : rstatus) : oclass := match r with SOk => OOk | SErr => OErr | SPanic => OPanic end.
Definition oclass_eqb (a b : oclass) : bool :=
  match a, b with OOk, OOk | OErr, OErr | OPanic, OPanic => true | _, _ => false end.

(* model vs implementation, step by step, on the code's own model *)
Fixpoint hcheck (s : cstate) (steps : list hobs) (bound : option (key * option ctree)) : bool :=
  match steps with
  | [] => match bound with None => true | Some (k, b) => oeqv (getd [k] (cs_cfg s)) b end
  | HSet ls :: r => hcheck (fst (cstep_run Stored s (CSet ls))) r bound
  | HAdd ls :: r => hcheck (fst (cstep_run Stored s (CAdd ls))) r bound
  | HInit out log :: r =>
      match cstep_run Stored s CInit with
      | (s', Some (st, used)) =>
          oclass_eqb (st_of st) out && list_nat_eqb (user_lids used) log && hcheck s' r bound
      | (_, None) => false
      end
  | HGet gets :: r =>
      forallb (fun pg => oeqv (getd (fst pg) (cs_cfg s)) (snd pg)) gets && hcheck s r bound
  end.

Definition check_hcase (c : hcase) : bool := hcheck (mkCState (hstart c) []) (hsteps c) (hbound c).

(* the property on the observation: [cur] = the loaders as SetLoaders/AddLoaders built them (Initialize does not
   touch them), [docs] = every document merged so far, in merge order; a panic is never acceptable, an error only
   where a loader cannot deliver *)
Fixpoint horacle (skip : bool) (cur : list loader) (docs : list doc) (lastg : list (path * option ctree))
                 (steps : list hobs) (bound : option (key * option ctree)) : bool :=
  match steps with
  | [] => match bound with
          | None => true
          | Some (k, b) => match lookup_obs [k] lastg with Some g => oeqv g b | None => false end
          end
  | HSet ls :: r => horacle skip ls docs lastg r bound
  | HAdd ls :: r => horacle skip (cur ++ ls) docs lastg r bound
  | HInit out log :: r =>
      let '(ds, st, used) := consult (sequence cur) in
      match out with OPanic => false | _ => oclass_eqb (st_of st) out end &&
      list_nat_eqb (user_lids used) log &&
      horacle skip cur (docs ++ ds) lastg r bound
  | HGet gets :: r =>
      forallb (path_ok skip docs) gets && horacle skip cur docs gets r bound
  end.

Definition horacle_gen (skip : bool) (c : hcase) : bool :=
  horacle skip (hstart c) [] [] (hsteps c) (hbound c).
Definition oracle_hcase (c : hcase) : bool := horacle_gen false c.

Definition hloaders (c : hcase) : list loader :=
  hstart c ++ flat_map (fun o => match o with HSet ls => ls | HAdd ls => ls | _ => [] end) (hsteps c).

Definition hkf_b_case (c : hcase) : bool := negb (horacle_gen false c) && horacle_gen true c.
Definition hkf_c_case (c : hcase) : bool :=
  negb (horacle_gen false c) &&
  existsb (fun o => match o with HInit OPanic _ => true | _ => false end) (hsteps c) &&
  existsb args_panics (hloaders c).

(* non-trivial: an Initialize, then the loader list changes, then another Initialize *)
Fixpoint reinit (phase : nat) (steps : list hobs) : bool :=
  match steps with
  | [] => false
  | HInit _ _ :: r => match phase with 2 => true | _ => reinit 1 r end
  | HAdd (_ :: _) :: r => reinit (match phase with 0 => 0 | _ => 2 end) r
  | HSet _ :: r => reinit (match phase with 0 => 0 | _ => 2 end) r
  | _ :: r => reinit phase r
  end.
Definition hnontrivial (c : hcase) : bool := reinit 0 (hsteps c).

Definition wf_hcase (c : hcase) : bool :=
  forallb (fun l => match load l with LoadOk (Some d) => wf_doc d | _ => true end) (hloaders c).

Definition hmismatches (cs : list hcase) : list nat :=
  map hid (filter (fun c => negb (check_hcase c && wf_hcase c)) cs).
Definition hviolations (cs : list hcase) : list nat :=
  map hid (filter (fun c => negb (oracle_hcase c)) cs).
Definition hkf_b (cs : list hcase) : list nat := map hid (filter hkf_b_case cs).
Definition hkf_c (cs : list hcase) : list nat := map hid (filter hkf_c_case cs).
Definition hcount_nontrivial (cs : list hcase) : list nat :=
  [length (filter hnontrivial cs)].

(* ---- option values and loader slices used more than once ------------------------------------------
   The option values (app.SetConfigLoader(ls...) / AddConfigLoader(ls...) / SetConfig(file)) and the loader slices
   are built ONCE and applied round after round: to a new App, to the same App started again, to a new App on the
   same Configure, to Configures driven directly.  A value is a value: every object (App / Configure) that is
   configured from them goes through its own history, [robjs] lists them with what was observed; each is checked
   and judged exactly like a history on one Configure. *)
Record rcase := mkRCase { rid : nat; robjs : list hcase }.

Definition check_rcase (c : rcase) : bool := forallb (fun h => check_hcase h && wf_hcase h) (robjs c).
Definition oracle_rcase (c : rcase) : bool := forallb oracle_hcase (robjs c).
Definition rkf_b_case (c : rcase) : bool := negb (oracle_rcase c) && forallb (horacle_gen true) (robjs c).
Definition rkf_c_case (c : rcase) : bool :=
  negb (oracle_rcase c) && forallb (fun h => oracle_hcase h || hkf_c_case h) (robjs c).
(* non-trivial: the values were used for at least two Initializes *)
Definition rnontrivial (c : rcase) : bool :=
  (2 <=? length (filter (fun o => match o with HInit _ _ => true | _ => false end)
                        (flat_map hsteps (robjs c))))%nat.

Definition rmismatches (cs : list rcase) : list nat := map rid (filter (fun c => negb (check_rcase c)) cs).
Definition rviolations (cs : list rcase) : list nat := map rid (filter (fun c => negb (oracle_rcase c)) cs).
Definition rkf_b (cs : list rcase) : list nat := map rid (filter rkf_b_case cs).
Definition rkf_c (cs : list rcase) : list nat := map rid (filter rkf_c_case cs).
Definition rcount_nontrivial (cs : list rcase) : list nat := [length (filter rnontrivial cs)].

Definition mismatches (cs : list case) : list nat :=
  map cid (filter (fun c => negb (check_case c && wf_case c)) cs).
Definition violations (cs : list case) : list nat :=
  map cid (filter (fun c => negb (oracle_case c)) cs).
Definition kf_b (cs : list case) : list nat := map cid (filter kf_b_case cs).
Definition kf_c (cs : list case) : list nat := map cid (filter kf_c_case cs).
Definition count_nontrivial (cs : list case) : list nat :=
  [length (filter nontrivial cs)].
