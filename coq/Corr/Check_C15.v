(* Correspondence and oracle for C15, evaluated by vm_compute on cases written by the harness.

   A case = what was configured (the os.Args configure.Default() saw, then the option sequence with
   the loaders' documents) and what the real App observed after Run: the outcome class, App.Get(p)
   for every path of every document, and the value a prefix-bound map field received.

   [check_case]  : the model (Model/ConfigMerge.v: configured / sequence / run_seq / merge / getd —
                   the functions the theorems of Properties/C15.v are about) reproduces the observation.
   [oracle_case] : the property itself on the observation, without the merge model: per path the
                   LAST supplier in the loader sequence wins (leaf), maps stay maps, nothing the
                   configured sources supply is missing, no panic; source-adding options add.
   Order of equal-Order file loaders is left open by the contract: both accept any order of the
   file block (sort.Slice is not stable). *)
From Coq Require Import List String ZArith Bool Arith.
From IocVerif Require Import Model.Sorter Model.ConfigMerge.
Import ListNotations.
Local Open Scope list_scope.

Inductive oclass := OOk | OErr | OPanic.

Record case := mkCase {
  cid : nat;
  cosargs : list arg;                       (* "--app.config=..." arguments in os.Args *)
  cops : list copt;                         (* options passed to Run, in order *)
  cout : oclass;                            (* observed outcome of Run *)
  cgets : list (path * option ctree);       (* observed App.Get(p); None = nil *)
  cbound : option (key * option ctree)      (* prefix:"k" map field of a component: observed value *)
}.

(* ---- comparison of values: maps are compared as maps (key order is not observable) ---------- *)

Definition atom_eqb (a b : atom) : bool :=
  match a, b with
  | ANull, ANull => true
  | ABool x, ABool y => Bool.eqb x y
  | AInt x, AInt y => Z.eqb x y
  | AFloat x, AFloat y => String.eqb x y
  | AStr x, AStr y => String.eqb x y
  | _, _ => false
  end.

Fixpoint teqv (a b : ctree) {struct a} : bool :=
  match a, b with
  | CLeaf x, CLeaf y => atom_eqb x y
  | CList xs, CList ys =>
      (fix go (xs ys : list ctree) {struct xs} : bool :=
         match xs, ys with
         | [], [] => true
         | x :: xr, y :: yr => teqv x y && go xr yr
         | _, _ => false
         end) xs ys
  | CMap xs, CMap ys =>
      Nat.eqb (length xs) (length ys) &&
      (fix go (xs : list (key * ctree)) : bool :=
         match xs with
         | [] => true
         | (k, v) :: r => match lookup k ys with Some w => teqv v w | None => false end && go r
         end) xs
  | _, _ => false
  end.

(* viper.Get cannot tell a null value from an absent key *)
Definition norm (o : option ctree) : option ctree :=
  match o with Some (CLeaf ANull) => None | _ => o end.

Definition oeqv (a b : option ctree) : bool :=
  match norm a, norm b with
  | None, None => true
  | Some x, Some y => teqv x y
  | _, _ => false
  end.

(* ---- admissible loader sequences -------------------------------------------------------- *)

Fixpoint insert_all (x : loader) (l : list loader) : list (list loader) :=
  match l with
  | [] => [[x]]
  | y :: r => (x :: y :: r) :: map (cons y) (insert_all x r)
  end.
Fixpoint perms (l : list loader) : list (list loader) :=
  match l with [] => [[]] | x :: r => flat_map (insert_all x) (perms r) end.

Definition admissible (ls : list loader) : list (list loader) :=
  sequence ls ::
  map (fun fs => fs ++ filter (fun l => negb (is_file l)) ls) (perms (filter is_file ls)).

Definition os_loader (c : case) : loader := mkLoader 0 (LArgs (cosargs c)).
Definition loaders_of (c : case) : list loader := configured Repaired (os_loader c) (cops c).

(* ---- model vs implementation ----------------------------------------------------------------- *)

Definition obs_match (c : case) (o : outcome) : bool :=
  match o, cout c with
  | RErr, OErr => true
  | RPanic, OPanic => true
  | ROk cfg, OOk =>
      forallb (fun pg => oeqv (getd (fst pg) cfg) (snd pg)) (cgets c) &&
      match cbound c with
      | None => true
      | Some (k, b) => oeqv (getd [k] cfg) b
      end
  | _, _ => false
  end.

Definition check_case (c : case) : bool :=
  existsb (fun seq => obs_match c (run_seq [] seq)) (admissible (loaders_of c)).

(* ---- the property on the observation ----------------------------------------------------------- *)

(* documents of a sequence as the SPECIFICATION sees them; None when some loader cannot deliver *)
Definition unreadable (l : loader) : bool := match lk l with LFile None => true | _ => false end.
Definition args_panics (l : loader) : bool :=
  match lk l with LArgs a => match args_load a with LoadPanic => true | _ => false end | _ => false end.

Definition lookup_obs (p : path) (gs : list (path * option ctree)) : option (option ctree) :=
  match find (fun pg => if list_eq_dec string_dec (fst pg) p then true else false) gs with
  | Some pg => Some (snd pg)
  | None => None
  end.

(* per path: last supplier wins on leaves; a map-valued last supplier leaves a map *)
Definition path_ok (skip_conflicts : bool) (docs : list doc) (pg : path * option ctree) : bool :=
  let vals := map (getd (fst pg)) docs in
  if skip_conflicts && conflictb false vals then true else
  match last_some vals with
  | None => oeqv None (snd pg)
  | Some v => if is_map v then match snd pg with Some (CMap _) => true | _ => false end
              else oeqv (Some v) (snd pg)
  end.

Definition bound_ok (c : case) : bool :=
  match cbound c with
  | None => true
  | Some (k, b) => match lookup_obs [k] (cgets c) with Some g => oeqv g b | None => false end
  end.

Definition oracle_gen (skip_conflicts : bool) (c : case) : bool :=
  let ls := loaders_of c in
  if existsb unreadable ls then match cout c with OErr => true | _ => false end
  else match cout c with
       | OOk =>
           bound_ok c &&
           existsb (fun seq => match docs_of seq with
                               | Some docs => forallb (path_ok skip_conflicts docs) (cgets c)
                               | None => false
                               end) (admissible ls)
       | _ => false
       end.

Definition oracle_case (c : case) : bool := oracle_gen false c.

(* known-finding classes, decided per case on the data *)
(* KF-C15b: the oracle fails ONLY at paths that are a map in an earlier source and a non-map in a later one *)
Definition kf_b_case (c : case) : bool :=
  negb (oracle_gen false c) && oracle_gen true c.
(* KF-C15c: a panic, and some ArgsLoader in the list has the scalar-then-dotted shape *)
Definition kf_c_case (c : case) : bool :=
  negb (oracle_gen false c) &&
  match cout c with OPanic => existsb args_panics (loaders_of c) | _ => false end.

(* ---- non-triviality --------------------------------------------------------------------------- *)

Definition supplied_count (docs : list doc) (p : path) : nat :=
  length (filter (fun d => match getd p d with Some v => negb (is_map v) | None => false end) docs).

(* at least two loaded documents, a leaf path supplied by two or more of them and one supplied by exactly one *)
Definition nontrivial (c : case) : bool :=
  match docs_of (sequence (loaders_of c)) with
  | Some docs =>
      (2 <=? length docs)%nat &&
      existsb (fun pg => (2 <=? supplied_count docs (fst pg))%nat) (cgets c) &&
      existsb (fun pg => Nat.eqb (supplied_count docs (fst pg)) 1) (cgets c)
  | None => false
  end.

(* generated documents must be well-formed (the theorems' standing hypothesis) *)
Definition wf_case (c : case) : bool :=
  forallb (fun l => match load l with LoadOk (Some d) => wf_doc d | _ => true end) (loaders_of c).

Definition mismatches (cs : list case) : list nat :=
  map cid (filter (fun c => negb (check_case c && wf_case c)) cs).
Definition violations (cs : list case) : list nat :=
  map cid (filter (fun c => negb (oracle_case c)) cs).
Definition kf_b (cs : list case) : list nat := map cid (filter kf_b_case cs).
Definition kf_c (cs : list case) : list nat := map cid (filter kf_c_case cs).
Definition count_nontrivial (cs : list case) : list nat :=
  [length (filter nontrivial cs)].
