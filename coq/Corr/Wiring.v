(* Shared correspondence machinery of the wiring family (C01 C02 C03 C05 C06 C07 C08 C09 C10 C13):
   a case = a scenario (Model/Factory.v), the names looked up after the start, and the
   implementation's observation of a real App.Run of the generated Go types. *)
From Coq Require Import List Arith Bool.
From IocVerif Require Import Model.App Model.FactoryTrace Model.FactoryX.
Import ListNotations.

Inductive outcome : Type := OOk | OErr | OPanic | OOther.   (* OOther: crash / hang / harness trouble *)

Inductive ltoken : Type := LTVer (v : ver) | LTErr | LTPanic.

Record obs : Type := mkObs {
  ob_outcome : outcome;
  ob_log : list event;                           (* oldest first: events of the start *)
  ob_fields : list ((name * nat) * list ver);    (* every injection point of every component, by (rank, index) *)
  ob_lookups : list ltoken;                      (* GetComponentByName of each name in w_lookups, in order *)
  ob_logafter : list event;                      (* events caused by those lookups *)
  ob_ops : option (list rop * list rop);         (* calls recorded on the factory's real registry (IsSingletonCurrentlyInCreation
                                                    left out): during the start / during the lookups; None = not traced *)
  ob_bulk : option (list ltoken)                 (* Factory.GetComponents() issued after the lookups: every component in name
                                                    order, or [LTErr] / [LTPanic]; None = not issued (the model issues it
                                                    exactly when the observation has it) *)
}.

Record wcase : Type := mkW {
  w_id : nat;
  w_scn : scenario;
  w_lookups : list name;
  w_obs : obs;
  w_x : extras          (* short-circuiting processors and init-time lookups (Model/FactoryX.v); no_extras for most cases *)
}.

(* ---- decidable equalities ------------------------------------------------------------------------- *)

Definition outcome_eqb (a b : outcome) : bool :=
  match a, b with OOk, OOk | OErr, OErr | OPanic, OPanic | OOther, OOther => true | _, _ => false end.

Fixpoint list_eqb {A : Type} (eqb : A -> A -> bool) (a b : list A) : bool :=
  match a, b with
  | [], [] => true
  | x :: a', y :: b' => eqb x y && list_eqb eqb a' b'
  | _, _ => false
  end.

Definition event_eqb (a b : event) : bool :=
  match a, b with
  | EvEarly p c, EvEarly p' c' => Nat.eqb p p' && Nat.eqb c c'
  | EvBefore p c s, EvBefore p' c' s' => Nat.eqb p p' && Nat.eqb c c' && list_eqb Bool.eqb s s'
  | EvAPS c, EvAPS c' => Nat.eqb c c'
  | EvInit c, EvInit c' => Nat.eqb c c'
  | EvAfter p c, EvAfter p' c' => Nat.eqb p p' && Nat.eqb c c'
  | EvRun c, EvRun c' => Nat.eqb c c'
  | _, _ => false
  end.

Definition ltoken_eqb (a b : ltoken) : bool :=
  match a, b with
  | LTVer v, LTVer v' => ver_eqb v v'
  | LTErr, LTErr | LTPanic, LTPanic => true
  | _, _ => false
  end.

Definition field_eqb (a b : (name * nat) * list ver) : bool :=
  key_eqb (fst a) (fst b) && list_eqb ver_eqb (snd a) (snd b).

(* ---- the model's observation ---------------------------------------------------------------------- *)

(* the injection points of every component, followed by what its Init looked up (pseudo-fields 100, 101, ...) *)
Definition all_points (s : scenario) (x : extras) : list (name * nat) :=
  flat_map (fun n => match get_comp (s_pop s) n with
                     | Some c => map (fun k => (n, k)) (seq 0 (length (c_points c)) ++ seq 100 (length (initget_of x n)))
                     | None => []
                     end) (names_of (s_pop s)).

(* callRunners clears App.ApplicationRunners after a successful start, so that point is not observable *)
Definition observable_point (s : scenario) (hk : name * nat) : bool :=
  match s_app s with
  | Some (a, rp, _) => negb (key_eqb hk (a, rp))
  | None => true
  end.

Definition fields_obs (s : scenario) (x : extras) (st : fstate) : list ((name * nat) * list ver) :=
  map (fun hk => (hk, field_of st (fst hk) (snd hk))) (filter (observable_point s) (all_points s x)).

Definition ltoken_of (o : lookup_out) : ltoken :=
  match o with
  | LVer v => LTVer v
  | LFail FPanic => LTPanic
  | LFail _ => LTErr
  end.

Definition optver_eqb (a b : option ver) : bool :=
  match a, b with Some x, Some y => ver_eqb x y | None, None => true | _, _ => false end.

Definition rop_eqb (a b : rop) : bool :=
  match a, b with
  | OAddFactory n f, OAddFactory m g => Nat.eqb n m && Nat.eqb f g
  | ORemove n, ORemove m => Nat.eqb n m
  | OAddSingleton n v, OAddSingleton m w => Nat.eqb n m && ver_eqb v w
  | OGet n e f, OGet m e' g => Nat.eqb n m && Bool.eqb e e' && optver_eqb f g
  | OBegin n, OBegin m => Nat.eqb n m
  | OEndOk n v, OEndOk m w => Nat.eqb n m && ver_eqb v w
  | OEndErr n, OEndErr m => Nat.eqb n m
  | OIsCreating n, OIsCreating m => Nat.eqb n m
  | _, _ => false
  end.

(* The model's observation AND registry history, from ONE evaluation of the extended traced model
   (Model/FactoryX.v).  Without extras it is Model/Factory.v's [run] and Model/FactoryTrace.v's history:
   Proofs/FactoryXProofs.v run_xt_conservative, Proofs/FactoryTraceProofs.v run_erase (restated for this function
   in Corr/WiringFacts.v model_obs_plain). *)
Definition bulk_tokens (r : res (list ver)) : list ltoken :=
  match r with
  | Ok vs => map LTVer vs
  | Fail FPanic _ => [LTPanic]
  | Fail _ _ => [LTErr]
  end.

(* GetComponents walks the definition registry: every registered component once the definitions have been scanned,
   nothing when the start failed before that (a failing loader) *)
Definition bulk_names (s : scenario) (st : fstate) : list name :=
  if scanned st then names_of (s_pop s) else [].

Definition model_obs (vt : variant) (c : wcase) : obs :=
  let s := w_scn c in
  let x := w_x c in
  let (o1, r) := run_xt vt s x in
  let (oc, st) := match r with
                  | Ok st => (OOk, st)
                  | Fail (FErr _) st => (OErr, st)
                  | Fail FPanic st => (OPanic, st)
                  | Fail FFuel st => (OOther, st)
                  end in
  match oc with
  | OOk | OErr =>
    let '(o2, (st2, outs)) := lookups_core_xt vt (normalise vt s) x (w_lookups c) st in
    let '(o3, (st3, bulk)) :=
      match ob_bulk (w_obs c) with
      | Some _ => let '(o3, (st3, b)) := bulk_core_xt vt (normalise vt s) x (bulk_names s st2) st2 in
                  (o3, (st3, Some (bulk_tokens b)))
      | None => ([], (st2, None))
      end in
    mkObs oc (rev (log st)) (fields_obs s x st) (map ltoken_of outs)
          (rev (firstn (length (log st3) - length (log st)) (log st3)))
          (Some (o1, match oc with OOk => o2 ++ o3 | _ => [] end))
          bulk
  | _ => mkObs oc (rev (log st)) (fields_obs s x st) [] [] (Some (o1, [])) None
  end.

(* a = model, b = implementation *)
Definition ops_eqb (a b : obs) : bool :=
  match ob_ops a, ob_ops b with
  | Some (mr, ml), Some (ir, il) =>
    match ob_outcome a with
    | OOk => list_eqb rop_eqb mr ir && list_eqb rop_eqb ml il
    | OErr => list_eqb rop_eqb mr ir
    | _ => true
    end
  | _, _ => true
  end.

Definition bulk_eqb (a b : option (list ltoken)) : bool :=
  match a, b with
  | Some x, Some y => list_eqb ltoken_eqb x y
  | None, _ => true          (* the model issues the bulk lookup exactly when the observation has one *)
  | Some _, None => false
  end.

Definition obs_eqb (a b : obs) : bool :=
  outcome_eqb (ob_outcome a) (ob_outcome b)
  && list_eqb event_eqb (ob_log a) (ob_log b)
  && match ob_outcome a with
     | OPanic | OOther => true      (* after a panic only outcome and log prefix are compared *)
     | OErr => list_eqb field_eqb (ob_fields a) (ob_fields b)    (* the lookups: [failed_lookups_eqb] *)
     | OOk => list_eqb field_eqb (ob_fields a) (ob_fields b)
              && list_eqb ltoken_eqb (ob_lookups a) (ob_lookups b)
              && list_eqb event_eqb (ob_logafter a) (ob_logafter b)
              && bulk_eqb (ob_bulk a) (ob_bulk b)
     end.

(* Lookups after a FAILED start retry creations on the state the failed attempt left behind (stored Injects,
   fields, registry, dependents per version): their results and the events they cause are compared too.  The
   repeated property post-processing of such a retry accumulates duplicate candidates in an order the model does
   not reproduce (1 of 467 failed starts in a C09 sweep; one scenario of seed 3 where two candidates of a slice
   point are then created in the other order): the registry HISTORY of such retries is left out, and the events
   they cause are compared as a multiset - which events happen, and how often, not in which order. *)
Definition count_ev (e : event) (l : list event) : nat := length (filter (event_eqb e) l).
Definition same_events (a b : list event) : bool :=
  Nat.eqb (length a) (length b) && forallb (fun e => Nat.eqb (count_ev e a) (count_ev e b)) a.

Definition failed_lookups_eqb (a b : obs) : bool :=
  match ob_outcome a with
  | OErr => list_eqb ltoken_eqb (ob_lookups a) (ob_lookups b) && same_events (ob_logafter a) (ob_logafter b)
            && bulk_eqb (ob_bulk a) (ob_bulk b)
  | _ => true
  end.

(* observation only: outcome, event log, every field, lookups (used where the registry calls are not what the
   property is about: C05 ... C13) *)
Definition wcheck_obs (c : wcase) : bool :=
  let m := model_obs repaired c in obs_eqb m (w_obs c) && failed_lookups_eqb m (w_obs c).

(* ... and the registry history, op by op (C01 C02 C03 C04: instances, cycles, versions, the registry protocol) *)
Definition wcheck (c : wcase) : bool :=
  let m := model_obs repaired c in obs_eqb m (w_obs c) && failed_lookups_eqb m (w_obs c) && ops_eqb m (w_obs c).

Definition wmismatches_obs (cs : list wcase) : list nat :=
  map w_id (filter (fun c => negb (wcheck_obs c)) cs).

Definition wmismatches (cs : list wcase) : list nat :=
  map w_id (filter (fun c => negb (wcheck c)) cs).

(* ---- helpers for the per-property oracles ----------------------------------------------------------- *)

Definition lookup_of (c : wcase) (n : name) : option ltoken :=
  (fix go (ns : list name) (ts : list ltoken) : option ltoken :=
     match ns, ts with
     | m :: ns', t :: ts' => if Nat.eqb m n then Some t else go ns' ts'
     | _, _ => None
     end) (w_lookups c) (ob_lookups (w_obs c)).

Definition obs_field (o : obs) (h : name) (k : nat) : list ver :=
  match klookup (h, k) (ob_fields o) with Some l => l | None => [] end.

Definition has_cycle_hint (s : scenario) : bool :=
  (* cheap structural indicator used only for the non-triviality count: some component has a
     by-type/by-name point whose candidates include a component with a point back *)
  existsb (fun n => match get_comp (s_pop s) n with
                    | Some c => negb (Nat.eqb (length (c_points c)) 0)
                    | None => false
                    end) (names_of (s_pop s)).
