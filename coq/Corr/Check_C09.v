(* C09 oracle and non-triviality on wiring cases. Correspondence: Corr/Wiring.v [wcheck];
   oracles: Corr/WiringOracles.v (static scenario data + the implementation's observation only). *)
From Coq Require Import List Arith Bool.
From IocVerif Require Import Model.App Corr.Wiring Corr.WiringOracles.
Import ListNotations.

Definition check_case : wcase -> bool := wcheck.

(* a fault or an unsatisfied required point fails the start with an error, no runner runs; optional points never fail *)
Definition oracle_case (c : wcase) : bool := oracle_clean_outcome c && oracle_faults c && oracle_points c.

Definition nontrivial (c : wcase) : bool := negb (no_faults c) || negb (all_satisfiable c).

Definition mismatches (cs : list wcase) : list nat := wmismatches cs.
Definition violations (cs : list wcase) : list nat :=
  map w_id (filter (fun c => negb (oracle_case c)) cs).
Definition count_nontrivial (cs : list wcase) : list nat := [length (filter nontrivial cs)].

(* instantiated side conditions of c09_no_panic on the facts of this run: the further-matching stage
   comes after candidate collection in the sorted processor list read from the running code *)
From IocVerif Require Import Proofs.FactoryNoPanic.
Definition count_unsettled (cs : list wcase) : list nat :=
  [length (filter (fun c => negb (settled_b (normalise repaired (w_scn c)))) cs)].
Definition count_pointed_procs (cs : list wcase) : list nat :=
  [length (filter (fun c => negb (procs_pointless_b (normalise repaired (w_scn c)))) cs)].
