(* C09 oracle and non-triviality on wiring cases. Correspondence: Corr/Wiring.v [wcheck_obs];
   oracles: Corr/WiringOracles.v (static scenario data + the implementation's observation only). *)
From Coq Require Import List Arith Bool.
From IocVerif Require Import Model.App Corr.Wiring Corr.WiringOracles.
Import ListNotations.

Definition check_case : wcase -> bool := wcheck_obs.

(* a fault or an unsatisfied required point fails the start with an error, no runner runs; optional points never fail *)
Definition oracle_base (c : wcase) : bool := oracle_clean_outcome c && oracle_faults c.

(* "optional ones never do": when nothing substitutes components, no fault is injected, every REQUIRED point of every
   component (post-processor components included) has a provider and every required configuration value is
   configured, the start succeeds - optional points and optional values may be empty, whatever else their tags carry
   (further arguments before and after required=false, the prop shorthand).  From the scenario's static data and
   the observed outcome only. *)
Definition all_required_satisfiable (c : wcase) : bool :=
  forallb (fun h =>
    forallb (fun kp => negb (pt_required (snd kp))
                       || negb (Nat.eqb (length (providers c h (snd kp))) 0)) (points_of c h)
    && cfg_ok c h) (all_names c).

Definition oracle_optional_never_fails (c : wcase) : bool :=
  if no_substitution c && no_faults c && all_required_satisfiable c then ok_start c else true.

(* post-processor components are eagerly created components too, so every eager holder is examined.  On the
   unchanged tree this fails for the components created in PrepareComponents before the built-in wire /
   further-matching processors are active — a user post-processor component and what it requests —: their points
   are populated by the processors active at that moment only, required points are not examined (KF-C05a). *)
Definition oracle_case (c : wcase) : bool :=
  oracle_base c && match bad_holders c with [] => true | _ :: _ => false end && oracle_optional_never_fails c.

(* cases that fail ONLY in the class of KF-C05a: every offending holder was created during PrepareComponents; or
   the start panicked and such a holder has a by-name point naming a component that does not exist (the nil
   candidate is removed by the further-matching processor, which is not active yet: populateComponent then
   dereferences it) *)
Definition kf_c05a_case (c : wcase) : bool :=
  (oracle_base c && match bad_holders c with [] => false | l => forallb (early_created c) l end)
  || (outcome_eqb (ob_outcome (w_obs c)) OPanic
      && existsb (fun h => early_created c h
                           && existsb (fun kp => match pt_sel (snd kp) with SByName None => true | _ => false end)
                                      (points_of c h)) (all_names c)).
Definition kf_c05a (cs : list wcase) : list nat := map w_id (filter kf_c05a_case cs).

Definition nontrivial (c : wcase) : bool := negb (no_faults c) || negb (all_satisfiable c).

Definition mismatches (cs : list wcase) : list nat := wmismatches_obs cs.
Definition violations (cs : list wcase) : list nat :=
  map w_id (filter (fun c => negb (oracle_case c)) cs).
Definition count_nontrivial (cs : list wcase) : list nat := [length (filter nontrivial cs)].

(* instantiated side conditions of c09_no_panic on the facts of this run: the further-matching stage
   comes after candidate collection in the sorted processor list read from the running code *)
From IocVerif Require Import Proofs.FactoryNoPanic.
Definition count_unsettled (cs : list wcase) : list nat :=
  [length (filter (fun c => negb (settled_b (normalise repaired (w_scn c)))) cs)].
Definition count_pointed_procs (cs : list wcase) : list nat :=
  [length (filter (fun c => negb (procs_pointless_b (normalise repaired (w_scn c)))) cs)].
