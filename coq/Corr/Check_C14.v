(* Correspondence and oracle for C14, evaluated by vm_compute on histories recorded from the real
   App.Close.  A case = number of closers, the ids of those that return an error, the observed
   event history in sequence-number order, and the outcome class of the run
   (0 = Close returned and every started closer returned; 1 = Close never returned (hang);
    2 = a closer waited in vain for the other closers to be called (stalled); 3 = panic). *)
From Coq Require Import List Arith Bool.
From IocVerif Require Import Model.Conc.
Import ListNotations.

Record case := mkCase { cid : nat; cn : nat; cfails : list nat; chist : list obs; coutcome : nat }.

Definition fails_of (c : case) : nat -> bool := fun i => mem_nat i (cfails c).

(* model vs implementation: the history is the observable projection of a complete run of the model *)
Definition check_case (c : case) : bool :=
  Nat.eqb (coutcome c) 0 && close_accepts (cn c) (fails_of c) (chist c).

(* the property evaluated directly on the observed history, independent of the step model *)
Fixpoint index_of (p : obs -> bool) (h : list obs) (k : nat) : option nat :=
  match h with [] => None | o :: r => if p o then Some k else index_of p r (S k) end.
Definition count_obs (p : obs -> bool) (h : list obs) : nat := length (filter p h).

Definition p_call (i : nat) (o : obs) : bool := match o with OCall j => Nat.eqb i j | _ => false end.
Definition p_ret (i : nat) (o : obs) : bool := match o with ORet j _ => Nat.eqb i j | _ => false end.
Definition p_ret_exact (i : nat) (b : bool) (o : obs) : bool :=
  match o with ORet j e => Nat.eqb i j && Bool.eqb e b | _ => false end.
Definition p_close (o : obs) : bool := match o with OCloseRet => true | _ => false end.
Definition in_range (n : nat) (o : obs) : bool :=
  match o with OCall j => Nat.leb 1 j && Nat.leb j n | ORet j _ => Nat.leb 1 j && Nat.leb j n | OCloseRet => true end.

Definition closer_ok (c : case) (i : nat) : bool :=
  let h := chist c in
  Nat.eqb (count_obs (p_call i) h) 1 && Nat.eqb (count_obs (p_ret i) h) 1
  && Nat.eqb (count_obs (p_ret_exact i (fails_of c i)) h) 1
  && match index_of (p_call i) h 0, index_of (p_ret i) h 0, index_of p_close h 0 with
     | Some a, Some b, Some z => Nat.ltb a b && Nat.ltb b z
     | _, _, _ => false
     end.

Definition oracle_case (c : case) : bool :=
  Nat.eqb (coutcome c) 0
  && Nat.eqb (count_obs p_close (chist c)) 1
  && forallb (in_range (cn c)) (chist c)
  && forallb (closer_ok c) (seq 1 (cn c)).

(* non-trivial: at least two closers, at least one failing, and the calls really overlapped
   (some closer was called while another one had been called and not yet returned) *)
Fixpoint overlapped (h : list obs) (open_ : nat) : bool :=
  match h with
  | [] => false
  | OCall _ :: r => Nat.ltb 0 open_ || overlapped r (S open_)
  | ORet _ _ :: r => overlapped r (open_ - 1)
  | OCloseRet :: r => overlapped r open_
  end.
Definition nontrivial (c : case) : bool :=
  Nat.leb 2 (cn c) && negb (Nat.eqb (length (cfails c)) 0) && overlapped (chist c) 0.

Definition mismatches (cs : list case) : list nat := map cid (filter (fun c => negb (check_case c)) cs).
Definition violations (cs : list case) : list nat := map cid (filter (fun c => negb (oracle_case c)) cs).
Definition count_nontrivial (cs : list case) : list nat := [length (filter nontrivial cs)].
Definition nontrivial_ids (cs : list case) : list nat := map cid (filter nontrivial cs).
