(* Correspondence and oracle for C14, evaluated by vm_compute on histories recorded from the real
   App.Close.  A case = number of closers, the ids of those that return an error, the observed
   event history in sequence-number order, and the outcome class of the run
   (0 = Close returned and every started closer returned; 1 = Close never returned (hang);
    2 = a closer waited in vain for the other closers to be called (stalled); 3 = panic).

   CMulti: K Close calls on one App that OVERLAP (every later call is invoked while a closer of an earlier one is still
   running).  The history is a list of (call, KInv | KObs o): the driver's invocation of call k, and the closer events
   attributed to call k - the j-th entry into a closer's Close() belongs to call j, because the driver invokes call j+1
   only after every closer has been entered j times.  On code in which every call invokes every closer once and waits
   for its own invocations the attribution is exact; whatever else happens shows as an event attributed to a call
   before that call's invocation, as a call that returns before one of its invocations, or as a missing / surplus
   invocation.  Model: Model/ConcMulti.v (independent instances of close_prog); acceptor `multi_accepts`. *)
From Coq Require Import List Arith Bool.
From IocVerif Require Import Model.Conc Model.Merge Model.ConcMulti.
Import ListNotations.

Record case1 := mkCase { cid1 : nat; cn : nat; cfails : list nat; chist : list obs; coutcome : nat }.

Inductive case : Type :=
| COne (c : case1)
| CMulti (id K n : nat) (fails : list nat) (h : list (nat * kev)) (outcome : nat).

Definition cid (c : case) : nat := match c with COne c1 => cid1 c1 | CMulti i _ _ _ _ _ => i end.

Definition fails_of (c : case1) : nat -> bool := fun i => mem_nat i (cfails c).

(* model vs implementation: the history is the observable projection of a complete run of the model *)
Definition check_one (c : case1) : bool :=
  Nat.eqb (coutcome c) 0 && close_accepts (cn c) (fails_of c) (chist c).

(* the property evaluated directly on the observed history, independent of the step model *)
Fixpoint index_of (p : obs -> bool) (h : list obs) (k : nat) : option nat :=
  match h with [] => None | o :: r => if p o then Some k else index_of p r (S k) end.
Definition count_obs (p : obs -> bool) (h : list obs) : nat := length (filter p h).

Definition p_call (i : nat) (o : obs) : bool := match o with OCall j => Nat.eqb i j | _ => false end.
Definition p_ret (i : nat) (o : obs) : bool := match o with ORet j _ => Nat.eqb i j | _ => false end.
Definition p_ret_exact (i : nat) (b : bool) (o : obs) : bool :=
  match o with ORet j e => Nat.eqb i j && Bool.eqb e b | _ => false end.
Definition p_close (o : obs) : bool := match o with OCloseRet => true | _ => false end.
Definition in_range (n : nat) (o : obs) : bool :=
  match o with OCall j => Nat.leb 1 j && Nat.leb j n | ORet j _ => Nat.leb 1 j && Nat.leb j n | OCloseRet => true end.

Definition closer_ok (c : case1) (i : nat) : bool :=
  let h := chist c in
  Nat.eqb (count_obs (p_call i) h) 1 && Nat.eqb (count_obs (p_ret i) h) 1
  && Nat.eqb (count_obs (p_ret_exact i (fails_of c i)) h) 1
  && match index_of (p_call i) h 0, index_of (p_ret i) h 0, index_of p_close h 0 with
     | Some a, Some b, Some z => Nat.ltb a b && Nat.ltb b z
     | _, _, _ => false
     end.

Definition oracle_one (c : case1) : bool :=
  Nat.eqb (coutcome c) 0
  && Nat.eqb (count_obs p_close (chist c)) 1
  && forallb (in_range (cn c)) (chist c)
  && forallb (closer_ok c) (seq 1 (cn c)).

(* non-trivial: at least two closers, at least one failing, and the calls really overlapped
   (some closer was called while another one had been called and not yet returned) *)
Fixpoint overlapped (h : list obs) (open_ : nat) : bool :=
  match h with
  | [] => false
  | OCall _ :: r => Nat.ltb 0 open_ || overlapped r (S open_)
  | ORet _ _ :: r => overlapped r (open_ - 1)
  | OCloseRet :: r => overlapped r open_
  end.
Definition nontrivial_one (c : case1) : bool :=
  Nat.leb 2 (cn c) && negb (Nat.eqb (length (cfails c)) 0) && overlapped (chist c) 0.

(* ---------- several overlapping calls ------------------------------------------------------------------ *)

(* model vs implementation: an interleaving of K accepted single-call histories, each behind its invocation *)
Definition check_multi (K n : nat) (fails : list nat) (h : list (nat * kev)) (outcome : nat) : bool :=
  Nat.eqb outcome 0 && multi_accepts K n (fun i => mem_nat i fails) h.

(* the property evaluated directly on what is attributed to every call: invoked once, before everything else of the
   call; every closer entered exactly once by the call and returned, with the right error, before the call returned *)
Definition oracle_multi (K n : nat) (fails : list nat) (h : list (nat * kev)) (outcome : nat) : bool :=
  Nat.eqb outcome 0
  && forallb (fun e => Nat.ltb (fst e) K) h
  && forallb (fun k => match sel k h with
                       | KInv :: r => match all_obs r with
                                      | Some ho => oracle_one (mkCase 0 n fails ho 0)
                                      | None => false
                                      end
                       | _ => false
                       end) (seq 0 K).

(* non-trivial: at least two calls, at least one closer, and a call was invoked while an earlier one had been invoked
   and had not returned *)
Fixpoint calls_overlapped (h : list (nat * kev)) (open_ : nat) : bool :=
  match h with
  | [] => false
  | (_, KInv) :: r => if Nat.ltb 0 open_ then true else calls_overlapped r (S open_)
  | (_, KObs OCloseRet) :: r => calls_overlapped r (open_ - 1)
  | _ :: r => calls_overlapped r open_
  end.
Definition nontrivial_multi (K n : nat) (h : list (nat * kev)) : bool :=
  Nat.leb 2 K && Nat.leb 1 n && calls_overlapped h 0.

Definition check_case (c : case) : bool :=
  match c with COne c1 => check_one c1 | CMulti _ K n fails h oc => check_multi K n fails h oc end.
Definition oracle_case (c : case) : bool :=
  match c with COne c1 => oracle_one c1 | CMulti _ K n fails h oc => oracle_multi K n fails h oc end.
Definition nontrivial (c : case) : bool :=
  match c with COne c1 => nontrivial_one c1 | CMulti _ K n _ h _ => nontrivial_multi K n h end.

Definition mismatches (cs : list case) : list nat := map cid (filter (fun c => negb (check_case c)) cs).
Definition violations (cs : list case) : list nat := map cid (filter (fun c => negb (oracle_case c)) cs).
Definition count_nontrivial (cs : list case) : list nat := [length (filter nontrivial cs)].
Definition nontrivial_ids (cs : list case) : list nat := map cid (filter nontrivial cs).
