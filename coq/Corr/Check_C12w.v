(* C12 on real starts of generated wiring scenarios (Corr/Wiring.v): "the participants' callbacks are actually
   invoked in that sequence" — for the component post-processors (before-initialization, after-initialization and
   early-reference callbacks of every component) and for the application runners.
   Correspondence: [wcheck_obs] (the model's event log is built from Model/Sorter.v's [sort_participants]).
   Oracle, on the implementation's log alone: for every component, the processors whose before / after / early
   callbacks it received appear in an order that satisfies the ordering contract, each at most once per phase of one
   creation; the runners that ran are sorted by the contract and each ran once. *)
From Coq Require Import List Arith Bool.
From IocVerif Require Import Model.App Model.Sorter Corr.Wiring Corr.WiringOracles.
Import ListNotations.

Definition check_case : wcase -> bool := wcheck_obs.

Definition proc_part (c : wcase) (p : name) : list participant :=
  match get_comp (s_pop (w_scn c)) p with
  | Some cc => match c_proc cc with Some (cls, _) => [mkPart p cls] | None => [] end
  | None => []
  end.

(* the maximal runs of consecutive callbacks of one phase for one component: each such run is one pass over the
   processor chain and must be in contract order without repetition *)
Fixpoint phase_runs (ph : event -> option (name * name)) (l : list event) (cur : option name) (acc : list name)
  : list (list name) :=
  match l with
  | [] => [rev acc]
  | e :: r =>
    match ph e with
    | Some (p, n) =>
      match cur with
      | Some m => if Nat.eqb m n then phase_runs ph r cur (p :: acc) else rev acc :: phase_runs ph r (Some n) [p]
      | None => phase_runs ph r (Some n) [p]
      end
    | None => rev acc :: phase_runs ph r None []
    end
  end.

Definition ph_before (e : event) : option (name * name) := match e with EvBefore p n _ => Some (p, n) | _ => None end.
Definition ph_after (e : event) : option (name * name) := match e with EvAfter p n => Some (p, n) | _ => None end.
Definition ph_early (e : event) : option (name * name) := match e with EvEarly p n => Some (p, n) | _ => None end.

Fixpoint nodup_nat (l : list name) : bool :=
  match l with [] => true | a :: r => negb (mem a r) && nodup_nat r end.

Definition run_ok (c : wcase) (ps : list name) : bool :=
  nodup_nat ps && contract_ok (flat_map (proc_part c) ps).

Definition callbacks_in_order (c : wcase) : bool :=
  let l := ob_log (w_obs c) in     (* the start itself: lookups after a failed start may retry a creation *)
  forallb (run_ok c) (phase_runs ph_before l None [])
  && forallb (run_ok c) (phase_runs ph_after l None [])
  && forallb (run_ok c) (phase_runs ph_early l None []).

Definition oracle_case (c : wcase) : bool :=
  match ob_outcome (w_obs c) with
  | OOk | OErr => callbacks_in_order c && oracle_runners c
  | _ => true
  end.

(* at least two user post-processors whose callbacks were invoked, or two runners *)
Definition nontrivial (c : wcase) : bool :=
  (2 <=? length (nodup Nat.eq_dec (flat_map (fun e => match e with EvBefore p _ _ | EvAfter p _ | EvEarly p _ => [p] | _ => [] end)
                                            (ob_log (w_obs c)))))
  || (2 <=? length (runs_of (ob_log (w_obs c)))).

Definition mismatches (cs : list wcase) : list nat := wmismatches_obs cs.
Definition violations (cs : list wcase) : list nat :=
  map w_id (filter (fun c => negb (oracle_case c)) cs).
Definition count_nontrivial (cs : list wcase) : list nat := [length (filter nontrivial cs)].
