(* C07 oracle and non-triviality on wiring cases. Correspondence: Corr/Wiring.v [wcheck_obs];
   oracles: Corr/WiringOracles.v (static scenario data + the implementation's observation only). *)
From Coq Require Import List Arith Bool.
From IocVerif Require Import Model.App Corr.Wiring Corr.WiringOracles.
Import ListNotations.

Definition check_case : wcase -> bool := wcheck_obs.

(* named points receive exactly the named component; absent/incompatible: error when required, untouched when optional; never a panic *)
Definition oracle_case (c : wcase) : bool := oracle_clean_outcome c && oracle_points c && oracle_points_sound c.

Definition nontrivial (c : wcase) : bool := 1 <=? count_points c (fun h kp => match pt_sel (snd kp) with SByName _ => true | _ => false end).

Definition mismatches (cs : list wcase) : list nat := wmismatches_obs cs.
Definition violations (cs : list wcase) : list nat :=
  map w_id (filter (fun c => negb (oracle_case c)) cs).
Definition count_nontrivial (cs : list wcase) : list nat := [length (filter nontrivial cs)].
