(* Registration half of C07: the real singleton registry driven with registration sequences. *)
From Coq Require Import List Arith Bool.
From IocVerif Require Import Model.SingletonRegistry Corr.Wiring.
Import ListNotations.

Record rcase := mkRC {
  rc_id : nat;
  rc_reqs : list reg_req;
  rc_outs : list nat;              (* 0 ok | 1 same | 2 panic (at the quiet level: dropped), as observed *)
  rc_final : list (nat * nat);     (* (name id, instance) registered at the end, as observed *)
  rc_quiet : bool                  (* run at syslog.LvFatal: a duplicate is dropped silently and registration goes on *)
}.

Definition out_code (o : reg_out) : nat := match o with RegOk => 0 | RegSame => 1 | RegPanic => 2 end.

Fixpoint ins_pair (x : nat * nat) (l : list (nat * nat)) : list (nat * nat) :=
  match l with [] => [x] | y :: r => if Nat.leb (fst x) (fst y) then x :: y :: r else y :: ins_pair x r end.
Definition sort_pairs (l : list (nat * nat)) := fold_right ins_pair [] l.

Definition pair_eqb (a b : nat * nat) := Nat.eqb (fst a) (fst b) && Nat.eqb (snd a) (snd b).

Definition rcheck (c : rcase) : bool :=
  let (s, outs) := if rc_quiet c then register_all_q [] (rc_reqs c) else register_all [] (rc_reqs c) in
  list_eqb Nat.eqb (map out_code outs) (rc_outs c)
  && list_eqb pair_eqb (sort_pairs s) (sort_pairs (rc_final c)).

(* the property on the observation alone: one instance per name; a second distinct instance under
   a taken name was rejected (panic) and the first one stayed *)
Fixpoint nodup_fst (l : list (nat * nat)) : bool :=
  match l with [] => true | x :: r => negb (existsb (fun y => Nat.eqb (fst x) (fst y)) r) && nodup_fst r end.

(* every registration that was NOT refused (ok / same) carried a name that no different instance had taken before;
   instances are told apart by identity, never by where they live (two components may share an address) *)
Fixpoint accepted_ok (quiet : bool) (seen : list (nat * nat)) (rs : list reg_req) (outs : list nat) : bool :=
  match rs, outs with
  | r :: rs', o :: outs' =>
    if Nat.eqb o 2 then
      (* refused: SetComponents unwinds here; at the quiet level the duplicate is dropped - it must BE one - and
         registration goes on *)
      if quiet then existsb (fun p => Nat.eqb (fst p) (reg_name r) && negb (Nat.eqb (snd p) (rq_inst r))) seen
                    && accepted_ok quiet seen rs' outs'
      else true
    else negb (existsb (fun p => Nat.eqb (fst p) (reg_name r) && negb (Nat.eqb (snd p) (rq_inst r))) seen)
         && accepted_ok quiet ((reg_name r, rq_inst r) :: seen) rs' outs'
  | _, _ => true
  end.

Definition roracle (c : rcase) : bool :=
  nodup_fst (rc_final c)
  && accepted_ok (rc_quiet c) [] (rc_reqs c) (rc_outs c)
  && (if rc_quiet c then Nat.eqb (length (rc_outs c)) (length (rc_reqs c)) else true)
  && forallb (fun p => match find (fun r => Nat.eqb (reg_name r) (fst p)) (rc_reqs c) with
                       | Some r => Nat.eqb (rq_inst r) (snd p)      (* the FIRST registrant holds the name *)
                       | None => false
                       end) (rc_final c).

Definition rmismatches (cs : list rcase) : list nat := map rc_id (filter (fun c => negb (rcheck c)) cs).
Definition rviolations (cs : list rcase) : list nat := map rc_id (filter (fun c => negb (roracle c)) cs).
Definition rnontrivial (cs : list rcase) : list nat :=
  [length (filter (fun c => existsb (Nat.eqb 2) (rc_outs c) || existsb (Nat.eqb 1) (rc_outs c)) cs);
   length (filter (fun c => rc_quiet c && existsb (Nat.eqb 2) (rc_outs c)) cs)].
