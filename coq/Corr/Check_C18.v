(* Correspondence and oracle for C18, evaluated by vm_compute on cases written by the harness.

   A case is one real App.Run with one component carrying one or several tagged fields (value /
   prefix tags, possibly with #{} expressions, ${} placeholders, a validate argument; the component may
   itself be a post processor of any ordering class), observed by processors
   at Priority Order 5 (after ${}), 9 (after #{}), 17 (after binding) and by the field's final
   value and Run's outcome.  Oracles handed over by the driver: the result of evaluating each
   expression text directly with expr-lang (fevals, per field) and the validator's verdict on the final field
   value under the tag's constraints, called directly (fverdict). *)
From Coq Require Import List NArith ZArith Bool Arith.
From IocVerif Require Import Model.Sorter Model.Strconv Model.Placeholder Model.Pipeline.
Import ListNotations.

(* one tagged field of the component *)
Record fld := mkFld {
  fkind : nat;                          (* 0 value tag, 1 prefix tag *)
  ftagstr : bytes;                      (* TagStr as observed before the ${} processor *)
  frequired : bool;
  fvalidate : bool;
  fevals : list (bytes * res cval);     (* oracle: expr-lang on the expression text *)
  fftype : nat;                         (* field type: 0 any 1 string 2 int 3 float64 4 bool 9 other (decode not modelled) *)
  fverdict : bool;                      (* oracle: validator on the final field value *)
  fexpr : option bytes;                 (* generator: the expression text after substitution, when the tag is one #{...} *)
  fobs_q : option bytes;                (* TagVal after ${}   (None: not reached) *)
  fobs_e : option bytes;                (* TagVal after #{} *)
  fobs_bound : bool;                    (* the observer after binding was reached *)
  fobs_field : option cval              (* final field value (None: not comparable) *)
}.

(* A case: ONE component with one or several tagged fields.  The component may be a post processor
   itself (an eager one is participant id_holder of cfacts: class / Order() read from the value) or
   a lazy component nobody asks for (ccreated = false). *)
Record case := mkCase {
  cid : nat;
  ccfg : list (bytes * cval);
  cfacts : list participant;            (* class / Order() of the registered processors, read this run *)
  cfix : bool;                          (* the ${} callback of the tree under test: true = repair D-C17g (facts probe, c18.py) *)
  ccreated : bool;                      (* start-up creates the component *)
  cseq : option (list nat);             (* probe of the running code: the ids its sorted processor sequence places before the holder *)
  cflds : list fld;
  cobs_err : nat                        (* 0 Run ok, 1 error, 2 panic, 3 hang *)
}.

Fixpoint evals_get (k : bytes) (t : list (bytes * res cval)) : res cval :=
  match t with
  | [] => Err
  | (k', r) :: rest => if beqb k k' then r else evals_get k rest
  end.

(* ---- decoding into scalar field types (mapstructure, WeaklyTypedInput), harness-side only -- *)

Definition bool_text (s : bytes) : option bool :=     (* strconv.ParseBool *)
  if existsb (beqb s) [[49]; [116]; [84]; [84;82;85;69]; [116;114;117;101]; [84;114;117;101]]%N then Some true
  else if existsb (beqb s) [[48]; [102]; [70]; [70;65;76;83;69]; [102;97;108;115;101]; [70;97;108;115;101]]%N then Some false
  else None.

(* float64 -> int conversion: truncation toward zero *)
Definition dec_to_int (m e : Z) : Z :=
  if (0 <=? e)%Z then (m * 10 ^ e)%Z else Z.quot m (10 ^ (- e))%Z.

(* strconv.ParseFloat on plain decimal / exponent notation (the generator stays inside) *)
Definition float_text (s : bytes) : option cval :=
  let body := match s with c :: r => if N.eqb c b_plus then r else s | [] => s end in
  match body with
  | c :: r => if N.eqb c 48 && negb (match r with [] => true | d :: _ => N.eqb d b_dot || N.eqb d 101 || N.eqb d 69 end)
              then None (* leading zeros: ParseFloat accepts, jnumber does not; not generated *)
              else match jnumber body with Some (v, []) => Some v | _ => None end
  | [] => None
  end.

Definition decode_ft (ft : nat) (v : cval) : res cval :=
  match ft with
  | 1%nat =>
    match v with
    | VStr s => Ok (VStr s)
    | VBool true => Ok (VStr [49]%N)
    | VBool false => Ok (VStr [48]%N)
    | VInt z => Ok (VStr (digits_of_Z z))
    | VDec m e =>
      if (m =? 0)%Z then Ok (VStr [48]%N) else
      let ds := digits_of_N (Z.to_N (Z.abs m)) in
      Ok (VStr ((if (m <? 0)%Z then [b_minus] else []) ++ fmt_f ds (Z.of_nat (length ds) + e)%Z))
    | _ => Err
    end
  | 2%nat =>
    match v with
    | VInt z => Ok (VInt z)
    | VDec m e => Ok (VInt (dec_to_int m e))
    | VBool true => Ok (VInt 1)
    | VBool false => Ok (VInt 0)
    | VStr [] => Ok (VInt 0)
    | _ => Err
    end
  | 3%nat =>
    match v with
    | VInt z => Ok (mk_dec (z <? 0)%Z (digits_of_N (Z.to_N (Z.abs z))) 0)
    | VDec m e => Ok (VDec m e)
    | VBool true => Ok (VDec 1 0)
    | VBool false => Ok (VDec 0 0)
    | VStr [] => Ok (VDec 0 0)
    | VStr s => match float_text s with Some f => Ok f | None => Err end
    | _ => Err
    end
  | 4%nat =>
    match v with
    | VBool b => Ok (VBool b)
    | VInt z => Ok (VBool (negb (z =? 0)%Z))
    | VDec m _ => Ok (VBool (negb (m =? 0)%Z))
    | VStr [] => Ok (VBool false)
    | VStr s => match bool_text s with Some b => Ok (VBool b) | None => Err end
    | _ => Err
    end
  | _ => Ok v
  end.

(* ---- model vs implementation ------------------------------------------------------------ *)

Definition init_state (f : fld) : pstate :=
  mkPState (match fkind f with 0%nat => TValue | _ => TPrefix end)
           (ftagstr f) (ftagstr f) (frequired f) (fvalidate f) None.

Definition m_cfg (c : case) := cfg_of (ccfg c).
Definition m_eval (f : fld) := fun e => evals_get e (fevals f).
Definition m_decode (f : fld) := decode_ft (fftype f).
Definition m_verdict (f : fld) := fun _ : option cval => fverdict f.
Definition m_budget : option nat := Some repo_budget.

Definition m_prop (f : fld) : cprop := mkCProp (m_eval f) (m_decode f) (m_verdict f) (init_state f).
Definition m_props (c : case) : list cprop := map m_prop (cflds c).

(* the processors active when the component is created (Model/Pipeline.v active_order) *)
Definition m_active (c : case) : list nat :=
  if ccreated c then active_order (cfacts c) else [].

Definition m_run (c : case) (order : list nat) : cres :=
  run_component (cfix c) (m_cfg c) m_budget order (m_props c).

Definition opt_bytes_eqb (a b : option bytes) : bool :=
  match a, b with
  | Some x, Some y => beqb x y
  | None, None => true
  | _, _ => false
  end.

(* numbers compared by value: an int and a float64 of the same value are the same number *)
Definition num_norm (v : cval) : cval :=
  match v with
  | VInt z => mk_dec (z <? 0)%Z (digits_of_N (Z.to_N (Z.abs z))) 0
  | _ => v
  end.
Fixpoint num_norm_deep (v : cval) : cval :=
  match v with
  | VInt z => num_norm v
  | VList l => VList (map num_norm_deep l)
  | VMap kvs => VMap (map (fun kv : bytes * cval => let (k, x) := kv in (k, num_norm_deep x)) kvs)
  | _ => v
  end.

Definition field_matches (f : fld) (v : option cval) : bool :=
  match fobs_field f with
  | None => true                                  (* not comparable for this field type *)
  | Some o =>
    match v with
    | Some x => if Nat.eqb (fftype f) 9 then true else cval_eqb x o
    | None => true                                (* untouched: the zero value, not compared *)
    end
  end.

(* the part of the active sequence in front of observer k (None: the observer is not active) *)
Fixpoint upto (k : nat) (l : list nat) : option (list nat) :=
  match l with
  | [] => None
  | x :: r => if Nat.eqb x k then Some [] else option_map (cons x) (upto k r)
  end.

(* what the observer k sees: the properties as the stages in front of it leave them; nothing when it
   is not active or start-up failed before it was reached *)
Definition states_at (c : case) (k : nat) : option (list cprop) :=
  match upto k (m_active c) with
  | None => None
  | Some pre => match m_run c pre with COk ps => Some ps | CErr _ => None end
  end.

Fixpoint all2 {A B} (f : A -> B -> bool) (a : list A) (b : list B) : bool :=
  match a, b with
  | [], [] => true
  | x :: a', y :: b' => f x y && all2 f a' b'
  | _, _ => false
  end.

Definition obs_text_ok (c : case) (k : nat) (obs : fld -> option bytes) : bool :=
  match states_at c k with
  | Some ps => all2 (fun f p => opt_bytes_eqb (obs f) (Some (ps_tagval (cp_state p)))) (cflds c) ps
  | None => forallb (fun f => match obs f with None => true | Some _ => false end) (cflds c)
  end.

Definition obs_quote : nat := 21.      (* observer ids: Priority Order 5 (after ${}), 9 (after #{}), 17 (after binding) *)
Definition obs_expr : nat := 22.
Definition obs_bound : nat := 23.

Fixpoint mem_nat (x : nat) (l : list nat) : bool :=
  match l with [] => false | y :: r => Nat.eqb x y || mem_nat x r end.
Definition same_ids (a b : list nat) : bool :=
  forallb (fun x => mem_nat x b) a && forallb (fun x => mem_nat x a) b.

Definition check_case (c : case) : bool :=
  obs_text_ok c obs_quote fobs_q && obs_text_ok c obs_expr fobs_e &&
  (let b := match states_at c obs_bound with Some _ => true | None => false end in
   forallb (fun f => Bool.eqb (fobs_bound f) b) (cflds c)) &&
  (* the model's active list is the one the running code's sorted sequence shows (ties inside a class keep no order) *)
  match cseq c with Some s => same_ids (m_active c) s | None => true end &&
  match m_run c (m_active c) with
  | COk ps => Nat.eqb (cobs_err c) 0 && all2 (fun f p => field_matches f (ps_field (cp_state p))) (cflds c) ps
  | CErr EPanicked => Nat.eqb (cobs_err c) 2
  | CErr _ => Nat.eqb (cobs_err c) 1
  end.

(* ---- the property on the implementation's observation ---------------------------------- *)

Definition hash_open : bytes := [b_hash; b_lbrace].

Definition violating (f : fld) : bool := fvalidate f && negb (fverdict f).

(* a field that may legitimately fail start-up: its bound value violates its constraints, its expression does not
   evaluate, or the expression's result does not fit the field's type *)
Definition may_fail (f : fld) : bool :=
  violating f ||
  match fexpr f with
  | Some u => match evals_get u (fevals f) with
              | Ok v => match m_decode f v with Ok _ => false | _ => true end
              | _ => true
              end
  | None => false
  end.

(* start-up of the component may legitimately fail because of ANOTHER field: one that may fail by the tables above, or a
   field without expression tables (a literal / placeholder / prefix value) whose binding did not complete - whether that
   binding had to succeed is the model's business (check_case), not this oracle's.  A component with one field has no such
   sibling: the demand below is as strict as it was *)
Definition excused (c : case) : bool :=
  existsb may_fail (cflds c) ||
  existsb (fun g => match fexpr g with None => negb (fobs_bound g) | Some _ => false end) (cflds c).

(* the literal reading: the field receives the expression's result (numbers by value) *)
Definition expr_oracle (c : case) (f : fld) : bool :=
  match fexpr f with
  | None => true
  | Some u =>
    (* the placeholders were substituted before the expression was looked at *)
    opt_bytes_eqb (fobs_q f) (Some (hash_open ++ u ++ [b_rbrace])) &&
    match evals_get u (fevals f) with
    | Ok v =>
      match m_decode f v with
      | Ok x =>
        if excused c then true
        else Nat.eqb (cobs_err c) 0 &&
             match fobs_field f with
             | Some o => if Nat.eqb (fftype f) 9 then true else cval_eqb (num_norm_deep x) (num_norm_deep o)
             | None => true
             end
      | _ => true          (* the result does not fit the field type: any failure is acceptable *)
      end
    | _ => negb (Nat.eqb (cobs_err c) 0)     (* evaluation fails: start-up must not succeed *)
    end
  end.

(* validation fails start-up exactly when the bound value of SOME property violates its constraints *)
Definition validate_oracle (c : case) : bool :=
  match cflds c with
  | [] => true
  | _ => if forallb fobs_bound (cflds c)
         then Bool.eqb (Nat.eqb (cobs_err c) 1) (existsb violating (cflds c))
         else true
  end.

(* a lazy component nobody asks for is never created: its fields bind nothing and cannot fail start-up *)
Definition oracle_case (c : case) : bool :=
  negb (Nat.eqb (cobs_err c) 3) && negb (Nat.eqb (cobs_err c) 2) &&
  (if ccreated c then forallb (expr_oracle c) (cflds c) && validate_oracle c
   else Nat.eqb (cobs_err c) 0 && forallb (fun f => negb (fobs_bound f)) (cflds c)).

Definition nontrivial_fld (f : fld) : bool :=
  match fexpr f with
  | Some _ => match find_first b_dollar (ftagstr f) with Some _ => true | None => false end
  | None => fvalidate f && fobs_bound f
  end.
Definition nontrivial (c : case) : bool := existsb nontrivial_fld (cflds c).

Definition mismatches (cs : list case) : list nat :=
  map cid (filter (fun c => negb (check_case c)) cs).
Definition violations (cs : list case) : list nat :=
  map cid (filter (fun c => negb (oracle_case c)) cs).
Definition count_nontrivial (cs : list case) : list nat :=
  [length (filter nontrivial cs)].
Definition count_validate_fail (cs : list case) : list nat :=
  [length (filter (fun c => existsb (fun f => fvalidate f && fobs_bound f && negb (fverdict f)) (cflds c)) cs)].

(* known-finding classes (computed on the oracle tables, i.e. on the input side):
     1  the expression's result does not survive FormatAny -> ParseAny (a string whose text reads as
        a number / bool / list / quoted text, nil, a float64 that fmt prints with an exponent ...)
     2  the result is the empty string: an empty TagVal means no value (error when required,
        otherwise the field is left untouched, e.g. an `any` field stays nil) *)
Definition roundtrip_ok (v : cval) : bool :=
  match format_any v with
  | Ok t => match parse_any t with
            | Ok v' => cval_eqb (num_norm_deep v') (num_norm_deep v)
            | _ => false
            end
  | _ => false
  end.

Definition kf_class_fld (f : fld) : nat :=
  match fexpr f with
  | Some u =>
    match evals_get u (fevals f) with
    | Ok (VStr []) => 2%nat
    | Ok v => if roundtrip_ok v then 0%nat else 1%nat
    | _ => 0%nat
    end
  | None => 0%nat
  end.

Fixpoint first_nonzero (l : list nat) : nat :=
  match l with [] => 0%nat | O :: r => first_nonzero r | k :: _ => k end.

Definition kf_class (c : case) : nat := first_nonzero (map kf_class_fld (cflds c)).

Definition kf_codes (cs : list case) : list nat :=
  flat_map (fun c => if oracle_case c then [] else
                     match kf_class c with O => [] | k => [cid c; k] end) cs.
