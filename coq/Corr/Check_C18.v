(* Correspondence and oracle for C18, evaluated by vm_compute on cases written by the harness.

   A case is one real App.Run with one component carrying one tagged field (value / prefix tag,
   possibly with #{} expressions, ${} placeholders, a validate argument), observed by processors
   at Priority Order 5 (after ${}), 9 (after #{}), 17 (after binding) and by the field's final
   value and Run's outcome.  Oracles handed over by the driver: the result of evaluating each
   expression text directly with expr-lang (cevals) and the validator's verdict on the final field
   value under the tag's constraints, called directly (cverdict). *)
From Coq Require Import List NArith ZArith Bool Arith.
From IocVerif Require Import Model.Sorter Model.Strconv Model.Placeholder Model.Pipeline.
Import ListNotations.

Record case := mkCase {
  cid : nat;
  ckind : nat;                          (* 0 value tag, 1 prefix tag *)
  ctagstr : bytes;                      (* TagStr as observed before the ${} processor *)
  crequired : bool;
  cvalidate : bool;
  ccfg : list (bytes * cval);
  cevals : list (bytes * res cval);     (* oracle: expr-lang on the expression text *)
  cftype : nat;                         (* field type: 0 any 1 string 2 int 3 float64 4 bool 9 other (decode not modelled) *)
  cverdict : bool;                      (* oracle: validator on the final field value *)
  cfacts : list participant;            (* class / Order() of the registered processors, read this run *)
  cexpr : option bytes;                 (* generator: the expression text after substitution, when the tag is one #{...} *)
  cobs_q : option bytes;                (* TagVal after ${}   (None: not reached) *)
  cobs_e : option bytes;                (* TagVal after #{} *)
  cobs_bound : bool;                    (* the observer after binding was reached *)
  cobs_field : option cval;             (* final field value (None: not comparable) *)
  cobs_err : nat;                       (* 0 Run ok, 1 error, 2 panic, 3 hang *)
  cfix : bool                           (* the ${} callback of the tree under test: true = repair D-C17g (facts probe, c18.py) *)
}.

Fixpoint evals_get (k : bytes) (t : list (bytes * res cval)) : res cval :=
  match t with
  | [] => Err
  | (k', r) :: rest => if beqb k k' then r else evals_get k rest
  end.

(* ---- decoding into scalar field types (mapstructure, WeaklyTypedInput), harness-side only -- *)

Definition bool_text (s : bytes) : option bool :=     (* strconv.ParseBool *)
  if existsb (beqb s) [[49]; [116]; [84]; [84;82;85;69]; [116;114;117;101]; [84;114;117;101]]%N then Some true
  else if existsb (beqb s) [[48]; [102]; [70]; [70;65;76;83;69]; [102;97;108;115;101]; [70;97;108;115;101]]%N then Some false
  else None.

(* float64 -> int conversion: truncation toward zero *)
Definition dec_to_int (m e : Z) : Z :=
  if (0 <=? e)%Z then (m * 10 ^ e)%Z else Z.quot m (10 ^ (- e))%Z.

(* strconv.ParseFloat on plain decimal / exponent notation (the generator stays inside) *)
Definition float_text (s : bytes) : option cval :=
  let body := match s with c :: r => if N.eqb c b_plus then r else s | [] => s end in
  match body with
  | c :: r => if N.eqb c 48 && negb (match r with [] => true | d :: _ => N.eqb d b_dot || N.eqb d 101 || N.eqb d 69 end)
              then None (* leading zeros: ParseFloat accepts, jnumber does not; not generated *)
              else match jnumber body with Some (v, []) => Some v | _ => None end
  | [] => None
  end.

Definition decode_ft (ft : nat) (v : cval) : res cval :=
  match ft with
  | 1%nat =>
    match v with
    | VStr s => Ok (VStr s)
    | VBool true => Ok (VStr [49]%N)
    | VBool false => Ok (VStr [48]%N)
    | VInt z => Ok (VStr (digits_of_Z z))
    | VDec m e =>
      if (m =? 0)%Z then Ok (VStr [48]%N) else
      let ds := digits_of_N (Z.to_N (Z.abs m)) in
      Ok (VStr ((if (m <? 0)%Z then [b_minus] else []) ++ fmt_f ds (Z.of_nat (length ds) + e)%Z))
    | _ => Err
    end
  | 2%nat =>
    match v with
    | VInt z => Ok (VInt z)
    | VDec m e => Ok (VInt (dec_to_int m e))
    | VBool true => Ok (VInt 1)
    | VBool false => Ok (VInt 0)
    | VStr [] => Ok (VInt 0)
    | _ => Err
    end
  | 3%nat =>
    match v with
    | VInt z => Ok (mk_dec (z <? 0)%Z (digits_of_N (Z.to_N (Z.abs z))) 0)
    | VDec m e => Ok (VDec m e)
    | VBool true => Ok (VDec 1 0)
    | VBool false => Ok (VDec 0 0)
    | VStr [] => Ok (VDec 0 0)
    | VStr s => match float_text s with Some f => Ok f | None => Err end
    | _ => Err
    end
  | 4%nat =>
    match v with
    | VBool b => Ok (VBool b)
    | VInt z => Ok (VBool (negb (z =? 0)%Z))
    | VDec m _ => Ok (VBool (negb (m =? 0)%Z))
    | VStr [] => Ok (VBool false)
    | VStr s => match bool_text s with Some b => Ok (VBool b) | None => Err end
    | _ => Err
    end
  | _ => Ok v
  end.

(* ---- model vs implementation ------------------------------------------------------------ *)

Definition init_state (c : case) : pstate :=
  mkPState (match ckind c with 0%nat => TValue | _ => TPrefix end)
           (ctagstr c) (ctagstr c) (crequired c) (cvalidate c) None.

Definition m_cfg (c : case) := cfg_of (ccfg c).
Definition m_eval (c : case) := fun e => evals_get e (cevals c).
Definition m_decode (c : case) := decode_ft (cftype c).
Definition m_verdict (c : case) := fun _ : option cval => cverdict c.
Definition m_budget : option nat := Some repo_budget.

Definition opt_bytes_eqb (a b : option bytes) : bool :=
  match a, b with
  | Some x, Some y => beqb x y
  | None, None => true
  | _, _ => false
  end.

(* numbers compared by value: an int and a float64 of the same value are the same number *)
Definition num_norm (v : cval) : cval :=
  match v with
  | VInt z => mk_dec (z <? 0)%Z (digits_of_N (Z.to_N (Z.abs z))) 0
  | _ => v
  end.
Fixpoint num_norm_deep (v : cval) : cval :=
  match v with
  | VInt z => num_norm v
  | VList l => VList (map num_norm_deep l)
  | VMap kvs => VMap (map (fun kv : bytes * cval => let (k, x) := kv in (k, num_norm_deep x)) kvs)
  | _ => v
  end.

Definition field_matches (c : case) (f : option cval) : bool :=
  match cobs_field c with
  | None => true                                  (* not comparable for this field type *)
  | Some o =>
    match f with
    | Some v => if Nat.eqb (cftype c) 9 then true else cval_eqb v o
    | None => true                                (* untouched: the zero value, not compared *)
    end
  end.

Definition check_case (c : case) : bool :=
  let st0 := init_state c in
  let q := stage_quote (cfix c) (m_cfg c) m_budget st0 in
  let qobs_ok :=
    match q with
    | POk s1 => opt_bytes_eqb (Some (ps_tagval s1)) (cobs_q c)
    | PErr _ => match cobs_q c with None => true | Some _ => false end
    end in
  let eobs_ok :=
    match q with
    | POk s1 =>
      match stage_expr m_budget (m_eval c) s1 with
      | POk s2 => opt_bytes_eqb (Some (ps_tagval s2)) (cobs_e c)
      | PErr _ => match cobs_e c with None => true | Some _ => false end
      end
    | PErr _ => match cobs_e c with None => true | Some _ => false end
    end in
  qobs_ok && eobs_ok &&
  match run_pipeline (cfix c) (m_cfg c) m_budget (m_eval c) (m_decode c) (m_verdict c) (cfacts c) st0 with
  | POk st => Nat.eqb (cobs_err c) 0 && cobs_bound c && field_matches c (ps_field st)
  | PErr EValidate => Nat.eqb (cobs_err c) 1 && cobs_bound c
  | PErr EPanicked => Nat.eqb (cobs_err c) 2
  | PErr EBind => Nat.eqb (cobs_err c) 1 && negb (cobs_bound c)
                  && match cobs_e c with Some _ => true | None => false end
  | PErr _ => Nat.eqb (cobs_err c) 1 && negb (cobs_bound c)
  end.

(* ---- the property on the implementation's observation ---------------------------------- *)

Definition hash_open : bytes := [b_hash; b_lbrace].

(* the literal reading: the field receives the expression's result (numbers by value) *)
Definition expr_oracle (c : case) : bool :=
  match cexpr c with
  | None => true
  | Some u =>
    (* the placeholders were substituted before the expression was looked at *)
    opt_bytes_eqb (cobs_q c) (Some (hash_open ++ u ++ [b_rbrace])) &&
    match evals_get u (cevals c) with
    | Ok v =>
      match m_decode c v with
      | Ok f =>
        if cvalidate c && negb (cverdict c) then true
        else Nat.eqb (cobs_err c) 0 &&
             match cobs_field c with
             | Some o => if Nat.eqb (cftype c) 9 then true else cval_eqb (num_norm_deep f) (num_norm_deep o)
             | None => true
             end
      | _ => true          (* the result does not fit the field type: any failure is acceptable *)
      end
    | _ => negb (Nat.eqb (cobs_err c) 0)     (* evaluation fails: start-up must not succeed *)
    end
  end.

(* validation fails start-up exactly when the bound value violates the constraints *)
Definition validate_oracle (c : case) : bool :=
  if cobs_bound c then Bool.eqb (Nat.eqb (cobs_err c) 1) (cvalidate c && negb (cverdict c))
  else true.

Definition oracle_case (c : case) : bool :=
  negb (Nat.eqb (cobs_err c) 3) && negb (Nat.eqb (cobs_err c) 2) && expr_oracle c && validate_oracle c.

Definition nontrivial (c : case) : bool :=
  match cexpr c with
  | Some _ => match find_first b_dollar (ctagstr c) with Some _ => true | None => false end
  | None => cvalidate c && cobs_bound c
  end.

Definition mismatches (cs : list case) : list nat :=
  map cid (filter (fun c => negb (check_case c)) cs).
Definition violations (cs : list case) : list nat :=
  map cid (filter (fun c => negb (oracle_case c)) cs).
Definition count_nontrivial (cs : list case) : list nat :=
  [length (filter nontrivial cs)].
Definition count_validate_fail (cs : list case) : list nat :=
  [length (filter (fun c => cvalidate c && cobs_bound c && negb (cverdict c)) cs)].

(* known-finding classes (computed on the oracle tables, i.e. on the input side):
     1  the expression's result does not survive FormatAny -> ParseAny (a string whose text reads as
        a number / bool / list / quoted text, nil, a float64 that fmt prints with an exponent ...)
     2  the result is the empty string: an empty TagVal means no value (error when required,
        otherwise the field is left untouched, e.g. an `any` field stays nil) *)
Definition roundtrip_ok (v : cval) : bool :=
  match format_any v with
  | Ok t => match parse_any t with
            | Ok v' => cval_eqb (num_norm_deep v') (num_norm_deep v)
            | _ => false
            end
  | _ => false
  end.

Definition kf_class (c : case) : nat :=
  match cexpr c with
  | Some u =>
    match evals_get u (cevals c) with
    | Ok (VStr []) => 2%nat
    | Ok v => if roundtrip_ok v then 0%nat else 1%nat
    | _ => 0%nat
    end
  | None => 0%nat
  end.

Definition kf_codes (cs : list case) : list nat :=
  flat_map (fun c => if oracle_case c then [] else
                     match kf_class c with O => [] | k => [cid c; k] end) cs.
