(* C03 oracle and non-triviality on wiring cases. Correspondence: Corr/Wiring.v [wcheck];
   oracles: Corr/WiringOracles.v (static scenario data + the implementation's observation only). *)
From Coq Require Import List Arith Bool.
From IocVerif Require Import Model.App Corr.Wiring Corr.WiringOracles.
Import ListNotations.

Definition check_case : wcase -> bool := wcheck.

(* no mixed versions after a successful start, for every wrap table *)
Definition oracle_case (c : wcase) : bool := oracle_one_version c.

Definition nontrivial (c : wcase) : bool := has_wrap c && shared c 1.

Definition mismatches (cs : list wcase) : list nat := wmismatches cs.
Definition violations (cs : list wcase) : list nat :=
  map w_id (filter (fun c => negb (oracle_case c)) cs).
Definition count_nontrivial (cs : list wcase) : list nat := [length (filter nontrivial cs)].
