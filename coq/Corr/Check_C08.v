(* C08 oracle and non-triviality on wiring cases. Correspondence: Corr/Wiring.v [wcheck_obs];
   oracles: Corr/WiringOracles.v (static scenario data + the implementation's observation only). *)
From Coq Require Import List Arith Bool.
From IocVerif Require Import Model.App Corr.Wiring Corr.WiringOracles.
Import ListNotations.

Definition check_case : wcase -> bool := wcheck_obs.

(* qualifier admits only declared members of the set; unique Primary, else unique unnamed, wins; per field *)
Definition oracle_case (c : wcase) : bool := oracle_points c && oracle_points_sound c && oracle_rank c.

Definition nontrivial (c : wcase) : bool := ok_start c && (1 <=? count_points c (fun h kp => match pt_quals (snd kp) with Some _ => true | None => negb (pt_slice (snd kp)) && (2 <=? length (providers c h (snd kp))) end)).

Definition mismatches (cs : list wcase) : list nat := wmismatches_obs cs.
Definition violations (cs : list wcase) : list nat :=
  map w_id (filter (fun c => negb (oracle_case c)) cs).
Definition count_nontrivial (cs : list wcase) : list nat := [length (filter nontrivial cs)].
