(* Correspondence and oracle for C17, evaluated by vm_compute on cases written by the harness.

   A key case = one configured value v (what Configure.Get(key) returned, canonicalised by the
   harness) and one field type T, bound through the REAL container three ways in three separate
   App.Run starts: prefix:"key", value:"${key}", prop:"key" (each with ",required=false" appended
   when creq = false).  A literal case = value:"text" on a field of type T.
   Observations are the rendered field (type-tagged), "error" (Run returned an error) or "panic".

   [check_case]  : the model (Model/Values.v: bind_prefix_r / bind_tag_value / bind_prop - the
                   functions the theorems of Properties/C17.v are about) reproduces each observed
                   route, wherever the route's input lies in the modelled fragment.
   [oracle_case] : the property on the observations:
                     the three routes agree with each other;
                     a value that is already of the field's type ([embed], no conversion involved)
                       arrives unchanged - in particular strings byte for byte;
                     "converted to the field's type" = decode_weak of the configured subtree, on the
                       modelled fragment of mapstructure;
                     a literal in a value tag reaches a string field as written.
   [cpre]        : Some p = the component was registered with p already in the bound field (a constructor
                   default; the harness fills the field before App.Run, for every route) and [o_fresh] is what
                   the same binding (prefix route; for a literal the value route) leaves in a ZERO component.
                   The unchanged code decodes into a fresh value of the field's type and then replaces the
                   field (reflectx.SetValue; mapstructure's ZeroFields = false therefore never sees the old
                   contents): a bound value is independent of p, and when nothing is bound (the key is absent /
                   the tag text is empty, with required=false) the field keeps p.  [keep_default] states the
                   second half on top of the routes of Model/Values.v; the oracle demands the first half
                   without the model: pre-filled and fresh component end with the same field.
   [cfix]        : which variant of the value path the tree has (false = unchanged, true = fixes/D-C17g.diff applied),
                   read off the running code by the driver's facts probe; it selects the model's fx parameter.
   [cdflt]       : Some d = the placeholder carries a default: value:"${key:d}" and prop:"key:d".  The default is for keys
                   that are [absent] (nil / empty map / empty list, Placeholder.v); a key that is PRESENT - also with the
                   empty string as its value - is bound as if no default were written: the three routes must agree.
                   For an absent key the prefix route has nothing to say; value and prop must agree with each other and
                   with the model (the default through ParseAny).
   [cpfx], [csfx]: ckind = 2 (template): the placeholder is spliced into a longer literal, value:"<pfx>${key[:d]}<sfx>";
                   only the value route runs.  A present string value reaches a string field as pfx ++ s ++ sfx.
   [cG], [cmap]  : the field type as declared (Go names and struct tags) and the property's own tag argument
                   mapper=<tag key>; the type the decoder sees is [cT] = Values.bound_type: field names by the yaml tag
                   unless THIS property says otherwise.  The driver binds several such properties per start and runs
                   several starts per process (groups); every case of a group is predicted on its own - what was bound
                   before must not matter.
   [cget2]       : NO SHARING between bound values and the configuration, nor between two bound values.  Some v = the case
                   ran in a group whose holders change what they were given: a post-processor of the driver visits every
                   field as soon as its component is initialised, takes the observation reported here and THEN changes
                   the bound map / slice in place (entries overwritten, keys added and deleted, elements overwritten and
                   reordered - through pointers, struct fields and typed elements; in deep mode also inside interface-typed
                   positions).  Several fields, components and starts of such a group bind the SAME keys, so every
                   observation is made after earlier holders of the same configured value scribbled over their copies;
                   v is Configure.Get(key) read again on the App of the bindings after all that.  The model has no state
                   to share: a binding is a function of (configured value, tag, type) - the observations are compared
                   with exactly the predictions of a single binding, and v with [cv].
   [cxargs]      : FURTHER ARGUMENTS.  (before, after) = argument text the driver put in front of / behind the arguments the
                   model reads (required=false, mapper=<key>) on every tag of the case: custom arguments, bracketed values
                   with commas inside, validate=omitempty on scalar fields - so that required=false stands first, last or
                   in the middle of 2-5 arguments.  They are part of the tag text the model parses ([args_of]); the value
                   part, and with it every prediction, is the same as without them: an optional point never fails and a
                   bound value never changes, whatever else the tag carries.
   [chist]       : POPULATED AGAIN.  Some (doc, sets) = the case's component is LAZY and its points were populated twice
                   on one App: the start loaded the document doc; the first request for the component populated it and
                   then failed at a later stage (Init / AfterPropertiesSet error, a validate argument, a by-name
                   dependency that does not exist, a required key that is absent); Configure.Set ran for every (key,
                   value) of sets; the component was requested again and the observations are its fields after that
                   second creation - over the same Property objects.  [cv] is Configure.Get(key) after the Sets.  The
                   model (Model/Rebind.v, the functions of c17_repopulate_* / c17_rebind_after_set) runs the history
                   populate ; Set* ; populate on the store of Model/ConfigStore.v: the store after the Sets must answer
                   Get(key) like the real one, and the LAST pass must be what was observed.  The oracle demands that the
                   second creation succeeds on every route (the bindings of such groups are well-typed and present
                   after the Sets) on top of the three routes agreeing on the configured value of that moment.
   [kf_class]    : the known-finding classes KF-C17a..i as predicates over the configured value /
                   literal and the field type (0 = none).  The driver accepts a failing oracle as a
                   known finding only if the case is in a class AND check_case holds (the
                   implementation does exactly what the model of the unrepaired value path says). *)
From Coq Require Import List NArith ZArith Bool.
From IocVerif Require Import Model.Values Model.ConfigStore Model.Rebind.
Import ListNotations.
Local Open Scope list_scope.

Inductive obs : Type :=
| OOk (f : fval)
| OErr
| OPanic
| ONone.          (* route not run for this case *)

Record case := mkCase {
  cid : nat;
  ckind : nat;          (* 0 = configured key, three routes; 1 = literal value tag; 2 = template, value route only *)
  creq : bool;          (* false: ",required=false" on every tag *)
  ckey : bytes;         (* configuration path *)
  cv : cval;            (* Configure.Get(key): VNull = nil *)
  ctext : bytes;        (* literal: the tag text (value part and arguments) *)
  cG : gtype;           (* the field type as declared: Go names and struct tags *)
  cfix : bool;          (* the tree splices float64 in plain digits (D-C17g), read off the running code *)
  o_prefix : obs;
  o_value : obs;
  o_prop : obs;
  cpre : option fval;   (* the field's contents when the component was registered (None = zero value) *)
  o_fresh : obs;        (* pre-filled cases: prefix route (literal: value route) on a zero component *)
  cdflt : option bytes; (* the default written in the placeholder / prop shorthand *)
  cpfx : bytes;         (* template: literal text before ... *)
  csfx : bytes;         (* ... and after the placeholder *)
  cmap : option bytes;  (* the tag argument mapper=<tag key> of this property *)
  cget2 : option cval;  (* mutating groups: Configure.Get(key) after every holder changed its bound value in place *)
  chist : option (list (bytes * cval) * list (bytes * cval));
                        (* populated again: (the loaded document, the Configure.Set calls between the two passes) *)
  cxargs : bytes * bytes (* further arguments in front of / behind required=false and mapper=, each with its leading comma *)
}.

(* the type the property's decoder sees: names by the yaml tag, or by the tag key of the property's own mapper argument *)
Definition cT (c : case) : ftype := bound_type (cmap c) (cG c).

(* ---- equality of field values ---------------------------------------------------------------- *)

Fixpoint fval_eqb (a b : fval) {struct a} : bool :=
  match a, b with
  | FStr x, FStr y => beqb x y
  | FBool x, FBool y => Bool.eqb x y
  | FInt x, FInt y => Z.eqb x y
  | FFloat m e, FFloat m' e' => Z.eqb m m' && Z.eqb e e'
  | FNil, FNil => true
  | FPtr x, FPtr y => fval_eqb x y
  | FSlice l1, FSlice l2 =>
    (fix go (l1 l2 : list fval) {struct l1} : bool :=
       match l1, l2 with
       | [], [] => true
       | x :: r, y :: r' => fval_eqb x y && go r r'
       | _, _ => false
       end) l1 l2
  | FMap m1, FMap m2 =>
    (fix go (m1 m2 : list (bytes * fval)) {struct m1} : bool :=
       match m1, m2 with
       | [], [] => true
       | (k, x) :: r, (k', y) :: r' => beqb k k' && fval_eqb x y && go r r'
       | _, _ => false
       end) m1 m2
  | FStruct m1, FStruct m2 =>
    (fix go (m1 m2 : list (bytes * fval)) {struct m1} : bool :=
       match m1, m2 with
       | [], [] => true
       | (k, x) :: r, (k', y) :: r' => beqb k k' && fval_eqb x y && go r r'
       | _, _ => false
       end) m1 m2
  | FAny x, FAny y => cval_eqb x y
  | _, _ => false
  end.

Definition obs_eqb (a b : obs) : bool :=
  match a, b with
  | OOk x, OOk y => fval_eqb x y
  | OErr, OErr => true
  | OPanic, OPanic => true
  | ONone, ONone => true
  | _, _ => false
  end.

Definition obs_of (r : res fval) : obs :=
  match r with Ok f => OOk f | Err => OErr | Panic => OPanic end.

(* ---- the model's answer per route --------------------------------------------------------------- *)

Definition cfg_case (c : case) : bytes -> cval := cfg_of [(ckey c, cv c)].
Definition args_of (c : case) : bytes :=
  fst (cxargs c) ++
  (if creq c then [] else lit_req_false) ++ match cmap c with Some m => lit_mapper_arg ++ m | None => [] end
  ++ snd (cxargs c).
Definition body_of (c : case) : bytes := key_dflt (ckey c) (cdflt c).

Definition value_tag (c : case) : bytes :=
  match ckind c with
  | 1%nat => ctext c
  | _ => cpfx c ++ ph (body_of c) ++ csfx c ++ args_of c
  end.

(* the text the binding stage of the value route sees *)
Definition value_text (c : case) : option bytes :=
  let t := tag_value_part (value_tag c) in
  match find_first b_dollar t with
  | None => Some t
  | Some _ => match replace_all_content b_dollar (resolve (cfix c) (cfg_case c)) (Some repo_budget) O t with
              | Done x => Some x | _ => None end
  end.

(* a route that binds nothing (and does not fail: required=false) leaves the field as it was registered:
   the zero value of Model/Values.v's routes is the contents of a zero component; a pre-filled one keeps p.
   Prefix route: Configure.Get returned nil.  Value / prop route: the tag text is empty after the ${} stage. *)
Definition keep_default (c : case) (nothing_bound : bool) (r : res fval) : res fval :=
  match cpre c, r with
  | Some p, Ok _ => if nothing_bound then Ok p else r
  | _, _ => r
  end.
Definition prefix_binds_nothing (c : case) : bool := match cv c with VNull => true | _ => false end.
Definition value_binds_nothing (c : case) : bool :=
  match value_text c with Some [] => true | _ => false end.

Definition model_prefix (c : case) : res fval :=
  keep_default c (prefix_binds_nothing c) (bind_prefix_r (creq c) (cv c) (cT c)).
Definition model_value (c : case) : option (res fval) :=
  option_map (keep_default c (value_binds_nothing c))
    (bind_tag_value (cfix c) (cfg_case c) (creq c) (tag_value_part (value_tag c)) (cT c)).
Definition model_prop (c : case) : option (res fval) :=
  option_map (keep_default c (value_binds_nothing c))
    (bind_prop (cfix c) (cfg_case c) (creq c) (body_of c ++ args_of c) (cT c)).

(* ---- where the model is claimed faithful -------------------------------------------------------- *)

Definition prefix_modelled (c : case) : bool :=
  val_in_fragment (cv c) && dw_modelled (cT c) (cv c).

Definition text_modelled (T : ftype) (text : bytes) : bool :=
  expr_free text && text_in_fragment text &&
  match parse_any text with Ok v => dw_modelled T v | _ => true end.

Definition value_modelled (c : case) : bool :=
  val_in_fragment (cv c) &&
  match value_text c with Some t => text_modelled (cT c) t | None => true end.

Definition route_ok (modelled : bool) (m : option (res fval)) (o : obs) : bool :=
  match o with
  | ONone => true
  | _ => if modelled then match m with Some r => obs_eqb (obs_of r) o | None => true end else true
  end.

(* the configuration is not changed by binding it, nor by what holders do with the values they were given *)
Definition config_kept (c : case) : bool :=
  match cget2 c with Some v => cval_eqb v (cv c) | None => true end.

(* populated again: the three points of the case, the history populate ; Set* ; populate on the model store, and its
   last pass against the observations; the store after the Sets answers Get(key) as the real Configure did *)
Definition case_points (c : case) : list cpoint :=
  [mkCPoint RtPrefix (creq c) (ckey c) (cT c);
   mkCPoint RtValue (creq c) (tag_value_part (value_tag c)) (cT c);
   mkCPoint RtProp (creq c) (body_of c ++ args_of c) (cT c)].

Definition hist_steps (c : case) (sets : list (bytes * cval)) : list pstep :=
  PPopulate (case_points c) :: map (fun kv : bytes * cval => PSet (fst kv) (snd kv)) sets ++ [PPopulate (case_points c)].

Definition hist_ok (c : case) : bool :=
  match chist c with
  | None => true
  | Some (doc, sets) =>
    let s0 := mkStore [] doc in
    key_modelled (ckey c) && cfg_modelled (VMap doc)
    && forallb (fun kv : bytes * cval => key_modelled (fst kv) && val_modelled (snd kv)) sets
    && cval_eqb (vget (pstate s0 (hist_steps c sets)) (ckey c)) (cv c)
    && match last (prun (cfix c) s0 (hist_steps c sets)) [] with
       | [rp; rv; rr] =>
         route_ok (prefix_modelled c) rp (o_prefix c)
         && route_ok (value_modelled c) rv (o_value c)
         && route_ok (value_modelled c) rr (o_prop c)
       | _ => false
       end
  end.

Definition check_case (c : case) : bool :=
  route_ok (prefix_modelled c) (Some (model_prefix c)) (o_prefix c)
  && route_ok (value_modelled c) (model_value c) (o_value c)
  && route_ok (value_modelled c) (model_prop c) (o_prop c)
  && config_kept c
  && hist_ok c.

(* ---- the property on the observations ------------------------------------------------------------ *)

Definition is_string_type (T : ftype) : bool := match T with TString => true | _ => false end.

(* "exactly the configured value converted to the field's type": what the field held before plays no part.
   Whenever something is bound, the pre-filled component ends with the field the zero component ends with. *)
Definition prefill_ok (c : case) (nothing_bound : bool) (o : obs) : bool :=
  match cpre c with
  | None => true
  | Some _ => nothing_bound || obs_eqb o (o_fresh c)
  end.

(* the written default applies: the key is absent in the sense of the ${} stage (nil, empty map, empty list) *)
Definition default_applies (c : case) : bool :=
  match cdflt c with Some _ => absent (cv c) | None => false end.

Definition oracle_key (c : case) : bool :=
  (if default_applies c
   then route_ok (value_modelled c) (model_value c) (o_value c)       (* the default, as the model of the ${} stage says *)
   else obs_eqb (o_prefix c) (o_value c))                             (* a present key: the default plays no part *)
  && obs_eqb (o_value c) (o_prop c)
  && match embed (cT c) (cv c) with
     | Some f => obs_eqb (o_prefix c) (OOk f)
     | None => true
     end
  && prefill_ok c (prefix_binds_nothing c) (o_prefix c)
  && route_ok (prefix_modelled c) (Some (model_prefix c)) (o_prefix c).

(* template: a present string (free of $ and #) reaches a string field inside the literal as it is, whenever the whole
   text is none of the classes ParseAny re-reads (text_class, below); elsewhere the model of the value route *)
Definition sigil_free (s : bytes) : bool := forallb (fun c => negb (N.eqb c b_dollar || N.eqb c b_hash || is_brace c)) s.

(* literal: as written into string fields; elsewhere the written text converted to the field's type *)
Definition oracle_lit (c : case) : bool :=
  let t := tag_value_part (ctext c) in
  (if is_string_type (cT c) then
     match t with
     | [] => true
     | _ => obs_eqb (o_value c) (OOk (FStr t))
     end
   else true)
  && prefill_ok c (value_binds_nothing c) (o_value c)
  && route_ok (value_modelled c) (model_value c) (o_value c).

(* [oracle_case] follows [text_class] below *)

(* the pre-fill half of the oracle alone: no known-finding class is about what the field held before *)
Definition prefill_part (c : case) : bool :=
  match ckind c with
  | O => prefill_ok c (prefix_binds_nothing c) (o_prefix c)
  | _ => prefill_ok c (value_binds_nothing c) (o_value c)
  end.

(* ---- known-finding classes ------------------------------------------------------------------------ *)

Fixpoint has_big_int (v : cval) : bool :=
  match v with
  | VInt z => negb (int_safe z)
  | VList l => existsb has_big_int l
  | VMap kvs => existsb (fun kv : bytes * cval => has_big_int (snd kv)) kvs
  | _ => false
  end.

Fixpoint has_int (v : cval) : bool :=
  match v with
  | VInt _ => true
  | VList l => existsb has_int l
  | VMap kvs => existsb (fun kv : bytes * cval => has_int (snd kv)) kvs
  | _ => false
  end.

(* some integer of v ends in an interface-typed position of T *)
Fixpoint int_reaches_any (T : ftype) (v : cval) {struct T} : bool :=
  match T with
  | TAny => has_int v
  | TPtr t => int_reaches_any t v
  | TSlice t => match v with
                | VList l => existsb (int_reaches_any t) l
                | _ => int_reaches_any t v
                end
  | TMap t => match v with
              | VMap kvs => existsb (fun kv : bytes * cval => int_reaches_any t (snd kv)) kvs
              | VList l => existsb (fun x => match x with
                                             | VMap kvs => existsb (fun kv : bytes * cval => int_reaches_any t (snd kv)) kvs
                                             | _ => false
                                             end) l
              | _ => false
              end
  | TStruct fs =>
    match v with
    | VMap kvs =>
      (fix go (fs : list (bytes * ftype)) : bool :=
         match fs with
         | [] => false
         | (n, t) :: r => match field_lookup n kvs with Some fv => int_reaches_any t fv | None => false end || go r
         end) fs
    | _ => false
    end
  | _ => false
  end.

(* %v prints the float64 in exponent form: exponent < -4 or >= 21 ... for the shortest digits: >= 21 is
   strconv's 'g' threshold eprec = 6 when the precision is "shortest" *)
Definition dec_eform (m e : Z) : bool :=
  if (m =? 0)%Z then false else
  let exp := (Z.of_nat (length (digits_of_N (Z.to_N (Z.abs m)))) + e - 1)%Z in
  (exp <? -4)%Z || (6 <=? exp)%Z.

Definition has_placeholder (text : bytes) : bool :=
  match find_first b_dollar text, find_first b_hash text with
  | None, None => false
  | _, _ => true
  end.

(* class of a text that ParseAny does not read as the string it is: 1 number-like (a), 2 bool-like (b),
   3 quoted (c), 4 bracketed (d) - in the order of ParseAny's switch *)
Definition text_class (s : bytes) : nat :=
  match s with
  | [] => 0
  | _ =>
    if beqb (map lower_ascii s) lit_true || beqb (map lower_ascii s) lit_false then 2
    else if is_number s then 1
    else if is_map s || is_slice s then 4
    else if is_quoted s then 3
    else 0
  end%nat.

Definition oracle_tpl (c : case) : bool :=
  match cT c, cv c with
  | TString, VStr s =>
    let whole := cpfx c ++ s ++ csfx c in
    if sigil_free s && sigil_free (cpfx c) && sigil_free (csfx c) && Nat.eqb (text_class whole) 0
       && negb (beqb whole [])
       (* the whole template is the tag's value part: no comma of it is a top-level comma of the tag (C19's grammar; an
          unbalanced bracket in the literal text can expose a comma inside the default) *)
       && beqb (tag_value_part (value_tag c)) (cpfx c ++ ph (body_of c) ++ csfx c)
    then obs_eqb (o_value c) (OOk (FStr whole)) else true
  | _, _ => true
  end
  && route_ok (value_modelled c) (model_value c) (o_value c).

(* populated again after the configuration was corrected: every route that ran bound a value (the second creation
   succeeded); that the routes agree on the value configured at that moment is oracle_key / oracle_tpl with [cv] read
   after the Sets *)
Definition retried_ok (c : case) : bool :=
  match chist c with
  | None => true
  | Some _ =>
    let bound o := match o with ONone | OOk _ => true | _ => false end in
    bound (o_prefix c) && bound (o_value c) && bound (o_prop c)
  end.

Definition oracle_case (c : case) : bool :=
  match ckind c with O => oracle_key c | 1%nat => oracle_lit c | _ => oracle_tpl c end
  && config_kept c && retried_ok c.

(* 1..9 = KF-C17a..i; 0 = none.  Priority: the class that explains the top-level text first. *)
Definition kf_class (c : case) : nat :=
  match ckind c with
  | O =>
    let v := cv c in
    let placeholder := match format_cfg (cfix c) v with Ok t => has_placeholder t | _ => false end in
    match v with
    | VStr [] => 8
    | VStr s => match text_class s with
                | O => if placeholder then 9 else 0
                | k => k
                end
    | VDec m e => if dec_eform m e && negb (cfix c) then 7 else 0
    | _ =>
      if has_big_int v then 5
      else if int_reaches_any (cT c) v then 6
      else if placeholder then 9
      else 0
    end
  | 1 => text_class (tag_value_part (ctext c))
  | _ => 0                       (* no class is about a placeholder spliced into a literal *)
  end%nat.

(* ---- non-triviality -------------------------------------------------------------------------------- *)

(* the three routes (or the literal route) ran and at least one of them bound a value *)
Definition is_ok (o : obs) : bool := match o with OOk _ => true | _ => false end.
Definition nontrivial (c : case) : bool :=
  match ckind c with
  | O => is_ok (o_prefix c) || is_ok (o_value c) || is_ok (o_prop c)
  | _ => is_ok (o_value c)
  end.

Definition mismatches (cs : list case) : list nat :=
  map cid (filter (fun c => negb (check_case c)) cs).
Definition violations (cs : list case) : list nat :=
  map cid (filter (fun c => negb (oracle_case c)) cs).
(* (case id, class) of every failing case that lies in a class, on which the model agrees, and whose pre-filled
   field (if any) ended as the zero component's did *)
Definition known (cs : list case) : list nat :=
  flat_map (fun c => if negb (oracle_case c) && check_case c && prefill_part c
                     then match kf_class c with O => [] | k => [cid c; k] end
                     else []) cs.
Definition unmodelled (cs : list case) : list nat :=
  [length (filter (fun c => negb (prefix_modelled c && value_modelled c)) cs)].
Definition count_nontrivial (cs : list case) : list nat :=
  [length (filter nontrivial cs)].
Definition unmodelled_ids (cs : list case) : list nat :=
  map cid (filter (fun c => negb (prefix_modelled c && value_modelled c)) cs).

(* coverage of the theorems' domains by the generated cases: key cases inside [safe] with an inert text
   (c17_paths_agree_key applies), and key cases whose value already has the field's type (c17_prefix_exact, embed) *)
Definition in_safe (c : case) : bool :=
  match ckind c with
  | O => creq c && match cdflt c with None => true | Some _ => false end && safe (cfix c) (cv c) (cT c) &&
         match format_cfg (cfix c) (cv c) with Ok t => inert t | _ => false end
  | _ => false
  end.
Definition in_embed (c : case) : bool :=
  match ckind c with
  | O => match embed (cT c) (cv c) with Some _ => true | None => false end
  | _ => false
  end.
(* the theorem's prediction, checked on the implementation: inside [safe] the three routes bound the same field *)
Definition safe_agrees (c : case) : bool :=
  if in_safe c then obs_eqb (o_prefix c) (o_value c) && obs_eqb (o_value c) (o_prop c) else true.
(* pre-filled cases in which something was bound over a NON-ZERO field of slice / map / struct kind (at any depth
   below pointers): [pre-filled; ... bound ok; ... and the field ended different from what it held; nothing bound and
   Run ok (the default stays); bound ok inside the modelled fragment of the prefix route] *)
Definition is_prefilled (c : case) : bool := match cpre c with Some _ => true | None => false end.
Definition replaced (c : case) : bool :=
  match cpre c, o_prefix c with
  | Some p, OOk f => negb (fval_eqb p f)
  | _, _ => false
  end.
Definition prefill_counts (cs : list case) : list nat :=
  [length (filter is_prefilled cs);
   length (filter (fun c => is_prefilled c && is_ok (o_prefix c) && negb (prefix_binds_nothing c)) cs);
   length (filter (fun c => replaced c && negb (prefix_binds_nothing c)) cs);
   length (filter (fun c => is_prefilled c && prefix_binds_nothing c && is_ok (o_prefix c)) cs);
   length (filter (fun c => is_prefilled c && is_ok (o_prefix c) && negb (prefix_binds_nothing c)
                            && prefix_modelled c) cs)].

Definition domain_counts (cs : list case) : list nat :=
  [length (filter in_safe cs); length (filter in_embed cs);
   length (filter (fun c => in_safe c && is_ok (o_prefix c)) cs);
   length (filter (fun c => negb (safe_agrees c)) cs)].

(* ---- the input classes of round 2: defaults on present keys, templates, mapper arguments ------------------------------ *)

Definition has_default (c : case) : bool := match cdflt c with Some _ => true | None => false end.
Definition is_empty_str (v : cval) : bool := match v with VStr [] => true | _ => false end.
(* some struct field (at any depth) is matched under a name that is not its Go name: a struct tag decides *)
Fixpoint renamed (tagkey : bytes) (g : gtype) {struct g} : bool :=
  match g with
  | GPtr t | GSlice t | GMap t => renamed tagkey t
  | GStruct fs =>
    (fix go (fs : list (bytes * list (bytes * bytes) * gtype)) : bool :=
       match fs with
       | [] => false
       | (n, tags, t) :: r => negb (beqb (match_name tagkey n tags) n) || renamed tagkey t || go r
       end) fs
  | _ => false
  end.
Fixpoint ftype_eqb (a b : ftype) {struct a} : bool :=
  match a, b with
  | TString, TString | TBool, TBool | TAny, TAny => true
  | TInt x, TInt y | TUint x, TUint y | TFloat x, TFloat y => Z.eqb x y
  | TPtr x, TPtr y | TSlice x, TSlice y | TMap x, TMap y => ftype_eqb x y
  | TStruct f1, TStruct f2 =>
    (fix go (f1 f2 : list (bytes * ftype)) {struct f1} : bool :=
       match f1, f2 with
       | [], [] => true
       | (n, x) :: r, (n', y) :: r' => beqb n n' && ftype_eqb x y && go r r'
       | _, _ => false
       end) f1 f2
  | _, _ => false
  end.
(* [placeholder with a default; ... on a present key; ... whose value is the empty string; ... and the three routes agree
    (string field, required=false: nothing is bound on either side); ... on an absent key; templates; ... that bound a value;
    cases with a mapper argument; ... that select other names than the yaml tags would; cases without a mapper argument whose
    yaml tags rename a field; ... that bound a value by prefix] *)
(* bindings of mutating groups: [all; ... whose configured value is a map or a list; ... bound ok by prefix; ... whose
   prefix-bound field equals the configured value as it is (embed: nothing converted, the case in which a decoder could
   hand out the configuration's own container)] *)
Definition is_container (v : cval) : bool := match v with VMap _ | VList _ => true | _ => false end.
Definition mutated (c : case) : bool := match cget2 c with Some _ => true | None => false end.
Definition sharing_counts (cs : list case) : list nat :=
  [length (filter mutated cs);
   length (filter (fun c => mutated c && is_container (cv c)) cs);
   length (filter (fun c => mutated c && is_container (cv c) && is_ok (o_prefix c)) cs);
   length (filter (fun c => mutated c && is_container (cv c) &&
                            match embed (cT c) (cv c) with Some _ => true | None => false end) cs)].

(* bindings populated again: [all; ... whose key was Set between the passes (the store's answer changed); ... bound ok on
   every route that ran; ... inside the modelled fragment on both routes] *)
Definition retried (c : case) : bool := match chist c with Some _ => true | None => false end.
Definition key_was_set (c : case) : bool :=
  match chist c with
  | Some (doc, sets) => negb (cval_eqb (vget (mkStore [] doc) (ckey c)) (cv c))
  | None => false
  end.
Definition retry_counts (cs : list case) : list nat :=
  [length (filter retried cs);
   length (filter key_was_set cs);
   length (filter (fun c => retried c && retried_ok c && (is_ok (o_prefix c) || is_ok (o_value c))) cs);
   length (filter (fun c => retried c && prefix_modelled c && value_modelled c) cs)].

(* further arguments: [cases with some; ... with required=false among them (not first or not last); ... of those whose key
   is absent and whose value / prop routes left the field alone without failing] *)
Definition has_xargs (c : case) : bool :=
  match cxargs c with ([], []) => false | _ => true end.
Definition xargs_counts (cs : list case) : list nat :=
  [length (filter has_xargs cs);
   length (filter (fun c => has_xargs c && negb (creq c)) cs);
   length (filter (fun c => has_xargs c && negb (creq c) && prefix_binds_nothing c && is_ok (o_value c)
                            && (is_ok (o_prop c) || Nat.eqb (ckind c) 2)) cs)].

Definition class_counts (cs : list case) : list nat :=
  let key c := Nat.eqb (ckind c) 0 in
  [length (filter (fun c => key c && has_default c) cs);
   length (filter (fun c => key c && has_default c && negb (absent (cv c))) cs);
   length (filter (fun c => key c && has_default c && is_empty_str (cv c)) cs);
   length (filter (fun c => key c && has_default c && is_empty_str (cv c) && obs_eqb (o_prefix c) (o_value c)) cs);
   length (filter (fun c => key c && has_default c && absent (cv c)) cs);
   length (filter (fun c => Nat.eqb (ckind c) 2) cs);
   length (filter (fun c => Nat.eqb (ckind c) 2 && is_ok (o_value c)) cs);
   length (filter (fun c => match cmap c with Some _ => true | None => false end) cs);
   length (filter (fun c => match cmap c with
                            | Some _ => negb (ftype_eqb (cT c) (erase lit_yaml (cG c)))
                            | None => false end) cs);
   length (filter (fun c => match cmap c with None => renamed lit_yaml (cG c) | Some _ => false end) cs);
   length (filter (fun c => match cmap c with None => renamed lit_yaml (cG c) && is_ok (o_prefix c) | Some _ => false end) cs)].
