(* C04 on the histories of real starts: wiring scenarios (Corr/Wiring.v) run with the registry tracer.
   Correspondence: [wcheck] compares, besides the whole observation, the recorded registry calls with the
   history the traced model computes (Model/FactoryTrace.v), op by op.
   Oracle: the recorded history itself (start ++ lookups) is in the strict protocol language and passes the
   three boolean parts of C04; outputs are those of the repaired registry model replayed on the recorded calls
   (the registry's own outputs are compared in Corr/Check_C04.v on scripts and traced starts). *)
From Coq Require Import List Arith Bool.
From IocVerif Require Import Model.App Model.FactoryTrace Model.RegistryProto Corr.Wiring.
Import ListNotations.

Definition check_case : wcase -> bool := wcheck.

Definition impl_ops (c : wcase) : option (list rop) :=
  match ob_ops (w_obs c) with Some (r, l) => Some (r ++ l) | None => None end.

Definition oracle_case (c : wcase) : bool :=
  match impl_ops c, ob_outcome (w_obs c) with
  | Some ops, (OOk | OErr) =>
    let tr := trace repaired ops in
    protocol_strict tr && one_early_ref_b tr && early_ref_fresh_b tr && single_invocation_b tr
    && published_final_b tr && clean_failure_b tr
  | _, _ => true
  end.

(* the history has an early-reference run or a failed creation *)
Definition nontrivial (c : wcase) : bool :=
  match impl_ops c with
  | Some ops => existsb (fun o => match o with OGet _ _ (Some _) | OEndErr _ => true | _ => false end) ops
  | None => false
  end.

Definition mismatches (cs : list wcase) : list nat := wmismatches cs.
Definition violations (cs : list wcase) : list nat :=
  map w_id (filter (fun c => negb (oracle_case c)) cs).
Definition count_nontrivial (cs : list wcase) : list nat := [length (filter nontrivial cs)].
