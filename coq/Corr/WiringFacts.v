(* Instantiated obligations of the wiring family: the side conditions of the run-level theorems
   (c06_wired_*, c07_wired_*, c08_wired_qualifier, c09_no_panic, c09_required_points_set) evaluated by
   vm_compute on the scenarios of this run, whose built-in population (names, ordering class, Order(),
   LazyInit) is read from the running code. *)
From Coq Require Import List Arith Bool.
From IocVerif Require Import Model.App Corr.Wiring Proofs.FactoryNoPanic Proofs.FactoryWiring.
Import ListNotations.

(* the sorted built-in pipeline is props, value, wire, func, further-matching *)
Definition count_unstaged (cs : list wcase) : list nat :=
  [length (filter (fun c => negb (stages_ok_b (normalise repaired (w_scn c)))) cs)].
(* further-matching comes after candidate collection *)
Definition count_unsettled_w (cs : list wcase) : list nat :=
  [length (filter (fun c => negb (settled_b (normalise repaired (w_scn c)))) cs)].
(* scenarios with a post-processor component that has injection points (outside the theorems: KF-C05a) *)
Definition count_pointed_procs_w (cs : list wcase) : list nat :=
  [length (filter (fun c => negb (procs_pointless_b (normalise repaired (w_scn c)))) cs)].
