(* Instantiated obligations of the wiring family: the side conditions of the run-level theorems
   (c06_wired_*, c07_wired_*, c08_wired_qualifier, c09_no_panic, c09_required_points_set) evaluated by
   vm_compute on the scenarios of this run, whose built-in population (names, ordering class, Order(),
   LazyInit) is read from the running code. *)
From Coq Require Import List Arith Bool.
From IocVerif Require Import Model.App Corr.Wiring Proofs.FactoryNoPanic Proofs.FactoryWiring.
Import ListNotations.

(* the sorted built-in pipeline is props, value, wire, func, further-matching *)
Definition count_unstaged (cs : list wcase) : list nat :=
  [length (filter (fun c => negb (stages_ok_b (normalise repaired (w_scn c)))) cs)].
(* further-matching comes after candidate collection *)
Definition count_unsettled_w (cs : list wcase) : list nat :=
  [length (filter (fun c => negb (settled_b (normalise repaired (w_scn c)))) cs)].
(* scenarios with a post-processor component that has injection points (outside the theorems: KF-C05a) *)
Definition count_pointed_procs_w (cs : list wcase) : list nat :=
  [length (filter (fun c => negb (procs_pointless_b (normalise repaired (w_scn c)))) cs)].

(* ---- the function evaluated by the correspondence is the function the theorems are about ---------------------
   [model_obs] runs the extended traced model (Model/FactoryX.v).  For a case without extras its outcome, event
   log, fields and start history are those of [run] (Model/App.v) and [run_t] (Model/FactoryTrace.v). *)
From IocVerif Require Import Model.FactoryTrace Model.FactoryX Proofs.FactoryTraceProofs Proofs.FactoryXProofs.

Definition outcome_of (r : res fstate) : outcome :=
  match r with Ok _ => OOk | Fail (FErr _) _ => OErr | Fail FPanic _ => OPanic | Fail FFuel _ => OOther end.
Definition state_of (r : res fstate) : fstate := match r with Ok st => st | Fail _ st => st end.

Lemma model_obs_plain vt c :
  w_x c = no_extras ->
  ob_outcome (model_obs vt c) = outcome_of (run vt (w_scn c)) /\
  ob_log (model_obs vt c) = rev (log (state_of (run vt (w_scn c)))) /\
  ob_fields (model_obs vt c) = fields_obs (w_scn c) no_extras (state_of (run vt (w_scn c))) /\
  exists l, ob_ops (model_obs vt c) = Some (fst (run_t vt (w_scn c)), l).
Proof.
  intros Hx. unfold model_obs. rewrite Hx, run_xt_none. pose proof (run_erase vt (w_scn c)) as He.
  destruct (run_t vt (w_scn c)) as [o1 r]. cbn [snd fst] in *. subst r.
  destruct (run vt (w_scn c)) as [st|[e| |] st]; cbn [outcome_of state_of].
  - destruct (lookups_core_xt vt (normalise vt (w_scn c)) no_extras (w_lookups c) st) as [o2 [st2 outs]].
    destruct (ob_bulk (w_obs c)); [destruct (bulk_core_xt _ _ _ _ st2) as [o3 [st3 b]]|];
      cbn [ob_outcome ob_log ob_fields ob_ops]; repeat split; eexists; reflexivity.
  - destruct (lookups_core_xt vt (normalise vt (w_scn c)) no_extras (w_lookups c) st) as [o2 [st2 outs]].
    destruct (ob_bulk (w_obs c)); [destruct (bulk_core_xt _ _ _ _ st2) as [o3 [st3 b]]|];
      cbn [ob_outcome ob_log ob_fields ob_ops]; repeat split; eexists; reflexivity.
  - cbn [ob_outcome ob_log ob_fields ob_ops]. repeat split. eexists; reflexivity.
  - cbn [ob_outcome ob_log ob_fields ob_ops]. repeat split. eexists; reflexivity.
Qed.

(* how many cases of a run carry extras (they are decided by correspondence and oracles only) *)
Definition has_extras (c : wcase) : bool :=
  match x_short (w_x c), x_initget (w_x c) with [], [] => false | _, _ => true end.
Definition count_extras_w (cs : list wcase) : list nat := [length (filter has_extras cs)].
