(* C01 oracle and non-triviality on wiring cases (see Corr/Wiring.v for the shared correspondence). *)
From Coq Require Import List Arith Bool.
From IocVerif Require Import Model.App Corr.Wiring.
Import ListNotations.

Definition check_case : wcase -> bool := wcheck.

(* after a successful start every version found in any field (single or slice element) of any
   holder is the version the by-name lookup of its component returns *)
Definition oracle_case (c : wcase) : bool :=
  match ob_outcome (w_obs c) with
  | OOk =>
    forallb (fun f =>
      forallb (fun v => match lookup_of c (owner v) with
                        | Some (LTVer v') => ver_eqb v v'
                        | _ => false
                        end) (snd f)) (ob_fields (w_obs c))
  | _ => true
  end.

Definition holders_of (o : obs) (n : name) : nat :=
  length (filter (fun f => existsb (fun v => Nat.eqb (owner v) n) (snd f)) (ob_fields o)).

(* non-trivial: a successful start in which some component is held through at least two points *)
Definition nontrivial (c : wcase) : bool :=
  match ob_outcome (w_obs c) with
  | OOk => existsb (fun n => 2 <=? holders_of (w_obs c) n) (names_of (s_pop (w_scn c)))
  | _ => false
  end.

Definition mismatches (cs : list wcase) : list nat := wmismatches cs.
Definition violations (cs : list wcase) : list nat :=
  map w_id (filter (fun c => negb (oracle_case c)) cs).
Definition count_nontrivial (cs : list wcase) : list nat := [length (filter nontrivial cs)].
