(* Correspondence and oracle for C19, evaluated by vm_compute on cases written by the harness.

   A case = one tag byte string, how it was fed to the real code (kind), what the real code reported
   (value part, argument map in ForEach order, IsRequired, Find / Has probes, or the outcome of a real
   app.Run), and -- for inputs of the structured generator -- the structure the generator intended.

   A share of the direct / scan cases goes on to drive the exported argument API on the parsed Property
   (SetArg / AddArg / Args().Set / Add: [cops]) and reports the table again ([cafter]); the app.Run kinds
   include the prop shorthand with the key absent from / present in the configuration (kinds 6 / 7).

   [check_case]  : Model/TagGrammar.v (the functions the C19 theorems are about) == implementation.
   [oracle_case] : the property itself on the implementation's observation, computed with this file's own
                   small helpers (ASCII first-letter upper-casing, last-wins association, sorting), not
                   with the parser model. *)
From Coq Require Import List ZArith NArith Bool Arith Uint63.
From IocVerif Require Import Model.TagGrammar.
Import ListNotations.

(* ---- transport of cases ---------------------------------------------------------------------------
   The model, the theorems and every comparison below work on [bytes = list N] and on the [case] record.
   Only the *cases file* written by the harness is compact: each case is serialised to one byte stream
   (numbers, length-prefixed byte strings, counted lists; [p_case] below is the format) and that stream is
   packed into primitive 63-bit integers (up to seven bytes per integer, most significant first, under a
   leading 1 marker: b1..bk travel as 1*256^k + b1*256^(k-1) + ... + bk).  Reason: Coq elaborates a
   literal [case] term at ~18 ms per case and a list of N literals at ~90 us per byte, which does not
   fit 20 000 cases into the quick tier; unpacking ([B]) and decoding ([decode_case]) inside vm_compute
   is cheap.  Every byte 0..255 is representable.  A stream that does not decode is counted as a
   mismatch AND a violation, never dropped. *)
Fixpoint int_bits_to_N (k : nat) (b : int) : N :=
  match k with
  | O => 0%N
  | S k' => ((if Uint63.eqb (Uint63.land b 1) 0 then 0 else 1) + 2 * int_bits_to_N k' (Uint63.lsr b 1))%N
  end.

Fixpoint unpack_int (fuel : nat) (v : int) (acc : bytes) : bytes :=
  match fuel with
  | O => acc
  | S f => if Uint63.leb v 1 then acc
           else unpack_int f (Uint63.lsr v 8) (int_bits_to_N 8 (Uint63.land v 255) :: acc)
  end.

Definition B (l : list int) : bytes := flat_map (fun v => unpack_int 8 v []) l.

Example B_example :
  B [1103840347141%uint63; 511%uint63; 256%uint63] = [1; 2; 3; 4; 5; 255; 0]%N.
Proof. vm_compute. reflexivity. Qed.

Record probe := mkProbe {
  pname : bytes;            (* name looked up *)
  pwants : list bytes;      (* wants passed to Has *)
  pfpanic : bool;           (* Find panicked *)
  pfound : bool;
  pvals : list bytes;
  phpanic : bool;           (* Has panicked *)
  phas : bool;              (* Has(name) *)
  phasw : bool              (* Has(name, wants...) *)
}.

(* kinds: 0 NewProperty directly
          1 scanned under key value / wire  (Required default)
          2 scanned under key prop          (shorthand rewrite + Required default)
          3 app.Run, wire on a pointer field whose type has no provider
          4 app.Run, wire (by type) on a pointer field whose type has a provider
          5 app.Run, value on a string field
          6 app.Run, prop on a string field, the shorthand's key is absent from the configuration
          7 app.Run, prop on a string field, the key is configured with the plain string [ccfg] *)
(* what one parse reported (kinds 0-2) *)
Record pobs := mkPobs {
  fnprops : nat;
  ftagval : bytes;
  ftagstr_same : bool;
  fargs : argmap;
  freq : bool;
  fprobes : list probe
}.

(* [cagain] : 0 = the tag text was parsed once.
              1 | 2 = INDEPENDENCE of parses: the text was parsed (kinds 0-2: in the case's own way, the observation is
              [cfirst]), the driver then scribbled over everything reachable from the result - every item of every value
              slice overwritten in place, slices reordered and appended to, Property.SetArg / AddArg called with junk on every
              existing name and on new ones, Required=false among them - and the SAME text was parsed again into a fresh
              Property: that second parse is the case's observation.  2 = the first parse happened in another context
              (another field / property type / tag key / struct type / component name / registry; for app.Run cases:
              another App started earlier in the same process, whose post-processor rewrote the arguments).
              The model's parse is a function of the tag text alone, so both observations are compared with the same
              [model_of c]; the oracle demands that the second observation equals the first one and satisfies everything
              a single parse has to satisfy. *)
(* what the driver saw after it applied [cops] to the parsed Property through the exported API *)
Record aobs := mkAobs {
  aargs : argmap;           (* Args().ForEach order *)
  areq : bool;              (* IsRequired() *)
  aprobes : list probe;     (* Find / Has under the spelling of every operation and with the first letter flipped *)
  astr : bytes              (* Args().String(): the library's own rendering of the table *)
}.

(* [cops], [cafter] : THE EXPORTED ARGUMENT API (kinds 0-2).  After the parse was observed the driver called
              Property.SetArg / AddArg (or Args().Set / Add) with the names and values of [cops], in order - names in the
              spelling tags use ("qualifier"), in the canonical one ("Qualifier"), of arguments the tag declares and of
              ones it does not, unknown names, the empty name, non-ASCII first bytes - and then observed the table again:
              [cafter].  The model applies [apply_ops] (Model/TagGrammar.v) to the parsed table; the oracle recomputes
              the table from the OBSERVED parse with its own helpers (last write wins / append, canonical key). *)
Record case := mkCase {
  cid : nat;
  ckind : N;
  ctag : bytes;
  cpanic : bool;
  cnprops : nat;
  ctagval : bytes;
  ctagstr_same : bool;      (* TagStr == TagVal *)
  cargs : argmap;           (* Args().ForEach order *)
  creq : bool;              (* IsRequired() *)
  cprobes : list probe;
  cfailed : bool;           (* app.Run returned an error *)
  cfieldnil : bool;
  cfieldstr : bytes;
  cintent : option (bytes * list (bytes * list bytes));
  cagain : N;
  cfirst : option pobs;
  cops : list arg_op;
  cafter : option aobs;
  ccfg : bytes              (* kind 7: the configured value of the shorthand's key *)
}.

(* ---- decoding one serialised case ------------------------------------------------------------- *)

Definition P (A : Type) : Type := bytes -> option (A * bytes).

Definition p_bind {A C : Type} (p : P A) (f : A -> P C) : P C :=
  fun s => match p s with Some (a, r) => f a r | None => None end.
Definition p_ret {A : Type} (a : A) : P A := fun s => Some (a, s).

(* a number: one byte < 255, or 255 followed by two bytes (big endian) *)
Definition p_num : P nat := fun s =>
  match s with
  | 255%N :: hi :: lo :: r => Some (N.to_nat (hi * 256 + lo), r)
  | 255%N :: _ => None
  | a :: r => Some (N.to_nat a, r)
  | [] => None
  end.

Definition p_bool : P bool := p_bind p_num (fun n => p_ret (negb (Nat.eqb n 0))).

(* a byte string: its length, then the bytes *)
Definition p_bytes : P bytes :=
  p_bind p_num (fun n s => if Nat.leb n (length s) then Some (firstn n s, skipn n s) else None).

Fixpoint p_rep {A : Type} (p : P A) (n : nat) : P (list A) :=
  match n with
  | O => p_ret []
  | S k => p_bind p (fun x => p_bind (p_rep p k) (fun xs => p_ret (x :: xs)))
  end.

(* a list: its length, then the elements *)
Definition p_list {A : Type} (p : P A) : P (list A) := p_bind p_num (p_rep p).

Definition p_kv : P (bytes * list bytes) :=
  p_bind p_bytes (fun k => p_bind (p_list p_bytes) (fun v => p_ret (k, v))).

Definition p_probe : P probe :=
  p_bind p_bytes (fun name => p_bind (p_list p_bytes) (fun wants =>
  p_bind p_bool (fun fpanic => p_bind p_bool (fun found => p_bind (p_list p_bytes) (fun vals =>
  p_bind p_bool (fun hpanic => p_bind p_bool (fun hs => p_bind p_bool (fun hw =>
  p_ret (mkProbe name wants fpanic found vals hpanic hs hw))))))))).

Definition p_intent : P (option (bytes * list (bytes * list bytes))) :=
  p_bind p_bool (fun present =>
  if present then p_bind p_bytes (fun v => p_bind (p_list p_kv) (fun args => p_ret (Some (v, args))))
  else p_ret None).

Definition p_pobs : P pobs :=
  p_bind p_num (fun nprops => p_bind p_bytes (fun tagval => p_bind p_bool (fun same =>
  p_bind (p_list p_kv) (fun args => p_bind p_bool (fun req => p_bind (p_list p_probe) (fun probes =>
  p_ret (mkPobs nprops tagval same args req probes))))))).

Definition p_first : P (option pobs) :=
  p_bind p_bool (fun present => if present then p_bind p_pobs (fun f => p_ret (Some f)) else p_ret None).

Definition p_op : P arg_op :=
  p_bind p_num (fun k => p_bind p_bytes (fun name => p_bind (p_list p_bytes) (fun vals =>
  p_ret (if Nat.eqb k 0 then OpSet name vals else OpAdd name vals)))).

Definition p_after : P (option aobs) :=
  p_bind p_bool (fun present =>
  if present then
    p_bind (p_list p_kv) (fun args => p_bind p_bool (fun req => p_bind (p_list p_probe) (fun probes =>
    p_bind p_bytes (fun str => p_ret (Some (mkAobs args req probes str))))))
  else p_ret None).

Definition p_case (id : nat) : P case :=
  p_bind p_num (fun kind => p_bind p_bytes (fun tag => p_bind p_bool (fun panic =>
  p_bind p_num (fun nprops => p_bind p_bytes (fun tagval => p_bind p_bool (fun same =>
  p_bind (p_list p_kv) (fun args => p_bind p_bool (fun req => p_bind (p_list p_probe) (fun probes =>
  p_bind p_bool (fun failed => p_bind p_bool (fun fieldnil => p_bind p_bytes (fun fieldstr =>
  p_bind p_intent (fun intent => p_bind p_num (fun again => p_bind p_first (fun first =>
  p_bind (p_list p_op) (fun ops => p_bind p_after (fun after => p_bind p_bytes (fun cfg =>
  p_ret (mkCase id (N.of_nat kind) tag panic nprops tagval same args req probes failed fieldnil
                fieldstr intent (N.of_nat again) first ops after cfg))))))))))))))))))).

Definition decode_case (id : nat) (blob : list int) : option case :=
  match p_case id (B blob) with
  | Some (c, []) => Some c
  | _ => None
  end.

(* ---- canonical form of a map: sorted by key, bytewise (Go string <) --------------------------- *)

Fixpoint bytes_ltb (a b : bytes) : bool :=
  match a, b with
  | _, [] => false
  | [], _ :: _ => true
  | x :: a', y :: b' => if N.ltb x y then true else if N.ltb y x then false else bytes_ltb a' b'
  end.

Fixpoint ins_kv (kv : bytes * list bytes) (l : argmap) : argmap :=
  match l with
  | [] => [kv]
  | q :: r => if bytes_ltb (fst q) (fst kv) then q :: ins_kv kv r else kv :: q :: r
  end.
Definition sort_map (m : argmap) : argmap := fold_right ins_kv [] m.

Fixpoint lbytes_eqb (a b : list bytes) : bool :=
  match a, b with
  | [], [] => true
  | x :: a', y :: b' => bytes_eqb x y && lbytes_eqb a' b'
  | _, _ => false
  end.

Fixpoint map_eqb (a b : argmap) : bool :=
  match a, b with
  | [], [] => true
  | (k, v) :: a', (k', v') :: b' => bytes_eqb k k' && lbytes_eqb v v' && map_eqb a' b'
  | _, _ => false
  end.

Definition opt_lbytes_eqb (a : option (list bytes)) (found : bool) (vals : list bytes) : bool :=
  match a with
  | Some v => found && lbytes_eqb v vals
  | None => negb found && lbytes_eqb [] vals
  end.

(* ---- model vs implementation ----------------------------------------------------------------- *)

Definition check_probe (m : argmap) (p : probe) : bool :=
  match find m (pname p) with
  | Panic => pfpanic p
  | Ok r => negb (pfpanic p) && opt_lbytes_eqb r (pfound p) (pvals p)
  end &&
  match has m (pname p) [], has m (pname p) (pwants p) with
  | Ok h, Ok hw => negb (phpanic p) && Bool.eqb h (phas p) && Bool.eqb hw (phasw p)
  | _, _ => phpanic p
  end.

Definition model_of (c : case) : res (bytes * argmap) :=
  match ckind c with
  | 0%N => tag_parse (ctag c)
  | 2%N | 6%N | 7%N => scan_property true true (ctag c)
  | _ => scan_property false true (ctag c)
  end.

(* kinds 6 / 7: the value part the shorthand must produce for the key the generator wrote: ${key} *)
Definition shorthand_of_intent (c : case) (v : bytes) : bool :=
  match cintent c with
  | Some (key, _) => bytes_eqb v ([36; 123]%N ++ key ++ [125]%N)
  | None => false
  end.

Definition is_nil (b : bytes) : bool := match b with [] => true | _ => false end.

(* the observation of the case itself (with cagain > 0: of the parse AFTER the scribbling) *)
Definition obs_of_case (c : case) : pobs :=
  mkPobs (cnprops c) (ctagval c) (ctagstr_same c) (cargs c) (creq c) (cprobes c).

(* one parse against the model's (value, arguments, required) *)
Definition check_pobs (v : bytes) (m : argmap) (req : bool) (o : pobs) : bool :=
  Nat.eqb (fnprops o) 1 && bytes_eqb v (ftagval o) && ftagstr_same o
  && map_eqb (sort_map m) (fargs o) && Bool.eqb req (freq o)
  && forallb (check_probe m) (fprobes o).

(* the table after the API calls: the model's [apply_ops] on the parsed table against what the driver saw *)
Definition check_after (m : argmap) (c : case) : bool :=
  match cops c, cafter c with
  | [], None => true
  | _, None => false
  | ops, Some a =>
    match apply_ops m ops with
    | Panic => false                        (* the driver reported a table, so nothing panicked there *)
    | Ok m' =>
      match is_required m' with
      | Panic => false
      | Ok req =>
        map_eqb (sort_map m') (aargs a) && Bool.eqb req (areq a)
        && forallb (check_probe m') (aprobes a)
        && bytes_eqb (args_string (sort_map m')) (astr a)
      end
    end
  end.

Definition check_case (c : case) : bool :=
  match model_of c with
  | Panic => cpanic c
  | Ok (v, m) =>
    negb (cpanic c) &&
    match is_required m with
    | Panic => false
    | Ok req =>
      match ckind c with
      | 0%N | 1%N | 2%N =>
        check_pobs v m req (obs_of_case c)
        && match cfirst c with Some f => check_pobs v m req f | None => true end
        && check_after m c
      | 3%N => Bool.eqb (cfailed c) req && cfieldnil c
      | 4%N => negb (cfailed c) && negb (cfieldnil c)
      | 6%N => shorthand_of_intent c v && Bool.eqb (cfailed c) req && is_nil (cfieldstr c)
      | 7%N => shorthand_of_intent c v && negb (cfailed c) && bytes_eqb (cfieldstr c) (ccfg c)
      | _ => if is_nil v then Bool.eqb (cfailed c) req && is_nil (cfieldstr c)
             else negb (cfailed c) && bytes_eqb (cfieldstr c) v
      end
    end
  end.

(* ---- the property on the implementation's observation ------------------------------------------ *)

Definition o_upper_first (n : bytes) : bytes :=
  match n with
  | b :: r => (if N.leb 97 b && N.leb b 122 then (b - 32)%N else b) :: r
  | [] => []
  end.

Fixpoint o_lookup (m : argmap) (k : bytes) : option (list bytes) :=
  match m with
  | [] => None
  | (k', v) :: r => if bytes_eqb k' k then Some v else o_lookup r k
  end.

Fixpoint o_put (m : argmap) (k : bytes) (v : list bytes) : argmap :=
  match m with
  | [] => [(k, v)]
  | (k', v') :: r => if bytes_eqb k' k then (k, v) :: r else (k', v') :: o_put r k v
  end.

(* intended map: names with the first ASCII letter upper-cased, later duplicates override *)
Definition o_intended (args : list (bytes * list bytes)) : argmap :=
  fold_left (fun m a => o_put m (o_upper_first (fst a)) (snd a)) args [].

Definition o_required_key : bytes := [82; 101; 113; 117; 105; 114; 101; 100]%N.
Definition o_false : bytes := [102; 97; 108; 115; 101]%N.

(* "only an explicit required=false makes a point optional", on a map *)
Definition o_optional (m : argmap) : bool :=
  match o_lookup m o_required_key with
  | Some vals => existsb (bytes_eqb o_false) vals
  | None => false
  end.

(* the scan adds an empty Required argument when there is none *)
Definition o_with_default (m : argmap) : argmap :=
  match o_lookup m o_required_key with Some _ => m | None => o_put m o_required_key [] end.

Fixpoint strictly_sorted (m : argmap) : bool :=
  match m with
  | a :: ((b :: _) as r) => bytes_ltb (fst a) (fst b) && strictly_sorted r
  | _ => true
  end.

Definition first_is_ascii (n : bytes) : bool :=
  match n with b :: _ => N.ltb b 128 | [] => false end.

(* lookups ignore the case of the first (ASCII) letter: every probe answers like a lookup of the
   canonical key in the observed map; an empty name is an API misuse and is not judged *)
Definition oracle_probe (obs : argmap) (p : probe) : bool :=
  if first_is_ascii (pname p) then
    negb (pfpanic p) && negb (phpanic p)
    && opt_lbytes_eqb (o_lookup obs (o_upper_first (pname p))) (pfound p) (pvals p)
    && Bool.eqb (phas p) (pfound p)
    && Bool.eqb (phasw p)
         (pfound p && (match pwants p with [] => true | _ => false end
                       || existsb (fun x => existsb (bytes_eqb x) (pwants p)) (pvals p)))
  else true.

(* independence of parses: two observations of the same tag text are equal, whatever happened in between *)
Definition probe_eqb (a b : probe) : bool :=
  bytes_eqb (pname a) (pname b) && lbytes_eqb (pwants a) (pwants b)
  && Bool.eqb (pfpanic a) (pfpanic b) && Bool.eqb (pfound a) (pfound b) && lbytes_eqb (pvals a) (pvals b)
  && Bool.eqb (phpanic a) (phpanic b) && Bool.eqb (phas a) (phas b) && Bool.eqb (phasw a) (phasw b).

Fixpoint probes_eqb (a b : list probe) : bool :=
  match a, b with
  | [], [] => true
  | x :: a', y :: b' => probe_eqb x y && probes_eqb a' b'
  | _, _ => false
  end.

Definition pobs_eqb (a b : pobs) : bool :=
  Nat.eqb (fnprops a) (fnprops b) && bytes_eqb (ftagval a) (ftagval b)
  && Bool.eqb (ftagstr_same a) (ftagstr_same b) && map_eqb (fargs a) (fargs b)
  && Bool.eqb (freq a) (freq b) && probes_eqb (fprobes a) (fprobes b).

Definition independent (c : case) : bool :=
  match cagain c, cfirst c with
  | 0%N, None => true
  | 0%N, Some _ => false
  | _, Some f => pobs_eqb f (obs_of_case c)
  | _, None => false                      (* a repeated parse always reports its first observation *)
  end.

(* the argument API on the implementation's own observations: starting from the OBSERVED parse, every Set binds the
   canonical name to the values given, every Add appends them to what the name was bound to (nothing if absent), the
   empty name is ignored; the table observed afterwards is that table, it is sorted, IsRequired and every probe
   (either spelling) answer from it, and the library's rendering lists exactly its entries.  Operations whose name
   starts with a non-ASCII byte are compared with the model only (their canonical key is strings.ToUpper's business). *)
Definition op_name (o : arg_op) : bytes := match o with OpSet t _ | OpAdd t _ => t end.

Definition o_apply_op (m : argmap) (o : arg_op) : argmap :=
  match o with
  | OpSet [] _ | OpAdd [] _ => m
  | OpSet t v => o_put m (o_upper_first t) v
  | OpAdd t v => o_put m (o_upper_first t)
                   (match o_lookup m (o_upper_first t) with Some old => old ++ v | None => v end)
  end.

Fixpoint o_join_comma (l : list bytes) : bytes :=
  match l with
  | [] => []
  | [x] => x
  | x :: r => x ++ 44%N :: o_join_comma r
  end.

Definition o_render (m : argmap) : bytes :=
  flat_map (fun kv : bytes * list bytes => 46%N :: fst kv ++ 40%N :: o_join_comma (snd kv) ++ [41%N]) m.

Definition oracle_after (c : case) : bool :=
  match cops c, cafter c with
  | [], None => true
  | [], Some _ => false
  | _, None => false
  | ops, Some a =>
    strictly_sorted (aargs a)
    && Bool.eqb (areq a) (negb (o_optional (aargs a)))
    && forallb (oracle_probe (aargs a)) (aprobes a)
    && bytes_eqb (o_render (aargs a)) (astr a)
    && (if forallb (fun o => is_nil (op_name o) || first_is_ascii (op_name o)) ops
        then map_eqb (sort_map (fold_left o_apply_op ops (cargs c))) (aargs a)
        else true)
  end.

Definition oracle_case (c : case) : bool :=
  negb (cpanic c) &&
  match ckind c with
  | 0%N | 1%N | 2%N =>
    independent c && oracle_after c &&
    Nat.eqb (cnprops c) 1 && ctagstr_same c && strictly_sorted (cargs c)
    && Bool.eqb (creq c) (negb (o_optional (cargs c)))
    && forallb (oracle_probe (cargs c)) (cprobes c)
    && match cintent c with
       | None => true
       | Some (v, args) =>
         let want := o_intended args in
         let want := if N.eqb (ckind c) 0 then want else o_with_default want in
         bytes_eqb (ctagval c) (if N.eqb (ckind c) 2 then [36; 123]%N ++ v ++ [125]%N else v)
         && map_eqb (sort_map want) (cargs c)
       end
  | k =>
    match cintent c with
    | None => false                      (* every app.Run case is structured *)
    | Some (v, args) =>
      let optional := o_optional (o_intended args) in
      match k with
      | 3%N => Bool.eqb (cfailed c) (negb optional) && cfieldnil c
      | 4%N => negb (cfailed c) && negb (cfieldnil c)
      (* the prop shorthand: whatever else the tag carries, in whatever order, an absent key fails the start exactly
         when the point is not optional, and a present key is bound *)
      | 6%N => Bool.eqb (cfailed c) (negb optional) && is_nil (cfieldstr c)
      | 7%N => negb (cfailed c) && bytes_eqb (cfieldstr c) (ccfg c)
      | _ => if is_nil v then Bool.eqb (cfailed c) (negb optional) && is_nil (cfieldstr c)
             else negb (cfailed c) && bytes_eqb (cfieldstr c) v
      end
    end
  end.

(* non-trivial: the tag contains a "," (the block-aware splitter and the argument loop both run), or the argument
   API was exercised on the parsed Property *)
Definition nontrivial (c : case) : bool :=
  existsb (N.eqb 44) (ctag c) || match cops c with [] => false | _ => true end.

Definition mismatches (cs : list case) : list nat :=
  map cid (filter (fun c => negb (check_case c)) cs).
Definition violations (cs : list case) : list nat :=
  map cid (filter (fun c => negb (oracle_case c)) cs).
Definition nontrivial_ids (cs : list case) : list nat :=
  map cid (filter nontrivial cs).
Definition count_nontrivial (cs : list case) : list nat :=
  [length (filter nontrivial cs)].
(* one pass over the cases for the driver *)
Definition summary (cs : list case) : list nat * list nat * list nat :=
  (mismatches cs, violations cs, nontrivial_ids cs).

(* the same for serialised cases: ids are positions in the list; an undecodable case fails both ways *)
Fixpoint decode_all (id : nat) (blobs : list (list int)) : list case * list nat :=
  match blobs with
  | [] => ([], [])
  | b :: r =>
    let (cs, bad) := decode_all (S id) r in
    match decode_case id b with
    | Some c => (c :: cs, bad)
    | None => (cs, id :: bad)
    end
  end.

(* ids are returned in binary: reading a few thousand unary nats back from the VM dominates the run time *)
Definition summary_blobs (blobs : list (list int)) : list N * list N * list N :=
  let (cs, bad) := decode_all 0 blobs in
  (map N.of_nat (bad ++ mismatches cs), map N.of_nat (bad ++ violations cs),
   map N.of_nat (nontrivial_ids cs)).
