(* Registration half of C10: one component set in which several components may announce ONE name, started through the
   real App under several registration orders.  Per run: the registrations in the order of that run, the outcome class
   (0 ok | 1 err | 2 panic | 3 refused at registration | 4 other) and a digest (an id the emitter gives to the
   order-insensitive projection of what the start left behind: every point's value with slices as sets, every lookup;
   0 unless the start succeeded). *)
From Coq Require Import List Arith Bool.
From IocVerif Require Import Model.SingletonRegistry.
Import ListNotations.

Record drun := mkDR { dr_reqs : list reg_req; dr_outcome : nat; dr_digest : nat }.
Record dcase := mkD { d_id : nat; d_runs : list drun }.

(* model vs implementation: the start is refused exactly when the model's registration loop panics *)
Definition dcheck (c : dcase) : bool :=
  forallb (fun r => Bool.eqb (refused (dr_reqs r)) (Nat.eqb (dr_outcome r) 3)) (d_runs c).

(* the property on the observations alone: all orders end alike; and a set with two different instances under one
   name (decided on the requests, not by the model's loop) is refused in every order *)
Definition doracle (c : dcase) : bool :=
  match d_runs c with
  | [] => true
  | r0 :: rs => forallb (fun r => Nat.eqb (dr_outcome r) (dr_outcome r0) && Nat.eqb (dr_digest r) (dr_digest r0)) rs
  end
  && forallb (fun r => negb (has_clash (dr_reqs r)) || Nat.eqb (dr_outcome r) 3) (d_runs c).

(* non-trivial: the set has a clash and two runs registered the clashing instances in different orders
   (approximated by: two runs whose instance orders differ) *)
Definition inst_order (r : drun) : list nat := map rq_inst (dr_reqs r).
Fixpoint nat_list_eqb (a b : list nat) : bool :=
  match a, b with
  | [], [] => true
  | x :: a', y :: b' => Nat.eqb x y && nat_list_eqb a' b'
  | _, _ => false
  end.
Definition dnontrivial (c : dcase) : bool :=
  match d_runs c with
  | [] => false
  | r0 :: rs => has_clash (dr_reqs r0) && existsb (fun r => negb (nat_list_eqb (inst_order r) (inst_order r0))) rs
  end.

Definition dmismatches (cs : list dcase) : list nat := map d_id (filter (fun c => negb (dcheck c)) cs).
Definition dviolations (cs : list dcase) : list nat := map d_id (filter (fun c => negb (doracle c)) cs).
Definition dcount_nontrivial (cs : list dcase) : list nat := [length (filter dnontrivial cs)].
