(* Correspondence and oracle for C04, evaluated by vm_compute on cases written by the harness.

   A case is a registry history that was EXECUTED on the real code, with what every call returned:
   - kind 0: a generated op script driven directly against support.DefaultSingletonComponentRegistry()
     (creations nested through real callbacks);
   - kind 1: the registry calls of a real app.Run and of later Factory.GetComponentByName lookups
     (recorded by a tracing wrapper around the factory's registry), plus the lookups' results.

   check_case: [rrun repaired rinit] on the history gives, step by step, the outputs observed
   (returned token / nil / error, IsSingletonCurrentlyInCreation, early factories invoked, the value
   GetSingletonOrCreateByFactory finally returned).  For kind 1 also: the history the real factory
   issued is in the strict protocol language (the hypothesis of the theorems).
   oracle_case: the three parts of C04 as the boolean oracles of Model/RegistryProto.v — the very
   functions the theorems of Properties/C04.v are about — evaluated on the IMPLEMENTATION's trace, and
   for kind 1 the black-box rule on lookups (an error, or the component itself fully initialised). *)
From Coq Require Import List Arith Bool NArith.
From IocVerif Require Import Model.Registry Model.RegistryProto.
Import ListNotations.

(* what the implementation returned for one op *)
Inductive iobs : Type :=
| IUnit
| IVal (v : option ver) (inv : list nat)     (* GetSingleton / an OBegin: value (None = nil), factories invoked *)
| IErr (inv : list nat)                      (* GetSingleton returned an error *)
| IBool (b : bool)
| IRet (v : option ver) (err : bool).        (* what GetSingletonOrCreateByFactory returned after its callback *)

(* a Factory.GetComponentByName after the start *)
Record lookup : Type := mkLk {
  lk_err : bool;      (* returned an error *)
  lk_same : bool;     (* returned the component registered under that name *)
  lk_built : bool     (* its Init has succeeded, its injection points are filled *)
}.

Record case : Type := mkCase {
  cid : N;            (* binary: ids run into the hundreds of thousands *)
  ckind : nat;
  cops : list rop;
  cobs : list iobs;
  clks : list lookup
}.

(* cases are written with their events paired (op, what the implementation returned) so that the cases file can
   name each distinct event once *)
Definition mkCaseE (id : N) (kind : nat) (evs : list (rop * iobs)) (lks : list lookup) : case :=
  mkCase id kind (map fst evs) (map snd evs) lks.

Fixpoint list_nat_eqb (a b : list nat) : bool :=
  match a, b with
  | [], [] => true
  | x :: a', y :: b' => Nat.eqb x y && list_nat_eqb a' b'
  | _, _ => false
  end.

Definition inv_list (i : option nat) : list nat := match i with Some f => [f] | None => [] end.

(* the return of GetSingletonOrCreateByFactory agrees with how its callback ended *)
Definition ret_ok (o : rop) (i : iobs) : bool :=
  match o, i with
  | OEndOk _ v, IRet r e => optver_eqb r (Some v) && negb e
  | OEndErr _, IRet r e => optver_eqb r None && e
  | (OEndOk _ _ | OEndErr _), _ => false
  | _, IRet _ _ => false
  | _, _ => true
  end.

Definition check_step (o : rop) (m : rout) (i : iobs) : bool :=
  match m, i with
  | RUnit, IUnit => match o with OEndOk _ _ | OEndErr _ => false | _ => true end
  | RUnit, IRet _ _ => ret_ok o i
  | RVal v inv, IVal w l => optver_eqb v w && list_nat_eqb (inv_list inv) l
  | RErr f, IErr l => list_nat_eqb [f] l
  | RBool b, IBool c => Bool.eqb b c
  | _, _ => false
  end.

Fixpoint check_steps (ops : list rop) (ms : list rout) (obs : list iobs) : bool :=
  match ops, ms, obs with
  | [], [], [] => true
  | o :: ops', m :: ms', i :: obs' => check_step o m i && check_steps ops' ms' obs'
  | _, _, _ => false
  end.

(* the implementation's observation as a trace entry; None if it is not an output the machine has *)
Definition to_rout (i : iobs) : option rout :=
  match i with
  | IUnit | IRet _ _ => Some RUnit
  | IVal v [] => Some (RVal v None)
  | IVal v [f] => Some (RVal v (Some f))
  | IErr [f] => Some (RErr f)
  | IBool b => Some (RBool b)
  | _ => None
  end.

Fixpoint impl_trace (ops : list rop) (obs : list iobs) : option rtrace :=
  match ops, obs with
  | [], [] => Some []
  | o :: ops', i :: obs' =>
    match to_rout i, impl_trace ops' obs' with
    | Some r, Some t => Some ((o, r) :: t)
    | _, _ => None
    end
  | _, _ => None
  end.

Fixpoint rets_ok (ops : list rop) (obs : list iobs) : bool :=
  match ops, obs with
  | o :: ops', i :: obs' => ret_ok o i && rets_ok ops' obs'
  | _, _ => true
  end.

Definition check_case (c : case) : bool :=
  check_steps (cops c) (snd (rrun repaired rinit (cops c))) (cobs c)
  && (if Nat.eqb (ckind c) 1 then conforms_strict (cops c) else true).

Definition lookup_ok (l : lookup) : bool := lk_err l || (lk_same l && lk_built l).

(* C04 on the implementation's own trace *)
Definition oracle_trace (tr : rtrace) : bool :=
  clean_failure_b tr
  && (if protocol tr then one_early_ref_b tr && published_final_b tr && early_ref_fresh_b tr else true)
  && (if protocol_strict tr then single_invocation_b tr else true).

Definition oracle_case (c : case) : bool :=
  match impl_trace (cops c) (cobs c) with
  | None => false
  | Some tr => rets_ok (cops c) (cobs c) && oracle_trace tr
  end
  && forallb lookup_ok (clks c).

(* non-trivial: the history contains a creation nested in another one, or a failing creation *)
Fixpoint has_nested (d : nat) (tr : rtrace) : bool :=
  match tr with
  | [] => false
  | (OBegin _, out) :: r => if began out then (Nat.leb 1 d || has_nested (S d) r) else has_nested d r
  | (OEndOk _ _, _) :: r | (OEndErr _, _) :: r => has_nested (pred d) r
  | _ :: r => has_nested d r
  end.

Definition has_failure (ops : list rop) : bool :=
  existsb (fun o => match o with OEndErr _ => true | _ => false end) ops.

Definition nontrivial (c : case) : bool :=
  has_failure (cops c) || has_nested 0 (trace repaired (cops c)).

Definition mismatches (cs : list case) : list N :=
  map cid (filter (fun c => negb (check_case c)) cs).
Definition violations (cs : list case) : list N :=
  map cid (filter (fun c => negb (oracle_case c)) cs).
Definition count_nontrivial (cs : list case) : list nat :=
  [length (filter nontrivial cs)].
(* how many histories are in the protocol language / the strict one (input distribution) *)
Definition count_conforming (cs : list case) : list nat :=
  [length (filter (fun c => conforms (cops c)) cs); length (filter (fun c => conforms_strict (cops c)) cs)].
