module verifharness

go 1.20

require (
	github.com/go-kid/ioc v0.0.0
	github.com/pkg/errors v0.9.1
)

require (
	github.com/expr-lang/expr v1.16.9 // indirect
	github.com/fsnotify/fsnotify v1.7.0 // indirect
	github.com/gabriel-vasile/mimetype v1.4.3 // indirect
	github.com/go-kid/properties v0.0.6 // indirect
	github.com/go-kid/strconv2 v0.0.2 // indirect
	github.com/go-kid/strings2 v0.0.1 // indirect
	github.com/go-playground/locales v0.14.1 // indirect
	github.com/go-playground/universal-translator v0.18.1 // indirect
	github.com/go-playground/validator/v10 v10.22.0 // indirect
	github.com/hashicorp/hcl v1.0.0 // indirect
	github.com/leodido/go-urn v1.4.0 // indirect
	github.com/magiconair/properties v1.8.7 // indirect
	github.com/mitchellh/mapstructure v1.5.0 // indirect
	github.com/pelletier/go-toml/v2 v2.2.2 // indirect
	github.com/sagikazarmark/slog-shim v0.1.0 // indirect
	github.com/samber/lo v1.46.0 // indirect
	github.com/spf13/afero v1.11.0 // indirect
	github.com/spf13/cast v1.6.0 // indirect
	github.com/spf13/pflag v1.0.5 // indirect
	github.com/spf13/viper v1.19.0 // indirect
	github.com/subosito/gotenv v1.6.0 // indirect
	golang.org/x/crypto v0.21.0 // indirect
	golang.org/x/net v0.23.0 // indirect
	golang.org/x/sys v0.18.0 // indirect
	golang.org/x/text v0.16.0 // indirect
	gopkg.in/ini.v1 v1.67.0 // indirect
	gopkg.in/yaml.v3 v3.0.1 // indirect
)

replace github.com/go-kid/ioc => /repo
