// Package wx is the runtime of the generated wiring scenarios: per-scenario state (event log,
// identity tokens, proxy bookkeeping), the behaviour of generated components and post-processors,
// observation of the container's result by reflection, and the child-process worker loop.
package wx

import (
	"bufio"
	"encoding/json"
	"errors"
	"flag"
	"fmt"
	"os"
	"reflect"
	"sort"
	"strings"
	"time"
	"unsafe"

	"github.com/go-kid/ioc/app"
	"github.com/go-kid/ioc/component_definition"
	"github.com/go-kid/ioc/configure"
	"github.com/go-kid/ioc/configure/loader"
	"github.com/go-kid/ioc/container"
	"github.com/go-kid/ioc/container/factory"
	"github.com/go-kid/ioc/container/support"
	"github.com/go-kid/ioc/definition"
	"github.com/go-kid/ioc/syslog"
	pkgerrors "github.com/pkg/errors"
	"verifharness/hx"
)

// ---- scenario description (JSON from the Python generator) ---------------------------------------

type ProcCfg struct {
	Early  map[string]int `json:"early"`  // component rank -> 0 none | 1 fresh proxy
	After  map[string]int `json:"after"`  // component rank -> 0 none | 1 fresh | 2 early-if-any | 3 early-else-fresh
	Faults [][2]int       `json:"faults"` // (phase 0 before|1 after|2 early, component rank)
	Short  []int          `json:"short"`  // component ranks for which PostProcessBeforeInstantiation returns the component itself
}

type CompCfg struct {
	Ctor     string            `json:"ctor"`
	Rank     int               `json:"rank"`
	Name     string            `json:"name"`
	Qual     string            `json:"qual"`
	APSFail  bool              `json:"apsFail"`
	InitFail bool              `json:"initFail"`
	RunFail  bool              `json:"runFail"`
	CloseErr bool              `json:"closeErr"`
	Ord      int               `json:"ord"`
	Rets     map[string]string `json:"rets"`
	Proc     *ProcCfg          `json:"proc"`
	InitGet  []string          `json:"initGet"` // names this component's Init asks the container for (GetComponentByName), in order
}

type ScnCfg struct {
	ID         int            `json:"id"`
	Comps      []CompCfg      `json:"comps"`
	RegOrder   []int          `json:"regorder"`
	Names      map[string]int `json:"names"` // every registered name -> rank
	Config     string         `json:"config"`
	LoaderFail bool           `json:"loaderFail"`
	Lookups    []string       `json:"lookups"` // names to look up after the start, in this order
	Dup        []int          `json:"dup"`     // indexes of comps registered a second time (same instance)
	Trace      bool           `json:"trace"`   // record the calls the factory makes on its singleton registry
	Twice      bool           `json:"twice"`   // start a second App on the SAME component instances; both starts must look alike
	// before the scenario, ANOTHER App is started in this process over instances of its own (same types, hence the same tag
	// texts) plus an application-defined post-processor that rewrites the tag arguments of every property it is shown;
	// nothing of it is observed and nothing of it may reach the scenario
	Foreign bool `json:"foreign"`
	// after the start and before the lookups, ANOTHER App is started in this process over fresh instances of every other
	// component of the scenario (so with a different set of names); the lookups - which create the lazy components of the
	// scenario's App - come after it and must not see anything of it
	Later bool `json:"later"`
	// after the lookups, Factory.GetComponents() is called without options: every component, in name order, through
	// the same doGetComponent as a lookup by name (the lazy ones are created by it)
	Bulk bool `json:"bulk"`
	// with Twice: the second start is a RESTART of the same *app.App value (Run again with a fresh registry, factory and
	// configure) instead of a new App over the same instances
	SameApp bool `json:"sameapp"`
	// "<component type>/<field>" -> the qualifier set of an injection point whose tag does not carry it: every user
	// post-processor of the scenario adds it through the exported argument API when it is shown the property
	QualAPI map[string][]string `json:"qualapi"`
}

type Event struct {
	K    string `json:"k"` // early|before|aps|init|after|run|close
	P    int    `json:"p"` // processor rank (-1 if none)
	C    int    `json:"c"` // component rank
	Snap []bool `json:"snap,omitempty"`
}

type Token struct {
	O int `json:"o"` // owner rank; -1 = nil, -2 = unknown object
	P int `json:"p"` // proxy id, -1 for the original instance
}

type Scn struct {
	Cfg       *ScnCfg
	Log       []Event
	Origs     map[OKey]int
	Proxies   map[uintptr][2]int
	NextP     int
	EarlyMade map[[2]int]any
	Instances []any
	App       *app.App
}

// OKey identifies an original instance: all zero-size objects share one address, so the dynamic type is part of the key.
type OKey struct {
	P uintptr
	T reflect.Type
}

func okey(v reflect.Value) OKey { return OKey{v.Pointer(), v.Type()} }

type Base struct {
	C   *CompCfg
	S   *Scn
	Got []any // what Init obtained from the container, in order
}

func (b *Base) log(k string, p int) {
	b.S.Log = append(b.S.Log, Event{K: k, P: p, C: b.C.Rank})
}

func (b *Base) DoInit() error {
	b.log("init", -1)
	if b.C.InitFail {
		return mkErr(b.C.Rank, "init failed")
	}
	for _, name := range b.C.InitGet {
		c, err := b.S.App.GetComponentByName(name)
		if err != nil {
			return err
		}
		b.Got = append(b.Got, c)
	}
	return nil
}
func (b *Base) DoAPS() error {
	b.log("aps", -1)
	if b.C.APSFail {
		return mkErr(b.C.Rank+1, "aps failed")
	}
	return nil
}
func (b *Base) DoRun() error {
	b.log("run", -1)
	if b.C.RunFail {
		return mkErr(b.C.Rank+2, "run failed")
	}
	return nil
}
func (b *Base) DoClose() error {
	b.log("close", -1)
	if b.C.CloseErr {
		return errors.New("close failed")
	}
	return nil
}
func (b *Base) Ret(m string) string { return b.C.Rets[m] }

// Current is the scenario the worker is running; components whose type cannot hold a wx.Base (a named int, slice,
// channel ...) report their Run / Close calls through it.
var Current *Scn

// GlobalEvent logs a runner / closer call of a component that is identified by its address and type only.
func GlobalEvent(kind string, self any) error {
	s := Current
	if s == nil {
		return nil
	}
	r, ok := s.Origs[okey(reflect.ValueOf(self))]
	if !ok {
		return nil
	}
	s.Log = append(s.Log, Event{K: kind, P: -1, C: r})
	for i := range s.Cfg.Comps {
		c := &s.Cfg.Comps[i]
		if c.Rank != r {
			continue
		}
		if kind == "run" && c.RunFail {
			return mkErr(r+2, "run failed")
		}
		if kind == "close" && c.CloseErr {
			return errors.New("close failed")
		}
	}
	return nil
}

// failure values of the generated callbacks: a plain error, one wrapped by pkg/errors, and one that follows the
// pkg/errors Cause() convention without having an underlying error (Cause() == nil) - a failure is a failure whatever
// its error value looks like
type causeNilErr struct{ msg string }

func (e causeNilErr) Error() string { return e.msg }
func (e causeNilErr) Cause() error  { return nil }

func mkErr(salt int, msg string) error {
	switch ((salt % 3) + 3) % 3 {
	case 1:
		return pkgerrors.Wrap(errors.New(msg), "wrapped")
	case 2:
		return causeNilErr{msg}
	}
	return errors.New(msg)
}

// NameMix gives a function-local type (which cannot declare methods) its component name through a promoted method.
type NameMix struct{ N string }

func (n *NameMix) Naming() string { return n.N }

// Based is implemented by every generated component and proxy.
type Based interface{ WxBase() *Base }

// Proxier creates a fresh proxy object for a generated component.
type Proxier interface{ WxProxy(pid int) any }

// ---- post-processor behaviour (embedded into generated processor components) ------------------------

type ProcCore struct{ pb *Base }

func (p *ProcCore) Bind(b *Base) { p.pb = b }

func (p *ProcCore) rank(name string) (int, bool) {
	r, ok := p.pb.S.Cfg.Names[name]
	return r, ok
}

func (p *ProcCore) faulty(phase, c int) bool {
	if p.pb.C.Proc == nil {
		return false
	}
	for _, f := range p.pb.C.Proc.Faults {
		if f[0] == phase && f[1] == c {
			return true
		}
	}
	return false
}

func (p *ProcCore) newProxy(c any, rank int) any {
	px, ok := c.(Proxier)
	if !ok {
		return c
	}
	s := p.pb.S
	pid := s.NextP
	s.NextP++
	obj := px.WxProxy(pid)
	s.Proxies[reflect.ValueOf(obj).Pointer()] = [2]int{rank, pid}
	return obj
}

func (p *ProcCore) PostProcessBeforeInitialization(c any, name string) (any, error) {
	r, ok := p.rank(name)
	if !ok {
		return c, nil
	}
	s := p.pb.S
	s.Log = append(s.Log, Event{K: "before", P: p.pb.C.Rank, C: r, Snap: Snapshot(c)})
	if p.faulty(0, r) {
		// a failing callback hands back nothing, or (every other rank) the component together with the error: failed all the same
		if r%2 == 1 {
			return c, mkErr(r, "before failed")
		}
		return nil, mkErr(r, "before failed")
	}
	return c, nil
}

func (p *ProcCore) PostProcessAfterInitialization(c any, name string) (any, error) {
	r, ok := p.rank(name)
	if !ok {
		return c, nil
	}
	s := p.pb.S
	s.Log = append(s.Log, Event{K: "after", P: p.pb.C.Rank, C: r})
	if p.faulty(1, r) {
		if r%2 == 1 {
			return c, mkErr(r+1, "after failed")
		}
		return nil, mkErr(r+1, "after failed")
	}
	mode := 0
	if p.pb.C.Proc != nil {
		mode = p.pb.C.Proc.After[fmt.Sprint(r)]
	}
	made, has := s.EarlyMade[[2]int{p.pb.C.Rank, r}]
	switch mode {
	case 1:
		return p.newProxy(c, r), nil
	case 2:
		if has {
			return made, nil
		}
	case 3:
		if has {
			return made, nil
		}
		return p.newProxy(c, r), nil
	}
	return c, nil
}

func (p *ProcCore) PostProcessBeforeInstantiation(m *component_definition.Meta, name string) (any, error) {
	if r, ok := p.rank(name); ok && p.pb.C.Proc != nil {
		for _, sr := range p.pb.C.Proc.Short {
			if sr == r {
				return m.Raw, nil // short-circuit: the container takes the instance as it is
			}
		}
	}
	return nil, nil
}

// PostProcessAfterInstantiation: true ("show me the properties") only in scenarios in which this processor has
// something to do with them
func (p *ProcCore) PostProcessAfterInstantiation(c any, name string) (bool, error) {
	return p.pb != nil && p.pb.S != nil && len(p.pb.S.Cfg.QualAPI) > 0, nil
}
func (p *ProcCore) PostProcessProperties(ps []*component_definition.Property, c any, name string) ([]*component_definition.Property, error) {
	if p.pb == nil || p.pb.S == nil || len(p.pb.S.Cfg.QualAPI) == 0 {
		return nil, nil
	}
	t := reflect.TypeOf(unwrapProxy(c))
	for t != nil && t.Kind() == reflect.Ptr {
		t = t.Elem()
	}
	if t == nil {
		return nil, nil
	}
	for _, prop := range ps {
		if prop.PropertyType != component_definition.PropertyTypeComponent {
			continue
		}
		if quals, ok := p.pb.S.Cfg.QualAPI[t.Name()+"/"+prop.StructField.Name]; ok {
			// the spelling tags use; the built-in further-matching processor reads it as ArgQualifier
			prop.AddArg("qualifier", quals...)
		}
	}
	return nil, nil
}

func (p *ProcCore) GetEarlyBeanReference(c any, name string) (any, error) {
	r, ok := p.rank(name)
	if !ok {
		return c, nil
	}
	s := p.pb.S
	s.Log = append(s.Log, Event{K: "early", P: p.pb.C.Rank, C: r})
	if p.faulty(2, r) {
		return nil, mkErr(r+2, "early failed")
	}
	if p.pb.C.Proc != nil && p.pb.C.Proc.Early[fmt.Sprint(r)] == 1 {
		obj := p.newProxy(c, r)
		s.EarlyMade[[2]int{p.pb.C.Rank, r}] = obj
		return obj, nil
	}
	return c, nil
}

// ordering classes for processors / runners
type OrdM struct{ ob *Base }

func (o *OrdM) BindOrd(b *Base) { o.ob = b }
func (o *OrdM) Order() int      { return o.ob.C.Ord }

type PrioM struct{}

func (*PrioM) Priority() {}

// FactoryAware / RegistryAware: an ordinary component that ALSO is a factory post-processor or a definition-registry
// post-processor ("factory aware" idiom), doing nothing in that role.  It is created, populated and initialised like
// every other component; the model does not know the difference.
type FactoryAware struct{}

// In that role it only LOOKS: it lists the definitions known so far and asks for one that does not exist.
func (*FactoryAware) PostProcessComponentFactory(f container.Factory) error {
	if r := f.GetDefinitionRegistry(); r != nil {
		_ = r.GetMetas()
		_ = r.GetMetaByName("no such component")
	}
	return nil
}

type RegistryAware struct{}

func (*RegistryAware) PostProcessDefinitionRegistry(r container.DefinitionRegistry, _ any, name string) error {
	_ = r.GetMetaByName(name)
	_ = r.GetMetas()
	return nil
}

// ---- observation ------------------------------------------------------------------------------------

// pointFields: the component-property fields of a struct in the model's point order:
// all wire-tagged fields in declaration order, then all func-tagged ones.
func pointFields(v reflect.Value) []reflect.Value {
	for v.Kind() == reflect.Ptr || v.Kind() == reflect.Interface {
		if v.IsNil() {
			return nil
		}
		v = v.Elem()
	}
	if v.Kind() != reflect.Struct {
		return nil
	}
	var wire, fn []reflect.Value
	var walk func(v reflect.Value)
	walk = func(v reflect.Value) {
		t := v.Type()
		for i := 0; i < t.NumField(); i++ {
			f := t.Field(i)
			if f.Anonymous && f.Type.Kind() == reflect.Struct && f.Tag == "" {
				walk(v.Field(i)) // an embedded struct (of an exported or unexported type) is looked through
				continue
			}
			if !f.IsExported() {
				continue
			}
			if _, ok := f.Tag.Lookup(definition.InjectTag); ok {
				wire = append(wire, v.Field(i))
			} else if _, ok := f.Tag.Lookup(definition.FuncTag); ok {
				fn = append(fn, v.Field(i))
			}
		}
	}
	walk(v)
	return append(wire, fn...)
}

func unwrapProxy(c any) any {
	if u, ok := c.(interface{ WxTarget() any }); ok {
		return u.WxTarget()
	}
	return c
}

// Snapshot reports, per injection point, whether the field is set.
func Snapshot(c any) []bool {
	res := []bool{}
	for _, f := range pointFields(reflect.ValueOf(unwrapProxy(c))) {
		switch f.Kind() {
		case reflect.Slice:
			res = append(res, f.Len() > 0)
		case reflect.Ptr, reflect.Interface:
			res = append(res, !f.IsNil())
		default:
			res = append(res, false) // not an injectable kind: never set by the container
		}
	}
	return res
}

func (s *Scn) token(v reflect.Value) Token {
	for v.Kind() == reflect.Interface {
		if v.IsNil() {
			return Token{-1, -1}
		}
		v = v.Elem()
	}
	if v.Kind() != reflect.Ptr {
		if !v.IsValid() || v.IsZero() {
			return Token{-1, -1}
		}
		return Token{-2, -1}
	}
	if v.IsNil() {
		return Token{-1, -1}
	}
	a := v.Pointer()
	if r, ok := s.Origs[okey(v)]; ok {
		return Token{r, -1}
	}
	if p, ok := s.Proxies[a]; ok {
		return Token{p[0], p[1]}
	}
	return Token{-2, -1}
}

type FieldObs struct {
	H int     `json:"h"`
	K int     `json:"k"`
	V []Token `json:"v"`
}

func (s *Scn) observeFields(objs map[int]any) []FieldObs {
	var res []FieldObs
	ranks := make([]int, 0, len(objs))
	for r := range objs {
		ranks = append(ranks, r)
	}
	sort.Ints(ranks)
	for _, r := range ranks {
		for k, f := range pointFields(reflect.ValueOf(objs[r])) {
			fo := FieldObs{H: r, K: k, V: []Token{}}
			if f.Kind() == reflect.Slice {
				for i := 0; i < f.Len(); i++ {
					fo.V = append(fo.V, s.token(f.Index(i)))
				}
			} else {
				t := s.token(f)
				if t.O != -1 {
					fo.V = append(fo.V, t)
				}
			}
			res = append(res, fo)
		}
		// what the component's Init looked up: pseudo-fields 100, 101, ...
		if bd, ok := objs[r].(Based); ok {
			b := bd.WxBase()
			for j := range b.C.InitGet {
				fo := FieldObs{H: r, K: 100 + j, V: []Token{}}
				if j < len(b.Got) {
					fo.V = append(fo.V, s.token(reflect.ValueOf(b.Got[j])))
				}
				res = append(res, fo)
			}
		}
	}
	return res
}

type LookupObs struct {
	Name string `json:"name"`
	Tok  Token  `json:"tok"`
	Err  bool   `json:"err"`
	Pan  string `json:"panic"`
}

type Result struct {
	ID       int         `json:"id"`
	Outcome  string      `json:"outcome"` // ok | err | panic | regpanic | hang | crash
	ErrText  string      `json:"errtext"`
	Log      []Event     `json:"log"`
	LogAfter []Event     `json:"logafter"` // events caused by the lookups
	Fields   []FieldObs  `json:"fields"`
	Lookups  []LookupObs `json:"lookups"`
	CloseLog []Event     `json:"closelog"`
	RegNames []string    `json:"regnames"`        // GetComponentName of each generated component, by comps index
	Traced   bool        `json:"traced"`          // the registry tracer could be installed
	Trace    []TrEv      `json:"trace"`           // registry calls during Run
	TraceAft []TrEv      `json:"traceaft"`        // registry calls during the lookups
	First    *Result     `json:"first,omitempty"` // the first start, when a second start on the same instances differed from it
	Bulk     []LookupObs `json:"bulk"`            // GetComponents(): one token per component, or a single err / panic entry
	BulkDone bool        `json:"bulkdone"`
}

// ---- registry tracer -------------------------------------------------------------------------------------

// TrEv is one call on the factory's singleton registry (IsSingletonCurrentlyInCreation is not recorded).
type TrEv struct {
	Op  string `json:"op"` // g GetSingleton | b creation callback entered | af AddSingletonFactory | eo/ee creation ended ok/with error | as AddSingleton | rm RemoveSingleton
	N   int    `json:"n"`  // rank of the name, -1 if it is not a registered name
	E   bool   `json:"e,omitempty"`
	V   *Token `json:"v,omitempty"` // g: what the early factory returned if it ran without error; eo, as: the version
	raw any    // the object behind V; resolved to a token once every foreign object (App, built-ins) is known
}

type tracer struct {
	inner  container.SingletonComponentRegistry
	s      *Scn
	ev     []TrEv
	curOut *any
}

func (t *tracer) rank(name string) int {
	if r, ok := t.s.Cfg.Names[name]; ok {
		return r
	}
	return -1
}

func raw(m *component_definition.Meta) any {
	if m == nil {
		return nil
	}
	return m.Raw
}

func (s *Scn) resolve(evs []TrEv) []TrEv {
	out := make([]TrEv, len(evs))
	for i, e := range evs {
		if e.raw != nil {
			k := s.token(reflect.ValueOf(e.raw))
			e.V = &k
		}
		out[i] = e
	}
	return out
}

func (t *tracer) AddSingleton(name string, meta *component_definition.Meta) {
	t.inner.AddSingleton(name, meta)
	t.ev = append(t.ev, TrEv{Op: "as", N: t.rank(name), raw: raw(meta)})
}

func (t *tracer) AddSingletonFactory(name string, method container.SingletonFactory) {
	t.inner.AddSingletonFactory(name, container.FuncSingletonFactory(func() (*component_definition.Meta, error) {
		m, err := method.GetComponent()
		if t.curOut != nil && err == nil {
			*t.curOut = raw(m)
		}
		return m, err
	}))
	t.ev = append(t.ev, TrEv{Op: "af", N: t.rank(name)})
}

func (t *tracer) GetSingleton(name string, early bool) (*component_definition.Meta, error) {
	var out any
	save := t.curOut
	t.curOut = &out
	m, err := t.inner.GetSingleton(name, early)
	t.curOut = save
	t.ev = append(t.ev, TrEv{Op: "g", N: t.rank(name), E: early, raw: out})
	return m, err
}

func (t *tracer) RemoveSingleton(name string) {
	t.inner.RemoveSingleton(name)
	t.ev = append(t.ev, TrEv{Op: "rm", N: t.rank(name)})
}

func (t *tracer) GetSingletonOrCreateByFactory(name string, fac container.SingletonFactory) (*component_definition.Meta, error) {
	n := t.rank(name)
	called := 0
	var cbRaw any
	cbOk := false
	save := t.curOut
	t.curOut = nil
	m, err := t.inner.GetSingletonOrCreateByFactory(name, container.FuncSingletonFactory(func() (*component_definition.Meta, error) {
		called++
		t.ev = append(t.ev, TrEv{Op: "b", N: n})
		cm, cerr := fac.GetComponent()
		cbOk = cerr == nil
		if cbOk {
			cbRaw = raw(cm)
		}
		return cm, cerr
	}))
	t.curOut = save
	switch {
	case called == 0:
		t.ev = append(t.ev, TrEv{Op: "b", N: n})
	case cbOk:
		t.ev = append(t.ev, TrEv{Op: "eo", N: n, raw: cbRaw})
	default:
		t.ev = append(t.ev, TrEv{Op: "ee", N: n})
	}
	return m, err
}

func (t *tracer) IsSingletonCurrentlyInCreation(name string) bool {
	return t.inner.IsSingletonCurrentlyInCreation(name)
}

// installTracer swaps the factory's registry field (found by its type) for the tracing wrapper.
func installTracer(f container.Factory, t *tracer) (ok bool) {
	defer func() {
		if recover() != nil {
			ok = false
		}
	}()
	v := reflect.ValueOf(f)
	if v.Kind() != reflect.Pointer || v.Elem().Kind() != reflect.Struct {
		return false
	}
	s := v.Elem()
	want := reflect.TypeOf((*container.SingletonComponentRegistry)(nil)).Elem()
	for i := 0; i < s.NumField(); i++ {
		fld := s.Field(i)
		if fld.Type() != want {
			continue
		}
		w := reflect.NewAt(fld.Type(), unsafe.Pointer(fld.UnsafeAddr())).Elem()
		inner, isReg := w.Interface().(container.SingletonComponentRegistry)
		if !isReg || inner == nil {
			return false
		}
		t.inner = inner
		w.Set(reflect.ValueOf(container.SingletonComponentRegistry(t)))
		return true
	}
	return false
}

// Ctors is filled by the generated code: constructor name -> instance builder.
var Ctors = map[string]func(b Base) any{}

func guard(f func()) (p string) {
	defer func() {
		if r := recover(); r != nil {
			p = fmt.Sprint(r)
			if p == "" {
				p = "panic"
			}
		}
	}()
	f()
	return ""
}

// RunScenario executes one scenario against the real container.
// argRewriter: an application-defined post-processor that adjusts the tag arguments of the injection points it is
// shown through the public API (Property.SetArg / AddArg, and the slices Args().ForEach hands out)
type argRewriter struct{}

func (*argRewriter) PostProcessBeforeInitialization(c any, name string) (any, error) { return c, nil }
func (*argRewriter) PostProcessAfterInitialization(c any, name string) (any, error)  { return c, nil }
func (*argRewriter) PostProcessBeforeInstantiation(m *component_definition.Meta, name string) (any, error) {
	return nil, nil
}
func (*argRewriter) PostProcessAfterInstantiation(c any, name string) (bool, error) { return true, nil }
func (*argRewriter) PostProcessProperties(ps []*component_definition.Property, c any, name string) ([]*component_definition.Property, error) {
	if _, own := c.(*app.App); own {
		return nil, nil
	}
	for _, p := range ps {
		p.Args().ForEach(func(t component_definition.ArgType, args []string) {
			for i := range args {
				args[i] = "\x01rewritten"
			}
		})
		p.SetArg(component_definition.ArgQualifier, "zz-foreign-region")
		p.SetArg(component_definition.ArgRequired, "false")
		p.AddArg("returns", "zz-foreign")
	}
	return nil, nil
}

// laterStart: another application of the same process, started while the scenario's App is alive (between its start and
// the lookups that create its lazy components), over fresh instances of every other component of the scenario
func laterStart(cfg *ScnCfg, back *Scn) {
	defer func() { Current = back }()
	s2 := &Scn{Cfg: cfg, Origs: map[OKey]int{}, Proxies: map[uintptr][2]int{}, EarlyMade: map[[2]int]any{}}
	var comps []any
	for i := range cfg.Comps {
		if i%2 == 1 {
			continue
		}
		c := &cfg.Comps[i]
		ctor, ok := Ctors[c.Ctor]
		if !ok {
			return
		}
		in := ctor(Base{C: c, S: s2})
		s2.Origs[okey(reflect.ValueOf(in))] = c.Rank
		comps = append(comps, in)
	}
	s2.Instances = comps
	Current = s2
	guard(func() {
		a := app.NewApp()
		s2.App = a
		_ = a.Run(app.LogLevel(syslog.LvPanic), app.SetConfigLoader(loader.NewRawLoader([]byte(cfg.Config))),
			func(x *app.App) { guard(func() { app.SetComponents(comps...)(x) }) })
	})
}

// foreignStart: another application of the same process, started and forgotten before the scenario
func foreignStart(cfg *ScnCfg) {
	s2 := &Scn{Cfg: cfg, Origs: map[OKey]int{}, Proxies: map[uintptr][2]int{}, EarlyMade: map[[2]int]any{}}
	var comps []any
	for i := range cfg.Comps {
		c := &cfg.Comps[i]
		ctor, ok := Ctors[c.Ctor]
		if !ok {
			return
		}
		in := ctor(Base{C: c, S: s2})
		s2.Origs[okey(reflect.ValueOf(in))] = c.Rank
		comps = append(comps, in)
	}
	s2.Instances = comps
	Current = s2
	comps = append(comps, &argRewriter{})
	guard(func() {
		a := app.NewApp()
		s2.App = a
		_ = a.Run(app.LogLevel(syslog.LvPanic), app.SetConfigLoader(loader.NewRawLoader([]byte(cfg.Config))),
			func(x *app.App) { guard(func() { app.SetComponents(comps...)(x) }) })
	})
}

func RunScenario(cfg *ScnCfg) (res Result) {
	res.ID = cfg.ID
	if cfg.Foreign {
		foreignStart(cfg)
	}
	s := &Scn{Cfg: cfg, Origs: map[OKey]int{}, Proxies: map[uintptr][2]int{}, EarlyMade: map[[2]int]any{}}
	insts := make([]any, len(cfg.Comps))
	for i := range cfg.Comps {
		c := &cfg.Comps[i]
		ctor, ok := Ctors[c.Ctor]
		if !ok {
			res.Outcome = "harness-error"
			res.ErrText = "no ctor " + c.Ctor
			return
		}
		insts[i] = ctor(Base{C: c, S: s})
		s.Origs[okey(reflect.ValueOf(insts[i]))] = c.Rank
	}
	s.Instances = insts
	Current = s
	if !cfg.Twice {
		return runOnce(cfg, s, insts, nil)
	}
	// the first of two starts runs without the lookups: they create lazy components and so fill fields of the shared
	// instances that the second start would then see already set
	c1 := *cfg
	c1.Lookups = nil
	c1.Bulk = false
	if cfg.SameApp {
		c1.Trace = false // the tracer wraps the registry of the factory the App has before Run; a restart replaces it
	}
	res = runOnce(&c1, s, insts, nil)
	if res.Outcome == "ok" || res.Outcome == "err" {
		// a second container over the same instances (ioc.Register + repeated ioc.Run): nothing of the first start may
		// leak into the second one, so it must be observed exactly like the first
		first := res
		s.Log, s.NextP, s.Proxies, s.EarlyMade = nil, 0, map[uintptr][2]int{}, map[[2]int]any{}
		for _, in := range insts {
			if bd, ok := in.(Based); ok {
				bd.WxBase().Got = nil
			}
		}
		if cfg.SameApp && s.App != nil {
			c2 := *cfg
			c2.Trace = false
			res = runOnce(&c2, s, insts, s.App)
		} else {
			res = runOnce(cfg, s, insts, nil)
		}
		a, _ := json.Marshal([]any{first.Outcome, first.Log, first.Fields, first.Trace})
		b, _ := json.Marshal([]any{res.Outcome, res.Log, res.Fields, res.Trace})
		if string(a) != string(b) {
			res.ErrText = "second start differs from the first: first " + first.Outcome + " / second " + res.Outcome
			res.Outcome = "restart-differs"
			res.First = &first
		}
	}
	return
}

func runOnce(cfg *ScnCfg, s *Scn, insts []any, reuse *app.App) (res Result) {
	res.ID = cfg.ID
	var comps []any
	order := cfg.RegOrder
	if len(order) == 0 {
		for i := range insts {
			order = append(order, i)
		}
	}
	for _, i := range order {
		comps = append(comps, insts[i])
	}
	for _, i := range cfg.Dup {
		comps = append(comps, insts[i])
	}
	a := reuse
	if a == nil {
		a = app.NewApp()
	}
	s.App = a
	var tr *tracer
	if cfg.Trace {
		tr = &tracer{s: s}
		res.Traced = installTracer(a.Factory, tr)
		if !res.Traced {
			tr = nil
		}
	}
	var loaders []any
	_ = loaders
	opts := []app.SettingOption{app.LogLevel(syslog.LvPanic)}
	if reuse != nil {
		opts = append(opts, app.SetRegistry(support.NewRegistry()), app.SetFactory(factory.Default()), app.SetConfigure(configure.Default()))
	}
	if cfg.LoaderFail {
		opts = append(opts, app.SetConfigLoader(loader.NewRawLoader([]byte(cfg.Config)), failLoader{}))
	} else {
		opts = append(opts, app.SetConfigLoader(loader.NewRawLoader([]byte(cfg.Config))))
	}
	var regPanic string
	opts = append(opts, func(s *app.App) {
		regPanic = guard(func() { app.SetComponents(comps...)(s) })
	})
	var err error
	pan := guard(func() { err = a.Run(opts...) })
	res.Log = append([]Event{}, s.Log...)
	trMark := 0
	if tr != nil {
		trMark = len(tr.ev)
	}
	switch {
	case regPanic != "":
		res.Outcome = "regpanic"
		res.ErrText = regPanic
	case pan != "":
		res.Outcome = "panic"
		res.ErrText = pan
	case err != nil:
		res.Outcome = "err"
		res.ErrText = firstLine(err.Error())
	default:
		res.Outcome = "ok"
	}
	// identity table for foreign objects (App, built-in processors)
	objs := map[int]any{}
	if res.Outcome != "regpanic" {
		func() {
			defer func() { recover() }()
			for name, c := range a.GetRegisteredComponents() {
				if r, ok := cfg.Names[name]; ok {
					v := reflect.ValueOf(c)
					if v.Kind() == reflect.Ptr {
						if _, known := s.Origs[okey(v)]; !known {
							s.Origs[okey(v)] = r
						}
						objs[r] = c
					}
				}
			}
		}()
	}
	if r, ok := cfg.Names[compName(a)]; ok {
		objs[r] = a
		s.Origs[okey(reflect.ValueOf(a))] = r
	}
	for i, in := range insts {
		objs[cfg.Comps[i].Rank] = in
		res.RegNames = append(res.RegNames, compName(in))
	}
	res.Fields = s.observeFields(objs)
	if res.Outcome == "ok" || res.Outcome == "err" {
		if cfg.Later {
			laterStart(cfg, s)
		}
		mark := len(s.Log)
		for _, name := range cfg.Lookups {
			lo := LookupObs{Name: name, Tok: Token{-1, -1}}
			lo.Pan = guard(func() {
				c, err := a.GetComponentByName(name)
				if err != nil {
					lo.Err = true
					return
				}
				lo.Tok = s.token(reflect.ValueOf(c))
			})
			res.Lookups = append(res.Lookups, lo)
		}
		if cfg.Bulk {
			res.BulkDone = true
			var all []any
			var berr error
			if p := guard(func() { all, berr = a.GetComponents() }); p != "" {
				res.Bulk = []LookupObs{{Name: "*", Tok: Token{-1, -1}, Pan: p}}
			} else if berr != nil {
				res.Bulk = []LookupObs{{Name: "*", Tok: Token{-1, -1}, Err: true}}
			} else {
				for _, c := range all {
					res.Bulk = append(res.Bulk, LookupObs{Name: "*", Tok: s.token(reflect.ValueOf(c))})
				}
			}
		}
		res.LogAfter = append([]Event{}, s.Log[mark:]...)
	}
	if tr != nil {
		res.Trace = s.resolve(tr.ev[:trMark])
		res.TraceAft = s.resolve(tr.ev[trMark:])
	}
	if res.Outcome == "ok" {
		mark := len(s.Log)
		guard(func() { a.Close() })
		res.CloseLog = append([]Event{}, s.Log[mark:]...)
	}
	return
}

func compName(c any) string {
	if n, ok := c.(definition.NamingComponent); ok && n.Naming() != "" {
		return n.Naming()
	}
	t := reflect.TypeOf(c)
	for t.Kind() == reflect.Ptr {
		t = t.Elem()
	}
	return t.PkgPath() + "/" + t.Name()
}

type failLoader struct{}

func (failLoader) LoadConfig() ([]byte, error) { return nil, errors.New("loader failed") }

func firstLine(s string) string {
	if i := strings.IndexByte(s, '\n'); i >= 0 {
		s = s[:i]
	}
	if len(s) > 300 {
		s = s[:300]
	}
	return s
}

// ---- facts: the built-in population as the real App registers it ----------------------------------

type BuiltinFact struct {
	Name  string `json:"name"`
	Cls   string `json:"cls"` // P | O | U | - (not a post processor)
	Ord   int    `json:"ord"`
	Lazy  bool   `json:"lazy"`
	IsApp bool   `json:"isapp"`
}

func Facts() []BuiltinFact {
	a := app.NewApp()
	_ = a.Run(app.LogLevel(syslog.LvPanic), app.SetConfigLoader())
	var res []BuiltinFact
	for name, c := range a.GetRegisteredComponents() {
		f := BuiltinFact{Name: name, Cls: "-"}
		if _, ok := c.(*app.App); ok {
			f.IsApp = true
		}
		if _, ok := c.(interface {
			PostProcessBeforeInitialization(any, string) (any, error)
		}); ok {
			f.Cls = "U"
			if o, ok := c.(definition.Ordered); ok {
				f.Ord = o.Order()
				f.Cls = "O"
				if _, ok := c.(definition.Priority); ok {
					f.Cls = "P"
				}
			}
		}
		_, f.Lazy = c.(definition.LazyInit)
		res = append(res, f)
	}
	sort.Slice(res, func(i, j int) bool { return res[i].Name < res[j].Name })
	return res
}

// ---- worker loop ------------------------------------------------------------------------------------

// Main is the entry point of every generated scenario binary.
func Main() {
	from := flag.Int("from", 0, "first scenario index to run")
	facts := flag.Bool("facts", false, "print the built-in population and exit")
	timeout := flag.Duration("case-timeout", 10*time.Second, "per-scenario watchdog")
	input := flag.String("input", "", "scenario file (JSON)")
	verbose := flag.Bool("verbose", false, "run the container with a logger that formats every message (debug/trace level)")
	flag.Parse()
	syslog.Level(syslog.LvPanic)
	if *verbose {
		hx.Verbose()
	}
	out := bufio.NewWriter(os.Stdout)
	emit := func(tag string, v any) {
		data, _ := json.Marshal(v)
		fmt.Fprintf(out, "\n@@%s %s\n", tag, data)
		out.Flush()
	}
	if *facts {
		emit("FACTS", Facts())
		return
	}
	data, err := os.ReadFile(*input)
	if err != nil {
		fmt.Fprintln(os.Stderr, err)
		os.Exit(3)
	}
	var in struct {
		Scenarios []ScnCfg `json:"scenarios"`
	}
	if err := json.Unmarshal(data, &in); err != nil {
		fmt.Fprintln(os.Stderr, err)
		os.Exit(3)
	}
	for i := *from; i < len(in.Scenarios); i++ {
		cfg := &in.Scenarios[i]
		done := make(chan Result, 1)
		emit("START", map[string]int{"index": i, "id": cfg.ID})
		go func() { done <- RunScenario(cfg) }()
		select {
		case r := <-done:
			emit("CASE", r)
		case <-time.After(*timeout):
			emit("CASE", Result{ID: cfg.ID, Outcome: "hang"})
			out.Flush()
			os.Exit(4)
		}
	}
	emit("DONE", map[string]int{"n": len(in.Scenarios)})
}
