// Driver for C18 (expressions after placeholders, validation after binding).
//
// Every case is one real app.Run with one component carrying one tagged field, observed by
// processors at Priority Order 3 (before ${}), 5 (after ${}), 9 (after #{}), 17 (after binding) and
// ordered Order 9 (after validate), plus the field's final value and Run's outcome.
//
// Oracles computed by the driver itself, not through the container:
//   - expr-lang (expr.Compile + expr.Run(program, nil)) on every #{...} content of the tag text
//     as it stands after the ${} stage (and of the texts those results produce, one more level)
//   - go-playground/validator on the field's final value with the constraints the generator wrote
//     (Var for scalars / slices / maps, Struct for structs and pointers to structs).  The reference
//     instance is built HERE, with WithRequiredStructEnabled: the property reads `required` on a
//     struct value as "not the zero struct", whatever options the library gives its own instance.
//
// Field types: a fixed set named by ftype, or (ftype "dyn") a type built with reflect.StructOf from
// the shape the generator sends: structs whose fields carry yaml / validate tags and are scalars,
// nested non-pointer structs, pointers to structs, slices and maps of structs, to any depth.
//
// Facts: class (Priority / Ordered / none) and Order() of the built-in processor values, read by
// type assertion on processors.New...() on every run.
//
// Cases run in a child process (VERIF_CHILD=1) streaming one line per case; a case that does not
// answer within the time limit is recorded as "hang" and the child is restarted on the rest.
package main

import (
	"bufio"
	"encoding/hex"
	"encoding/json"
	"fmt"
	"os"
	"os/exec"
	"reflect"
	"sort"
	"strconv"
	"strings"
	"time"

	"github.com/expr-lang/expr"
	"github.com/go-kid/ioc/app"
	"github.com/go-kid/ioc/component_definition"
	"github.com/go-kid/ioc/configure/loader"
	"github.com/go-kid/ioc/container/processors"
	"github.com/go-kid/ioc/definition"
	"github.com/go-kid/ioc/syslog"
	"github.com/go-kid/ioc/util/el"
	"github.com/go-playground/validator/v10"
	"verifharness/hx"
)

type Case struct {
	ID          int    `json:"id"`
	Config      string `json:"config"`
	TagKey      string `json:"tagkey"`
	TagText     string `json:"tagtext"` // hex
	FType       string `json:"ftype"`
	Constraints string `json:"constraints"` // as written after validate=, space separated; "" = none / struct
	HasValidate bool   `json:"hasvalidate"`
	Shape       *Shape `json:"shape,omitempty"` // ftype "dyn": the field's type
}

// Shape describes a Go type: k = string | int | float | bool | struct (f) | ptr | slice | map (e; maps have string keys).
type Shape struct {
	K string       `json:"k"`
	F []ShapeField `json:"f,omitempty"`
	E *Shape       `json:"e,omitempty"`
}

type ShapeField struct {
	N string `json:"n"` // Go field name (exported)
	Y string `json:"y"` // yaml key
	V string `json:"v"` // validate tag, comma separated; "" = no tag
	T Shape  `json:"t"`
}

func buildType(s *Shape) reflect.Type {
	switch s.K {
	case "string":
		return reflect.TypeOf("")
	case "int":
		return reflect.TypeOf(int(0))
	case "float":
		return reflect.TypeOf(float64(0))
	case "bool":
		return reflect.TypeOf(false)
	case "ptr":
		return reflect.PointerTo(buildType(s.E))
	case "slice":
		return reflect.SliceOf(buildType(s.E))
	case "map":
		return reflect.MapOf(reflect.TypeOf(""), buildType(s.E))
	case "struct":
		fs := make([]reflect.StructField, 0, len(s.F))
		for i := range s.F {
			f := &s.F[i]
			tag := "yaml:" + strconv.Quote(f.Y)
			if f.V != "" {
				tag += " validate:" + strconv.Quote(f.V)
			}
			fs = append(fs, reflect.StructField{Name: f.N, Type: buildType(&f.T), Tag: reflect.StructTag(tag)})
		}
		return reflect.StructOf(fs)
	}
	panic("shape kind " + s.K)
}

type Val struct {
	T string   `json:"t"`
	B bool     `json:"b,omitempty"`
	N string   `json:"n,omitempty"`
	S string   `json:"s,omitempty"`
	L []Val    `json:"l,omitempty"`
	M [][2]any `json:"m,omitempty"`
}

type Eval struct {
	K       string `json:"k"` // hex content
	Outcome string `json:"outcome"`
	Val     *Val   `json:"val,omitempty"`
	Detail  string `json:"detail,omitempty"`
}

type Out struct {
	ID        int    `json:"id"`
	Outcome   string `json:"outcome"` // ok | err | panic | hang | crash | setup
	TagStr    string `json:"tagstr"`
	PreSeen   bool   `json:"preseen"`
	QSeen     bool   `json:"qseen"`
	Q         string `json:"q"`
	ESeen     bool   `json:"eseen"`
	E         string `json:"e"`
	Bound     bool   `json:"bound"`
	Validated bool   `json:"validated"`
	Required  bool   `json:"required"`
	Field     *Val   `json:"field,omitempty"`
	Evals     []Eval `json:"evals"`
	Verdict   bool   `json:"verdict"`
	VDetail   string `json:"vdetail,omitempty"`
	// statistics only (never compared): the verdict of an instance WITHOUT WithRequiredStructEnabled; where it differs
	// from Verdict, the case's outcome is decided by `required` on a struct value
	VerdictLax bool   `json:"verdict_lax"`
	FieldJSON  string `json:"fieldjson,omitempty"` // ftype "dyn": the final field value, for the replay file
	Detail     string `json:"detail,omitempty"`
}

type Fact struct {
	ID   int    `json:"id"`
	Name string `json:"name"`
	Cls  string `json:"cls"`
	Ord  int64  `json:"ord"`
}

func unhex(s string) string {
	b, err := hex.DecodeString(s)
	if err != nil {
		panic(err)
	}
	return string(b)
}
func tohex(s string) string { return hex.EncodeToString([]byte(s)) }

func toVal(a any) Val {
	switch v := a.(type) {
	case nil:
		return Val{T: "null"}
	case bool:
		return Val{T: "bool", B: v}
	case string:
		return Val{T: "str", S: tohex(v)}
	case float64:
		return Val{T: "float", N: strconv.FormatFloat(v, 'e', -1, 64)}
	case int:
		return Val{T: "int", N: strconv.Itoa(v)}
	case int64:
		return Val{T: "int", N: strconv.FormatInt(v, 10)}
	case []any:
		r := Val{T: "list", L: []Val{}}
		for _, x := range v {
			r.L = append(r.L, toVal(x))
		}
		return r
	case map[string]any:
		r := Val{T: "map", M: [][2]any{}}
		keys := make([]string, 0, len(v))
		for k := range v {
			keys = append(keys, k)
		}
		sort.Strings(keys)
		for _, k := range keys {
			r.M = append(r.M, [2]any{tohex(k), toVal(v[k])})
		}
		return r
	}
	rv := reflect.ValueOf(a)
	switch rv.Kind() {
	case reflect.Slice:
		r := Val{T: "list", L: []Val{}}
		for i := 0; i < rv.Len(); i++ {
			r.L = append(r.L, toVal(rv.Index(i).Interface()))
		}
		return r
	case reflect.Pointer:
		if rv.IsNil() {
			return Val{T: "null"}
		}
		return toVal(rv.Elem().Interface())
	}
	return Val{T: "other", S: tohex(fmt.Sprintf("%T", a))}
}

// ---- facts ----------------------------------------------------------------------------------

func classify(id int, name string, v any) Fact {
	f := Fact{ID: id, Name: name, Cls: "U"}
	if o, ok := v.(definition.Ordered); ok {
		f.Ord = int64(o.Order())
		if _, ok := v.(definition.Priority); ok {
			f.Cls = "P"
		} else {
			f.Cls = "O"
		}
	}
	return f
}

func builtinFacts() []Fact {
	return []Fact{
		classify(0, "configQuote", processors.NewConfigQuoteAwarePostProcessors()),
		classify(1, "expressionTag", processors.NewExpressionTagAwarePostProcessors()),
		classify(2, "value", processors.NewValueAwarePostProcessors()),
		classify(3, "properties", processors.NewPropertiesAwarePostProcessors()),
		classify(4, "validate", processors.NewValidateAwarePostProcessors()),
		classify(5, "logger", processors.NewLoggerAwarePostProcessor()),
		classify(6, "dependency", processors.NewDependencyAwarePostProcessors()),
		classify(7, "furtherMatching", processors.NewDependencyFurtherMatchingProcessors()),
		classify(8, "function", processors.NewDependencyFunctionAwarePostProcessors()),
	}
}

// ---- observers ------------------------------------------------------------------------------

type seen struct {
	ok             bool
	tagstr, tagval string
	required       bool
}

type obsCore struct {
	ord    int
	name   string
	target any
	seen   *seen
}

func (o *obsCore) Order() int     { return o.ord }
func (o *obsCore) Naming() string { return o.name }
func (o *obsCore) PostProcessBeforeInitialization(c any, n string) (any, error) {
	return c, nil
}
func (o *obsCore) PostProcessAfterInitialization(c any, n string) (any, error) { return c, nil }
func (o *obsCore) PostProcessBeforeInstantiation(m *component_definition.Meta, n string) (any, error) {
	return nil, nil
}
func (o *obsCore) PostProcessAfterInstantiation(c any, n string) (bool, error) { return true, nil }
func (o *obsCore) PostProcessProperties(props []*component_definition.Property, c any, n string) ([]*component_definition.Property, error) {
	if c != o.target {
		return nil, nil
	}
	for _, p := range props {
		if p.StructField.Name == "F" {
			*o.seen = seen{ok: true, tagstr: p.TagStr, tagval: p.TagVal, required: p.IsRequired()}
		}
	}
	return nil, nil
}

type prioObserver struct {
	definition.PriorityComponent
	obsCore
}
type ordObserver struct{ obsCore }

// ---- field types ------------------------------------------------------------------------------

type VS struct {
	S string `yaml:"s" validate:"eq=abc"`
	N int    `yaml:"n" validate:"gte=1,lte=10"`
}

type VInner struct {
	E string `yaml:"e" validate:"required"`
}
type VNest struct {
	Name  string  `yaml:"name" validate:"required,min=2"`
	Inner *VInner `yaml:"inner" validate:"required"`
}

func fieldType(ft string) reflect.Type {
	switch ft {
	case "int":
		return reflect.TypeOf(int(0))
	case "float":
		return reflect.TypeOf(float64(0))
	case "bool":
		return reflect.TypeOf(false)
	case "any":
		return reflect.TypeOf((*any)(nil)).Elem()
	case "strs":
		return reflect.TypeOf([]string(nil))
	case "ints":
		return reflect.TypeOf([]int(nil))
	case "pstring":
		return reflect.TypeOf((*string)(nil))
	case "pint":
		return reflect.TypeOf((*int)(nil))
	case "map":
		return reflect.TypeOf(map[string]any(nil))
	case "struct":
		return reflect.TypeOf(VS{})
	case "pstruct":
		return reflect.TypeOf((*VS)(nil))
	case "nest":
		return reflect.TypeOf(VNest{})
	case "pnest":
		return reflect.TypeOf((*VNest)(nil))
	default:
		return reflect.TypeOf("")
	}
}

func isStructType(t reflect.Type) bool {
	if t.Kind() == reflect.Pointer {
		t = t.Elem()
	}
	return t.Kind() == reflect.Struct
}

func evalDirect(content string) Eval {
	ev := Eval{K: tohex(content)}
	p := hx.Guard(func() {
		program, err := expr.Compile(content)
		if err != nil {
			ev.Outcome, ev.Detail = "err", "compile"
			return
		}
		res, err := expr.Run(program, nil)
		if err != nil {
			ev.Outcome, ev.Detail = "err", "run"
			return
		}
		v := toVal(res)
		ev.Val = &v
		ev.Outcome = "ok"
	})
	if p != "" {
		ev.Outcome, ev.Detail = "panic", p
	}
	return ev
}

var exprHelper = el.NewExpr()

func collectEvals(text string) []Eval {
	evs := []Eval{}
	done := map[string]bool{}
	frontier := []string{text}
	for level := 0; level < 3; level++ {
		var next []string
		for _, t := range frontier {
			for _, c := range exprHelper.FindAllContent(t) {
				if done[c] {
					continue
				}
				done[c] = true
				ev := evalDirect(c)
				evs = append(evs, ev)
				if ev.Outcome == "ok" && ev.Val != nil && ev.Val.T == "str" {
					next = append(next, unhex(ev.Val.S))
				}
			}
		}
		frontier = next
	}
	return evs
}

func runCase(c Case) (out Out) {
	out = Out{ID: c.ID, Evals: []Eval{}}
	var ft reflect.Type
	if c.FType == "dyn" && c.Shape != nil {
		ft = buildType(c.Shape)
	} else {
		ft = fieldType(c.FType)
	}
	tag := reflect.StructTag(c.TagKey + ":" + strconv.Quote(unhex(c.TagText)))
	st := reflect.StructOf([]reflect.StructField{{Name: "F", Type: ft, Tag: tag}})
	comp := reflect.New(st).Interface()
	var pre, q, e, bound, validated seen
	mk := func(ord int, name string, s *seen) obsCore {
		return obsCore{ord: ord, name: name, target: comp, seen: s}
	}
	comps := []any{
		&prioObserver{obsCore: mk(3, "verifObsPre", &pre)},
		&prioObserver{obsCore: mk(5, "verifObsQuote", &q)},
		&prioObserver{obsCore: mk(9, "verifObsExpr", &e)},
		&prioObserver{obsCore: mk(17, "verifObsBound", &bound)},
		&ordObserver{obsCore: mk(9, "verifObsValidated", &validated)},
		comp,
	}
	var err error
	p := hx.Guard(func() {
		a := app.NewApp()
		err = a.Run(app.LogLevel(syslog.LvFatal), app.SetConfigLoader(loader.NewRawLoader([]byte(c.Config))),
			app.SetComponents(comps...))
	})
	out.PreSeen, out.QSeen, out.ESeen, out.Bound, out.Validated = pre.ok, q.ok, e.ok, bound.ok, validated.ok
	out.TagStr, out.Q, out.E, out.Required = tohex(pre.tagstr), tohex(q.tagval), tohex(e.tagval), pre.required
	fv := reflect.ValueOf(comp).Elem().Field(0)
	f := toVal(fv.Interface())
	out.Field = &f
	switch {
	case p != "":
		out.Outcome, out.Detail = "panic", p
	case !pre.ok:
		out.Outcome = "setup"
		if err != nil {
			out.Detail = err.Error()
		}
	case err != nil:
		out.Outcome, out.Detail = "err", err.Error()
	default:
		out.Outcome = "ok"
	}
	if len(out.Detail) > 400 {
		out.Detail = out.Detail[len(out.Detail)-400:]
	}
	if q.ok {
		out.Evals = collectEvals(q.tagval)
	}
	if c.FType == "dyn" {
		if data, jerr := json.Marshal(fv.Interface()); jerr == nil {
			out.FieldJSON = string(data)
		}
	}
	// the validator's verdict on the final field value, called directly.  The reference instance is configured the way
	// the property reads the constraints (`required` on a struct value = not the zero struct), independently of the
	// instance inside container/processors.
	out.Verdict, out.VerdictLax = true, true
	if c.HasValidate {
		out.Verdict, out.VDetail = refVerdict(validator.New(validator.WithRequiredStructEnabled()), ft, fv, c.Constraints)
		out.VerdictLax, _ = refVerdict(validator.New(), ft, fv, c.Constraints)
	}
	return
}

func refVerdict(v *validator.Validate, ft reflect.Type, fv reflect.Value, constraints string) (ok bool, detail string) {
	ok = true
	vp := hx.Guard(func() {
		var verr error
		if isStructType(ft) {
			verr = v.Struct(fv.Interface())
		} else {
			verr = v.Var(fv.Interface(), strings.Join(strings.Fields(constraints), ","))
		}
		if verr != nil {
			ok, detail = false, verr.Error()
		}
	})
	if vp != "" {
		ok, detail = false, "panic: "+vp
	}
	return
}

// ---- child / parent ---------------------------------------------------------------------------

type Input struct {
	Cases     []Case `json:"cases"`
	TimeoutMs int    `json:"timeout_ms"`
}

func child() {
	var in Input
	hx.ReadInput(&in)
	hx.Quiet()
	w := bufio.NewWriter(os.Stdout)
	for _, c := range in.Cases {
		fmt.Fprintf(w, "\n@@S %d\n", c.ID)
		w.Flush()
		var o Out
		p := hx.Guard(func() { o = runCase(c) })
		if p != "" {
			o = Out{ID: c.ID, Outcome: "panic", Detail: p, Evals: []Eval{}}
		}
		data, _ := json.Marshal(o)
		fmt.Fprintf(w, "\n@@R %s\n", data)
		w.Flush()
	}
	fmt.Fprintf(w, "\n@@E\n")
	w.Flush()
}

func runChild(cases []Case, timeout time.Duration) (outs []Out, next int, hang bool) {
	cmd := exec.Command(os.Args[0])
	cmd.Env = append(os.Environ(), "VERIF_CHILD=1")
	stdin, _ := cmd.StdinPipe()
	stdout, _ := cmd.StdoutPipe()
	if err := cmd.Start(); err != nil {
		panic(err)
	}
	go func() {
		data, _ := json.Marshal(Input{Cases: cases})
		stdin.Write(data)
		stdin.Close()
	}()
	lines := make(chan string, 64)
	go func() {
		sc := bufio.NewScanner(stdout)
		sc.Buffer(make([]byte, 1<<20), 1<<28)
		for sc.Scan() {
			lines <- sc.Text()
		}
		close(lines)
	}()
	timer := time.NewTimer(timeout + 20*time.Second)
	defer timer.Stop()
	done := 0
	for {
		select {
		case ln, ok := <-lines:
			if !ok {
				cmd.Wait()
				return outs, done, false
			}
			if len(ln) > 4 && ln[:4] == "@@R " {
				var o Out
				if json.Unmarshal([]byte(ln[4:]), &o) == nil {
					outs = append(outs, o)
					done++
				}
			}
			if ln == "@@E" {
				cmd.Wait()
				return outs, done, false
			}
			if !timer.Stop() {
				select {
				case <-timer.C:
				default:
				}
			}
			timer.Reset(timeout)
		case <-timer.C:
			cmd.Process.Kill()
			cmd.Wait()
			return outs, done, true
		}
	}
}

func main() {
	if os.Getenv("VERIF_CHILD") == "1" {
		child()
		return
	}
	var in Input
	hx.ReadInput(&in)
	timeout := time.Duration(in.TimeoutMs) * time.Millisecond
	if timeout <= 0 {
		timeout = 10 * time.Second
	}
	var facts []Fact
	fp := hx.Guard(func() { facts = builtinFacts() })
	all := []Out{}
	rest := in.Cases
	for len(rest) > 0 {
		outs, next, hang := runChild(rest, timeout)
		all = append(all, outs...)
		if next >= len(rest) {
			break
		}
		oc := "crash"
		if hang {
			oc = "hang"
		}
		all = append(all, Out{ID: rest[next].ID, Outcome: oc, Evals: []Eval{}})
		rest = rest[next+1:]
	}
	hx.WriteOutput(map[string]any{"outs": all, "facts": facts, "facts_panic": fp,
		"observers": []Fact{{ID: 20, Name: "obsPre", Cls: "P", Ord: 3}, {ID: 21, Name: "obsQuote", Cls: "P", Ord: 5},
			{ID: 22, Name: "obsExpr", Cls: "P", Ord: 9}, {ID: 23, Name: "obsBound", Cls: "P", Ord: 17},
			{ID: 24, Name: "obsValidated", Cls: "O", Ord: 9}}})
}
