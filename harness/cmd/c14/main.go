// Driver for C14: runs the real App.Close over generated closer sets and records a sequenced
// event history (call_i / ret_i / close_returned).  Nothing in the verdict depends on
// wall-clock ordering: the history order is the order of appends under one mutex.
//
// closer kinds:
//
//	F  returns at once
//	A  blocks until every closer of the case has been called (isolation probe).  If the others
//	   are never called it gives up after a generous timeout and the run is classified "stalled".
//	W  blocks until it observes that App.Close has already returned (that observation is the
//	   violation and shows in the history as close_returned before ret_i) or a short deadline.
//
// closer shapes (how the component is laid out in memory; identity must never be the address):
//
//	P    an ordinary pointer to a struct with state of its own
//	Zk   a pointer to the k-th ZERO-SIZE closer type of zero.go: every such pointer has the same
//	     address (runtime.zerobase); the instance cannot keep state, so what it has to do and
//	     what it did is kept per TYPE in ztable (keyed by the type name)
//	O:j  a struct whose FIRST field is the closer of slot j; both &outer and &outer.first are
//	     registered, two different components at one address
//	I    the first field of the O slot that points here
package main

import (
	"errors"
	"fmt"
	"runtime"
	"strconv"
	"strings"
	"sync"
	"sync/atomic"
	"time"

	"github.com/go-kid/ioc/app"
	"github.com/go-kid/ioc/syslog"
	"verifharness/hx"
)

type Case struct {
	ID    int      `json:"id"`
	N     int      `json:"n"`
	Kinds []string `json:"kinds"`
	Fails []bool   `json:"fails"`
	// Shapes is parallel to Kinds; absent = every closer is an ordinary pointer ("P")
	Shapes []string `json:"shapes"`
	Procs  int      `json:"procs"`
	WdlMs  int      `json:"wdl_ms"`
}

type Event struct {
	K   string `json:"k"` // call | ret | close
	I   int    `json:"i"`
	Err bool   `json:"err"`
}

type Out struct {
	ID         int     `json:"id"`
	Registered int     `json:"registered"`
	Events     []Event `json:"events"`
	Outcome    string  `json:"outcome"` // ok | hang | stalled | panic | runerr | skipped
	Detail     string  `json:"detail"`
}

const (
	stallTimeout = 5 * time.Second
	hangTimeout  = 8 * time.Second
)

type recorder struct {
	mu        sync.Mutex
	events    []Event
	n         int
	calls     int
	rets      int32
	allCalled chan struct{}
	closed    chan struct{}
	stalled   atomic.Bool
}

func (r *recorder) add(e Event) {
	r.mu.Lock()
	r.events = append(r.events, e)
	if e.K == "call" {
		r.calls++
		if r.calls == r.n {
			close(r.allCalled)
		}
	}
	r.mu.Unlock()
}

// core is what one closer has to do and where it reports to.
type core struct {
	id   int
	kind string
	fail bool
	wdl  time.Duration
	rec  *recorder
}

// non-struct closers: the value carries the closer's id; behaviour and reporting are looked up in nstable
var (
	nsmu    sync.Mutex
	nstable = map[int]*core{}
)

func nsrun(id int) error {
	nsmu.Lock()
	c := nstable[id]
	nsmu.Unlock()
	if c == nil {
		return nil
	}
	return c.run()
}

type nsInt int

func (n *nsInt) Naming() string { return fmt.Sprintf("closer%d", int(*n)) }
func (n *nsInt) Close() error   { return nsrun(int(*n)) }

type nsSlice []int

func (n *nsSlice) Naming() string { return fmt.Sprintf("closer%d", (*n)[0]) }
func (n *nsSlice) Close() error   { return nsrun((*n)[0]) }

type nsChan chan int

func (n *nsChan) id() int        { v := <-*n; *n <- v; return v }
func (n *nsChan) Naming() string { return fmt.Sprintf("closer%d", n.id()) }
func (n *nsChan) Close() error   { return nsrun(n.id()) }

// closer: the ordinary shape.
type closer struct{ core }

func (c *closer) Naming() string { return fmt.Sprintf("closer%d", c.id) }
func (c *closer) Close() error   { return c.core.run() }

// outer: a closer whose first field is another closer that is registered on its own.
type outer struct {
	first closer
	self  core
}

func (o *outer) Naming() string { return fmt.Sprintf("closer%d", o.self.id) }
func (o *outer) Close() error   { return o.self.run() }

func (c *core) run() error {
	c.rec.add(Event{K: "call", I: c.id})
	switch c.kind {
	case "A":
		select {
		case <-c.rec.allCalled:
		case <-c.rec.closed:
		case <-time.After(stallTimeout):
			c.rec.stalled.Store(true)
		}
	case "W":
		select {
		case <-c.rec.closed:
		case <-time.After(c.wdl):
		}
	}
	c.rec.add(Event{K: "ret", I: c.id, Err: c.fail})
	atomic.AddInt32(&c.rec.rets, 1)
	if c.fail {
		return errors.New("closer failed")
	}
	return nil
}

// build makes the components of a case in slot order (= registration order).
func build(c Case, rec *recorder) (comps []any, bad string) {
	mk := func(i int) core {
		return core{id: i + 1, kind: c.Kinds[i], fail: c.Fails[i], wdl: time.Duration(c.WdlMs) * time.Millisecond, rec: rec}
	}
	shape := func(i int) string {
		if i < len(c.Shapes) && c.Shapes[i] != "" {
			return c.Shapes[i]
		}
		return "P"
	}
	zreset()
	nsmu.Lock()
	nstable = map[int]*core{}
	nsmu.Unlock()
	comps = make([]any, c.N)
	for i := 0; i < c.N; i++ {
		sh := shape(i)
		switch {
		case sh == "P":
			comps[i] = &closer{core: mk(i)}
		case sh == "I":
			// made by its outer
		case strings.HasPrefix(sh, "Z"):
			k, err := strconv.Atoi(sh[1:])
			if err != nil || k < 0 || k >= len(zeroTypes) {
				return nil, "unknown zero-size type " + sh
			}
			if !zset(zeroTypes[k].name, mk(i)) {
				return nil, "zero-size type used twice " + sh
			}
			comps[i] = zeroTypes[k].mk()
		case strings.HasPrefix(sh, "N"):
			// a closer whose type is not a struct: a named int, slice or channel with a pointer-receiver Close()
			k, err := strconv.Atoi(sh[1:])
			if err != nil || k < 0 || k > 2 {
				return nil, "unknown non-struct closer " + sh
			}
			nsmu.Lock()
			nstable[i+1] = &[]core{mk(i)}[0]
			nsmu.Unlock()
			switch k {
			case 0:
				v := nsInt(i + 1)
				comps[i] = &v
			case 1:
				v := nsSlice{i + 1}
				comps[i] = &v
			default:
				v := make(nsChan, 1)
				v <- i + 1
				comps[i] = &v
			}
		case strings.HasPrefix(sh, "O:"):
			j, err := strconv.Atoi(sh[2:])
			if err != nil || j < 0 || j >= c.N || shape(j) != "I" || comps[j] != nil {
				return nil, "bad outer " + sh
			}
			o := &outer{first: closer{core: mk(j)}, self: mk(i)}
			comps[i], comps[j] = o, &o.first
		default:
			return nil, "unknown shape " + sh
		}
	}
	for i := range comps {
		if comps[i] == nil {
			return nil, fmt.Sprintf("slot %d (%s) has no component", i, shape(i))
		}
	}
	return comps, ""
}

func runCase(c Case) (out Out) {
	out = Out{ID: c.ID, Outcome: "ok"}
	if c.Procs > 0 {
		old := runtime.GOMAXPROCS(c.Procs)
		defer runtime.GOMAXPROCS(old)
	}
	rec := &recorder{n: c.N, allCalled: make(chan struct{}), closed: make(chan struct{})}
	if c.N == 0 {
		close(rec.allCalled)
	}
	comps, bad := build(c, rec)
	if bad != "" {
		out.Outcome, out.Detail = "runerr", "bad case: "+bad
		return
	}
	defer zreset()
	a := app.NewApp()
	var runErr error
	if p := hx.Guard(func() {
		runErr = a.Run(app.LogLevel(syslog.LvFatal), app.SetConfigLoader(), app.SetComponents(comps...))
	}); p != "" {
		out.Outcome, out.Detail = "panic", "Run: "+p
		return
	}
	if runErr != nil {
		out.Outcome, out.Detail = "runerr", runErr.Error()
		return
	}
	out.Registered = len(a.CloserComponents)
	done := make(chan string, 1)
	go func() {
		p := hx.Guard(func() { a.Close() })
		rec.add(Event{K: "close"})
		close(rec.closed)
		done <- p
	}()
	select {
	case p := <-done:
		if p != "" {
			out.Outcome, out.Detail = "panic", "Close: "+p
		}
	case <-time.After(hangTimeout + time.Duration(c.WdlMs)*time.Millisecond):
		out.Outcome = "hang"
	}
	// let every closer that was called finish (they are released by rec.closed); bounded
	deadline := time.Now().Add(2 * time.Second)
	for time.Now().Before(deadline) {
		rec.mu.Lock()
		calls := rec.calls
		rec.mu.Unlock()
		if int(atomic.LoadInt32(&rec.rets)) >= calls {
			break
		}
		time.Sleep(time.Millisecond)
	}
	if rec.stalled.Load() && out.Outcome == "ok" {
		out.Outcome = "stalled"
	}
	rec.mu.Lock()
	out.Events = append([]Event{}, rec.events...)
	rec.mu.Unlock()
	return out
}

func main() {
	var in struct {
		Cases   []Case `json:"cases"`
		MaxBad  int    `json:"max_bad"`
		Verbose bool   `json:"verbose"`
	}
	hx.ReadInput(&in)
	hx.Quiet()
	if in.MaxBad == 0 {
		in.MaxBad = 3
	}
	outs := make([]Out, 0, len(in.Cases))
	bad := 0
	for _, c := range in.Cases {
		if bad >= in.MaxBad {
			outs = append(outs, Out{ID: c.ID, Outcome: "skipped"})
			continue
		}
		o := runCase(c)
		if o.Outcome == "hang" || o.Outcome == "stalled" {
			bad++
		}
		outs = append(outs, o)
	}
	hx.WriteOutput(map[string]any{"outs": outs})
}
