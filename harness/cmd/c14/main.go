// Driver for C14: runs the real App.Close over generated closer sets and records a sequenced
// event history (call_i / ret_i / close_returned).  Nothing in the verdict depends on
// wall-clock ordering: the history order is the order of appends under one mutex.
//
// closer kinds:
//
//	F  returns at once
//	A  blocks until every closer of the case has been called (isolation probe).  If the others
//	   are never called it gives up after a generous timeout and the run is classified "stalled".
//	W  blocks until it observes that App.Close has already returned (that observation is the
//	   violation and shows in the history as close_returned before ret_i) or a short deadline.
//
// closer shapes (how the component is laid out in memory; identity must never be the address):
//
//	P    an ordinary pointer to a struct with state of its own
//	Zk   a pointer to the k-th ZERO-SIZE closer type of zero.go: every such pointer has the same
//	     address (runtime.zerobase); the instance cannot keep state, so what it has to do and
//	     what it did is kept per TYPE in ztable (keyed by the type name)
//	O:j  a struct whose FIRST field is the closer of slot j; both &outer and &outer.first are
//	     registered, two different components at one address
//	I    the first field of the O slot that points here
//
// when Close is invoked (Mode):
//
//	""        App.Run has returned, then the driver calls App.Close (the ordinary sequence)
//	"during"  App.Run runs in a goroutine and is still inside callRunners: an ApplicationRunner of the case has
//	          started and blocks ("serves") until it is released; the driver calls App.Close once that runner has
//	          started.  The runner is released either by the Close of closer RelBy being CALLED (RelBy = j > 0; with
//	          RunnerSlot = j-1 the runner and that closer are one component: a server that serves until it is
//	          closed) or by the driver after App.Close has returned (RelBy = 0).  App.Run must return afterwards.
//	"self"    an ApplicationRunner calls App.Close() itself from inside its Run(); the driver never calls Close.
//
// The oracle is the same in every mode: every closer called exactly once, Close returns after all of them
// returned, nothing hangs.
package main

import (
	"errors"
	"fmt"
	"runtime"
	"strconv"
	"strings"
	"sync"
	"sync/atomic"
	"time"

	"github.com/go-kid/ioc/app"
	"github.com/go-kid/ioc/syslog"
	"verifharness/hx"
)

type Case struct {
	ID    int      `json:"id"`
	N     int      `json:"n"`
	Kinds []string `json:"kinds"`
	Fails []bool   `json:"fails"`
	// Shapes is parallel to Kinds; absent = every closer is an ordinary pointer ("P")
	Shapes []string `json:"shapes"`
	Procs  int      `json:"procs"`
	WdlMs  int      `json:"wdl_ms"`
	// Mode: "" | "during" | "self" (see above).  RunnerSlot: the slot (shape P) whose component is also the
	// ApplicationRunner; -1 = the runner is a component of its own.  RelBy: "during" only.
	Mode       string `json:"mode"`
	RunnerSlot int    `json:"runner_slot"`
	RelBy      int    `json:"rel_by"`
}

type Event struct {
	K   string `json:"k"` // call | ret | close
	I   int    `json:"i"`
	Err bool   `json:"err"`
}

type Out struct {
	ID         int     `json:"id"`
	Registered int     `json:"registered"`
	Events     []Event `json:"events"`
	Outcome    string  `json:"outcome"` // ok | hang | stalled | panic | runerr | skipped
	Detail     string  `json:"detail"`
}

const (
	stallTimeout = 5 * time.Second
	hangTimeout  = 8 * time.Second
)

type recorder struct {
	mu        sync.Mutex
	events    []Event
	n         int
	calls     int
	rets      int32
	allCalled chan struct{}
	closed    chan struct{}
	stalled   atomic.Bool

	// the runner of the modes "during" / "self"
	mode       string
	relBy      int
	release    chan struct{} // closed when the runner may return
	relOnce    sync.Once
	started    chan struct{} // closed when the runner's Run() has been entered
	startOnce  sync.Once
	app        *app.App
	registered int32 // len(App.CloserComponents) as the runner saw it (mode "self")
	runnerLost atomic.Bool
	closePanic string
}

func (r *recorder) releaseRunner() { r.relOnce.Do(func() { close(r.release) }) }

// runnerRun is Run() of the case's ApplicationRunner.
func (r *recorder) runnerRun() error {
	r.startOnce.Do(func() { close(r.started) })
	switch r.mode {
	case "during":
		select {
		case <-r.release:
		case <-time.After(hangTimeout + stallTimeout):
			r.runnerLost.Store(true) // nobody released the runner: give up so that the process can go on
		}
	case "self":
		atomic.StoreInt32(&r.registered, int32(len(r.app.CloserComponents)))
		r.closePanic = hx.Guard(func() { r.app.Close() })
		r.add(Event{K: "close"})
		close(r.closed)
	}
	return nil
}

// runner: an ApplicationRunner that is a component of its own.
type runner struct{ rec *recorder }

func (r *runner) Naming() string { return "runner" }
func (r *runner) Run() error     { return r.rec.runnerRun() }

// server: a closer that is also the ApplicationRunner (it "serves" inside Run until it is closed).
type server struct{ closer }

func (s *server) Run() error { return s.rec.runnerRun() }

func (r *recorder) add(e Event) {
	r.mu.Lock()
	r.events = append(r.events, e)
	if e.K == "call" {
		r.calls++
		if r.calls == r.n {
			close(r.allCalled)
		}
	}
	r.mu.Unlock()
}

// core is what one closer has to do and where it reports to.
type core struct {
	id   int
	kind string
	fail bool
	wdl  time.Duration
	rec  *recorder
}

// non-struct closers: the value carries the closer's id; behaviour and reporting are looked up in nstable
var (
	nsmu    sync.Mutex
	nstable = map[int]*core{}
)

func nsrun(id int) error {
	nsmu.Lock()
	c := nstable[id]
	nsmu.Unlock()
	if c == nil {
		return nil
	}
	return c.run()
}

type nsInt int

func (n *nsInt) Naming() string { return fmt.Sprintf("closer%d", int(*n)) }
func (n *nsInt) Close() error   { return nsrun(int(*n)) }

type nsSlice []int

func (n *nsSlice) Naming() string { return fmt.Sprintf("closer%d", (*n)[0]) }
func (n *nsSlice) Close() error   { return nsrun((*n)[0]) }

type nsChan chan int

func (n *nsChan) id() int        { v := <-*n; *n <- v; return v }
func (n *nsChan) Naming() string { return fmt.Sprintf("closer%d", n.id()) }
func (n *nsChan) Close() error   { return nsrun(n.id()) }

// closer: the ordinary shape.
type closer struct{ core }

func (c *closer) Naming() string { return fmt.Sprintf("closer%d", c.id) }
func (c *closer) Close() error   { return c.core.run() }

// outer: a closer whose first field is another closer that is registered on its own.
type outer struct {
	first closer
	self  core
}

func (o *outer) Naming() string { return fmt.Sprintf("closer%d", o.self.id) }
func (o *outer) Close() error   { return o.self.run() }

func (c *core) run() error {
	c.rec.add(Event{K: "call", I: c.id})
	if c.rec.mode == "during" && c.rec.relBy == c.id {
		c.rec.releaseRunner()
	}
	switch c.kind {
	case "A":
		select {
		case <-c.rec.allCalled:
		case <-c.rec.closed:
		case <-time.After(stallTimeout):
			c.rec.stalled.Store(true)
		}
	case "W":
		select {
		case <-c.rec.closed:
		case <-time.After(c.wdl):
		}
	}
	c.rec.add(Event{K: "ret", I: c.id, Err: c.fail})
	atomic.AddInt32(&c.rec.rets, 1)
	if c.fail {
		return errors.New("closer failed")
	}
	return nil
}

// build makes the components of a case in slot order (= registration order).
func build(c Case, rec *recorder) (comps []any, bad string) {
	mk := func(i int) core {
		return core{id: i + 1, kind: c.Kinds[i], fail: c.Fails[i], wdl: time.Duration(c.WdlMs) * time.Millisecond, rec: rec}
	}
	shape := func(i int) string {
		if i < len(c.Shapes) && c.Shapes[i] != "" {
			return c.Shapes[i]
		}
		return "P"
	}
	zreset()
	nsmu.Lock()
	nstable = map[int]*core{}
	nsmu.Unlock()
	comps = make([]any, c.N)
	for i := 0; i < c.N; i++ {
		sh := shape(i)
		switch {
		case sh == "P" && c.Mode != "" && c.RunnerSlot == i:
			comps[i] = &server{closer{core: mk(i)}}
		case sh == "P":
			comps[i] = &closer{core: mk(i)}
		case sh == "I":
			// made by its outer
		case strings.HasPrefix(sh, "Z"):
			k, err := strconv.Atoi(sh[1:])
			if err != nil || k < 0 || k >= len(zeroTypes) {
				return nil, "unknown zero-size type " + sh
			}
			if !zset(zeroTypes[k].name, mk(i)) {
				return nil, "zero-size type used twice " + sh
			}
			comps[i] = zeroTypes[k].mk()
		case strings.HasPrefix(sh, "N"):
			// a closer whose type is not a struct: a named int, slice or channel with a pointer-receiver Close()
			k, err := strconv.Atoi(sh[1:])
			if err != nil || k < 0 || k > 2 {
				return nil, "unknown non-struct closer " + sh
			}
			nsmu.Lock()
			nstable[i+1] = &[]core{mk(i)}[0]
			nsmu.Unlock()
			switch k {
			case 0:
				v := nsInt(i + 1)
				comps[i] = &v
			case 1:
				v := nsSlice{i + 1}
				comps[i] = &v
			default:
				v := make(nsChan, 1)
				v <- i + 1
				comps[i] = &v
			}
		case strings.HasPrefix(sh, "O:"):
			j, err := strconv.Atoi(sh[2:])
			if err != nil || j < 0 || j >= c.N || shape(j) != "I" || comps[j] != nil {
				return nil, "bad outer " + sh
			}
			o := &outer{first: closer{core: mk(j)}, self: mk(i)}
			comps[i], comps[j] = o, &o.first
		default:
			return nil, "unknown shape " + sh
		}
	}
	for i := range comps {
		if comps[i] == nil {
			return nil, fmt.Sprintf("slot %d (%s) has no component", i, shape(i))
		}
	}
	switch c.Mode {
	case "":
	case "during", "self":
		if c.RunnerSlot >= 0 {
			if c.RunnerSlot >= c.N || shape(c.RunnerSlot) != "P" {
				return nil, "the runner's slot must be an ordinary closer"
			}
		} else {
			comps = append(comps, &runner{rec: rec})
		}
		if c.RelBy < 0 || c.RelBy > c.N {
			return nil, "rel_by out of range"
		}
	default:
		return nil, "unknown mode " + c.Mode
	}
	return comps, ""
}

func runCase(c Case) (out Out) {
	out = Out{ID: c.ID, Outcome: "ok"}
	if c.Procs > 0 {
		old := runtime.GOMAXPROCS(c.Procs)
		defer runtime.GOMAXPROCS(old)
	}
	rec := &recorder{n: c.N, allCalled: make(chan struct{}), closed: make(chan struct{}),
		mode: c.Mode, relBy: c.RelBy, release: make(chan struct{}), started: make(chan struct{})}
	if c.N == 0 {
		close(rec.allCalled)
	}
	comps, bad := build(c, rec)
	if bad != "" {
		out.Outcome, out.Detail = "runerr", "bad case: "+bad
		return
	}
	defer zreset()
	a := app.NewApp()
	rec.app = a
	var runErr error
	runDone := make(chan string, 1)
	go func() {
		runDone <- hx.Guard(func() {
			runErr = a.Run(app.LogLevel(syslog.LvFatal), app.SetConfigLoader(), app.SetComponents(comps...))
		})
	}()
	runEnded := func(p string) bool { // true: the case is over
		if p != "" {
			out.Outcome, out.Detail = "panic", "Run: "+p
			return true
		}
		if runErr != nil {
			out.Outcome, out.Detail = "runerr", runErr.Error()
			return true
		}
		return false
	}
	wdl := time.Duration(c.WdlMs) * time.Millisecond
	switch c.Mode {
	case "":
		if runEnded(<-runDone) {
			return
		}
		out.Registered = len(a.CloserComponents)
	case "during":
		// Close is invoked while Run is still inside callRunners: wait until the blocking runner has started
		select {
		case <-rec.started:
		case p := <-runDone:
			if !runEnded(p) {
				out.Outcome, out.Detail = "runerr", "Run returned although the runner was never started"
			}
			return
		case <-time.After(hangTimeout):
			out.Outcome, out.Detail = "hang", "Run: the runner was never started"
			return
		}
		out.Registered = len(a.CloserComponents)
	case "self":
		// the runner calls App.Close() itself; the driver only waits for Run to return
		select {
		case p := <-runDone:
			if runEnded(p) {
				return
			}
			if rec.closePanic != "" {
				out.Outcome, out.Detail = "panic", "Close: "+rec.closePanic
			}
			select {
			case <-rec.started:
			default:
				out.Outcome, out.Detail = "runerr", "Run returned although the runner was never started"
				return
			}
		case <-time.After(hangTimeout + wdl):
			out.Outcome, out.Detail = "hang", "Run did not return: the runner is inside App.Close"
		}
		out.Registered = int(atomic.LoadInt32(&rec.registered))
	}
	if c.Mode != "self" {
		done := make(chan string, 1)
		go func() {
			p := hx.Guard(func() { a.Close() })
			rec.add(Event{K: "close"})
			close(rec.closed)
			if rec.mode == "during" && rec.relBy == 0 {
				rec.releaseRunner() // the runner is released by the driver once Close has returned
			}
			done <- p
		}()
		select {
		case p := <-done:
			if p != "" {
				out.Outcome, out.Detail = "panic", "Close: "+p
			}
		case <-time.After(hangTimeout + wdl):
			out.Outcome, out.Detail = "hang", "App.Close did not return"
			if c.Mode == "during" {
				out.Detail += " (Run is still inside callRunners)"
			}
		}
	}
	if c.Mode == "during" {
		rec.releaseRunner() // whatever happened: let Run go on, then it has to return
		select {
		case p := <-runDone:
			if out.Outcome == "ok" {
				runEnded(p)
			}
		case <-time.After(hangTimeout):
			if out.Outcome == "ok" {
				out.Outcome, out.Detail = "hang", "Run did not return after its runner was released"
			}
		}
		if rec.runnerLost.Load() && out.Outcome == "ok" {
			out.Outcome, out.Detail = "hang", "the runner was never released"
		}
	}
	// let every closer that was called finish (they are released by rec.closed); bounded
	deadline := time.Now().Add(2 * time.Second)
	for time.Now().Before(deadline) {
		rec.mu.Lock()
		calls := rec.calls
		rec.mu.Unlock()
		if int(atomic.LoadInt32(&rec.rets)) >= calls {
			break
		}
		time.Sleep(time.Millisecond)
	}
	if rec.stalled.Load() && out.Outcome == "ok" {
		out.Outcome = "stalled"
	}
	rec.mu.Lock()
	out.Events = append([]Event{}, rec.events...)
	rec.mu.Unlock()
	return out
}

func main() {
	var in struct {
		Cases   []Case `json:"cases"`
		MaxBad  int    `json:"max_bad"`
		Verbose bool   `json:"verbose"`
	}
	hx.ReadInput(&in)
	hx.Quiet()
	if in.MaxBad == 0 {
		in.MaxBad = 3
	}
	outs := make([]Out, 0, len(in.Cases))
	bad := 0
	for _, c := range in.Cases {
		if bad >= in.MaxBad {
			outs = append(outs, Out{ID: c.ID, Outcome: "skipped"})
			continue
		}
		o := runCase(c)
		if o.Outcome == "hang" || o.Outcome == "stalled" {
			bad++
		}
		outs = append(outs, o)
	}
	hx.WriteOutput(map[string]any{"outs": outs})
}
