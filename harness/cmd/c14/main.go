// Driver for C14: runs the real App.Close over generated closer sets and records a sequenced
// event history (call_i / ret_i / close_returned).  Nothing in the verdict depends on
// wall-clock ordering: the history order is the order of appends under one mutex.
//
// closer kinds:
//
//	F  returns at once
//	A  blocks until every closer of the case has been called (isolation probe).  If the others
//	   are never called it gives up after a generous timeout and the run is classified "stalled".
//	W  blocks until it observes that App.Close has already returned (that observation is the
//	   violation and shows in the history as close_returned before ret_i) or a short deadline.
//
// closer shapes (how the component is laid out in memory; identity must never be the address):
//
//	P    an ordinary pointer to a struct with state of its own
//	Zk   a pointer to the k-th ZERO-SIZE closer type of zero.go: every such pointer has the same
//	     address (runtime.zerobase); the instance cannot keep state, so what it has to do and
//	     what it did is kept per TYPE in ztable (keyed by the type name)
//	O:j  a struct whose FIRST field is the closer of slot j; both &outer and &outer.first are
//	     registered, two different components at one address
//	I    the first field of the O slot that points here
//
// when Close is invoked (Mode):
//
//	""        App.Run has returned, then the driver calls App.Close (the ordinary sequence)
//	"during"  App.Run runs in a goroutine and is still inside callRunners: an ApplicationRunner of the case has
//	          started and blocks ("serves") until it is released; the driver calls App.Close once that runner has
//	          started.  The runner is released either by the Close of closer RelBy being CALLED (RelBy = j > 0; with
//	          RunnerSlot = j-1 the runner and that closer are one component: a server that serves until it is
//	          closed) or by the driver after App.Close has returned (RelBy = 0).  App.Run must return afterwards.
//	"self"    an ApplicationRunner calls App.Close() itself from inside its Run(); the driver never calls Close.
//
//	"overlap" App.Run has returned; the driver issues Closes (2-3) calls of App.Close that OVERLAP: call k+1 is invoked
//	          while call k is certainly still running - at least one closer is of kind G (its Close() blocks until the
//	          driver opens the gate of that call), and the driver invokes call k+1 only when every closer has been entered k
//	          times (or call k has returned, which on such a case is already the violation).  When all calls have been
//	          invoked the driver opens the gates call by call in the order RelOrder (any permutation: a later call may
//	          return before an earlier one) and waits for that call to return.  Attribution: the j-th entry into a closer's
//	          Close() belongs to call j (every event carries that number, C).  Kinds per entry j: F returns at once; A blocks
//	          until every closer has been entered j times; W blocks until it sees that call j has already returned (the
//	          violation) or a short deadline; G blocks until the gate of call j is opened.
//
// how the closers reach the App (Isolate cases, mode "" only; each in a child process, because the library's global
// settings are process-wide and cannot be taken back):
//
//	ViaGlobal[i]   closer i is handed over through the GLOBAL settings - app.Settings(app.SetComponents(...)), spread
//	               over SettingsCalls calls of app.Settings - instead of the run option app.SetComponents
//	OwnRegistry    the run options begin with app.SetRegistry(support.NewRegistry()): the App works on a registry of the
//	               caller's (the globally supplied closers have to land in it too)
//	Pack           how the run options are passed: 0 one by one; 1 all of them as ONE app.Options(...) value; 2 the settings
//	               (log level, configuration loaders) as one app.Options(...) value, the others one by one
//	Boot           a second, "bootstrap" App with closers of its own is run by one of the run options of this App's Run
//	               (position BootAt among them), i.e. an App.Run that begins while another App.Run is applying its
//	               options; both Apps are closed afterwards, each must reach exactly its own closers (sub-result Boot)
//
// The oracle is the same in every mode: every closer called exactly once (by every call of Close), Close returns after
// all of its invocations returned, nothing hangs.
package main

import (
	"bytes"
	"encoding/json"
	"errors"
	"fmt"
	"os"
	"os/exec"
	"runtime"
	"strconv"
	"strings"
	"sync"
	"sync/atomic"
	"time"

	"github.com/go-kid/ioc/app"
	"github.com/go-kid/ioc/container/support"
	"github.com/go-kid/ioc/syslog"
	"verifharness/hx"
)

type Case struct {
	ID    int      `json:"id"`
	N     int      `json:"n"`
	Kinds []string `json:"kinds"`
	Fails []bool   `json:"fails"`
	// Shapes is parallel to Kinds; absent = every closer is an ordinary pointer ("P")
	Shapes []string `json:"shapes"`
	Procs  int      `json:"procs"`
	WdlMs  int      `json:"wdl_ms"`
	// Mode: "" | "during" | "self" (see above).  RunnerSlot: the slot (shape P) whose component is also the
	// ApplicationRunner; -1 = the runner is a component of its own.  RelBy: "during" only.
	Mode       string `json:"mode"`
	RunnerSlot int    `json:"runner_slot"`
	RelBy      int    `json:"rel_by"`
	// Mode "overlap": number of overlapping Close calls; the order in which their gates are opened (a permutation of 1..Closes)
	Closes   int   `json:"closes"`
	RelOrder []int `json:"rel_order"`
	// Isolate cases (see above)
	Isolate       bool   `json:"isolate"`
	ViaGlobal     []bool `json:"via_global"`
	SettingsCalls int    `json:"settings_calls"`
	OwnRegistry   bool   `json:"own_registry"`
	Pack          int    `json:"pack"`
	Boot          *Case  `json:"boot"`
	BootAt        int    `json:"boot_at"`
}

type Event struct {
	K   string `json:"k"` // call | ret | close | inv (mode "overlap": the driver invokes a call of App.Close)
	I   int    `json:"i"`
	Err bool   `json:"err"`
	C   int    `json:"c,omitempty"` // mode "overlap": the call of App.Close the event is attributed to (1-based)
}

type Out struct {
	ID         int     `json:"id"`
	Registered int     `json:"registered"`
	Events     []Event `json:"events"`
	Outcome    string  `json:"outcome"` // ok | hang | stalled | panic | runerr | skipped
	Detail     string  `json:"detail"`
	Boot       *Out    `json:"boot,omitempty"` // the bootstrap App of the case
}

const (
	stallTimeout = 5 * time.Second
	hangTimeout  = 8 * time.Second
)

type recorder struct {
	mu        sync.Mutex
	events    []Event
	n         int
	calls     int
	rets      int32
	allCalled chan struct{}
	closed    chan struct{}
	stalled   atomic.Bool

	// the runner of the modes "during" / "self"
	mode       string
	relBy      int
	release    chan struct{} // closed when the runner may return
	relOnce    sync.Once
	started    chan struct{} // closed when the runner's Run() has been entered
	startOnce  sync.Once
	app        *app.App
	registered int32 // len(App.CloserComponents) as the runner saw it (mode "self")
	runnerLost atomic.Bool
	closePanic string

	// mode "overlap" (index 0 unused)
	K        int
	ord      []int32         // per closer id: how often its Close() has been entered
	reached  []chan struct{} // reached[k] is closed when the closers have been entered k*n times in total
	closedK  []chan struct{} // closedK[k] is closed when call k of App.Close has returned
	gate     []chan struct{} // gate[k] is closed by the driver: the G closers of call k may return
	gateOnce []sync.Once
	gateLost atomic.Bool
}

func (r *recorder) openGate(k int) { r.gateOnce[k].Do(func() { close(r.gate[k]) }) }

func (r *recorder) releaseRunner() { r.relOnce.Do(func() { close(r.release) }) }

// runnerRun is Run() of the case's ApplicationRunner.
func (r *recorder) runnerRun() error {
	r.startOnce.Do(func() { close(r.started) })
	switch r.mode {
	case "during":
		select {
		case <-r.release:
		case <-time.After(hangTimeout + stallTimeout):
			r.runnerLost.Store(true) // nobody released the runner: give up so that the process can go on
		}
	case "self":
		atomic.StoreInt32(&r.registered, int32(len(r.app.CloserComponents)))
		r.closePanic = hx.Guard(func() { r.app.Close() })
		r.add(Event{K: "close"})
		close(r.closed)
	}
	return nil
}

// runner: an ApplicationRunner that is a component of its own.
type runner struct{ rec *recorder }

func (r *runner) Naming() string { return "runner" }
func (r *runner) Run() error     { return r.rec.runnerRun() }

// server: a closer that is also the ApplicationRunner (it "serves" inside Run until it is closed).
type server struct{ closer }

func (s *server) Run() error { return s.rec.runnerRun() }

func (r *recorder) add(e Event) {
	r.mu.Lock()
	r.events = append(r.events, e)
	if e.K == "call" {
		r.calls++
		if r.calls == r.n {
			close(r.allCalled)
		}
		if r.mode == "overlap" && r.n > 0 && r.calls%r.n == 0 && r.calls/r.n <= r.K {
			close(r.reached[r.calls/r.n])
		}
	}
	r.mu.Unlock()
}

// core is what one closer has to do and where it reports to.
type core struct {
	id   int
	kind string
	fail bool
	wdl  time.Duration
	rec  *recorder
}

// non-struct closers: the value carries the closer's id; behaviour and reporting are looked up in nstable
var (
	nsmu    sync.Mutex
	nstable = map[int]*core{}
)

func nsrun(id int) error {
	nsmu.Lock()
	c := nstable[id]
	nsmu.Unlock()
	if c == nil {
		return nil
	}
	return c.run()
}

type nsInt int

func (n *nsInt) Naming() string { return fmt.Sprintf("closer%d", int(*n)) }
func (n *nsInt) Close() error   { return nsrun(int(*n)) }

type nsSlice []int

func (n *nsSlice) Naming() string { return fmt.Sprintf("closer%d", (*n)[0]) }
func (n *nsSlice) Close() error   { return nsrun((*n)[0]) }

type nsChan chan int

func (n *nsChan) id() int        { v := <-*n; *n <- v; return v }
func (n *nsChan) Naming() string { return fmt.Sprintf("closer%d", n.id()) }
func (n *nsChan) Close() error   { return nsrun(n.id()) }

// closer: the ordinary shape.
type closer struct{ core }

func (c *closer) Naming() string { return fmt.Sprintf("closer%d", c.id) }
func (c *closer) Close() error   { return c.core.run() }

// appCloser: a closer that holds the App it is closed by (a dependency cycle through App.CloserComponents whose
// other end, "closer<i>", sorts before the App's own name and is therefore created first).
type appCloser struct {
	core
	App *app.App `wire:""`
}

func (c *appCloser) Naming() string { return fmt.Sprintf("closer%d", c.id) }
func (c *appCloser) Close() error   { return c.core.run() }

// outer: a closer whose first field is another closer that is registered on its own.
type outer struct {
	first closer
	self  core
}

func (o *outer) Naming() string { return fmt.Sprintf("closer%d", o.self.id) }
func (o *outer) Close() error   { return o.self.run() }

// runOverlap: one entry into the closer's Close() in mode "overlap"; j = the how-manieth entry it is = the call it belongs to
func (c *core) runOverlap() error {
	r := c.rec
	j := int(atomic.AddInt32(&r.ord[c.id], 1))
	r.add(Event{K: "call", I: c.id, C: j})
	if j <= r.K { // a surplus entry (more entries than calls of Close) returns at once
		switch c.kind {
		case "A":
			select {
			case <-r.reached[j]:
			case <-r.closedK[j]:
			case <-time.After(stallTimeout):
				r.stalled.Store(true)
			}
		case "W":
			select {
			case <-r.closedK[j]:
			case <-time.After(c.wdl):
			}
		case "G":
			select {
			case <-r.gate[j]:
			case <-time.After(2*hangTimeout + stallTimeout):
				r.gateLost.Store(true)
			}
		}
	}
	r.add(Event{K: "ret", I: c.id, Err: c.fail, C: j})
	atomic.AddInt32(&r.rets, 1)
	if c.fail {
		return errors.New("closer failed")
	}
	return nil
}

func (c *core) run() error {
	if c.rec.mode == "overlap" {
		return c.runOverlap()
	}
	c.rec.add(Event{K: "call", I: c.id})
	if c.rec.mode == "during" && c.rec.relBy == c.id {
		c.rec.releaseRunner()
	}
	switch c.kind {
	case "A":
		select {
		case <-c.rec.allCalled:
		case <-c.rec.closed:
		case <-time.After(stallTimeout):
			c.rec.stalled.Store(true)
		}
	case "W":
		select {
		case <-c.rec.closed:
		case <-time.After(c.wdl):
		}
	}
	c.rec.add(Event{K: "ret", I: c.id, Err: c.fail})
	atomic.AddInt32(&c.rec.rets, 1)
	if c.fail {
		return errors.New("closer failed")
	}
	return nil
}

// bcloser: a closer of the bootstrap App (ordinary shape, a name space of its own).
type bcloser struct{ core }

func (c *bcloser) Naming() string { return fmt.Sprintf("bootcloser%d", c.id) }
func (c *bcloser) Close() error   { return c.core.run() }

// bootRun is the bootstrap App of a case: built before the main App runs, run BY a run option of the main App.
type bootRun struct {
	c      Case
	rec    *recorder
	app    *app.App
	ran    bool
	runErr error
	panic_ string
}

func newBoot(c Case) *bootRun {
	rec := &recorder{n: c.N, allCalled: make(chan struct{}), closed: make(chan struct{}),
		release: make(chan struct{}), started: make(chan struct{})}
	if c.N == 0 {
		close(rec.allCalled)
	}
	return &bootRun{c: c, rec: rec, app: app.NewApp()}
}

// option: the run option of the main App that runs the bootstrap App
func (b *bootRun) option() app.SettingOption {
	return func(*app.App) {
		comps := make([]any, b.c.N)
		for i := 0; i < b.c.N; i++ {
			comps[i] = &bcloser{core{id: i + 1, kind: b.c.Kinds[i], fail: b.c.Fails[i],
				wdl: time.Duration(b.c.WdlMs) * time.Millisecond, rec: b.rec}}
		}
		b.ran = true
		b.panic_ = hx.Guard(func() {
			b.runErr = b.app.Run(app.SetConfigLoader(), app.SetComponents(comps...))
		})
	}
}

// finish closes the bootstrap App (after the main App has been closed) and reports like runCase does
func (b *bootRun) finish() *Out {
	out := &Out{ID: b.c.ID, Outcome: "ok"}
	switch {
	case !b.ran:
		out.Outcome, out.Detail = "runerr", "the run option that runs the bootstrap App was never applied"
		return out
	case b.panic_ != "":
		out.Outcome, out.Detail = "panic", "Run: "+b.panic_
		return out
	case b.runErr != nil:
		out.Outcome, out.Detail = "runerr", b.runErr.Error()
		return out
	}
	out.Registered = len(b.app.CloserComponents)
	done := make(chan string, 1)
	go func() {
		p := hx.Guard(func() { b.app.Close() })
		b.rec.add(Event{K: "close"})
		close(b.rec.closed)
		done <- p
	}()
	select {
	case p := <-done:
		if p != "" {
			out.Outcome, out.Detail = "panic", "Close: "+p
		}
	case <-time.After(hangTimeout + time.Duration(b.c.WdlMs)*time.Millisecond):
		out.Outcome, out.Detail = "hang", "App.Close did not return"
	}
	b.rec.settle()
	if b.rec.stalled.Load() && out.Outcome == "ok" {
		out.Outcome = "stalled"
	}
	b.rec.mu.Lock()
	out.Events = append([]Event{}, b.rec.events...)
	b.rec.mu.Unlock()
	return out
}

// settle lets every closer that was called finish (they are released by rec.closed); bounded
func (r *recorder) settle() {
	deadline := time.Now().Add(2 * time.Second)
	for time.Now().Before(deadline) {
		r.mu.Lock()
		calls := r.calls
		r.mu.Unlock()
		if int(atomic.LoadInt32(&r.rets)) >= calls {
			break
		}
		time.Sleep(time.Millisecond)
	}
}

// runOptions: the options of the main App's Run and what has to go into the global settings first
func runOptions(c Case, comps []any, boot *bootRun) (opts []app.SettingOption) {
	var local, global []any
	for i, comp := range comps {
		if i < len(c.ViaGlobal) && c.ViaGlobal[i] {
			global = append(global, comp)
		} else {
			local = append(local, comp)
		}
	}
	// the global settings, spread over SettingsCalls calls of app.Settings (a call without components sets an empty
	// group of options: it only makes the list of global options longer)
	for k := 0; k < c.SettingsCalls; k++ {
		lo, hi := k*len(global)/c.SettingsCalls, (k+1)*len(global)/c.SettingsCalls
		if hi > lo {
			app.Settings(app.SetComponents(global[lo:hi]...))
		} else {
			app.Settings(app.Options())
		}
	}
	if c.SettingsCalls == 0 {
		local = append(local, global...)
	}
	if c.OwnRegistry {
		opts = append(opts, app.SetRegistry(support.NewRegistry()))
	}
	if c.Pack == 2 {
		opts = append(opts, app.Options(app.LogLevel(syslog.LvFatal), app.SetConfigLoader()), app.SetComponents(local...))
	} else {
		opts = append(opts, app.LogLevel(syslog.LvFatal), app.SetConfigLoader(), app.SetComponents(local...))
	}
	if boot != nil {
		at := c.BootAt
		if c.OwnRegistry && at < 1 {
			at = 1 // the registry option stays first
		}
		if at > len(opts) {
			at = len(opts)
		}
		opts = append(opts[:at], append([]app.SettingOption{boot.option()}, opts[at:]...)...)
	}
	if c.Pack == 1 {
		opts = []app.SettingOption{app.Options(opts...)}
	}
	return
}

// build makes the components of a case in slot order (= registration order).
func build(c Case, rec *recorder) (comps []any, bad string) {
	mk := func(i int) core {
		return core{id: i + 1, kind: c.Kinds[i], fail: c.Fails[i], wdl: time.Duration(c.WdlMs) * time.Millisecond, rec: rec}
	}
	shape := func(i int) string {
		if i < len(c.Shapes) && c.Shapes[i] != "" {
			return c.Shapes[i]
		}
		return "P"
	}
	zreset()
	nsmu.Lock()
	nstable = map[int]*core{}
	nsmu.Unlock()
	comps = make([]any, c.N)
	for i := 0; i < c.N; i++ {
		sh := shape(i)
		switch {
		case sh == "P" && c.Mode != "" && c.RunnerSlot == i:
			comps[i] = &server{closer{core: mk(i)}}
		case sh == "P":
			comps[i] = &closer{core: mk(i)}
		case sh == "A":
			comps[i] = &appCloser{core: mk(i)}
		case sh == "I":
			// made by its outer
		case strings.HasPrefix(sh, "Z"):
			k, err := strconv.Atoi(sh[1:])
			if err != nil || k < 0 || k >= len(zeroTypes) {
				return nil, "unknown zero-size type " + sh
			}
			if !zset(zeroTypes[k].name, mk(i)) {
				return nil, "zero-size type used twice " + sh
			}
			comps[i] = zeroTypes[k].mk()
		case strings.HasPrefix(sh, "N"):
			// a closer whose type is not a struct: a named int, slice or channel with a pointer-receiver Close()
			k, err := strconv.Atoi(sh[1:])
			if err != nil || k < 0 || k > 2 {
				return nil, "unknown non-struct closer " + sh
			}
			nsmu.Lock()
			nstable[i+1] = &[]core{mk(i)}[0]
			nsmu.Unlock()
			switch k {
			case 0:
				v := nsInt(i + 1)
				comps[i] = &v
			case 1:
				v := nsSlice{i + 1}
				comps[i] = &v
			default:
				v := make(nsChan, 1)
				v <- i + 1
				comps[i] = &v
			}
		case strings.HasPrefix(sh, "O:"):
			j, err := strconv.Atoi(sh[2:])
			if err != nil || j < 0 || j >= c.N || shape(j) != "I" || comps[j] != nil {
				return nil, "bad outer " + sh
			}
			o := &outer{first: closer{core: mk(j)}, self: mk(i)}
			comps[i], comps[j] = o, &o.first
		default:
			return nil, "unknown shape " + sh
		}
	}
	for i := range comps {
		if comps[i] == nil {
			return nil, fmt.Sprintf("slot %d (%s) has no component", i, shape(i))
		}
	}
	switch c.Mode {
	case "":
	case "overlap":
		if c.Closes < 1 || c.Closes > 8 || len(c.RelOrder) != c.Closes {
			return nil, "overlap: closes / rel_order"
		}
		seen := map[int]bool{}
		for _, k := range c.RelOrder {
			if k < 1 || k > c.Closes || seen[k] {
				return nil, "overlap: rel_order is not a permutation"
			}
			seen[k] = true
		}
	case "during", "self":
		if c.RunnerSlot >= 0 {
			if c.RunnerSlot >= c.N || shape(c.RunnerSlot) != "P" {
				return nil, "the runner's slot must be an ordinary closer"
			}
		} else {
			comps = append(comps, &runner{rec: rec})
		}
		if c.RelBy < 0 || c.RelBy > c.N {
			return nil, "rel_by out of range"
		}
	default:
		return nil, "unknown mode " + c.Mode
	}
	return comps, ""
}

func runCase(c Case) (out Out) {
	out = Out{ID: c.ID, Outcome: "ok"}
	if c.Procs > 0 {
		old := runtime.GOMAXPROCS(c.Procs)
		defer runtime.GOMAXPROCS(old)
	}
	rec := &recorder{n: c.N, allCalled: make(chan struct{}), closed: make(chan struct{}),
		mode: c.Mode, relBy: c.RelBy, release: make(chan struct{}), started: make(chan struct{})}
	if c.N == 0 {
		close(rec.allCalled)
	}
	if c.Mode == "overlap" {
		rec.K = c.Closes
		rec.ord = make([]int32, c.N+1)
		rec.gateOnce = make([]sync.Once, c.Closes+1)
		for k := 0; k <= c.Closes; k++ {
			rec.reached = append(rec.reached, make(chan struct{}))
			rec.closedK = append(rec.closedK, make(chan struct{}))
			rec.gate = append(rec.gate, make(chan struct{}))
			if c.N == 0 {
				close(rec.reached[k])
			}
		}
	}
	comps, bad := build(c, rec)
	if bad != "" {
		out.Outcome, out.Detail = "runerr", "bad case: "+bad
		return
	}
	defer zreset()
	a := app.NewApp()
	rec.app = a
	var boot *bootRun
	if c.Boot != nil {
		boot = newBoot(*c.Boot)
		defer func() {
			if out.Outcome != "runerr" || boot.ran {
				out.Boot = boot.finish()
			}
		}()
	}
	opts := runOptions(c, comps, boot)
	var runErr error
	runDone := make(chan string, 1)
	go func() {
		runDone <- hx.Guard(func() {
			runErr = a.Run(opts...)
		})
	}()
	runEnded := func(p string) bool { // true: the case is over
		if p != "" {
			out.Outcome, out.Detail = "panic", "Run: "+p
			return true
		}
		if runErr != nil {
			out.Outcome, out.Detail = "runerr", runErr.Error()
			return true
		}
		return false
	}
	wdl := time.Duration(c.WdlMs) * time.Millisecond
	switch c.Mode {
	case "", "overlap":
		if runEnded(<-runDone) {
			return
		}
		out.Registered = len(a.CloserComponents)
	case "during":
		// Close is invoked while Run is still inside callRunners: wait until the blocking runner has started
		select {
		case <-rec.started:
		case p := <-runDone:
			if !runEnded(p) {
				out.Outcome, out.Detail = "runerr", "Run returned although the runner was never started"
			}
			return
		case <-time.After(hangTimeout):
			out.Outcome, out.Detail = "hang", "Run: the runner was never started"
			return
		}
		out.Registered = len(a.CloserComponents)
	case "self":
		// the runner calls App.Close() itself; the driver only waits for Run to return
		select {
		case p := <-runDone:
			if runEnded(p) {
				return
			}
			if rec.closePanic != "" {
				out.Outcome, out.Detail = "panic", "Close: "+rec.closePanic
			}
			select {
			case <-rec.started:
			default:
				out.Outcome, out.Detail = "runerr", "Run returned although the runner was never started"
				return
			}
		case <-time.After(hangTimeout + wdl):
			out.Outcome, out.Detail = "hang", "Run did not return: the runner is inside App.Close"
		}
		out.Registered = int(atomic.LoadInt32(&rec.registered))
	}
	if c.Mode == "overlap" {
		dones := make([]chan string, c.Closes+1)
		for k := 1; k <= c.Closes && out.Outcome == "ok"; k++ {
			dones[k] = make(chan string, 1)
			rec.add(Event{K: "inv", C: k})
			go func(k int) {
				p := hx.Guard(func() { a.Close() })
				rec.add(Event{K: "close", C: k})
				close(rec.closedK[k])
				dones[k] <- p
			}(k)
			// the next call is invoked only when every closer has been entered k times (while a G closer of this call is
			// still blocked) - or when this call has already returned
			select {
			case <-rec.reached[k]:
			case <-rec.closedK[k]:
			case <-time.After(hangTimeout):
				out.Outcome, out.Detail = "hang", fmt.Sprintf("call %d of App.Close: the closers were not all entered", k)
			}
		}
		for _, k := range c.RelOrder {
			rec.openGate(k)
			if dones[k] == nil {
				continue
			}
			select {
			case p := <-dones[k]:
				if p != "" && out.Outcome == "ok" {
					out.Outcome, out.Detail = "panic", "Close: "+p
				}
			case <-time.After(hangTimeout + wdl):
				if out.Outcome == "ok" {
					out.Outcome, out.Detail = "hang", fmt.Sprintf("call %d of App.Close did not return", k)
				}
			}
		}
		if rec.gateLost.Load() && out.Outcome == "ok" {
			out.Outcome, out.Detail = "hang", "a gate was never opened"
		}
	} else if c.Mode != "self" {
		done := make(chan string, 1)
		go func() {
			p := hx.Guard(func() { a.Close() })
			rec.add(Event{K: "close"})
			close(rec.closed)
			if rec.mode == "during" && rec.relBy == 0 {
				rec.releaseRunner() // the runner is released by the driver once Close has returned
			}
			done <- p
		}()
		select {
		case p := <-done:
			if p != "" {
				out.Outcome, out.Detail = "panic", "Close: "+p
			}
		case <-time.After(hangTimeout + wdl):
			out.Outcome, out.Detail = "hang", "App.Close did not return"
			if c.Mode == "during" {
				out.Detail += " (Run is still inside callRunners)"
			}
		}
	}
	if c.Mode == "during" {
		rec.releaseRunner() // whatever happened: let Run go on, then it has to return
		select {
		case p := <-runDone:
			if out.Outcome == "ok" {
				runEnded(p)
			}
		case <-time.After(hangTimeout):
			if out.Outcome == "ok" {
				out.Outcome, out.Detail = "hang", "Run did not return after its runner was released"
			}
		}
		if rec.runnerLost.Load() && out.Outcome == "ok" {
			out.Outcome, out.Detail = "hang", "the runner was never released"
		}
	}
	rec.settle()
	if rec.stalled.Load() && out.Outcome == "ok" {
		out.Outcome = "stalled"
	}
	rec.mu.Lock()
	out.Events = append([]Event{}, rec.events...)
	rec.mu.Unlock()
	return out
}

// runIsolated runs one case in a child process (the library's global settings are process-wide)
func runIsolated(self string, c Case) (out Out) {
	out = Out{ID: c.ID}
	data, _ := json.Marshal(c)
	cmd := exec.Command(self, "-child")
	cmd.Stdin = bytes.NewReader(data)
	var buf bytes.Buffer
	cmd.Stdout, cmd.Stderr = &buf, &buf
	if err := cmd.Start(); err != nil {
		out.Outcome, out.Detail = "panic", err.Error()
		return
	}
	done := make(chan error, 1)
	go func() { done <- cmd.Wait() }()
	select {
	case <-done:
	case <-time.After(4*hangTimeout + 2*time.Duration(c.WdlMs)*time.Millisecond):
		cmd.Process.Kill()
		<-done
		out.Outcome, out.Detail = "hang", "the child process did not finish"
		return
	}
	s := buf.String()
	if i := strings.LastIndex(s, "@@JSON "); i >= 0 {
		line := s[i+7:]
		if j := strings.IndexByte(line, '\n'); j >= 0 {
			line = line[:j]
		}
		var child Out
		if json.Unmarshal([]byte(line), &child) == nil {
			return child
		}
	}
	if len(s) > 1500 {
		s = s[len(s)-1500:]
	}
	out.Outcome, out.Detail = "panic", "child process: "+s
	return
}

func main() {
	if len(os.Args) > 1 && os.Args[1] == "-child" {
		os.Args = os.Args[:1]
		var c Case
		hx.ReadInput(&c)
		hx.Quiet()
		hx.WriteOutput(runCase(c))
		return
	}
	var in struct {
		Cases   []Case `json:"cases"`
		MaxBad  int    `json:"max_bad"`
		Verbose bool   `json:"verbose"`
	}
	hx.ReadInput(&in)
	hx.Quiet()
	if in.MaxBad == 0 {
		in.MaxBad = 3
	}
	outs := make([]Out, 0, len(in.Cases))
	bad := 0
	self, _ := os.Executable()
	// the isolated cases run in child processes, four at a time, while the others run here one after the other
	iso := map[int]chan Out{}
	sem := make(chan struct{}, 4)
	for i, c := range in.Cases {
		if c.Isolate {
			ch := make(chan Out, 1)
			iso[i] = ch
			go func(c Case) {
				sem <- struct{}{}
				defer func() { <-sem }()
				ch <- runIsolated(self, c)
			}(c)
		}
	}
	for i, c := range in.Cases {
		if ch, ok := iso[i]; ok {
			outs = append(outs, <-ch)
			continue
		}
		if bad >= in.MaxBad {
			outs = append(outs, Out{ID: c.ID, Outcome: "skipped"})
			continue
		}
		o := runCase(c)
		if o.Outcome == "hang" || o.Outcome == "stalled" {
			bad++
		}
		outs = append(outs, o)
	}
	hx.WriteOutput(map[string]any{"outs": outs})
}
