// Zero-size closer types for the C14 driver.  A pointer to a value of any of these types is the same address
// (every zero-size heap object lives at runtime.zerobase), so several DIFFERENT components of a case share one
// address.  Such a component cannot keep state of its own: what it has to do and where it reports is looked up
// by the NAME OF ITS TYPE in ztable, which the driver fills for the case at hand.
// Generated once (see tools/props/c14.py, N_ZERO_TYPES must equal len(zeroTypes)); all types have the same shape on purpose.
package main

import "sync"

var (
	zmu    sync.Mutex
	ztable = map[string]*core{}
)

func zreset() {
	zmu.Lock()
	ztable = map[string]*core{}
	zmu.Unlock()
}

func zset(name string, c core) bool {
	zmu.Lock()
	defer zmu.Unlock()
	if _, ok := ztable[name]; ok {
		return false
	}
	ztable[name] = &c
	return true
}

// zrun is Close() of the zero-size closer type `name`.
func zrun(name string) error {
	zmu.Lock()
	c := ztable[name]
	zmu.Unlock()
	if c == nil {
		// a closer that is not part of the case was called: nothing to report to
		return nil
	}
	return c.run()
}

type zeroType struct {
	name string
	mk   func() any
}

var zeroTypes = []zeroType{
	{"zc00", func() any { return new(zc00) }},
	{"zc01", func() any { return new(zc01) }},
	{"zc02", func() any { return new(zc02) }},
	{"zc03", func() any { return new(zc03) }},
	{"zc04", func() any { return new(zc04) }},
	{"zc05", func() any { return new(zc05) }},
	{"zc06", func() any { return new(zc06) }},
	{"zc07", func() any { return new(zc07) }},
	{"zc08", func() any { return new(zc08) }},
	{"zc09", func() any { return new(zc09) }},
	{"zc10", func() any { return new(zc10) }},
	{"zc11", func() any { return new(zc11) }},
	{"zc12", func() any { return new(zc12) }},
	{"zc13", func() any { return new(zc13) }},
	{"zc14", func() any { return new(zc14) }},
	{"zc15", func() any { return new(zc15) }},
}

type zc00 struct{}

func (*zc00) Close() error { return zrun("zc00") }

type zc01 struct{}

func (*zc01) Close() error { return zrun("zc01") }

type zc02 struct{}

func (*zc02) Close() error { return zrun("zc02") }

type zc03 struct{}

func (*zc03) Close() error { return zrun("zc03") }

type zc04 struct{}

func (*zc04) Close() error { return zrun("zc04") }

type zc05 struct{}

func (*zc05) Close() error { return zrun("zc05") }

type zc06 struct{ _ struct{} }

func (*zc06) Close() error { return zrun("zc06") }

type zc07 struct{ _ struct{} }

func (*zc07) Close() error { return zrun("zc07") }

type zc08 struct{ _ [0]int64 }

func (*zc08) Close() error { return zrun("zc08") }

type zc09 struct{ _ [0]int64 }

func (*zc09) Close() error { return zrun("zc09") }

type zc10 struct{ a, b struct{} }

func (*zc10) Close() error { return zrun("zc10") }

type zc11 struct{ a, b struct{} }

func (*zc11) Close() error { return zrun("zc11") }

type zc12 struct{}

func (*zc12) Close() error   { return zrun("zc12") }
func (*zc12) Naming() string { return "stateless-closer-12" }

type zc13 struct{}

func (*zc13) Close() error   { return zrun("zc13") }
func (*zc13) Naming() string { return "stateless-closer-13" }

type zc14 struct{}

func (*zc14) Close() error   { return zrun("zc14") }
func (*zc14) Naming() string { return "stateless-closer-14" }

type zc15 struct{}

func (*zc15) Close() error   { return zrun("zc15") }
func (*zc15) Naming() string { return "stateless-closer-15" }
