// Driver for C19: the tag argument grammar.
//
//	parse : component_definition.NewProperty(field, type, tag, tagVal) called directly; reports TagVal / TagStr,
//	        the argument map (Args().ForEach order), IsRequired() and Find / Has probes.
//	scan  : a runtime-built struct (reflect.StructOf) carrying the tag under key prop | value | wire is scanned
//	        by the real tag-scan processor (PostProcessDefinitionRegistry): covers the `prop` shorthand rewrite
//	        and the Required default.
//	e2e   : a runtime-built struct carrying a generated tag goes through a real app.Run.
//
// Byte strings travel as hex (JSON cannot carry arbitrary bytes). Panics are outcomes.
package main

import (
	"encoding/hex"
	"reflect"
	"strconv"

	"github.com/go-kid/ioc/app"
	"github.com/go-kid/ioc/component_definition"
	"github.com/go-kid/ioc/container"
	"github.com/go-kid/ioc/container/processors"
	"github.com/go-kid/ioc/container/support"
	"github.com/go-kid/ioc/syslog"
	"verifharness/hx"
)

type Probe struct {
	Name  string   `json:"name"`  // hex
	Wants []string `json:"wants"` // hex
}

type Case struct {
	ID       int     `json:"id"`
	Kind     string  `json:"kind"` // parse | scan | e2e
	Key      string  `json:"key"`  // scan/e2e: prop | value | wire
	Tag      string  `json:"tag"`  // hex
	Probes   []Probe `json:"probes"`
	Provider bool    `json:"provider"` // e2e wire: a component of the field's type is registered
}

type Arg struct {
	K string   `json:"k"`
	V []string `json:"v"`
}

type ProbeOut struct {
	FPanic bool     `json:"fpanic"` // Find panicked
	Found  bool     `json:"found"`
	Vals   []string `json:"vals"`
	HPanic bool     `json:"hpanic"` // Has panicked
	Has    bool     `json:"has"`    // Has(name)
	HasW   bool     `json:"hasw"`   // Has(name, wants...)
}

type Out struct {
	ID       int        `json:"id"`
	Panic    string     `json:"panic"`
	NProps   int        `json:"nprops"`
	PropTag  string     `json:"proptag"` // Property.Tag
	TagVal   string     `json:"tagval"`  // hex
	TagStr   string     `json:"tagstr"`  // hex
	Args     []Arg      `json:"args"`
	Required bool       `json:"required"`
	Probes   []ProbeOut `json:"probes"`
	// e2e
	Failed   bool   `json:"failed"`   // app.Run returned an error
	FieldNil bool   `json:"fieldnil"` // pointer field left nil
	FieldStr string `json:"fieldstr"` // hex of a string field's value
}

func unhex(s string) string {
	b, err := hex.DecodeString(s)
	if err != nil {
		panic("bad hex input: " + s)
	}
	return string(b)
}

func hexs(s string) string { return hex.EncodeToString([]byte(s)) }

func hexAll(ss []string) []string {
	r := make([]string, 0, len(ss))
	for _, s := range ss {
		r = append(r, hexs(s))
	}
	return r
}

func observe(p *component_definition.Property, c Case, out *Out) {
	out.PropTag = p.Tag
	out.TagVal = hexs(p.TagVal)
	out.TagStr = hexs(p.TagStr)
	out.Args = []Arg{}
	p.Args().ForEach(func(t component_definition.ArgType, args []string) {
		out.Args = append(out.Args, Arg{K: hexs(string(t)), V: hexAll(args)})
	})
	// cross-check ForEach against a plain range over the map
	n := 0
	for range p.Args() {
		n++
	}
	if n != len(out.Args) {
		panic("ForEach and range disagree on the number of arguments")
	}
	out.Required = p.IsRequired()
	out.Probes = []ProbeOut{}
	for _, pr := range c.Probes {
		var po ProbeOut
		name := component_definition.ArgType(unhex(pr.Name))
		wants := make([]string, 0, len(pr.Wants))
		for _, w := range pr.Wants {
			wants = append(wants, unhex(w))
		}
		po.FPanic = hx.Guard(func() {
			vals, ok := p.Args().Find(name)
			po.Found = ok
			po.Vals = hexAll(vals)
		}) != ""
		po.HPanic = hx.Guard(func() {
			po.Has = p.Args().Has(name)
			po.HasW = p.Args().Has(name, wants...)
		}) != ""
		if po.Vals == nil {
			po.Vals = []string{}
		}
		out.Probes = append(out.Probes, po)
	}
}

type Dep struct{ X int }
type Missing struct{ X int }

func structWith(key, tagVal string, ft reflect.Type) reflect.Type {
	tag := reflect.StructTag(key + ":" + strconv.Quote(tagVal))
	if got, ok := tag.Lookup(key); !ok || got != tagVal {
		panic("struct tag does not round-trip")
	}
	return reflect.StructOf([]reflect.StructField{{Name: "F", Type: ft, Tag: tag}})
}

func runCase(c Case) (out Out) {
	out = Out{ID: c.ID, Args: []Arg{}, Probes: []ProbeOut{}}
	tagVal := unhex(c.Tag)
	out.Panic = hx.Guard(func() {
		switch c.Kind {
		case "parse":
			p := component_definition.NewProperty(&component_definition.Field{}, component_definition.PropertyTypeComponent, "wire", tagVal)
			out.NProps = 1
			observe(p, c, &out)
		case "scan":
			var proc container.InstantiationAwareComponentPostProcessor
			ft := reflect.TypeOf("")
			if c.Key == "wire" {
				proc = processors.NewDependencyAwarePostProcessors()
				ft = reflect.TypeOf((*Dep)(nil))
			} else {
				proc = processors.NewValueAwarePostProcessors()
			}
			comp := reflect.New(structWith(c.Key, tagVal, ft)).Interface()
			reg := support.DefaultDefinitionRegistry()
			err := proc.(container.DefinitionRegistryPostProcessor).PostProcessDefinitionRegistry(reg, comp, "c")
			if err != nil {
				panic("scan error: " + err.Error())
			}
			props := reg.GetMetaByName("c").GetAllProperties()
			out.NProps = len(props)
			if len(props) == 1 {
				observe(props[0], c, &out)
			}
		case "e2e":
			ft := reflect.TypeOf("")
			comps := []any{}
			if c.Key == "wire" {
				if c.Provider {
					ft = reflect.TypeOf((*Dep)(nil))
					comps = append(comps, &Dep{X: 7})
				} else {
					ft = reflect.TypeOf((*Missing)(nil))
				}
			}
			holder := reflect.New(structWith(c.Key, tagVal, ft))
			comps = append(comps, holder.Interface())
			a := app.NewApp()
			err := a.Run(app.LogLevel(syslog.LvFatal), app.SetConfigLoader(), app.SetComponents(comps...))
			out.Failed = err != nil
			f := holder.Elem().Field(0)
			if f.Kind() == reflect.Pointer {
				out.FieldNil = f.IsNil()
			} else {
				out.FieldStr = hexs(f.String())
			}
		default:
			panic("bad kind " + c.Kind)
		}
	})
	return out
}

func main() {
	var in struct {
		Cases []Case `json:"cases"`
	}
	hx.ReadInput(&in)
	hx.Quiet()
	outs := make([]Out, 0, len(in.Cases))
	for _, c := range in.Cases {
		outs = append(outs, runCase(c))
	}
	hx.WriteOutput(map[string]any{"outs": outs})
}
