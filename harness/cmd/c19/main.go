// Driver for C19: the tag argument grammar.
//
//	parse : component_definition.NewProperty(field, type, tag, tagVal) called directly; reports TagVal / TagStr,
//	        the argument map (Args().ForEach order), IsRequired() and Find / Has probes.
//	scan  : a runtime-built struct (reflect.StructOf) carrying the tag under key prop | value | wire is scanned
//	        by the real tag-scan processor (PostProcessDefinitionRegistry): covers the `prop` shorthand rewrite
//	        and the Required default.
//	e2e   : a runtime-built struct carrying a generated tag goes through a real app.Run.
//
// again : every parse must be independent of earlier parses of the same tag text and of what callers did with the
//
//	earlier results.  again = 1 | 2: the tag is first parsed in the case's own way (parse / scan), the
//	observation is kept as "first", then the driver scribbles over everything reachable from that result
//	(every item of every value slice overwritten in place through ForEach and Find, slices sorted and
//	appended to, the public Property.SetArg / AddArg called with junk on every existing and on new names,
//	Required=false among them) and the SAME tag text is parsed once more into a fresh Property, which is the
//	case's observation.  again = 2 does the first parse in another context (another Field object / property
//	type / tag key for direct parses; another struct type, field name, component name and registry for
//	scans) and scribbles over one more direct parse of the raw text.  For app.Run cases again = 1 scribbles
//	over a direct parse of the text before the start; again = 2 additionally starts ANOTHER App first whose
//	components carry the same tag and in which an application-defined post-processor scribbles over the
//	arguments of every property it is shown.
//
// Byte strings travel as hex (JSON cannot carry arbitrary bytes). Panics are outcomes.
package main

import (
	"encoding/hex"
	"reflect"
	"sort"
	"strconv"

	"github.com/go-kid/ioc/app"
	"github.com/go-kid/ioc/component_definition"
	"github.com/go-kid/ioc/container"
	"github.com/go-kid/ioc/container/processors"
	"github.com/go-kid/ioc/container/support"
	"github.com/go-kid/ioc/syslog"
	"verifharness/hx"
)

type Probe struct {
	Name  string   `json:"name"`  // hex
	Wants []string `json:"wants"` // hex
}

type Case struct {
	ID       int     `json:"id"`
	Kind     string  `json:"kind"` // parse | scan | e2e
	Key      string  `json:"key"`  // scan/e2e: prop | value | wire
	Tag      string  `json:"tag"`  // hex
	Probes   []Probe `json:"probes"`
	Provider bool    `json:"provider"` // e2e wire: a component of the field's type is registered
	Again    int     `json:"again"`    // 0 | 1 | 2: parse, scribble over the result, parse the same text again
}

type Arg struct {
	K string   `json:"k"`
	V []string `json:"v"`
}

type ProbeOut struct {
	FPanic bool     `json:"fpanic"` // Find panicked
	Found  bool     `json:"found"`
	Vals   []string `json:"vals"`
	HPanic bool     `json:"hpanic"` // Has panicked
	Has    bool     `json:"has"`    // Has(name)
	HasW   bool     `json:"hasw"`   // Has(name, wants...)
}

type Out struct {
	ID       int        `json:"id"`
	Panic    string     `json:"panic"`
	NProps   int        `json:"nprops"`
	PropTag  string     `json:"proptag"` // Property.Tag
	TagVal   string     `json:"tagval"`  // hex
	TagStr   string     `json:"tagstr"`  // hex
	Args     []Arg      `json:"args"`
	Required bool       `json:"required"`
	Probes   []ProbeOut `json:"probes"`
	// e2e
	Failed   bool   `json:"failed"`   // app.Run returned an error
	FieldNil bool   `json:"fieldnil"` // pointer field left nil
	FieldStr string `json:"fieldstr"` // hex of a string field's value
	// again (parse / scan): the observation of the parse BEFORE the driver scribbled over its result
	First *Out `json:"first,omitempty"`
}

func unhex(s string) string {
	b, err := hex.DecodeString(s)
	if err != nil {
		panic("bad hex input: " + s)
	}
	return string(b)
}

func hexs(s string) string { return hex.EncodeToString([]byte(s)) }

func hexAll(ss []string) []string {
	r := make([]string, 0, len(ss))
	for _, s := range ss {
		r = append(r, hexs(s))
	}
	return r
}

func observe(p *component_definition.Property, c Case, out *Out) {
	out.PropTag = p.Tag
	out.TagVal = hexs(p.TagVal)
	out.TagStr = hexs(p.TagStr)
	out.Args = []Arg{}
	p.Args().ForEach(func(t component_definition.ArgType, args []string) {
		out.Args = append(out.Args, Arg{K: hexs(string(t)), V: hexAll(args)})
	})
	// cross-check ForEach against a plain range over the map
	n := 0
	for range p.Args() {
		n++
	}
	if n != len(out.Args) {
		panic("ForEach and range disagree on the number of arguments")
	}
	out.Required = p.IsRequired()
	out.Probes = []ProbeOut{}
	for _, pr := range c.Probes {
		var po ProbeOut
		name := component_definition.ArgType(unhex(pr.Name))
		wants := make([]string, 0, len(pr.Wants))
		for _, w := range pr.Wants {
			wants = append(wants, unhex(w))
		}
		po.FPanic = hx.Guard(func() {
			vals, ok := p.Args().Find(name)
			po.Found = ok
			po.Vals = hexAll(vals)
		}) != ""
		po.HPanic = hx.Guard(func() {
			po.Has = p.Args().Has(name)
			po.HasW = p.Args().Has(name, wants...)
		}) != ""
		if po.Vals == nil {
			po.Vals = []string{}
		}
		out.Probes = append(out.Probes, po)
	}
}

// scribble overwrites everything a caller can reach from a parsed property
func scribble(p *component_definition.Property) {
	var names []component_definition.ArgType
	p.Args().ForEach(func(t component_definition.ArgType, args []string) {
		names = append(names, t)
		for i := range args {
			args[i] = "\x01scribbled" + strconv.Itoa(i)
		}
		_ = append(args, "appended") // lands in spare capacity, if there is any
		sort.Sort(sort.Reverse(sort.StringSlice(args)))
	})
	for _, n := range names {
		if vals, ok := p.Args().Find(n); ok {
			for i := range vals {
				vals[i] = "~" + vals[i]
			}
		}
	}
	for _, n := range names {
		p.SetArg(n, "junk-set")
		p.AddArg(n, "junk-add", "false")
	}
	p.SetArg(component_definition.ArgRequired, "false")
	p.AddArg(component_definition.ArgQualifier, "junk-qualifier")
	p.SetArg("zzNew", "1", "2")
	p.AddArg("mapper", "junkmapper")
	p.AddArg("a", "junk-a")
	p.SetArg("x")
}

// scribbler: an application-defined post-processor that rewrites the arguments of every property it is shown
type scribbler struct {
	processors.DefaultInstantiationAwareComponentPostProcessor
}

func (s *scribbler) PostProcessAfterInstantiation(component any, componentName string) (bool, error) {
	return true, nil
}

func (s *scribbler) PostProcessProperties(properties []*component_definition.Property, component any, componentName string) ([]*component_definition.Property, error) {
	for _, p := range properties {
		if _, own := component.(*app.App); !own {
			scribble(p)
		}
	}
	return nil, nil
}

type Dep struct{ X int }
type Missing struct{ X int }

func structWith(key, tagVal string, ft reflect.Type) reflect.Type {
	tag := reflect.StructTag(key + ":" + strconv.Quote(tagVal))
	if got, ok := tag.Lookup(key); !ok || got != tagVal {
		panic("struct tag does not round-trip")
	}
	return reflect.StructOf([]reflect.StructField{{Name: "F", Type: ft, Tag: tag}})
}

// the same tag on another struct type: another field name behind an untagged field
func otherStructWith(key, tagVal string, ft reflect.Type) reflect.Type {
	tag := reflect.StructTag(key + ":" + strconv.Quote(tagVal))
	return reflect.StructOf([]reflect.StructField{{Name: "A", Type: reflect.TypeOf(0)}, {Name: "G", Type: ft, Tag: tag}})
}

func directParse(tagVal string, other bool) *component_definition.Property {
	if other {
		return component_definition.NewProperty(&component_definition.Field{StructField: reflect.StructField{Name: "Other"}},
			component_definition.PropertyTypeConfiguration, "value", tagVal)
	}
	return component_definition.NewProperty(&component_definition.Field{}, component_definition.PropertyTypeComponent, "wire", tagVal)
}

func scanParse(key, tagVal string, other bool) []*component_definition.Property {
	var proc container.InstantiationAwareComponentPostProcessor
	ft := reflect.TypeOf("")
	if key == "wire" {
		proc = processors.NewDependencyAwarePostProcessors()
		ft = reflect.TypeOf((*Dep)(nil))
	} else {
		proc = processors.NewValueAwarePostProcessors()
	}
	st, name := structWith(key, tagVal, ft), "c"
	if other {
		st, name = otherStructWith(key, tagVal, ft), "d"
	}
	comp := reflect.New(st).Interface()
	reg := support.DefaultDefinitionRegistry()
	err := proc.(container.DefinitionRegistryPostProcessor).PostProcessDefinitionRegistry(reg, comp, name)
	if err != nil {
		panic("scan error: " + err.Error())
	}
	return reg.GetMetaByName(name).GetAllProperties()
}

func runCase(c Case) (out Out) {
	out = Out{ID: c.ID, Args: []Arg{}, Probes: []ProbeOut{}}
	tagVal := unhex(c.Tag)
	out.Panic = hx.Guard(func() {
		switch c.Kind {
		case "parse":
			if c.Again > 0 {
				p1 := directParse(tagVal, c.Again == 2)
				first := Out{ID: c.ID, NProps: 1}
				observe(p1, c, &first)
				out.First = &first
				scribble(p1)
				if c.Again == 2 {
					scribble(directParse(tagVal, false))
				}
			}
			p := directParse(tagVal, false)
			out.NProps = 1
			observe(p, c, &out)
		case "scan":
			if c.Again > 0 {
				props1 := scanParse(c.Key, tagVal, c.Again == 2)
				first := Out{ID: c.ID, NProps: len(props1), Args: []Arg{}, Probes: []ProbeOut{}}
				if len(props1) == 1 {
					observe(props1[0], c, &first)
				}
				out.First = &first
				for _, p1 := range props1 {
					scribble(p1)
				}
				if c.Again == 2 {
					scribble(directParse(tagVal, true))
				}
			}
			props := scanParse(c.Key, tagVal, false)
			out.NProps = len(props)
			if len(props) == 1 {
				observe(props[0], c, &out)
			}
		case "e2e":
			ft := reflect.TypeOf("")
			comps := []any{}
			if c.Key == "wire" {
				if c.Provider {
					ft = reflect.TypeOf((*Dep)(nil))
					comps = append(comps, &Dep{X: 7})
				} else {
					ft = reflect.TypeOf((*Missing)(nil))
				}
			}
			if c.Again > 0 {
				scribble(directParse(tagVal, c.Again == 2))
			}
			if c.Again == 2 {
				// another App of the same process, started earlier, whose components carry the same tag text
				pre := []any{&scribbler{}, reflect.New(otherStructWith(c.Key, tagVal, ft)).Interface(),
					reflect.New(structWith(c.Key, tagVal, ft)).Interface()}
				if c.Provider {
					pre = append(pre, &Dep{X: 1})
				}
				_ = hx.Guard(func() {
					_ = app.NewApp().Run(app.LogLevel(syslog.LvFatal), app.SetConfigLoader(), app.SetComponents(pre...))
				})
			}
			holder := reflect.New(structWith(c.Key, tagVal, ft))
			comps = append(comps, holder.Interface())
			a := app.NewApp()
			err := a.Run(app.LogLevel(syslog.LvFatal), app.SetConfigLoader(), app.SetComponents(comps...))
			out.Failed = err != nil
			f := holder.Elem().Field(0)
			if f.Kind() == reflect.Pointer {
				out.FieldNil = f.IsNil()
			} else {
				out.FieldStr = hexs(f.String())
			}
		default:
			panic("bad kind " + c.Kind)
		}
	})
	return out
}

func main() {
	var in struct {
		Cases []Case `json:"cases"`
	}
	hx.ReadInput(&in)
	hx.Quiet()
	outs := make([]Out, 0, len(in.Cases))
	for _, c := range in.Cases {
		outs = append(outs, runCase(c))
	}
	hx.WriteOutput(map[string]any{"outs": outs})
}
