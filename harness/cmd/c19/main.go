// Driver for C19: the tag argument grammar.
//
//	parse : component_definition.NewProperty(field, type, tag, tagVal) called directly; reports TagVal / TagStr,
//	        the argument map (Args().ForEach order), IsRequired() and Find / Has probes.
//	scan  : a runtime-built struct (reflect.StructOf) carrying the tag under key prop | value | wire is scanned
//	        by the real tag-scan processor (PostProcessDefinitionRegistry): covers the `prop` shorthand rewrite
//	        and the Required default.
//	e2e   : a runtime-built struct carrying a generated tag (key wire | value | prop) goes through a real app.Run;
//	        prop: the shorthand's key is absent from / present in the start's configuration (config).
//
// again : every parse must be independent of earlier parses of the same tag text and of what callers did with the
//
//	earlier results.  again = 1 | 2: the tag is first parsed in the case's own way (parse / scan), the
//	observation is kept as "first", then the driver scribbles over everything reachable from that result
//	(every item of every value slice overwritten in place through ForEach and Find, slices sorted and
//	appended to, the public Property.SetArg / AddArg called with junk on every existing and on new names,
//	Required=false among them) and the SAME tag text is parsed once more into a fresh Property, which is the
//	case's observation.  again = 2 does the first parse in another context (another Field object / property
//	type / tag key for direct parses; another struct type, field name, component name and registry for
//	scans) and scribbles over one more direct parse of the raw text.  For app.Run cases again = 1 scribbles
//	over a direct parse of the text before the start; again = 2 additionally starts ANOTHER App first whose
//	components carry the same tag and in which an application-defined post-processor scribbles over the
//	arguments of every property it is shown.
//
// ops   : THE EXPORTED ARGUMENT API of a parsed Property (parse / scan).  After the parse was observed the driver calls
//
//	Property.SetArg / AddArg (via 0) or Args().Set / Add (via 1) with the names and values of the case, in
//	order, and observes the table again ("after": ForEach, IsRequired, Find / Has probes under the spellings
//	the case lists, and the library's own rendering Args().String()).
//
// Byte strings travel as hex (JSON cannot carry arbitrary bytes). Panics are outcomes.
package main

import (
	"encoding/hex"
	"reflect"
	"sort"
	"strconv"

	"github.com/go-kid/ioc/app"
	"github.com/go-kid/ioc/component_definition"
	"github.com/go-kid/ioc/configure/loader"
	"github.com/go-kid/ioc/container"
	"github.com/go-kid/ioc/container/processors"
	"github.com/go-kid/ioc/container/support"
	"github.com/go-kid/ioc/syslog"
	"verifharness/hx"
)

type Probe struct {
	Name  string   `json:"name"`  // hex
	Wants []string `json:"wants"` // hex
}

type Op struct {
	K    string   `json:"k"`    // set | add
	Via  int      `json:"via"`  // 0: Property.SetArg / AddArg   1: Property.Args().Set / Add
	Name string   `json:"name"` // hex
	Vals []string `json:"vals"` // hex
}

type Case struct {
	ID       int     `json:"id"`
	Kind     string  `json:"kind"` // parse | scan | e2e
	Key      string  `json:"key"`  // scan/e2e: prop | value | wire
	Tag      string  `json:"tag"`  // hex
	Probes   []Probe `json:"probes"`
	Provider bool    `json:"provider"` // e2e wire: a component of the field's type is registered
	Again    int     `json:"again"`    // 0 | 1 | 2: parse, scribble over the result, parse the same text again
	Ops      []Op    `json:"ops"`      // argument API calls on the parsed Property, in order
	OProbes  []Probe `json:"oprobes"`  // lookups after the calls
	Config   string  `json:"config"`   // e2e: YAML document of the start's only configuration loader ("" = no loader)
}

type Arg struct {
	K string   `json:"k"`
	V []string `json:"v"`
}

type ProbeOut struct {
	FPanic bool     `json:"fpanic"` // Find panicked
	Found  bool     `json:"found"`
	Vals   []string `json:"vals"`
	HPanic bool     `json:"hpanic"` // Has panicked
	Has    bool     `json:"has"`    // Has(name)
	HasW   bool     `json:"hasw"`   // Has(name, wants...)
}

type Out struct {
	ID       int        `json:"id"`
	Panic    string     `json:"panic"`
	NProps   int        `json:"nprops"`
	PropTag  string     `json:"proptag"` // Property.Tag
	TagVal   string     `json:"tagval"`  // hex
	TagStr   string     `json:"tagstr"`  // hex
	Args     []Arg      `json:"args"`
	Required bool       `json:"required"`
	Probes   []ProbeOut `json:"probes"`
	// e2e
	Failed   bool   `json:"failed"`   // app.Run returned an error
	FieldNil bool   `json:"fieldnil"` // pointer field left nil
	FieldStr string `json:"fieldstr"` // hex of a string field's value
	// again (parse / scan): the observation of the parse BEFORE the driver scribbled over its result
	First *Out `json:"first,omitempty"`
	// ops: the table after the argument API calls (Args, Required, Probes for the case's oprobes, Str)
	After *Out   `json:"after,omitempty"`
	Str   string `json:"str"` // hex of Args().String()
}

func unhex(s string) string {
	b, err := hex.DecodeString(s)
	if err != nil {
		panic("bad hex input: " + s)
	}
	return string(b)
}

func hexs(s string) string { return hex.EncodeToString([]byte(s)) }

func hexAll(ss []string) []string {
	r := make([]string, 0, len(ss))
	for _, s := range ss {
		r = append(r, hexs(s))
	}
	return r
}

func observe(p *component_definition.Property, c Case, out *Out) {
	out.PropTag = p.Tag
	out.TagVal = hexs(p.TagVal)
	out.TagStr = hexs(p.TagStr)
	out.Args = []Arg{}
	p.Args().ForEach(func(t component_definition.ArgType, args []string) {
		out.Args = append(out.Args, Arg{K: hexs(string(t)), V: hexAll(args)})
	})
	// cross-check ForEach against a plain range over the map
	n := 0
	for range p.Args() {
		n++
	}
	if n != len(out.Args) {
		panic("ForEach and range disagree on the number of arguments")
	}
	out.Required = p.IsRequired()
	out.Probes = []ProbeOut{}
	for _, pr := range c.Probes {
		var po ProbeOut
		name := component_definition.ArgType(unhex(pr.Name))
		wants := make([]string, 0, len(pr.Wants))
		for _, w := range pr.Wants {
			wants = append(wants, unhex(w))
		}
		po.FPanic = hx.Guard(func() {
			vals, ok := p.Args().Find(name)
			po.Found = ok
			po.Vals = hexAll(vals)
		}) != ""
		po.HPanic = hx.Guard(func() {
			po.Has = p.Args().Has(name)
			po.HasW = p.Args().Has(name, wants...)
		}) != ""
		if po.Vals == nil {
			po.Vals = []string{}
		}
		out.Probes = append(out.Probes, po)
	}
}

// applyOps drives the exported argument API and observes the table afterwards
func applyOps(p *component_definition.Property, c Case, out *Out) {
	if len(c.Ops) == 0 {
		return
	}
	for _, op := range c.Ops {
		name := component_definition.ArgType(unhex(op.Name))
		vals := make([]string, 0, len(op.Vals))
		for _, v := range op.Vals {
			vals = append(vals, unhex(v))
		}
		switch {
		case op.K == "set" && op.Via == 0:
			p.SetArg(name, vals...)
		case op.K == "set":
			p.Args().Set(name, vals...)
		case op.K == "add" && op.Via == 0:
			p.AddArg(name, vals...)
		case op.K == "add":
			p.Args().Add(name, vals...)
		default:
			panic("bad op " + op.K)
		}
	}
	after := Out{ID: c.ID, NProps: 1}
	c2 := c
	c2.Probes = c.OProbes
	observe(p, c2, &after)
	after.Str = hexs(p.Args().String())
	out.After = &after
}

// scribble overwrites everything a caller can reach from a parsed property
func scribble(p *component_definition.Property) {
	var names []component_definition.ArgType
	p.Args().ForEach(func(t component_definition.ArgType, args []string) {
		names = append(names, t)
		for i := range args {
			args[i] = "\x01scribbled" + strconv.Itoa(i)
		}
		_ = append(args, "appended") // lands in spare capacity, if there is any
		sort.Sort(sort.Reverse(sort.StringSlice(args)))
	})
	for _, n := range names {
		if vals, ok := p.Args().Find(n); ok {
			for i := range vals {
				vals[i] = "~" + vals[i]
			}
		}
	}
	for _, n := range names {
		p.SetArg(n, "junk-set")
		p.AddArg(n, "junk-add", "false")
	}
	p.SetArg(component_definition.ArgRequired, "false")
	p.AddArg(component_definition.ArgQualifier, "junk-qualifier")
	p.SetArg("zzNew", "1", "2")
	p.AddArg("mapper", "junkmapper")
	p.AddArg("a", "junk-a")
	p.SetArg("x")
}

// scribbler: an application-defined post-processor that rewrites the arguments of every property it is shown
type scribbler struct {
	processors.DefaultInstantiationAwareComponentPostProcessor
}

func (s *scribbler) PostProcessAfterInstantiation(component any, componentName string) (bool, error) {
	return true, nil
}

func (s *scribbler) PostProcessProperties(properties []*component_definition.Property, component any, componentName string) ([]*component_definition.Property, error) {
	for _, p := range properties {
		if _, own := component.(*app.App); !own {
			scribble(p)
		}
	}
	return nil, nil
}

type Dep struct{ X int }
type Missing struct{ X int }

func structWith(key, tagVal string, ft reflect.Type) reflect.Type {
	tag := reflect.StructTag(key + ":" + strconv.Quote(tagVal))
	if got, ok := tag.Lookup(key); !ok || got != tagVal {
		panic("struct tag does not round-trip")
	}
	return reflect.StructOf([]reflect.StructField{{Name: "F", Type: ft, Tag: tag}})
}

// the same tag on another struct type: another field name behind an untagged field
func otherStructWith(key, tagVal string, ft reflect.Type) reflect.Type {
	tag := reflect.StructTag(key + ":" + strconv.Quote(tagVal))
	return reflect.StructOf([]reflect.StructField{{Name: "A", Type: reflect.TypeOf(0)}, {Name: "G", Type: ft, Tag: tag}})
}

func directParse(tagVal string, other bool) *component_definition.Property {
	if other {
		return component_definition.NewProperty(&component_definition.Field{StructField: reflect.StructField{Name: "Other"}},
			component_definition.PropertyTypeConfiguration, "value", tagVal)
	}
	return component_definition.NewProperty(&component_definition.Field{}, component_definition.PropertyTypeComponent, "wire", tagVal)
}

func scanParse(key, tagVal string, other bool) []*component_definition.Property {
	var proc container.InstantiationAwareComponentPostProcessor
	ft := reflect.TypeOf("")
	if key == "wire" {
		proc = processors.NewDependencyAwarePostProcessors()
		ft = reflect.TypeOf((*Dep)(nil))
	} else {
		proc = processors.NewValueAwarePostProcessors()
	}
	st, name := structWith(key, tagVal, ft), "c"
	if other {
		st, name = otherStructWith(key, tagVal, ft), "d"
	}
	comp := reflect.New(st).Interface()
	reg := support.DefaultDefinitionRegistry()
	err := proc.(container.DefinitionRegistryPostProcessor).PostProcessDefinitionRegistry(reg, comp, name)
	if err != nil {
		panic("scan error: " + err.Error())
	}
	return reg.GetMetaByName(name).GetAllProperties()
}

func runCase(c Case) (out Out) {
	out = Out{ID: c.ID, Args: []Arg{}, Probes: []ProbeOut{}}
	tagVal := unhex(c.Tag)
	out.Panic = hx.Guard(func() {
		switch c.Kind {
		case "parse":
			if c.Again > 0 {
				p1 := directParse(tagVal, c.Again == 2)
				first := Out{ID: c.ID, NProps: 1}
				observe(p1, c, &first)
				out.First = &first
				scribble(p1)
				if c.Again == 2 {
					scribble(directParse(tagVal, false))
				}
			}
			p := directParse(tagVal, false)
			out.NProps = 1
			observe(p, c, &out)
			applyOps(p, c, &out)
		case "scan":
			if c.Again > 0 {
				props1 := scanParse(c.Key, tagVal, c.Again == 2)
				first := Out{ID: c.ID, NProps: len(props1), Args: []Arg{}, Probes: []ProbeOut{}}
				if len(props1) == 1 {
					observe(props1[0], c, &first)
				}
				out.First = &first
				for _, p1 := range props1 {
					scribble(p1)
				}
				if c.Again == 2 {
					scribble(directParse(tagVal, true))
				}
			}
			props := scanParse(c.Key, tagVal, false)
			out.NProps = len(props)
			if len(props) == 1 {
				observe(props[0], c, &out)
				applyOps(props[0], c, &out)
			}
		case "e2e":
			ft := reflect.TypeOf("")
			comps := []any{}
			if c.Key == "wire" {
				if c.Provider {
					ft = reflect.TypeOf((*Dep)(nil))
					comps = append(comps, &Dep{X: 7})
				} else {
					ft = reflect.TypeOf((*Missing)(nil))
				}
			}
			cfgOpt := app.SetConfigLoader()
			if c.Config != "" {
				cfgOpt = app.SetConfigLoader(loader.NewRawLoader([]byte(c.Config)))
			}
			if c.Again > 0 {
				scribble(directParse(tagVal, c.Again == 2))
			}
			if c.Again == 2 {
				// another App of the same process, started earlier, whose components carry the same tag text
				pre := []any{&scribbler{}, reflect.New(otherStructWith(c.Key, tagVal, ft)).Interface(),
					reflect.New(structWith(c.Key, tagVal, ft)).Interface()}
				if c.Provider {
					pre = append(pre, &Dep{X: 1})
				}
				_ = hx.Guard(func() {
					_ = app.NewApp().Run(app.LogLevel(syslog.LvFatal), cfgOpt, app.SetComponents(pre...))
				})
			}
			holder := reflect.New(structWith(c.Key, tagVal, ft))
			comps = append(comps, holder.Interface())
			a := app.NewApp()
			err := a.Run(app.LogLevel(syslog.LvFatal), cfgOpt, app.SetComponents(comps...))
			out.Failed = err != nil
			f := holder.Elem().Field(0)
			if f.Kind() == reflect.Pointer {
				out.FieldNil = f.IsNil()
			} else {
				out.FieldStr = hexs(f.String())
			}
		default:
			panic("bad kind " + c.Kind)
		}
	})
	return out
}

func main() {
	var in struct {
		Cases []Case `json:"cases"`
	}
	hx.ReadInput(&in)
	hx.Quiet()
	outs := make([]Out, 0, len(in.Cases))
	for _, c := range in.Cases {
		outs = append(outs, runCase(c))
	}
	hx.WriteOutput(map[string]any{"outs": outs})
}
