// Zero-size component types for the registration driver: pointers to values of ALL of these types are one
// address (runtime.zerobase), yet they are different components.  Za*/Zb*/Zc* announce a constant name that
// several types share, Ze* announce the empty name (= default name), Zn* have no Naming method.
// The table in tools/props/c07.py (ZERO_TYPES) must list the same types.
package main

var zeroCtors = map[string]func() any{
	"Za0": func() any { return new(Za0) },
	"Za1": func() any { return new(Za1) },
	"Za2": func() any { return new(Za2) },
	"Zb0": func() any { return new(Zb0) },
	"Zb1": func() any { return new(Zb1) },
	"Zc0": func() any { return new(Zc0) },
	"Ze0": func() any { return new(Ze0) },
	"Ze1": func() any { return new(Ze1) },
	"Zn0": func() any { return new(Zn0) },
	"Zn1": func() any { return new(Zn1) },
	"Zn2": func() any { return new(Zn2) },
}

type Za0 struct{}

func (*Za0) Naming() string { return "a" }

type Za1 struct{}

func (*Za1) Naming() string { return "a" }

type Za2 struct{ _ struct{} }

func (*Za2) Naming() string { return "a" }

type Zb0 struct{}

func (*Zb0) Naming() string { return "b" }

type Zb1 struct{ _ [0]int }

func (*Zb1) Naming() string { return "b" }

type Zc0 struct{}

func (*Zc0) Naming() string { return "c" }

type Ze0 struct{}

func (*Ze0) Naming() string { return "" }

type Ze1 struct{}

func (*Ze1) Naming() string { return "" }

type Zn0 struct{}

type Zn1 struct{}

type Zn2 struct{ a, b struct{} }
