// Driver for the registration half of C07: drives the real singleton registry with generated
// registration sequences (custom / default / empty custom names, the same instance twice, two
// instances under one name) and reports per registration ok | same | panic and the final content.
package main

import (
	"reflect"

	"github.com/go-kid/ioc/container/support"
	"github.com/go-kid/ioc/syslog"
	"github.com/go-kid/ioc/util/framework_helper"
	"verifharness/hx"
)

type named struct{ name string }

func (n *named) Naming() string { return n.name }

type N0 struct{ named }
type N1 struct{ named }
type N2 struct{ named }
type P0 struct{ x int }
type P1 struct{ x int }
type P2 struct{ x int }

type Req struct {
	Inst int    `json:"inst"`
	Type string `json:"type"` // N0..N2 (with Naming) | P0..P2 (without)
	Name string `json:"name"`
}

type Case struct {
	ID   int   `json:"id"`
	Reqs []Req `json:"reqs"`
}

type Out struct {
	ID      int      `json:"id"`
	Outs    []string `json:"outs"`
	Names   []string `json:"names"`   // GetComponentName of each request
	Final   []string `json:"final"`   // registered names (sorted by the registry)
	FinalIn []int    `json:"finalin"` // instance registered under each final name
}

func mk(r Req) any {
	switch r.Type {
	case "N0":
		return &N0{named{r.Name}}
	case "N1":
		return &N1{named{r.Name}}
	case "N2":
		return &N2{named{r.Name}}
	case "P0":
		return &P0{}
	case "P1":
		return &P1{}
	default:
		return &P2{}
	}
}

func main() {
	var in struct {
		Cases []Case `json:"cases"`
	}
	hx.ReadInput(&in)
	syslog.Level(syslog.LvPanic)
	var outs []Out
	for _, c := range in.Cases {
		o := Out{ID: c.ID}
		reg := support.NewRegistry()
		insts := map[int]any{}
		for _, r := range c.Reqs {
			if _, ok := insts[r.Inst]; !ok {
				insts[r.Inst] = mk(r)
			}
			obj := insts[r.Inst]
			o.Names = append(o.Names, framework_helper.GetComponentName(obj))
			before := reg.GetSingletonCount()
			p := hx.Guard(func() { reg.RegisterSingleton(obj) })
			switch {
			case p != "":
				o.Outs = append(o.Outs, "panic")
			case reg.GetSingletonCount() == before:
				o.Outs = append(o.Outs, "same")
			default:
				o.Outs = append(o.Outs, "ok")
			}
			if p != "" {
				break
			}
		}
		for _, n := range reg.GetSingletonNames() {
			o.Final = append(o.Final, n)
			s, _ := reg.GetSingleton(n)
			idx := -1
			for k, v := range insts {
				if reflect.ValueOf(v).Pointer() == reflect.ValueOf(s).Pointer() {
					idx = k
				}
			}
			o.FinalIn = append(o.FinalIn, idx)
		}
		outs = append(outs, o)
	}
	hx.WriteOutput(map[string]any{"outs": outs})
}
