// Driver for the registration half of C07: drives the real singleton registry with generated
// registration sequences (custom / default / empty custom names, the same instance twice, two
// instances under one name) and reports per registration ok | same | panic and the final content.
//
// Besides ordinary components the sequences contain components that share an ADDRESS without being
// the same component: pointers to values of different zero-size types (zero.go; every such pointer
// is runtime.zerobase) whose Naming() is a constant, and a struct together with a pointer to its
// first (embedded) field, which inherits Naming().  An instance is identified by its interface
// value (type and pointer), never by the address alone.
package main

import (
	"github.com/go-kid/ioc/container/support"
	"github.com/go-kid/ioc/syslog"
	"github.com/go-kid/ioc/util/framework_helper"
	"verifharness/hx"
)

type named struct{ name string }

func (n *named) Naming() string { return n.name }

type N0 struct{ named }
type N1 struct{ named }
type N2 struct{ named }
type P0 struct{ x int }
type P1 struct{ x int }
type P2 struct{ x int }

// W0, W1: the embedded `named` is the first field, so &w and &w.named are one address and one name
type W0 struct {
	named
	x int
}
type W1 struct {
	named
	x int
}

type Req struct {
	Inst int `json:"inst"`
	// N0..N2 (Naming from state) | P0..P2 (no Naming) | W0, W1 (struct whose first field announces the name) |
	// F (pointer to the first field of instance Of, a W) | a zero-size type of zero.go (constant or no Naming)
	Type string `json:"type"`
	Name string `json:"name"`
	Of   int    `json:"of"`
}

type Case struct {
	ID   int   `json:"id"`
	Reqs []Req `json:"reqs"`
	// Quiet: run at the quietest log level (syslog.LvFatal).  The refusal of a duplicate is a Panicf of the library's
	// logger, which only panics while the level lets Panic messages through: at LvFatal the duplicate is dropped
	// silently ("dropped") and registration goes on.
	Quiet bool `json:"quiet"`
}

type Out struct {
	ID      int      `json:"id"`
	Outs    []string `json:"outs"`
	Names   []string `json:"names"`   // GetComponentName of each request
	Final   []string `json:"final"`   // registered names (sorted by the registry)
	FinalIn []int    `json:"finalin"` // instance registered under each final name
}

func mk(r Req, insts map[int]any) any {
	if z, ok := zeroCtors[r.Type]; ok {
		return z()
	}
	switch r.Type {
	case "W0":
		return &W0{named: named{r.Name}}
	case "W1":
		return &W1{named: named{r.Name}}
	case "F":
		switch o := insts[r.Of].(type) {
		case *W0:
			return &o.named
		case *W1:
			return &o.named
		}
		return &named{r.Name}
	case "N0":
		return &N0{named{r.Name}}
	case "N1":
		return &N1{named{r.Name}}
	case "N2":
		return &N2{named{r.Name}}
	case "P0":
		return &P0{}
	case "P1":
		return &P1{}
	default:
		return &P2{}
	}
}

func main() {
	var in struct {
		Cases []Case `json:"cases"`
		// Quiet: the whole batch runs at syslog.LvFatal.  The level is fixed per process: the registry's logger is cached
		// by prefix with the level it had when it was first asked for.
		Quiet bool `json:"quiet"`
	}
	hx.ReadInput(&in)
	if in.Quiet {
		syslog.Level(syslog.LvFatal)
	} else {
		syslog.Level(syslog.LvPanic)
	}
	var outs []Out
	for _, c := range in.Cases {
		o := Out{ID: c.ID}
		reg := support.NewRegistry()
		insts := map[int]any{}
		for _, r := range c.Reqs { // outer structs first: a first-field request may precede its struct in the sequence
			if _, ok := insts[r.Inst]; !ok && r.Type != "F" {
				insts[r.Inst] = mk(r, insts)
			}
		}
		for _, r := range c.Reqs {
			if _, ok := insts[r.Inst]; !ok {
				insts[r.Inst] = mk(r, insts)
			}
			obj := insts[r.Inst]
			o.Names = append(o.Names, framework_helper.GetComponentName(obj))
			before := reg.GetSingletonCount()
			p := hx.Guard(func() { reg.RegisterSingleton(obj) })
			switch {
			case p != "":
				o.Outs = append(o.Outs, "panic")
			case reg.GetSingletonCount() == before:
				if cur, _ := reg.GetSingleton(framework_helper.GetComponentName(obj)); cur != obj {
					o.Outs = append(o.Outs, "dropped") // another instance keeps the name; no panic (quiet level)
				} else {
					o.Outs = append(o.Outs, "same")
				}
			default:
				o.Outs = append(o.Outs, "ok")
			}
			if p != "" {
				break
			}
		}
		for _, n := range reg.GetSingletonNames() {
			o.Final = append(o.Final, n)
			s, _ := reg.GetSingleton(n)
			idx := -1
			for k, v := range insts {
				if v == s { // interface equality: same dynamic type and same pointer
					idx = k
				}
			}
			o.FinalIn = append(o.FinalIn, idx)
		}
		outs = append(outs, o)
	}
	hx.WriteOutput(map[string]any{"outs": outs})
}
