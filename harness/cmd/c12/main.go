// Driver for C12: calls framework_helper.SortOrderedComponents directly and observes the
// invocation order of processors, runners and loaders during real App.Run starts.
package main

import (
	"fmt"

	"github.com/go-kid/ioc/app"
	"github.com/go-kid/ioc/configure"
	"github.com/go-kid/ioc/definition"
	"github.com/go-kid/ioc/syslog"
	"github.com/go-kid/ioc/util/framework_helper"
	"verifharness/hx"
)

type Part struct {
	ID  int    `json:"id"`
	Cls string `json:"cls"` // "P" | "O" | "U"
	Ord int64  `json:"ord"`
}

type Case struct {
	ID    int    `json:"id"`
	Kind  string `json:"kind"` // direct | runner | processor | loader
	Parts []Part `json:"parts"`
}

type Out struct {
	ID      int      `json:"id"`
	Kind    string   `json:"kind"`
	Facts   []Part   `json:"facts"` // class / Order as read back from the Go values
	Seqs    [][]int  `json:"seqs"`  // one or more observed sequences of ids
	SeqName []string `json:"seqname"`
	Err     string   `json:"err"`
	Panic   string   `json:"panic"`
}

// ---- participants --------------------------------------------------------------------------

type ider interface{ PartID() int }

type core struct {
	id   int
	name string
	log  *[]int
}

func (c *core) PartID() int    { return c.id }
func (c *core) Naming() string { return c.name }

type ordM struct{ ord int }

func (o *ordM) Order() int { return o.ord }

type prioM struct{}

func (*prioM) Priority() {}

// direct participants
type dP struct {
	core
	ordM
	prioM
}
type dO struct {
	core
	ordM
}
type dU struct{ core }

// runners
type runCore struct{ core }

func (r *runCore) Run() error { *r.log = append(*r.log, r.id); return nil }

type rP struct {
	runCore
	ordM
	prioM
}
type rO struct {
	runCore
	ordM
}
type rU struct{ runCore }

// loaders
type loadCore struct{ core }

func (l *loadCore) LoadConfig() ([]byte, error) { *l.log = append(*l.log, l.id); return nil, nil }

type lP struct {
	loadCore
	ordM
	prioM
}
type lO struct {
	loadCore
	ordM
}
type lU struct{ loadCore }

// component post processors
type procCore struct {
	core
	after *[]int
}

func (p *procCore) PostProcessBeforeInitialization(c any, name string) (any, error) {
	if name == "probe" {
		*p.log = append(*p.log, p.id)
	}
	return c, nil
}
func (p *procCore) PostProcessAfterInitialization(c any, name string) (any, error) {
	if name == "probe" {
		*p.after = append(*p.after, p.id)
	}
	return c, nil
}

type pP struct {
	procCore
	ordM
	prioM
}
type pO struct {
	procCore
	ordM
}
type pU struct{ procCore }

type probe struct{}

func (*probe) Naming() string { return "probe" }
func (*probe) Init() error    { return nil }

func classify(v any) Part {
	p := Part{ID: v.(ider).PartID(), Cls: "U"}
	if oc, ok := v.(definition.Ordered); ok {
		p.Ord = int64(oc.Order())
		if _, ok := v.(definition.Priority); ok {
			p.Cls = "P"
		} else {
			p.Cls = "O"
		}
	}
	return p
}

func build(kind string, parts []Part, log, after *[]int) []any {
	var res []any
	for _, p := range parts {
		c := core{id: p.ID, name: fmt.Sprintf("%s%d", kind, p.ID), log: log}
		o := ordM{ord: int(p.Ord)}
		var v any
		switch kind + p.Cls {
		case "directP":
			v = &dP{core: c, ordM: o}
		case "directO":
			v = &dO{core: c, ordM: o}
		case "directU":
			v = &dU{core: c}
		case "runnerP":
			v = &rP{runCore: runCore{c}, ordM: o}
		case "runnerO":
			v = &rO{runCore: runCore{c}, ordM: o}
		case "runnerU":
			v = &rU{runCore: runCore{c}}
		case "loaderP":
			v = &lP{loadCore: loadCore{c}, ordM: o}
		case "loaderO":
			v = &lO{loadCore: loadCore{c}, ordM: o}
		case "loaderU":
			v = &lU{loadCore: loadCore{c}}
		case "processorP":
			v = &pP{procCore: procCore{c, after}, ordM: o}
		case "processorO":
			v = &pO{procCore: procCore{c, after}, ordM: o}
		case "processorU":
			v = &pU{procCore: procCore{c, after}}
		default:
			panic("bad kind " + kind + p.Cls)
		}
		res = append(res, v)
	}
	return res
}

func runCase(c Case) (out Out) {
	out = Out{ID: c.ID, Kind: c.Kind}
	var log, after []int
	vals := build(c.Kind, c.Parts, &log, &after)
	for _, v := range vals {
		out.Facts = append(out.Facts, classify(v))
	}
	out.Panic = hx.Guard(func() {
		switch c.Kind {
		case "direct":
			sorted := framework_helper.SortOrderedComponents(vals)
			seq := []int{}
			for _, v := range sorted {
				seq = append(seq, v.(ider).PartID())
			}
			out.Seqs = [][]int{seq}
			out.SeqName = []string{"sorted"}
		case "runner":
			a := app.NewApp()
			err := a.Run(app.LogLevel(syslog.LvFatal), app.SetConfigLoader(), app.SetComponents(vals...))
			if err != nil {
				out.Err = err.Error()
			}
			out.Seqs = [][]int{append([]int{}, log...)}
			out.SeqName = []string{"run"}
		case "processor":
			a := app.NewApp()
			err := a.Run(app.LogLevel(syslog.LvFatal), app.SetConfigLoader(), app.SetComponents(append(vals, &probe{})...))
			if err != nil {
				out.Err = err.Error()
			}
			out.Seqs = [][]int{append([]int{}, log...), append([]int{}, after...)}
			out.SeqName = []string{"before", "after"}
		case "loader":
			var ls []configure.Loader
			for _, v := range vals {
				ls = append(ls, v.(configure.Loader))
			}
			a := app.NewApp()
			err := a.Run(app.LogLevel(syslog.LvFatal), app.SetConfigLoader(ls...))
			if err != nil {
				out.Err = err.Error()
			}
			out.Seqs = [][]int{append([]int{}, log...)}
			out.SeqName = []string{"load"}
		}
	})
	return out
}

func main() {
	var in struct {
		Cases []Case `json:"cases"`
	}
	hx.ReadInput(&in)
	hx.Quiet()
	outs := make([]Out, 0, len(in.Cases))
	for _, c := range in.Cases {
		outs = append(outs, runCase(c))
	}
	hx.WriteOutput(map[string]any{"outs": outs})
}
