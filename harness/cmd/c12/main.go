// Driver for C12: calls framework_helper.SortOrderedComponents directly and observes the
// invocation order of processors, runners and loaders during real App.Run starts.
//
// kind "loaderhist" drives ONE Configure through steps (set / add of some of the case's loaders, init = Initialize;
// start new = configure.NewConfigure()+viper binder, default = configure.Default(); with via=app the LAST init is the
// one App.Run performs after app.SetConfigure(cfg)): one observed sequence per Initialize, together with the
// participants the Configure held at that moment (SeqFacts).
package main

import (
	"fmt"

	"github.com/go-kid/ioc/app"
	"github.com/go-kid/ioc/component_definition"
	"github.com/go-kid/ioc/configure"
	"github.com/go-kid/ioc/container"
	"github.com/go-kid/ioc/configure/binder"
	"github.com/go-kid/ioc/definition"
	"github.com/go-kid/ioc/syslog"
	"github.com/go-kid/ioc/util/framework_helper"
	"verifharness/hx"
)

type Part struct {
	ID  int    `json:"id"`
	Cls string `json:"cls"` // "P" | "O" | "U"
	Ord int64  `json:"ord"`
	// Aware (processors only): the processor also implements InstantiationAwareComponentPostProcessor; a processor
	// without it is a plain ComponentPostProcessor (before / after initialization only)
	Aware bool `json:"aware,omitempty"`
}

type Step struct {
	Op  string `json:"op"` // set | add | init
	IDs []int  `json:"ids"`
}

type Case struct {
	ID    int    `json:"id"`
	Kind  string `json:"kind"` // direct | runner | processor | loader | loaderhist
	Parts []Part `json:"parts"`
	Steps []Step `json:"steps"`
	Start string `json:"start"` // new | default
	Via   string `json:"via"`   // direct | app
}

type Out struct {
	ID       int      `json:"id"`
	Kind     string   `json:"kind"`
	Facts    []Part   `json:"facts"` // class / Order as read back from the Go values
	Seqs     [][]int  `json:"seqs"`  // one or more observed sequences of ids
	SeqName  []string `json:"seqname"`
	SeqFacts [][]Part `json:"seqfacts,omitempty"` // loaderhist: the participants configured at each Initialize
	Err      string   `json:"err"`
	Panic    string   `json:"panic"`
}

// ---- participants --------------------------------------------------------------------------

type ider interface{ PartID() int }

type core struct {
	id   int
	name string
	log  *[]int
}

func (c *core) PartID() int    { return c.id }
func (c *core) Naming() string { return c.name }

type ordM struct{ ord int }

func (o *ordM) Order() int { return o.ord }

type prioM struct{}

func (*prioM) Priority() {}

// direct participants
type dP struct {
	core
	ordM
	prioM
}
type dO struct {
	core
	ordM
}
type dU struct{ core }

// runners
type runCore struct{ core }

func (r *runCore) Run() error { *r.log = append(*r.log, r.id); return nil }

type rP struct {
	runCore
	ordM
	prioM
}
type rO struct {
	runCore
	ordM
}
type rU struct{ runCore }

// loaders
type loadCore struct{ core }

func (l *loadCore) LoadConfig() ([]byte, error) { *l.log = append(*l.log, l.id); return nil, nil }

type lP struct {
	loadCore
	ordM
	prioM
}
type lO struct {
	loadCore
	ordM
}
type lU struct{ loadCore }

// component post processors
type procCore struct {
	core
	after *[]int
}

func (p *procCore) PostProcessBeforeInitialization(c any, name string) (any, error) {
	if name == "probe" {
		*p.log = append(*p.log, p.id)
	}
	return c, nil
}
func (p *procCore) PostProcessAfterInitialization(c any, name string) (any, error) {
	if name == "probe" {
		*p.after = append(*p.after, p.id)
	}
	return c, nil
}

type pP struct {
	procCore
	ordM
	prioM
}
type pO struct {
	procCore
	ordM
}
type pU struct{ procCore }

// instantiation-aware processors: the callbacks around instantiation are recorded as sequences of their own
type awareCore struct {
	procCore
	binst *[]int
	props *[]int
}

func (p *awareCore) PostProcessBeforeInstantiation(m *component_definition.Meta, name string) (any, error) {
	if name == "probe" {
		*p.binst = append(*p.binst, p.id)
	}
	return nil, nil
}
func (p *awareCore) PostProcessAfterInstantiation(c any, name string) (bool, error) { return true, nil }
func (p *awareCore) PostProcessProperties(ps []*component_definition.Property, c any, name string) ([]*component_definition.Property, error) {
	if name == "probe" {
		*p.props = append(*p.props, p.id)
	}
	return nil, nil
}

type paP struct {
	awareCore
	ordM
	prioM
}
type paO struct {
	awareCore
	ordM
}
type paU struct{ awareCore }

type probe struct{}

func (*probe) Naming() string { return "probe" }
func (*probe) Init() error    { return nil }

func classify(v any) Part {
	p := Part{ID: v.(ider).PartID(), Cls: "U"}
	if _, ok := v.(container.InstantiationAwareComponentPostProcessor); ok {
		p.Aware = true
	}
	if oc, ok := v.(definition.Ordered); ok {
		p.Ord = int64(oc.Order())
		if _, ok := v.(definition.Priority); ok {
			p.Cls = "P"
		} else {
			p.Cls = "O"
		}
	}
	return p
}

func build(kind string, parts []Part, log, after, binst, props *[]int) []any {
	var res []any
	for _, p := range parts {
		c := core{id: p.ID, name: fmt.Sprintf("%s%d", kind, p.ID), log: log}
		o := ordM{ord: int(p.Ord)}
		var v any
		key := kind + p.Cls
		if kind == "processor" && p.Aware {
			key = "aware" + p.Cls
		}
		switch key {
		case "awareP":
			v = &paP{awareCore: awareCore{procCore{c, after}, binst, props}, ordM: o}
		case "awareO":
			v = &paO{awareCore: awareCore{procCore{c, after}, binst, props}, ordM: o}
		case "awareU":
			v = &paU{awareCore: awareCore{procCore{c, after}, binst, props}}
		case "directP":
			v = &dP{core: c, ordM: o}
		case "directO":
			v = &dO{core: c, ordM: o}
		case "directU":
			v = &dU{core: c}
		case "runnerP":
			v = &rP{runCore: runCore{c}, ordM: o}
		case "runnerO":
			v = &rO{runCore: runCore{c}, ordM: o}
		case "runnerU":
			v = &rU{runCore: runCore{c}}
		case "loaderP":
			v = &lP{loadCore: loadCore{c}, ordM: o}
		case "loaderO":
			v = &lO{loadCore: loadCore{c}, ordM: o}
		case "loaderU":
			v = &lU{loadCore: loadCore{c}}
		case "processorP":
			v = &pP{procCore: procCore{c, after}, ordM: o}
		case "processorO":
			v = &pO{procCore: procCore{c, after}, ordM: o}
		case "processorU":
			v = &pU{procCore: procCore{c, after}}
		default:
			panic("bad kind " + kind + p.Cls)
		}
		res = append(res, v)
	}
	return res
}

func runCase(c Case) (out Out) {
	out = Out{ID: c.ID, Kind: c.Kind}
	var log, after, binst, props []int
	kind := c.Kind
	if kind == "loaderhist" {
		kind = "loader"
	}
	vals := build(kind, c.Parts, &log, &after, &binst, &props)
	for _, v := range vals {
		out.Facts = append(out.Facts, classify(v))
	}
	out.Panic = hx.Guard(func() {
		switch c.Kind {
		case "direct":
			sorted := framework_helper.SortOrderedComponents(vals)
			seq := []int{}
			for _, v := range sorted {
				seq = append(seq, v.(ider).PartID())
			}
			out.Seqs = [][]int{seq}
			out.SeqName = []string{"sorted"}
		case "runner":
			a := app.NewApp()
			err := a.Run(app.LogLevel(syslog.LvFatal), app.SetConfigLoader(), app.SetComponents(vals...))
			if err != nil {
				out.Err = err.Error()
			}
			out.Seqs = [][]int{append([]int{}, log...)}
			out.SeqName = []string{"run"}
		case "processor":
			a := app.NewApp()
			err := a.Run(app.LogLevel(syslog.LvFatal), app.SetConfigLoader(), app.SetComponents(append(vals, &probe{})...))
			if err != nil {
				out.Err = err.Error()
			}
			out.Seqs = [][]int{append([]int{}, log...), append([]int{}, after...), append([]int{}, binst...), append([]int{}, props...)}
			out.SeqName = []string{"before", "after", "before-instantiation", "properties"}
			var aware []Part
			for _, f := range out.Facts {
				if f.Aware {
					aware = append(aware, f)
				}
			}
			out.SeqFacts = [][]Part{out.Facts, out.Facts, aware, aware}
		case "loader":
			var ls []configure.Loader
			for _, v := range vals {
				ls = append(ls, v.(configure.Loader))
			}
			a := app.NewApp()
			err := a.Run(app.LogLevel(syslog.LvFatal), app.SetConfigLoader(ls...))
			if err != nil {
				out.Err = err.Error()
			}
			out.Seqs = [][]int{append([]int{}, log...)}
			out.SeqName = []string{"load"}
		case "loaderhist":
			byID := map[int]any{}
			for _, v := range vals {
				byID[v.(ider).PartID()] = v
			}
			sel := func(ids []int) []configure.Loader {
				var ls []configure.Loader
				for _, i := range ids {
					ls = append(ls, byID[i].(configure.Loader))
				}
				return ls
			}
			var cfg configure.Configure
			if c.Start == "default" {
				cfg = configure.Default() // holds ArgsLoader(os.Args): unordered, not one of ours
			} else {
				cfg = configure.NewConfigure()
				cfg.SetBinder(binder.NewViperBinder("yaml"))
			}
			var cur []int
			lastInit := -1
			for i, st := range c.Steps {
				if st.Op == "init" {
					lastInit = i
				}
			}
			for i, st := range c.Steps {
				switch st.Op {
				case "set":
					cfg.SetLoaders(sel(st.IDs)...)
					cur = append([]int{}, st.IDs...)
				case "add":
					cfg.AddLoaders(sel(st.IDs)...)
					cur = append(cur, st.IDs...)
				case "init":
					log = nil
					var err error
					if c.Via == "app" && i == lastInit {
						err = app.NewApp().Run(app.LogLevel(syslog.LvFatal), app.SetConfigure(cfg))
					} else {
						err = cfg.Initialize()
					}
					if err != nil {
						out.Err = err.Error()
					}
					facts := []Part{}
					for _, id := range cur {
						facts = append(facts, classify(byID[id]))
					}
					out.Seqs = append(out.Seqs, append([]int{}, log...))
					out.SeqName = append(out.SeqName, fmt.Sprintf("init%d", len(out.Seqs)))
					out.SeqFacts = append(out.SeqFacts, facts)
				}
			}
		}
	})
	return out
}

func main() {
	var in struct {
		Cases []Case `json:"cases"`
	}
	hx.ReadInput(&in)
	hx.Quiet()
	outs := make([]Out, 0, len(in.Cases))
	for _, c := range in.Cases {
		outs = append(outs, runCase(c))
	}
	hx.WriteOutput(map[string]any{"outs": outs})
}
