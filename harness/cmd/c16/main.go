// Driver for C16 (placeholders). Kinds of cases:
//
//	direct  : el.NewQuote()/NewExpr().ReplaceAllContent(s, f) with a table-driven callback f
//	strconv : strconv2.ParseAny(s), then FormatAny of the parsed value
//	format  : strconv2.FormatAny of a configuration value as viper hands it out (read back through
//	          a real Configure initialised with the RawLoader document)
//	e2e     : a real app.Run with one component carrying one tagged field (value / prop / prefix /
//	          wire), a RawLoader configuration and two observing processors (Priority Order 3 and 5,
//	          i.e. right before and right after the ${} processor, whose Order is 4)
//
//	hist    : ONE Configure over time (NewConfigure + viper binder; the RawLoader document loaded once - loaders
//	          "keep" leaves the loader in place so that later App starts merge it again, "drop" empties the loader
//	          list after the first Initialize, "none" never loads anything).  steps: set (Configure.Set(key, val)),
//	          get (Configure.Get(key)), resolve (a tag text through the real ${} processor bound to this Configure):
//	            mode proc : the processor is taken from processors.NewConfigQuoteAwarePostProcessors(), handed the
//	                        Configure through PostProcessComponentFactory and called directly on a Property - a fresh
//	                        one, or (step.reuse) the very Property object an earlier resolution of the same text used
//	            mode run  : every resolve is one app.NewApp().Run(app.SetConfigure(cfg), component) - a new start on
//	                        the same Configure - observed like an e2e case
//	            mode comp : ONE App.Run with one component per resolve; the observing processor that sits right after
//	                        the ${} processor performs the set / get steps that follow the n-th resolution when it has
//	                        seen the n-th component (the order in which the container took the components is reported)
//
// Every case runs in a child process (this binary re-executed with VERIF_CHILD=1) that streams one
// line per case; a case that does not answer within the time limit is recorded as outcome "hang"
// and the child is restarted on the remaining cases.
package main

import (
	"bufio"
	"encoding/hex"
	"encoding/json"
	"errors"
	"fmt"
	"os"
	"os/exec"
	"reflect"
	"sort"
	"strconv"
	"time"

	"github.com/go-kid/ioc/app"
	"github.com/go-kid/ioc/component_definition"
	"github.com/go-kid/ioc/configure"
	"github.com/go-kid/ioc/configure/binder"
	"github.com/go-kid/ioc/configure/loader"
	"github.com/go-kid/ioc/container"
	"github.com/go-kid/ioc/container/factory"
	"github.com/go-kid/ioc/container/processors"
	"github.com/go-kid/ioc/definition"
	"github.com/go-kid/ioc/syslog"
	"github.com/go-kid/ioc/util/el"
	"github.com/go-kid/strconv2"
	"verifharness/hx"
)

type Entry struct {
	K   string `json:"k"` // hex
	R   string `json:"r"` // hex
	Err bool   `json:"err"`
}

type Case struct {
	ID      int      `json:"id"`
	Kind    string   `json:"kind"`
	Sig     string   `json:"sig"`     // "$" | "#"
	S       string   `json:"s"`       // hex: input text
	Table   []Entry  `json:"table"`   // direct: callback table
	Config  string   `json:"config"`  // e2e/format: configuration document (YAML; the generator emits JSON)
	Keys    []string `json:"keys"`    // format: hex paths to read
	TagKey  string   `json:"tagkey"`  // e2e: value | prop | prefix | wire
	TagText string   `json:"tagtext"` // e2e: hex, the whole tag text
	FType   string   `json:"ftype"`   // e2e: string | int | any | dep | strs
	Deps    []string `json:"deps"`    // e2e: names of Dep components
	Mode    string   `json:"mode"`    // hist: proc | run | comp
	Loaders string   `json:"loaders"` // hist: keep | drop | none
	Steps   []HStep  `json:"steps"`   // hist
}

type HStep struct {
	Op      string `json:"op"`      // resolve | set | get
	TagText string `json:"tagtext"` // resolve: hex, the text of a value:"..." tag (on a field of type any)
	Key     string `json:"key"`     // set / get: hex
	Val     *Val   `json:"val"`     // set
	// resolve, mode proc: index+1 of an earlier resolve step of the same tag text whose Property OBJECT is handed to the
	// processor once more (a component definition that is populated again: a lazy component created a second time);
	// 0 = a fresh Property
	Reuse int `json:"reuse"`
}

type Val struct {
	T string   `json:"t"`
	B bool     `json:"b,omitempty"`
	N string   `json:"n,omitempty"` // int: decimal; float: FormatFloat(f,'e',-1,64)
	S string   `json:"s,omitempty"` // hex
	L []Val    `json:"l,omitempty"`
	M [][2]any `json:"m,omitempty"` // [hexkey, Val] sorted by key
}

type Out struct {
	ID      int    `json:"id"`
	Outcome string `json:"outcome"` // done | err | panic | hang | setup
	Out     string `json:"out"`     // hex: resulting text (direct: result; strconv: FormatAny(ParseAny(s)); e2e: TagVal after ${})
	Val     *Val   `json:"val,omitempty"`
	TagStr  string `json:"tagstr,omitempty"` // e2e: hex TagStr as the ${} processor reads it
	PreSeen bool   `json:"preseen,omitempty"`
	RunErr  bool   `json:"runerr,omitempty"`
	Final   string `json:"final,omitempty"` // e2e: fmt %v of the field after Run (informational)
	Vals    []Out  `json:"vals,omitempty"`  // format: one per key
	Steps   []Out  `json:"steps,omitempty"` // hist: one per step, in the order they were PERFORMED
	Order   []int  `json:"order,omitempty"` // hist: indices into the case's steps, in the order they were performed
	Detail  string `json:"detail,omitempty"`
}

func unhex(s string) string {
	b, err := hex.DecodeString(s)
	if err != nil {
		panic(err)
	}
	return string(b)
}
func tohex(s string) string { return hex.EncodeToString([]byte(s)) }

func toVal(a any) Val {
	switch v := a.(type) {
	case nil:
		return Val{T: "null"}
	case bool:
		return Val{T: "bool", B: v}
	case string:
		return Val{T: "str", S: tohex(v)}
	case float64:
		return Val{T: "float", N: strconv.FormatFloat(v, 'e', -1, 64)}
	case int:
		return Val{T: "int", N: strconv.Itoa(v)}
	case int64:
		return Val{T: "int", N: strconv.FormatInt(v, 10)}
	case []any:
		r := Val{T: "list", L: []Val{}}
		for _, x := range v {
			r.L = append(r.L, toVal(x))
		}
		return r
	case map[string]any:
		r := Val{T: "map", M: [][2]any{}}
		keys := make([]string, 0, len(v))
		for k := range v {
			keys = append(keys, k)
		}
		sort.Strings(keys)
		for _, k := range keys {
			r.M = append(r.M, [2]any{tohex(k), toVal(v[k])})
		}
		return r
	default:
		return Val{T: "other", S: tohex(fmt.Sprintf("%T", a))}
	}
}

// fromVal is the Go value a caller of Configure.Set would pass: nil, bool, int, float64, string, []any, map[string]any
func fromVal(v *Val) any {
	if v == nil {
		return nil
	}
	switch v.T {
	case "null":
		return nil
	case "bool":
		return v.B
	case "int":
		n, err := strconv.Atoi(v.N)
		if err != nil {
			panic(err)
		}
		return n
	case "float":
		f, err := strconv.ParseFloat(v.N, 64)
		if err != nil {
			panic(err)
		}
		return f
	case "str":
		return unhex(v.S)
	case "list":
		l := make([]any, 0, len(v.L))
		for i := range v.L {
			l = append(l, fromVal(&v.L[i]))
		}
		return l
	case "map":
		m := map[string]any{}
		for _, kv := range v.M {
			var sub Val
			b, _ := json.Marshal(kv[1])
			if err := json.Unmarshal(b, &sub); err != nil {
				panic(err)
			}
			m[unhex(kv[0].(string))] = fromVal(&sub)
		}
		return m
	}
	panic("bad value type " + v.T)
}

// ---- direct -------------------------------------------------------------------------------

func runDirect(c Case) (out Out) {
	out = Out{ID: c.ID}
	var h el.Helper
	if c.Sig == "#" {
		h = el.NewExpr()
	} else {
		h = el.NewQuote()
	}
	tbl := map[string]Entry{}
	for _, e := range c.Table {
		tbl[unhex(e.K)] = e
	}
	var res string
	var err error
	p := hx.Guard(func() {
		res, err = h.ReplaceAllContent(unhex(c.S), func(content string) (string, error) {
			e, ok := tbl[content]
			if !ok || e.Err {
				return "", errors.New("no entry")
			}
			return unhex(e.R), nil
		})
	})
	switch {
	case p != "":
		out.Outcome, out.Detail = "panic", p
	case err != nil:
		out.Outcome, out.Detail = "err", err.Error()
	default:
		out.Outcome, out.Out = "done", tohex(res)
	}
	return
}

// ---- strconv ------------------------------------------------------------------------------

func runStrconv(c Case) (out Out) {
	out = Out{ID: c.ID}
	var v any
	var err error
	p := hx.Guard(func() { v, err = strconv2.ParseAny(unhex(c.S)) })
	if p != "" {
		out.Outcome, out.Detail = "panic", p
		return
	}
	if err != nil {
		out.Outcome, out.Detail = "err", err.Error()
		return
	}
	vv := toVal(v)
	out.Val = &vv
	var f string
	p = hx.Guard(func() { f, err = strconv2.FormatAny(v) })
	if p != "" || err != nil {
		out.Outcome = "fmtfail"
		return
	}
	out.Outcome, out.Out = "done", tohex(f)
	return
}

func runFormat(c Case) (out Out) {
	out = Out{ID: c.ID, Outcome: "done"}
	cfg := configure.NewConfigure()
	cfg.SetLoaders(loader.NewRawLoader([]byte(c.Config)))
	cfg.SetBinder(binder.NewViperBinder("yaml"))
	if err := cfg.Initialize(); err != nil {
		out.Outcome, out.Detail = "setup", err.Error()
		return
	}
	for _, k := range c.Keys {
		o := Out{}
		p := hx.Guard(func() {
			v := cfg.Get(unhex(k))
			vv := toVal(v)
			o.Val = &vv
			f, err := strconv2.FormatAny(v)
			if err != nil {
				o.Outcome = "err"
			} else {
				o.Outcome, o.Out = "done", tohex(f)
			}
		})
		if p != "" {
			o.Outcome, o.Detail = "panic", p
		}
		out.Vals = append(out.Vals, o)
	}
	return
}

// ---- end to end ---------------------------------------------------------------------------

type Dep struct{ name string }

func (d *Dep) Naming() string { return d.name }

type seen struct {
	ok             bool
	tagstr, tagval string
}

type observer struct {
	definition.PriorityComponent
	ord    int
	name   string
	target any
	seen   *seen
}

func (o *observer) Order() int     { return o.ord }
func (o *observer) Naming() string { return o.name }
func (o *observer) PostProcessBeforeInitialization(c any, n string) (any, error) {
	return c, nil
}
func (o *observer) PostProcessAfterInitialization(c any, n string) (any, error) { return c, nil }
func (o *observer) PostProcessBeforeInstantiation(m *component_definition.Meta, n string) (any, error) {
	return nil, nil
}
func (o *observer) PostProcessAfterInstantiation(c any, n string) (bool, error) { return true, nil }
func (o *observer) PostProcessProperties(props []*component_definition.Property, c any, n string) ([]*component_definition.Property, error) {
	if c != o.target {
		return nil, nil
	}
	for _, p := range props {
		if p.StructField.Name == "F" {
			*o.seen = seen{ok: true, tagstr: p.TagStr, tagval: p.TagVal}
		}
	}
	return nil, nil
}

func fieldType(ft string) reflect.Type {
	switch ft {
	case "int":
		return reflect.TypeOf(int(0))
	case "any":
		return reflect.TypeOf((*any)(nil)).Elem()
	case "dep":
		return reflect.TypeOf((*Dep)(nil))
	case "strs":
		return reflect.TypeOf([]string(nil))
	default:
		return reflect.TypeOf("")
	}
}

func runE2E(c Case) (out Out) {
	out = Out{ID: c.ID}
	tag := reflect.StructTag(c.TagKey + ":" + strconv.Quote(unhex(c.TagText)))
	st := reflect.StructOf([]reflect.StructField{{Name: "F", Type: fieldType(c.FType), Tag: tag}})
	comp := reflect.New(st).Interface()
	var pre, post seen
	comps := []any{
		&observer{ord: 3, name: "verifObserverPre", target: comp, seen: &pre},
		&observer{ord: 5, name: "verifObserverPost", target: comp, seen: &post},
		comp,
	}
	for _, d := range c.Deps {
		comps = append(comps, &Dep{name: d})
	}
	var err error
	p := hx.Guard(func() {
		a := app.NewApp()
		err = a.Run(app.LogLevel(syslog.LvFatal), app.SetConfigLoader(loader.NewRawLoader([]byte(c.Config))),
			app.SetComponents(comps...))
	})
	out.PreSeen = pre.ok
	out.RunErr = err != nil
	if pre.ok {
		out.TagStr = tohex(pre.tagstr)
	}
	out.Final = fmt.Sprintf("%v", reflect.ValueOf(comp).Elem().Field(0).Interface())
	switch {
	case post.ok:
		out.Outcome, out.Out = "done", tohex(post.tagval)
	case p != "":
		out.Outcome, out.Detail = "panic", p
	case !pre.ok:
		out.Outcome = "setup"
		if err != nil {
			out.Detail = err.Error()
		}
	case err != nil:
		out.Outcome, out.Detail = "err", err.Error()
	default:
		out.Outcome = "setup"
	}
	if len(out.Detail) > 300 {
		out.Detail = out.Detail[:300]
	}
	return
}

// ---- histories on one Configure -------------------------------------------------------------

type holderF struct {
	F string
}

func valueComponent(tagtext string) any {
	tag := reflect.StructTag("value:" + strconv.Quote(tagtext))
	st := reflect.StructOf([]reflect.StructField{{Name: "F", Type: reflect.TypeOf((*any)(nil)).Elem(), Tag: tag}})
	return reflect.New(st).Interface()
}

// seqObserver sits right after the ${} processor (Order 5).  It records TagStr / TagVal of every target component in
// the order the container hands them over and then runs the hook for that component.
type seqObserver struct {
	observer
	targets map[any]int
	after   func(ix int, s seen)
}

func (o *seqObserver) PostProcessProperties(props []*component_definition.Property, c any, n string) ([]*component_definition.Property, error) {
	ix, ok := o.targets[c]
	if !ok {
		return nil, nil
	}
	for _, p := range props {
		if p.StructField.Name == "F" {
			o.after(ix, seen{ok: true, tagstr: p.TagStr, tagval: p.TagVal})
		}
	}
	return nil, nil
}

func runHist(c Case) (out Out) {
	out = Out{ID: c.ID, Outcome: "done"}
	cfg := configure.NewConfigure()
	cfg.SetBinder(binder.NewViperBinder("yaml"))
	if c.Loaders != "none" {
		cfg.SetLoaders(loader.NewRawLoader([]byte(c.Config)))
		if err := cfg.Initialize(); err != nil {
			out.Outcome, out.Detail = "setup", err.Error()
			return
		}
		if c.Loaders == "drop" {
			cfg.SetLoaders()
		}
	}
	doSetGet := func(ix int) {
		st := c.Steps[ix]
		o := Out{ID: ix, Outcome: "done"}
		p := hx.Guard(func() {
			if st.Op == "set" {
				cfg.Set(unhex(st.Key), fromVal(st.Val))
			} else {
				vv := toVal(cfg.Get(unhex(st.Key)))
				o.Val = &vv
			}
		})
		if p != "" {
			o.Outcome, o.Detail = "panic", p
		}
		out.Steps = append(out.Steps, o)
		out.Order = append(out.Order, ix)
	}
	record := func(ix int, post seen, p string, err error) {
		o := Out{ID: ix}
		switch {
		case post.ok:
			o.Outcome, o.Out, o.TagStr = "done", tohex(post.tagval), tohex(post.tagstr)
		case p != "":
			o.Outcome, o.Detail = "panic", p
		case err != nil:
			o.Outcome, o.Detail = "err", err.Error()
		default:
			o.Outcome = "setup"
		}
		if len(o.Detail) > 300 {
			o.Detail = o.Detail[:300]
		}
		out.Steps = append(out.Steps, o)
		out.Order = append(out.Order, ix)
	}
	switch c.Mode {
	case "proc":
		proc := processors.NewConfigQuoteAwarePostProcessors()
		f := factory.Default()
		f.SetConfigure(cfg)
		if err := proc.(container.ComponentFactoryPostProcessor).PostProcessComponentFactory(f); err != nil {
			out.Outcome, out.Detail = "setup", err.Error()
			return
		}
		type made struct {
			comp *holderF
			prop *component_definition.Property
		}
		props := map[int]made{}
		for ix, st := range c.Steps {
			if st.Op != "resolve" {
				doSetGet(ix)
				continue
			}
			var comp *holderF
			var prop *component_definition.Property
			if old, ok := props[st.Reuse-1]; ok && st.Reuse > 0 && c.Steps[st.Reuse-1].TagText == st.TagText {
				comp, prop = old.comp, old.prop // the same Property object is populated again
			} else {
				comp = &holderF{}
				meta := component_definition.NewMeta(comp)
				var field *component_definition.Field
				for _, fd := range meta.Fields {
					if fd.StructField.Name == "F" {
						field = fd
					}
				}
				if field == nil {
					out.Outcome, out.Detail = "setup", "no field"
					return
				}
				prop = component_definition.NewProperty(field, component_definition.PropertyTypeConfiguration, "value", unhex(st.TagText))
			}
			props[ix] = made{comp, prop}
			var err error
			tagstr := prop.TagStr
			p := hx.Guard(func() {
				_, err = proc.PostProcessProperties([]*component_definition.Property{prop}, comp, "holder")
			})
			post := seen{}
			if p == "" && err == nil {
				post = seen{ok: true, tagstr: tagstr, tagval: prop.TagVal}
			}
			record(ix, post, p, err)
		}
	case "run":
		for ix, st := range c.Steps {
			if st.Op != "resolve" {
				doSetGet(ix)
				continue
			}
			comp := valueComponent(unhex(st.TagText))
			var post seen
			obs := &seqObserver{observer: observer{ord: 5, name: "verifObserverPost"}, targets: map[any]int{comp: ix},
				after: func(_ int, s seen) { post = s }}
			var err error
			p := hx.Guard(func() {
				a := app.NewApp()
				err = a.Run(app.LogLevel(syslog.LvFatal), app.SetConfigure(cfg), app.SetComponents(obs, comp))
			})
			record(ix, post, p, err)
		}
	case "comp":
		// leading set / get steps are performed before the start; then one component per resolve
		ix := 0
		for ; ix < len(c.Steps) && c.Steps[ix].Op != "resolve"; ix++ {
			doSetGet(ix)
		}
		var resolves []int            // step indices of the resolves
		afters := map[int][]int{}     // n-th resolution -> the set / get steps that follow it
		for ; ix < len(c.Steps); ix++ {
			if c.Steps[ix].Op == "resolve" {
				resolves = append(resolves, ix)
			} else {
				n := len(resolves) - 1
				afters[n] = append(afters[n], ix)
			}
		}
		targets := map[any]int{}
		comps := []any{}
		for _, rix := range resolves {
			comp := valueComponent(unhex(c.Steps[rix].TagText))
			targets[comp] = rix
			comps = append(comps, comp)
		}
		nseen := 0
		lastPre := -1
		pre := &seqObserver{observer: observer{ord: 3, name: "verifObserverPre"}, targets: targets,
			after: func(rix int, _ seen) { lastPre = rix }}
		obs := &seqObserver{observer: observer{ord: 5, name: "verifObserverPost"}, targets: targets}
		obs.after = func(rix int, s seen) {
			record(rix, s, "", nil)
			for _, six := range afters[nseen] {
				doSetGet(six)
			}
			nseen++
		}
		var err error
		p := hx.Guard(func() {
			a := app.NewApp()
			err = a.Run(app.LogLevel(syslog.LvFatal), app.SetConfigure(cfg), app.SetComponents(append([]any{pre, obs}, comps...)...))
		})
		if p != "" || err != nil {
			// the start ended inside the ${} processor on the component the pre-observer saw last (when that one was
			// not completed): the start's outcome is that resolution's outcome
			o := Out{ID: lastPre}
			if len(out.Order) > 0 && lastPre >= 0 {
				for _, done := range out.Order {
					if done == lastPre {
						o.ID = -1 // the failure came after the last observed resolution was complete: not a resolution's
					}
				}
			}
			if p != "" {
				o.Outcome, o.Detail = "panic", p
			} else {
				o.Outcome, o.Detail = "err", err.Error()
			}
			if len(o.Detail) > 300 {
				o.Detail = o.Detail[:300]
			}
			out.Steps = append(out.Steps, o)
			out.Order = append(out.Order, o.ID)
		}
	default:
		out.Outcome, out.Detail = "setup", "bad mode"
	}
	return
}

func runCase(c Case) (out Out) {
	p := hx.Guard(func() {
		switch c.Kind {
		case "direct":
			out = runDirect(c)
		case "strconv":
			out = runStrconv(c)
		case "format":
			out = runFormat(c)
		case "e2e":
			out = runE2E(c)
		case "hist":
			out = runHist(c)
		default:
			out = Out{ID: c.ID, Outcome: "setup", Detail: "bad kind"}
		}
	})
	if p != "" {
		out = Out{ID: c.ID, Outcome: "panic", Detail: p}
	}
	return
}

// ---- child / parent -----------------------------------------------------------------------

type Input struct {
	Cases     []Case `json:"cases"`
	TimeoutMs int    `json:"timeout_ms"`
}

func child() {
	var in Input
	hx.ReadInput(&in)
	hx.Quiet()
	w := bufio.NewWriter(os.Stdout)
	for _, c := range in.Cases {
		fmt.Fprintf(w, "\n@@S %d\n", c.ID)
		w.Flush()
		o := runCase(c)
		data, _ := json.Marshal(o)
		fmt.Fprintf(w, "\n@@R %s\n", data)
		w.Flush()
	}
	fmt.Fprintf(w, "\n@@E\n")
	w.Flush()
}

// runChild runs the cases in one child; returns the outputs obtained and the index of the first
// case that was not completed (len(cases) when all were), with hang = true if that case timed out.
func runChild(cases []Case, timeout time.Duration) (outs []Out, next int, hang bool) {
	cmd := exec.Command(os.Args[0])
	cmd.Env = append(os.Environ(), "VERIF_CHILD=1")
	stdin, _ := cmd.StdinPipe()
	stdout, _ := cmd.StdoutPipe()
	cmd.Stderr = nil
	if err := cmd.Start(); err != nil {
		panic(err)
	}
	go func() {
		data, _ := json.Marshal(Input{Cases: cases})
		stdin.Write(data)
		stdin.Close()
	}()
	lines := make(chan string, 64)
	go func() {
		sc := bufio.NewScanner(stdout)
		sc.Buffer(make([]byte, 1<<20), 1<<28)
		for sc.Scan() {
			lines <- sc.Text()
		}
		close(lines)
	}()
	timer := time.NewTimer(timeout + 20*time.Second) // start-up allowance
	defer timer.Stop()
	done := 0
	for {
		select {
		case ln, ok := <-lines:
			if !ok {
				cmd.Wait()
				return outs, done, false // child died (fatal error): the case in progress crashed
			}
			if len(ln) > 4 && ln[:4] == "@@R " {
				var o Out
				if json.Unmarshal([]byte(ln[4:]), &o) == nil {
					outs = append(outs, o)
					done++
				}
			}
			if ln == "@@E" {
				cmd.Wait()
				return outs, done, false
			}
			if !timer.Stop() {
				select {
				case <-timer.C:
				default:
				}
			}
			timer.Reset(timeout)
		case <-timer.C:
			cmd.Process.Kill()
			cmd.Wait()
			return outs, done, true
		}
	}
}

func main() {
	if os.Getenv("VERIF_CHILD") == "1" {
		child()
		return
	}
	var in Input
	hx.ReadInput(&in)
	timeout := time.Duration(in.TimeoutMs) * time.Millisecond
	if timeout <= 0 {
		timeout = 10 * time.Second
	}
	var all []Out
	rest := in.Cases
	for len(rest) > 0 {
		outs, next, hang := runChild(rest, timeout)
		all = append(all, outs...)
		if next >= len(rest) {
			break
		}
		if hang {
			all = append(all, Out{ID: rest[next].ID, Outcome: "hang"})
		} else {
			all = append(all, Out{ID: rest[next].ID, Outcome: "crash"})
		}
		rest = rest[next+1:]
	}
	hx.WriteOutput(map[string]any{"outs": all})
}
