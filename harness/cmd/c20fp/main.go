// c20fp extracts, with go/ast, the closure FOOTPRINT of the functions that start goroutines in a loop and
// wait for them (App.Close, applyDefinitionRegistryPostProcessors): which variables of the enclosing
// function the `go func(...){...}(...)` closure captures, how the closure accesses them (read / write,
// under which mutex, only on a conditional path), how the enclosing function accesses them before the
// spawn loop, between the first go statement and wg.Wait(), and after wg.Wait(); and the WaitGroup
// structure (Add before go, deferred Done first, Wait after the loop).
//
// usage: c20fp <repo>      prints  @@JSON {"funcs":[...]}
// Purely syntactic (no type checker): sync.WaitGroup / sync.Mutex variables are recognised from their
// declaration (`var wg sync.WaitGroup`, `wg := sync.WaitGroup{}`, `&sync.Mutex{}`).
package main

import (
	"encoding/json"
	"fmt"
	"go/ast"
	"go/parser"
	"go/printer"
	"go/token"
	"os"
	"path/filepath"
	"strings"
)

type Acc struct {
	W    bool   `json:"w"`
	Lock string `json:"lock"`
	Cond bool   `json:"cond"`
	Line int    `json:"line"`
}
type Var struct {
	Name  string `json:"name"`
	Sync  bool   `json:"sync"`
	Child []Acc  `json:"child"`
	Pre   []Acc  `json:"pre"`
	Mid   []Acc  `json:"mid"`
	Post  []Acc  `json:"post"`
}
type Func struct {
	Name         string   `json:"name"`
	File         string   `json:"file"`
	Found        bool     `json:"found"`
	Closures     int      `json:"closures"`
	InLoop       bool     `json:"in_loop"`
	AddBeforeGo  bool     `json:"add_before_go"`
	DoneDeferred bool     `json:"done_deferred"`
	WaitAfter    bool     `json:"wait_after"`
	Vars         []*Var   `json:"vars"`
	Notes        []string `json:"notes"`
}

type target struct{ file, fn, recv string }

var targets = []target{
	{"app/app.go", "Close", "App"},
	{"container/factory/post_processor_registration_delegate.go", "applyDefinitionRegistryPostProcessors", "PostProcessorRegistrationDelegate"},
}

func exprStr(fset *token.FileSet, e ast.Node) string {
	var sb strings.Builder
	printer.Fprint(&sb, fset, e)
	return sb.String()
}

type analyzer struct {
	fset      *token.FileSet
	out       *Func
	vars      map[string]*Var // function-level variables
	syncVars  map[string]bool
	goStmt    *ast.GoStmt
	closure   *ast.FuncLit
	spawnLoop ast.Stmt
	waitStmt  ast.Stmt
	// walking state
	inClosure bool
	locals    map[string]bool // names local to the closure
	cond      int
	held      string
}

func isSyncType(s string) bool {
	s = strings.TrimPrefix(strings.TrimPrefix(s, "&"), "*")
	s = strings.TrimSuffix(s, "{}")
	return s == "sync.WaitGroup" || s == "sync.Mutex" || s == "sync.RWMutex"
}

func (a *analyzer) declare(name string, typ string) {
	if name == "_" || name == "" {
		return
	}
	if _, ok := a.vars[name]; !ok {
		a.vars[name] = &Var{Name: name}
	}
	if isSyncType(typ) {
		a.syncVars[name] = true
		a.vars[name].Sync = true
	}
}

// first pass: collect function-level variables (outside the go closure) and locate the go statement
func (a *analyzer) collect(fd *ast.FuncDecl) {
	if fd.Recv != nil {
		for _, f := range fd.Recv.List {
			for _, n := range f.Names {
				a.declare(n.Name, exprStr(a.fset, f.Type))
			}
		}
	}
	for _, f := range fd.Type.Params.List {
		for _, n := range f.Names {
			a.declare(n.Name, exprStr(a.fset, f.Type))
		}
	}
	var stack []ast.Node
	ast.Inspect(fd.Body, func(n ast.Node) bool {
		if n == nil {
			stack = stack[:len(stack)-1]
			return true
		}
		stack = append(stack, n)
		switch s := n.(type) {
		case *ast.GoStmt:
			if fl, ok := s.Call.Fun.(*ast.FuncLit); ok {
				a.out.Closures++
				if a.goStmt == nil {
					a.goStmt, a.closure = s, fl
					for i := len(stack) - 2; i >= 0; i-- {
						switch l := stack[i].(type) {
						case *ast.ForStmt:
							a.spawnLoop = l
						case *ast.RangeStmt:
							a.spawnLoop = l
						}
						if a.spawnLoop != nil {
							break
						}
					}
				}
				// do not descend into the closure for declarations
				stack = stack[:len(stack)-1]
				return false
			}
		case *ast.AssignStmt:
			if s.Tok == token.DEFINE {
				for i, l := range s.Lhs {
					if id, ok := l.(*ast.Ident); ok {
						typ := ""
						if len(s.Rhs) == len(s.Lhs) {
							typ = exprStr(a.fset, s.Rhs[i])
						}
						a.declare(id.Name, typ)
					}
				}
			}
		case *ast.GenDecl:
			for _, sp := range s.Specs {
				if vs, ok := sp.(*ast.ValueSpec); ok {
					typ := ""
					if vs.Type != nil {
						typ = exprStr(a.fset, vs.Type)
					} else if len(vs.Values) == 1 {
						typ = exprStr(a.fset, vs.Values[0])
					}
					for _, n := range vs.Names {
						a.declare(n.Name, typ)
					}
				}
			}
		case *ast.RangeStmt:
			if s.Tok == token.DEFINE {
				if id, ok := s.Key.(*ast.Ident); ok {
					a.declare(id.Name, "")
				}
				if id, ok := s.Value.(*ast.Ident); ok {
					a.declare(id.Name, "")
				}
			}
		}
		return true
	})
}

func (a *analyzer) region(pos token.Pos) string {
	if a.spawnLoop == nil {
		return "pre"
	}
	if pos < a.spawnLoop.Pos() {
		return "pre"
	}
	if a.waitStmt != nil && pos > a.waitStmt.End() {
		return "post"
	}
	return "mid"
}

func (a *analyzer) access(id *ast.Ident, write bool) {
	v, ok := a.vars[id.Name]
	if !ok {
		return
	}
	if a.inClosure && a.locals[id.Name] {
		return
	}
	acc := Acc{W: write, Lock: a.held, Cond: a.cond > 0, Line: a.fset.Position(id.Pos()).Line}
	if a.inClosure {
		v.Child = append(v.Child, acc)
		return
	}
	switch a.region(id.Pos()) {
	case "pre":
		v.Pre = append(v.Pre, acc)
	case "mid":
		v.Mid = append(v.Mid, acc)
	default:
		v.Post = append(v.Post, acc)
	}
}

// syncCall returns (variable, method) when e is X.M(...) with X a sync-typed function-level variable
func (a *analyzer) syncCall(e ast.Expr) (string, string) {
	call, ok := e.(*ast.CallExpr)
	if !ok {
		return "", ""
	}
	sel, ok := call.Fun.(*ast.SelectorExpr)
	if !ok {
		return "", ""
	}
	id, ok := sel.X.(*ast.Ident)
	if !ok || !a.syncVars[id.Name] || (a.inClosure && a.locals[id.Name]) {
		return "", ""
	}
	return id.Name, sel.Sel.Name
}

func (a *analyzer) expr(e ast.Expr, write bool) {
	switch x := e.(type) {
	case nil:
	case *ast.Ident:
		a.access(x, write)
	case *ast.SelectorExpr:
		a.expr(x.X, write)
	case *ast.IndexExpr:
		a.expr(x.X, write)
		a.expr(x.Index, false)
	case *ast.SliceExpr:
		a.expr(x.X, write)
		a.expr(x.Low, false)
		a.expr(x.High, false)
		a.expr(x.Max, false)
	case *ast.StarExpr:
		a.expr(x.X, write)
	case *ast.UnaryExpr:
		a.expr(x.X, x.Op == token.AND)
	case *ast.BinaryExpr:
		a.expr(x.X, false)
		a.expr(x.Y, false)
	case *ast.ParenExpr:
		a.expr(x.X, write)
	case *ast.TypeAssertExpr:
		a.expr(x.X, false)
	case *ast.KeyValueExpr:
		a.expr(x.Value, false)
	case *ast.CompositeLit:
		for _, el := range x.Elts {
			a.expr(el, false)
		}
	case *ast.CallExpr:
		if v, _ := a.syncCall(x); v != "" {
			// method of a sync.WaitGroup / sync.Mutex variable: internally synchronised
		} else {
			switch f := x.Fun.(type) {
			case *ast.SelectorExpr:
				a.expr(f.X, false)
			case *ast.Ident:
				a.access(f, false) // call of a function-typed variable (builtins are not in the table)
			default:
				a.expr(x.Fun, false)
			}
		}
		for _, arg := range x.Args {
			a.expr(arg, false)
		}
	case *ast.FuncLit:
		// a nested function literal: its body runs in the same context
		a.block(x.Body.List)
	}
}

func (a *analyzer) defineLocal(e ast.Expr) {
	if id, ok := e.(*ast.Ident); ok && a.inClosure {
		a.locals[id.Name] = true
	} else if ok && !a.inClosure {
		a.access(id, true) // initialisation by the enclosing function
	}
}

func (a *analyzer) block(list []ast.Stmt) {
	saved := a.held
	for _, s := range list {
		a.stmt(s)
	}
	a.held = saved
}

func (a *analyzer) stmt(s ast.Stmt) {
	switch x := s.(type) {
	case nil:
	case *ast.ExprStmt:
		if v, m := a.syncCall(x.X); v != "" {
			switch m {
			case "Lock", "RLock":
				a.held = v
			case "Unlock", "RUnlock":
				if a.held == v {
					a.held = ""
				}
			}
			return
		}
		a.expr(x.X, false)
	case *ast.DeferStmt:
		if v, _ := a.syncCall(x.Call); v != "" {
			return // defer mu.Unlock(): the lock stays held to the end of the body; defer wg.Done(): structure
		}
		a.expr(x.Call, false)
	case *ast.GoStmt:
		if x == a.goStmt {
			for _, arg := range x.Call.Args {
				a.expr(arg, false)
			}
			sc, sh, sl, sin := a.cond, a.held, a.locals, a.inClosure
			a.inClosure, a.cond, a.held, a.locals = true, 0, "", map[string]bool{}
			for _, f := range a.closure.Type.Params.List {
				for _, n := range f.Names {
					a.locals[n.Name] = true
				}
			}
			a.block(a.closure.Body.List)
			a.cond, a.held, a.locals, a.inClosure = sc, sh, sl, sin
			return
		}
		a.expr(x.Call, false)
	case *ast.AssignStmt:
		for _, r := range x.Rhs {
			a.expr(r, false)
		}
		for _, l := range x.Lhs {
			if x.Tok == token.DEFINE {
				a.defineLocal(l)
			} else {
				if x.Tok != token.ASSIGN {
					a.expr(l, false)
				}
				a.expr(l, true)
			}
		}
	case *ast.IncDecStmt:
		a.expr(x.X, false)
		a.expr(x.X, true)
	case *ast.DeclStmt:
		if gd, ok := x.Decl.(*ast.GenDecl); ok {
			for _, sp := range gd.Specs {
				if vs, ok := sp.(*ast.ValueSpec); ok {
					for _, v := range vs.Values {
						a.expr(v, false)
					}
					for _, n := range vs.Names {
						a.defineLocal(n)
					}
				}
			}
		}
	case *ast.IfStmt:
		a.stmt(x.Init)
		a.expr(x.Cond, false)
		a.cond++
		a.block(x.Body.List)
		if x.Else != nil {
			a.stmt(x.Else)
		}
		a.cond--
	case *ast.BlockStmt:
		a.block(x.List)
	case *ast.ForStmt:
		a.stmt(x.Init)
		a.expr(x.Cond, false)
		a.stmt(x.Post)
		a.block(x.Body.List)
	case *ast.RangeStmt:
		a.expr(x.X, false)
		if x.Tok == token.DEFINE {
			a.defineLocal(x.Key)
			a.defineLocal(x.Value)
		} else {
			a.expr(x.Key, true)
			a.expr(x.Value, true)
		}
		a.block(x.Body.List)
	case *ast.ReturnStmt:
		for _, r := range x.Results {
			a.expr(r, false)
		}
	case *ast.SwitchStmt:
		a.stmt(x.Init)
		a.expr(x.Tag, false)
		a.cond++
		a.block(x.Body.List)
		a.cond--
	case *ast.TypeSwitchStmt:
		a.stmt(x.Init)
		a.stmt(x.Assign)
		a.cond++
		a.block(x.Body.List)
		a.cond--
	case *ast.CaseClause:
		for _, e := range x.List {
			a.expr(e, false)
		}
		a.block(x.Body)
	case *ast.SelectStmt:
		a.cond++
		a.block(x.Body.List)
		a.cond--
	case *ast.CommClause:
		a.stmt(x.Comm)
		a.block(x.Body)
	case *ast.SendStmt:
		a.expr(x.Chan, false)
		a.expr(x.Value, false)
	case *ast.LabeledStmt:
		a.stmt(x.Stmt)
	}
}

// structure of the WaitGroup protocol around the spawn loop
func (a *analyzer) structure(fd *ast.FuncDecl) {
	if a.goStmt == nil || a.spawnLoop == nil {
		return
	}
	a.out.InLoop = true
	// deferred Done first in the closure
	if len(a.closure.Body.List) > 0 {
		if d, ok := a.closure.Body.List[0].(*ast.DeferStmt); ok {
			if v, m := a.syncCall(d.Call); v != "" && m == "Done" {
				a.out.DoneDeferred = true
			}
		}
	}
	// the block that contains the spawn loop
	var parent []ast.Stmt
	idx := -1
	ast.Inspect(fd.Body, func(n ast.Node) bool {
		var list []ast.Stmt
		switch b := n.(type) {
		case *ast.BlockStmt:
			list = b.List
		case *ast.CaseClause:
			list = b.Body
		}
		for i, s := range list {
			if s == a.spawnLoop {
				parent, idx = list, i
			}
		}
		return true
	})
	if idx < 0 {
		return
	}
	ranged := ""
	var loopBody []ast.Stmt
	switch l := a.spawnLoop.(type) {
	case *ast.RangeStmt:
		ranged = exprStr(a.fset, l.X)
		loopBody = l.Body.List
	case *ast.ForStmt:
		loopBody = l.Body.List
	}
	for _, s := range parent[idx+1:] {
		if es, ok := s.(*ast.ExprStmt); ok {
			if v, m := a.syncCall(es.X); v != "" && m == "Wait" {
				a.waitStmt = s
				a.out.WaitAfter = true
				break
			}
		}
	}
	// Add(len(<ranged>)) before the loop in the same block, or Add(1) in the loop body before the go statement
	for _, s := range parent[:idx] {
		if es, ok := s.(*ast.ExprStmt); ok {
			if v, m := a.syncCall(es.X); v != "" && m == "Add" {
				arg := exprStr(a.fset, es.X.(*ast.CallExpr).Args[0])
				if ranged != "" && arg == "len("+ranged+")" {
					a.out.AddBeforeGo = true
				} else {
					a.out.Notes = append(a.out.Notes, "wg.Add argument "+arg+" is not len("+ranged+")")
				}
			}
		}
	}
	for _, s := range loopBody {
		if s == ast.Stmt(a.goStmt) {
			break
		}
		if es, ok := s.(*ast.ExprStmt); ok {
			if v, m := a.syncCall(es.X); v != "" && m == "Add" {
				if exprStr(a.fset, es.X.(*ast.CallExpr).Args[0]) == "1" {
					a.out.AddBeforeGo = true
				}
			}
		}
	}
}

func analyze(repo string, t target) *Func {
	out := &Func{Name: t.fn, File: t.file, Vars: []*Var{}, Notes: []string{}}
	fset := token.NewFileSet()
	f, err := parser.ParseFile(fset, filepath.Join(repo, t.file), nil, 0)
	if err != nil {
		out.Notes = append(out.Notes, "parse error: "+err.Error())
		return out
	}
	for _, d := range f.Decls {
		fd, ok := d.(*ast.FuncDecl)
		if !ok || fd.Name.Name != t.fn || fd.Body == nil {
			continue
		}
		if t.recv != "" && (fd.Recv == nil || !strings.Contains(exprStr(fset, fd.Recv.List[0].Type), t.recv)) {
			continue
		}
		out.Found = true
		a := &analyzer{fset: fset, out: out, vars: map[string]*Var{}, syncVars: map[string]bool{}, locals: map[string]bool{}}
		a.collect(fd)
		a.structure(fd)
		if a.goStmt != nil {
			a.block(fd.Body.List)
		}
		// keep only the variables the closure captures, in order of declaration position (stable: by name)
		names := []string{}
		for n, v := range a.vars {
			if len(v.Child) > 0 || (v.Sync && a.capturedSync(n)) {
				names = append(names, n)
			}
		}
		sortStrings(names)
		for _, n := range names {
			v := a.vars[n]
			for _, l := range []*[]Acc{&v.Child, &v.Pre, &v.Mid, &v.Post} {
				if *l == nil {
					*l = []Acc{}
				}
			}
			out.Vars = append(out.Vars, v)
		}
	}
	return out
}

// a sync variable is captured when the closure calls a method on it
func (a *analyzer) capturedSync(name string) bool {
	found := false
	if a.closure == nil {
		return false
	}
	ast.Inspect(a.closure.Body, func(n ast.Node) bool {
		if sel, ok := n.(*ast.SelectorExpr); ok {
			if id, ok := sel.X.(*ast.Ident); ok && id.Name == name {
				found = true
			}
		}
		return true
	})
	return found
}

func sortStrings(s []string) {
	for i := 1; i < len(s); i++ {
		for j := i; j > 0 && s[j] < s[j-1]; j-- {
			s[j], s[j-1] = s[j-1], s[j]
		}
	}
}

func main() {
	if len(os.Args) < 2 {
		fmt.Fprintln(os.Stderr, "usage: c20fp <repo>")
		os.Exit(2)
	}
	res := []*Func{}
	for _, t := range targets {
		res = append(res, analyze(os.Args[1], t))
	}
	data, _ := json.Marshal(map[string]any{"funcs": res})
	fmt.Printf("\n@@JSON %s\n", data)
}
