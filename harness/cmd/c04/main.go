// Driver for C04 (singleton cache protocol).
//
// Input (stdin, JSON):  {"scripts":[{"id":..,"ops":[op..]}], "e2e":[scenario..]}
// Output (@@JSON line): {"scripts":[{"id":..,"trace":[ev..],"panic":""}], "e2e":[{...}]}
//
// (a) scripts drive the exported support.DefaultSingletonComponentRegistry() directly.  A script is a
// tree: GetSingletonOrCreateByFactory(name, callback) is called for a "c" op with a callback that
// executes the op's body, so creations nest through real calls.  The driver emits the flat history that
// was actually executed (Begin / End events bracket the callback), with what every call returned.
//
//	{"k":"af","n":N,"f":F,"o":tok|null}   AddSingletonFactory(N, factory F returning tok, or an error)
//	{"k":"rm","n":N}                      RemoveSingleton
//	{"k":"as","n":N,"v":tok}              AddSingleton
//	{"k":"g","n":N,"e":bool}              GetSingleton(N, allowEarlyReference)
//	{"k":"ic","n":N}                      IsSingletonCurrentlyInCreation
//	{"k":"c","n":N,"b":[..],"ok":bool,"v":tok}   GetSingletonOrCreateByFactory, callback = body then (v | error)
//	{"k":"dg", same fields}               like factory.go doGetComponent: "g" with early references; "c" only on a miss
//	"p":true on c/dg                      the callback stops at its first failing step and fails (errors propagate)
//
// tok = [n,k]: the k-th meta made for name n (k = 0 the "original"); distinct pointers, mapped back to
// tokens on return.
//
// (b) e2e scenarios run a real app.Run over components of the static types in types_gen.go (slots c0..c3,
// by-name injection points, lazy or eager, lifecycle callbacks failing on their first K calls) and then
// look names up through Factory.GetComponentByName.  The factory's registry is wrapped by a tracer
// (installed by reflection; no hook in the library needed) so that the registry history of the real start
// is emitted in the same event format.
//
// types_gen.go was produced once by the loop documented at its top (4 slots x 8 masks x lazy/eager).
package main

import (
	"errors"
	"fmt"
	"reflect"
	"unsafe"

	"github.com/go-kid/ioc/app"
	"github.com/go-kid/ioc/component_definition"
	"github.com/go-kid/ioc/container"
	"github.com/go-kid/ioc/container/factory"
	"github.com/go-kid/ioc/container/support"
	"github.com/go-kid/ioc/syslog"
	"verifharness/hx"
)

type Tok = [2]int

type Op struct {
	K  string `json:"k"`
	N  int    `json:"n"`
	F  int    `json:"f"`
	O  *Tok   `json:"o"`
	V  *Tok   `json:"v"`
	E  bool   `json:"e"`
	B  []Op   `json:"b"`
	Ok bool   `json:"ok"`
	P  bool   `json:"p"` // c/dg: like factory.go, the callback stops at the first failing step and fails
}

// Ev is one executed registry operation with what it returned.
type Ev struct {
	Op   string `json:"op"` // af rm as g ic b eo ee
	N    int    `json:"n"`
	F    int    `json:"f,omitempty"`    // af: factory id
	E    bool   `json:"e,omitempty"`    // g: allowEarlyReference
	V    *Tok   `json:"v,omitempty"`    // as, eo: the value passed in / returned by the callback
	Fout *Tok   `json:"fout,omitempty"` // g: what the invoked early factory returned (absent: error or not invoked)
	Ret  *Tok   `json:"ret,omitempty"`  // g, b, eo, ee: returned meta (absent = nil)
	Err  bool   `json:"err,omitempty"`  // g, eo, ee: returned error != nil
	Inv  []int  `json:"inv,omitempty"`  // g: early factories invoked during the call
	B    bool   `json:"b,omitempty"`    // ic result
}

type names struct {
	idx  map[string]int
	list []string
}

func (ns *names) of(s string) int {
	if i, ok := ns.idx[s]; ok {
		return i
	}
	i := len(ns.list)
	ns.idx[s] = i
	ns.list = append(ns.list, s)
	return i
}

// ---- (a) direct scripts ------------------------------------------------------------------------

type dummy struct{ n, k int }

type direct struct {
	reg    container.SingletonComponentRegistry
	metas  map[Tok]*component_definition.Meta
	back   map[*component_definition.Meta]Tok
	trace  []Ev
	curInv *[]int
	curOut **Tok
}

func name(n int) string { return fmt.Sprintf("n%d", n) }

func (d *direct) meta(t Tok) *component_definition.Meta {
	if m, ok := d.metas[t]; ok {
		return m
	}
	m := component_definition.NewMeta(&dummy{t[0], t[1]})
	d.metas[t] = m
	d.back[m] = t
	return m
}

func (d *direct) tok(m *component_definition.Meta) *Tok {
	if m == nil {
		return nil
	}
	if t, ok := d.back[m]; ok {
		return &t
	}
	return &Tok{999, 999} // a pointer the script never supplied
}

var errScript = errors.New("scripted failure")

// exec runs ops in order; with stopOnFail it stops after the first step that returned an error.
func (d *direct) exec(ops []Op, stopOnFail bool) (failed bool) {
	for i := range ops {
		if d.step(&ops[i]) && stopOnFail {
			return true
		}
	}
	return false
}

// step reports whether the call returned an error.
func (d *direct) step(o *Op) (failed bool) {
	switch o.K {
	case "af":
		f, out := o.F, o.O
		d.reg.AddSingletonFactory(name(o.N), container.FuncSingletonFactory(func() (*component_definition.Meta, error) {
			if d.curInv != nil {
				*d.curInv = append(*d.curInv, f)
				*d.curOut = out
			}
			if out == nil {
				return nil, errScript
			}
			return d.meta(*out), nil
		}))
		d.trace = append(d.trace, Ev{Op: "af", N: o.N, F: f})
	case "rm":
		d.reg.RemoveSingleton(name(o.N))
		d.trace = append(d.trace, Ev{Op: "rm", N: o.N})
	case "as":
		d.reg.AddSingleton(name(o.N), d.meta(*o.V))
		d.trace = append(d.trace, Ev{Op: "as", N: o.N, V: o.V})
	case "g":
		_, err := d.get(o.N, o.E)
		return err != nil
	case "ic":
		d.trace = append(d.trace, Ev{Op: "ic", N: o.N, B: d.reg.IsSingletonCurrentlyInCreation(name(o.N))})
	case "c":
		return d.create(o)
	case "dg":
		m, err := d.get(o.N, true)
		if err != nil {
			return true
		}
		if m == nil {
			return d.create(o)
		}
	default:
		panic("bad op " + o.K)
	}
	return false
}

func (d *direct) get(n int, early bool) (*component_definition.Meta, error) {
	var inv []int
	var out *Tok
	saveI, saveO := d.curInv, d.curOut
	d.curInv, d.curOut = &inv, &out
	m, err := d.reg.GetSingleton(name(n), early)
	d.curInv, d.curOut = saveI, saveO
	d.trace = append(d.trace, Ev{Op: "g", N: n, E: early, Fout: out, Ret: d.tok(m), Err: err != nil, Inv: inv})
	return m, err
}

func (d *direct) create(o *Op) (failed bool) {
	called := 0
	cbOk := false
	saveI, saveO := d.curInv, d.curOut
	d.curInv, d.curOut = nil, nil // early factories are attributed to lookups only
	m, err := d.reg.GetSingletonOrCreateByFactory(name(o.N), container.FuncSingletonFactory(func() (*component_definition.Meta, error) {
		called++
		d.trace = append(d.trace, Ev{Op: "b", N: o.N})
		cbOk = !d.exec(o.B, o.P) && o.Ok
		if cbOk {
			return d.meta(*o.V), nil
		}
		return nil, errScript
	}))
	d.curInv, d.curOut = saveI, saveO
	switch {
	case called == 0:
		d.trace = append(d.trace, Ev{Op: "b", N: o.N, Ret: d.tok(m), Err: err != nil})
	case called == 1 && cbOk:
		d.trace = append(d.trace, Ev{Op: "eo", N: o.N, V: o.V, Ret: d.tok(m), Err: err != nil})
	case called == 1:
		d.trace = append(d.trace, Ev{Op: "ee", N: o.N, Ret: d.tok(m), Err: err != nil})
	default:
		panic("creation callback invoked more than once")
	}
	return err != nil
}

type ScriptIn struct {
	ID  int  `json:"id"`
	Ops []Op `json:"ops"`
}

type ScriptOut struct {
	ID    int    `json:"id"`
	Trace []Ev   `json:"trace"`
	Panic string `json:"panic"`
}

func runScript(s ScriptIn) ScriptOut {
	d := &direct{reg: support.DefaultSingletonComponentRegistry(), metas: map[Tok]*component_definition.Meta{},
		back: map[*component_definition.Meta]Tok{}}
	out := ScriptOut{ID: s.ID}
	out.Panic = hx.Guard(func() { d.exec(s.Ops, false) })
	out.Trace = d.trace
	if out.Trace == nil {
		out.Trace = []Ev{}
	}
	return out
}

// ---- (b) end to end ---------------------------------------------------------------------------------

type node interface{ Base() *base }

type depRef struct {
	Slot int
	Val  node
}

type depser interface{ deps() []depRef }

// base carries the scripted lifecycle behaviour and the counters the oracle reads.
type base struct {
	slot             int
	failAPS          int // AfterPropertiesSet fails on its first failAPS calls (-1: always)
	failInit         int
	apsRuns, apsOK   int
	initRuns, initOK int
}

func (b *base) Base() *base    { return b }
func (b *base) Naming() string { return fmt.Sprintf("c%d", b.slot) }
func (b *base) AfterPropertiesSet() error {
	b.apsRuns++
	if b.failAPS < 0 || b.apsRuns <= b.failAPS {
		return fmt.Errorf("c%d AfterPropertiesSet fails (call %d)", b.slot, b.apsRuns)
	}
	b.apsOK++
	return nil
}
func (b *base) Init() error {
	b.initRuns++
	if b.failInit < 0 || b.initRuns <= b.failInit {
		return fmt.Errorf("c%d Init fails (call %d)", b.slot, b.initRuns)
	}
	b.initOK++
	return nil
}

type CompIn struct {
	Slot     int  `json:"slot"`
	Mask     int  `json:"mask"`
	Lazy     bool `json:"lazy"`
	FailAPS  int  `json:"failAPS"`
	FailInit int  `json:"failInit"`
}

type E2EIn struct {
	ID      int      `json:"id"`
	Comps   []CompIn `json:"comps"`
	Lookups []int    `json:"lookups"` // slots looked up, in order, after Run
}

type Lookup struct {
	Slot     int  `json:"slot"`
	Err      bool `json:"err"`
	Got      int  `json:"got"` // slot of the returned component (-1: nil or foreign)
	Same     bool `json:"same"`
	InitRuns int  `json:"initRuns"`
	InitOK   int  `json:"initOK"`
	ApsRuns  int  `json:"apsRuns"`
	ApsOK    int  `json:"apsOK"`
	DepsSet  bool `json:"depsSet"`  // every injection point of the returned component is filled
	HalfDeps int  `json:"halfDeps"` // injection points holding a component whose Init never succeeded
}

type E2EOut struct {
	ID      int      `json:"id"`
	RunErr  bool     `json:"runErr"`
	Traced  bool     `json:"traced"`
	Trace   []Ev     `json:"trace"`
	Names   []string `json:"names"`
	Lookups []Lookup `json:"lookups"`
	Panic   string   `json:"panic"`
}

// tracer wraps the factory's real registry and records every call.
type tracer struct {
	inner  container.SingletonComponentRegistry
	ns     *names
	toks   map[*component_definition.Meta]Tok
	perN   map[int]int
	trace  []Ev
	nextF  int
	curInv *[]int
	curOut **Tok
}

func (t *tracer) tok(m *component_definition.Meta, n int) *Tok {
	if m == nil {
		return nil
	}
	if k, ok := t.toks[m]; ok {
		return &k
	}
	k := Tok{n, t.perN[n]}
	t.perN[n]++
	t.toks[m] = k
	return &k
}

func (t *tracer) AddSingleton(name string, meta *component_definition.Meta) {
	n := t.ns.of(name)
	t.inner.AddSingleton(name, meta)
	t.trace = append(t.trace, Ev{Op: "as", N: n, V: t.tok(meta, n)})
}

func (t *tracer) AddSingletonFactory(name string, method container.SingletonFactory) {
	n := t.ns.of(name)
	f := t.nextF
	t.nextF++
	t.inner.AddSingletonFactory(name, container.FuncSingletonFactory(func() (*component_definition.Meta, error) {
		m, err := method.GetComponent()
		if t.curInv != nil {
			*t.curInv = append(*t.curInv, f)
			if err == nil {
				*t.curOut = t.tok(m, n)
			}
		}
		return m, err
	}))
	t.trace = append(t.trace, Ev{Op: "af", N: n, F: f})
}

func (t *tracer) GetSingleton(name string, early bool) (*component_definition.Meta, error) {
	n := t.ns.of(name)
	var inv []int
	var out *Tok
	saveI, saveO := t.curInv, t.curOut
	t.curInv, t.curOut = &inv, &out
	m, err := t.inner.GetSingleton(name, early)
	t.curInv, t.curOut = saveI, saveO
	t.trace = append(t.trace, Ev{Op: "g", N: n, E: early, Fout: out, Ret: t.tok(m, n), Err: err != nil, Inv: inv})
	return m, err
}

func (t *tracer) RemoveSingleton(name string) {
	n := t.ns.of(name)
	t.inner.RemoveSingleton(name)
	t.trace = append(t.trace, Ev{Op: "rm", N: n})
}

func (t *tracer) GetSingletonOrCreateByFactory(name string, fac container.SingletonFactory) (*component_definition.Meta, error) {
	n := t.ns.of(name)
	called := 0
	var cbTok *Tok
	cbOk := false
	saveI, saveO := t.curInv, t.curOut
	t.curInv, t.curOut = nil, nil
	m, err := t.inner.GetSingletonOrCreateByFactory(name, container.FuncSingletonFactory(func() (*component_definition.Meta, error) {
		called++
		t.trace = append(t.trace, Ev{Op: "b", N: n})
		cm, cerr := fac.GetComponent()
		cbOk = cerr == nil
		if cbOk {
			cbTok = t.tok(cm, n)
		}
		return cm, cerr
	}))
	t.curInv, t.curOut = saveI, saveO
	switch {
	case called == 0:
		t.trace = append(t.trace, Ev{Op: "b", N: n, Ret: t.tok(m, n), Err: err != nil})
	case called == 1 && cbOk:
		t.trace = append(t.trace, Ev{Op: "eo", N: n, V: cbTok, Ret: t.tok(m, n), Err: err != nil})
	case called == 1:
		t.trace = append(t.trace, Ev{Op: "ee", N: n, Ret: t.tok(m, n), Err: err != nil})
	default:
		panic("creation callback invoked more than once")
	}
	return m, err
}

func (t *tracer) IsSingletonCurrentlyInCreation(name string) bool {
	n := t.ns.of(name)
	b := t.inner.IsSingletonCurrentlyInCreation(name)
	t.trace = append(t.trace, Ev{Op: "ic", N: n, B: b})
	return b
}

// installTracer swaps the factory's registry field (found by its type) for a tracing wrapper.
func installTracer(f container.Factory, t *tracer) bool {
	v := reflect.ValueOf(f)
	if v.Kind() != reflect.Pointer || v.Elem().Kind() != reflect.Struct {
		return false
	}
	s := v.Elem()
	want := reflect.TypeOf((*container.SingletonComponentRegistry)(nil)).Elem()
	for i := 0; i < s.NumField(); i++ {
		fld := s.Field(i)
		if fld.Type() != want {
			continue
		}
		w := reflect.NewAt(fld.Type(), unsafe.Pointer(fld.UnsafeAddr())).Elem()
		inner, ok := w.Interface().(container.SingletonComponentRegistry)
		if !ok || inner == nil {
			return false
		}
		t.inner = inner
		w.Set(reflect.ValueOf(container.SingletonComponentRegistry(t)))
		return true
	}
	return false
}

func runE2E(in E2EIn) (out E2EOut) {
	out = E2EOut{ID: in.ID, Trace: []Ev{}, Lookups: []Lookup{}}
	ns := &names{idx: map[string]int{}}
	for i := 0; i < 4; i++ {
		ns.of(fmt.Sprintf("c%d", i))
	}
	t := &tracer{ns: ns, toks: map[*component_definition.Meta]Tok{}, perN: map[int]int{}}
	bases := map[int]*base{}
	byBase := map[*base]int{}
	var comps []any
	for _, c := range in.Comps {
		b := &base{slot: c.Slot, failAPS: c.FailAPS, failInit: c.FailInit}
		bases[c.Slot] = b
		byBase[b] = c.Slot
		comps = append(comps, newComp(c.Slot, c.Mask, c.Lazy, b))
	}
	out.Panic = hx.Guard(func() {
		f := factory.Default()
		out.Traced = installTracer(f, t)
		a := app.NewApp()
		err := a.Run(app.LogLevel(syslog.LvFatal), app.SetConfigLoader(), app.SetFactory(f), app.SetComponents(comps...))
		out.RunErr = err != nil
		for _, slot := range in.Lookups {
			lk := Lookup{Slot: slot, Got: -1}
			got, err := a.GetComponentByName(fmt.Sprintf("c%d", slot))
			lk.Err = err != nil
			if nd, ok := got.(node); ok && nd != nil {
				b := nd.Base()
				if s, ok := byBase[b]; ok {
					lk.Got = s
					lk.Same = s == slot
				}
				lk.InitRuns, lk.InitOK, lk.ApsRuns, lk.ApsOK = b.initRuns, b.initOK, b.apsRuns, b.apsOK
				lk.DepsSet = true
				for _, d := range got.(depser).deps() {
					if d.Val == nil {
						lk.DepsSet = false
					} else if d.Val.Base().initOK == 0 {
						lk.HalfDeps++
					}
				}
			}
			out.Lookups = append(out.Lookups, lk)
		}
	})
	if out.Traced {
		out.Trace = append(out.Trace, t.trace...)
	}
	out.Names = ns.list
	return out
}

func main() {
	var in struct {
		Scripts []ScriptIn `json:"scripts"`
		E2E     []E2EIn    `json:"e2e"`
	}
	hx.ReadInput(&in)
	hx.Quiet()
	so := make([]ScriptOut, 0, len(in.Scripts))
	for _, s := range in.Scripts {
		so = append(so, runScript(s))
	}
	eo := make([]E2EOut, 0, len(in.E2E))
	for _, e := range in.E2E {
		eo = append(eo, runE2E(e))
	}
	hx.WriteOutput(map[string]any{"scripts": so, "e2e": eo})
}
